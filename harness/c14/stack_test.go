package c14

import (
	"context"
	"fmt"
	"math"
	"strings"
	"sync"
	"testing"
	"time"

	"google.golang.org/grpc"
	"google.golang.org/protobuf/encoding/prototext"
	"google.golang.org/protobuf/proto"
	"google.golang.org/protobuf/reflect/protoreflect"
	"google.golang.org/protobuf/reflect/protoregistry"
	"google.golang.org/protobuf/types/known/fieldmaskpb"
	"pgregory.net/rapid"

	"github.com/smart-core-os/sc-api/go/traits"

	"github.com/smart-core-os/sc-golang/pkg/resource"
	"github.com/smart-core-os/sc-golang/pkg/router"
	"github.com/smart-core-os/sc-golang/pkg/trait/hailpb"
	"github.com/smart-core-os/sc-golang/pkg/trait/vendingpb"
	"github.com/smart-core-os/sc-golang/pkg/wrap"
	"github.com/smart-core-os/sc-golang/verifh/lib"
)

// serverEntry is filled by the discovery generator (zz_servers_gen_test.go).
type serverEntry struct {
	Name         string
	TakesOptions bool // the model constructor accepts resource options (clock, ...)
	NewServer    func(opts ...resource.Option) any
	Desc      *grpc.ServiceDesc
	NewRouter func() any
	Wrap      func(server any) any
}

func txt(m proto.Message) string {
	if m == nil {
		return "<nil>"
	}
	s := prototext.MarshalOptions{Multiline: false}.Format(m)
	if len(s) > 300 {
		s = s[:300] + "..."
	}
	return "{" + s + "}"
}

// triple is a Get/Update/Pull trio on one resource type found in a service descriptor.
type triple struct {
	svc              protoreflect.ServiceDescriptor
	get, update, pull protoreflect.MethodDescriptor
	res              protoreflect.MessageDescriptor // the resource message type
	updField         protoreflect.FieldDescriptor   // field of the update request holding the resource
	changesField     protoreflect.FieldDescriptor   // repeated changes field of the pull response
	changeRes        protoreflect.FieldDescriptor   // field of a change holding the resource
	changeName       protoreflect.FieldDescriptor
	keyed            []string // extra request fields the generic driver cannot fill
}

func (t triple) String() string { return fmt.Sprintf("%s[%s/%s/%s]", t.svc.FullName(), t.get.Name(), t.update.Name(), t.pull.Name()) }

func fieldOfType(md protoreflect.MessageDescriptor, typ protoreflect.MessageDescriptor) protoreflect.FieldDescriptor {
	for i := 0; i < md.Fields().Len(); i++ {
		fd := md.Fields().Get(i)
		if fd.Message() != nil && fd.Message().FullName() == typ.FullName() && !fd.IsList() && !fd.IsMap() {
			return fd
		}
	}
	return nil
}

var genericReqFields = map[string]bool{"name": true, "read_mask": true, "update_mask": true, "updates_only": true, "delta": true, "relative": true}

func findTriples(desc *grpc.ServiceDesc) ([]triple, error) {
	d, err := protoregistry.GlobalFiles.FindDescriptorByName(protoreflect.FullName(desc.ServiceName))
	if err != nil {
		return nil, err
	}
	sd := d.(protoreflect.ServiceDescriptor)
	var out []triple
	for i := 0; i < sd.Methods().Len(); i++ {
		g := sd.Methods().Get(i)
		name := string(g.Name())
		if !strings.HasPrefix(name, "Get") || g.IsStreamingServer() || g.IsStreamingClient() {
			continue
		}
		x := strings.TrimPrefix(name, "Get")
		u := sd.Methods().ByName(protoreflect.Name("Update" + x))
		p := sd.Methods().ByName(protoreflect.Name("Pull" + x))
		if p == nil {
			p = sd.Methods().ByName(protoreflect.Name("Pull" + x + "s"))
		}
		if u == nil || p == nil || !p.IsStreamingServer() || u.IsStreamingServer() {
			continue
		}
		res := g.Output()
		if u.Output().FullName() != res.FullName() {
			continue
		}
		t := triple{svc: sd, get: g, update: u, pull: p, res: res}
		t.updField = fieldOfType(u.Input(), res)
		t.changesField = p.Output().Fields().ByName("changes")
		if t.updField == nil || t.changesField == nil || !t.changesField.IsList() || t.changesField.Message() == nil {
			continue
		}
		t.changeRes = fieldOfType(t.changesField.Message(), res)
		t.changeName = t.changesField.Message().Fields().ByName("name")
		if t.changeRes == nil {
			continue
		}
		for _, in := range []protoreflect.MessageDescriptor{g.Input(), u.Input(), p.Input()} {
			for j := 0; j < in.Fields().Len(); j++ {
				fd := in.Fields().Get(j)
				if !genericReqFields[string(fd.Name())] && fd != t.updField && fd.Message() == nil && fd.Kind() != protoreflect.BoolKind {
					t.keyed = append(t.keyed, string(in.Name())+"."+string(fd.Name()))
				}
			}
		}
		out = append(out, t)
	}
	return out, nil
}

func newOf(md protoreflect.MessageDescriptor) proto.Message {
	mt, err := protoregistry.GlobalTypes.FindMessageByName(md.FullName())
	if err != nil {
		panic(err)
	}
	return mt.New().Interface()
}

func setStr(m proto.Message, field, v string) {
	if field == "" {
		return
	}
	if fd := m.ProtoReflect().Descriptor().Fields().ByName(protoreflect.Name(field)); fd != nil && fd.Kind() == protoreflect.StringKind {
		m.ProtoReflect().Set(fd, protoreflect.ValueOfString(v))
	}
}

func setMask(m proto.Message, field string, mask *fieldmaskpb.FieldMask) {
	if mask == nil {
		return
	}
	if fd := m.ProtoReflect().Descriptor().Fields().ByName(protoreflect.Name(field)); fd != nil && fd.Message() != nil {
		m.ProtoReflect().Set(fd, protoreflect.ValueOfMessage(mask.ProtoReflect()))
	}
}

// stripInexact clears float, Timestamp and Duration fields (recursively) so that what is left must match exactly.
func stripInexact(m protoreflect.Message, floats *[]float64) {
	m.Range(func(fd protoreflect.FieldDescriptor, v protoreflect.Value) bool {
		switch {
		case fd.IsMap():
			if fd.MapValue().Message() != nil {
				v.Map().Range(func(_ protoreflect.MapKey, mv protoreflect.Value) bool { stripInexact(mv.Message(), floats); return true })
			} else if k := fd.MapValue().Kind(); k == protoreflect.FloatKind || k == protoreflect.DoubleKind {
				m.Clear(fd)
			}
		case fd.IsList():
			if fd.Message() != nil {
				for i := 0; i < v.List().Len(); i++ {
					stripInexact(v.List().Get(i).Message(), floats)
				}
			} else if fd.Kind() == protoreflect.FloatKind || fd.Kind() == protoreflect.DoubleKind {
				m.Clear(fd)
			}
		case fd.Message() != nil:
			switch fd.Message().FullName() {
			case "google.protobuf.Timestamp", "google.protobuf.Duration":
				sec := v.Message().Get(fd.Message().Fields().ByName("seconds")).Int()
				*floats = append(*floats, float64(sec)/2) // differences under 2s count as within tolerance
				m.Clear(fd)
			default:
				stripInexact(v.Message(), floats)
			}
		case fd.Kind() == protoreflect.FloatKind || fd.Kind() == protoreflect.DoubleKind:
			*floats = append(*floats, v.Float())
			m.Clear(fd)
		}
		return true
	})
}

// significantDiff: a and b differ by more than any equivalence configured in the tree could hide
// (a non-float field differs, or a float by >= 1, or a time by >= 2s).
func significantDiff(a, b proto.Message) bool {
	if a == nil || b == nil {
		return a != b
	}
	ca, cb := proto.Clone(a), proto.Clone(b)
	var fa, fb []float64
	stripInexact(ca.ProtoReflect(), &fa)
	stripInexact(cb.ProtoReflect(), &fb)
	if !proto.Equal(ca, cb) || len(fa) != len(fb) {
		return true
	}
	for i := range fa {
		if math.Abs(fa[i]-fb[i]) >= 1 || math.IsNaN(fa[i]) != math.IsNaN(fb[i]) {
			return true
		}
	}
	return false
}

type pullStream struct {
	name        string
	mask        *fieldmaskpb.FieldMask
	updatesOnly bool
	unsynced    bool // updates-only and not yet known to be subscribed
	cancel      context.CancelFunc
	mu          sync.Mutex
	msgs        []proto.Message // resource values received (each change)
	names       []string
	err         error
	arrived     chan struct{}
	// allowed: values the stream may deliver next, in order (projected responses since the last delivered one)
	allowed []proto.Message
	last    proto.Message
	checked int
	composite bool
}

var mgen = lib.GenOpts{FieldProb: -1, Target: 3, MaxDepth: 2, MaxElems: 2}

const deviceName = "dev/under-test"

func runTriple(t *rapid.T, e serverEntry, tr triple) string {
	// handlers of an earlier case (its streams are cancelled, but a handler may not even have started yet under load)
	// must be gone, or their late subscriptions would be mistaken for this case's
	observable := lib.WaitGoroutines(0, 5*time.Second, "pkg/wrap.(*wrapper).NewStream.func", pullGoroutines[0], pullGoroutines[1]) == 0
	// the model's clock: the wall clock, or one that is stepped forwards and backwards between readings
	var modelOpts []resource.Option
	clockDesc := "wall clock"
	if e.TakesOptions && rapid.IntRange(0, 2).Draw(t, "jumpClock") == 0 {
		jc := lib.DrawJumpClock(t, "clock")
		modelOpts = append(modelOpts, resource.WithClock(jc))
		clockDesc = fmt.Sprintf("clock stepping by %v", jc.Offsets)
	} else if e.TakesOptions && rapid.IntRange(0, 4).Draw(t, "stoppedClock") == 2 {
		// a simulated clock that has not been started: every change happens at the zero time, which is a time like any other
		modelOpts = append(modelOpts, resource.WithClock(stoppedClock{}))
		clockDesc = "clock standing at the zero time"
	}
	// keyed resources: the model may be configured to treat ids case-insensitively (an id interceptor); clients then
	// name the item in whatever case they like, in every RPC
	_, keyedTriple := keyAdapters[string(tr.svc.FullName())]
	keyedTriple = keyedTriple && len(tr.keyed) > 0
	foldIDs := keyedTriple && e.TakesOptions && rapid.IntRange(0, 2).Draw(t, "caseInsensitiveIds") == 1
	if foldIDs {
		modelOpts = append(modelOpts, resource.WithIDInterceptor(strings.ToLower))
	}
	srv := e.NewServer(modelOpts...)
	r := e.NewRouter()
	r.(router.Router).Add(deviceName, e.Wrap(srv))
	conn := wrap.ServerToClient(*e.Desc, r)
	var keyReq, keyRes, keyVal string
	if ad, ok := keyAdapters[string(tr.svc.FullName())]; ok && len(tr.keyed) > 0 {
		keyReq, keyRes, keyVal = ad.reqField, ad.resField, ad.create(srv)
		if foldIDs {
			keyVal = strings.ToUpper(keyVal)
			lib.Ev.Class("keyed resource with an id interceptor, item named in another case")
		}
	}
	ctx, cancelAll := context.WithCancel(context.Background())
	defer cancelAll()
	method := func(m protoreflect.MethodDescriptor) string { return fmt.Sprintf("/%s/%s", tr.svc.FullName(), m.Name()) }
	hist := []string{"model uses the " + clockDesc}
	if clockDesc != "wall clock" {
		lib.Ev.Class("model clock steps forwards and backwards")
	}
	fail := func(format string, a ...any) {
		t.Fatalf("%s %v: %s\nhistory:\n  %s", e.Name, tr, fmt.Sprintf(format, a...), strings.Join(hist, "\n  "))
	}
	get := func(mask *fieldmaskpb.FieldMask) proto.Message {
		req := newOf(tr.get.Input())
		setStr(req, "name", deviceName)
		setStr(req, keyReq, keyVal)
		setMask(req, "read_mask", mask)
		resp := newOf(tr.get.Output())
		if err := conn.Invoke(ctx, method(tr.get), req, resp); err != nil {
			fail("%s failed: %v", tr.get.Name(), err)
		}
		return resp
	}
	var streams []*pullStream
	openPull := func(mask *fieldmaskpb.FieldMask, updatesOnly bool) {
		sctx, cancel := context.WithCancel(ctx)
		ps := &pullStream{name: deviceName, mask: mask, updatesOnly: updatesOnly, cancel: cancel, arrived: make(chan struct{}, 1024), composite: compositeServices[string(tr.svc.FullName())]}
		req := newOf(tr.pull.Input())
		setStr(req, "name", deviceName)
		setStr(req, keyReq, keyVal)
		setMask(req, "read_mask", mask)
		if fd := req.ProtoReflect().Descriptor().Fields().ByName("updates_only"); fd != nil && updatesOnly {
			req.ProtoReflect().Set(fd, protoreflect.ValueOfBool(true))
		}
		// an updates-only stream gives no sign of having subscribed: watch for the resource's forwarding goroutine, which
		// is started right after the listener is registered
		var pullersBefore map[string]bool
		if updatesOnly {
			pullersBefore = lib.GoroutineIDs(pullGoroutines...)
		}
		cs, err := conn.NewStream(sctx, &grpc.StreamDesc{ServerStreams: true}, method(tr.pull))
		if err != nil {
			fail("opening %s: %v", tr.pull.Name(), err)
		}
		if err := cs.SendMsg(req); err != nil {
			fail("sending %s request: %v", tr.pull.Name(), err)
		}
		_ = cs.CloseSend()
		go func() {
			for {
				resp := newOf(tr.pull.Output())
				if err := cs.RecvMsg(resp); err != nil {
					ps.mu.Lock()
					ps.err = err
					ps.mu.Unlock()
					return
				}
				changes := resp.ProtoReflect().Get(tr.changesField).List()
				ps.mu.Lock()
				for i := 0; i < changes.Len(); i++ {
					ch := changes.Get(i).Message()
					ps.msgs = append(ps.msgs, proto.Clone(ch.Get(tr.changeRes).Message().Interface()))
					nm := ""
					if tr.changeName != nil {
						nm = ch.Get(tr.changeName).String()
					}
					ps.names = append(ps.names, nm)
				}
				ps.mu.Unlock()
				select {
				case ps.arrived <- struct{}{}:
				default:
				}
			}
		}()
		if updatesOnly && (!observable || !lib.WaitNewGoroutine(pullersBefore, 5*time.Second, pullGoroutines...)) {
			observable = false // a late subscription of this stream must not be taken for a later stream's
			// not observed: deliveries are still checked, but none is demanded before the stream has shown it is subscribed
			ps.unsynced = true
			lib.Ev.Class("updates-only stream: subscription not observed (delivery not demanded until its first message)")
		}
		cur := get(nil)
		emptyKnown := false
		if !updatesOnly && proto.Size(cur) == 0 && strings.Contains(e.Name, "openclosepb") && lib.IsKnown("C14:openclose:no-initial-message-when-empty") {
			emptyKnown = true
		}
		if !updatesOnly && !emptyKnown {
			// a new Pull starts with the current value
			want := lib.RefProject(cur, mask)
			if err := awaitNext(ps, []proto.Message{want}, true, mask); err != nil {
				fail("new %s stream (mask %s): %v", tr.pull.Name(), lib.MaskString(mask), err)
			}
		}
		ps.last = lib.RefProject(cur, mask)
		streams = append(streams, ps)
		hist = append(hist, fmt.Sprintf("open %s mask=%s updatesOnly=%v", tr.pull.Name(), lib.MaskString(mask), updatesOnly))
	}
	updates, masked := 0, 0
	n := rapid.IntRange(1, 12).Draw(t, "steps")
	for i := 0; i < n; i++ {
		switch rapid.SampledFrom([]string{"update", "update", "update", "get", "pull", "close"}).Draw(t, "op") {
		case "close":
			if len(streams) == 0 {
				continue
			}
			k := rapid.IntRange(0, len(streams)-1).Draw(t, "closeWhich")
			streams[k].cancel()
			streams = append(streams[:k], streams[k+1:]...)
			hist = append(hist, fmt.Sprintf("close stream %d", k))
		case "get":
			full := get(nil)
			mask, _ := lib.DrawMask(t, "readMask", tr.res, full)
			got := get(mask)
			want := lib.RefProject(full, mask)
			g := lib.DropEmptyOnPaths(proto.Clone(got), mask)
			w := lib.DropEmptyOnPaths(proto.Clone(want), mask)
			if !proto.Equal(g, w) {
				fail("%s with read mask %s returned %s, the projection of the full value %s is %s", tr.get.Name(), lib.MaskString(mask), txt(got), txt(full), txt(want))
			}
			if mask != nil {
				masked++
			}
			hist = append(hist, fmt.Sprintf("get mask=%s", lib.MaskString(mask)))
			// one coherent register: reading it, with whatever mask, does not change what the next Get returns
			if again := get(nil); !proto.Equal(again, full) {
				fail("%s returned %s, then a %s with read mask %s was made, and now %s returns %s (no Update in between)", tr.get.Name(), txt(full), tr.get.Name(), lib.MaskString(mask), tr.get.Name(), txt(again))
			}
			if rapid.IntRange(0, 2).Draw(t, "clientEditsWhatItRead") == 1 {
				// ... and neither does a client that edits the responses it was given
				keep := proto.Clone(full)
				scribble(full.ProtoReflect())
				scribble(got.ProtoReflect())
				if again := get(nil); !proto.Equal(again, keep) {
					fail("%s returned %s; the client then edited the responses it had received, and now %s returns %s (no Update in between)", tr.get.Name(), txt(keep), tr.get.Name(), txt(again))
				}
				lib.Ev.Class("client edits a response it received")
			}
		case "pull":
			if len(streams) >= 2 {
				continue
			}
			var mask *fieldmaskpb.FieldMask
			if rapid.IntRange(0, 2).Draw(t, "pullMasked") == 0 {
				mask, _ = lib.DrawMask(t, "pullMask", tr.res, get(nil))
				if mask != nil && len(mask.Paths) == 0 {
					mask = nil
				}
			}
			openPull(mask, rapid.IntRange(0, 3).Draw(t, "updatesOnly") == 0)
		case "update":
			before := get(nil)
			val := lib.GenMessage(t, "value", newOf(tr.res), mgen)
			setStr(val, keyRes, keyVal)
			req := newOf(tr.update.Input())
			setStr(req, "name", deviceName)
			req.ProtoReflect().Set(tr.updField, protoreflect.ValueOfMessage(val.ProtoReflect()))
			var um *fieldmaskpb.FieldMask
			switch rapid.IntRange(0, 5).Draw(t, "updateMaskKind") {
			case 0:
				um, _ = lib.DrawMask(t, "updateMask", tr.res, val)
			case 1:
				um, _, _ = lib.DrawCorruptMask(t, "badUpdateMask", tr.res, val)
			}
			setMask(req, "update_mask", um)
			// what else the request offers (a "relative"/"delta" flag, a relative adjustment message, ...): part of the API
			extras := ""
			rfs := req.ProtoReflect().Descriptor().Fields()
			for fi := 0; fi < rfs.Len(); fi++ {
				fd := rfs.Get(fi)
				if fd == tr.updField || fd.Name() == "name" || fd.Name() == "update_mask" || string(fd.Name()) == keyReq || fd.IsList() || fd.IsMap() {
					continue
				}
				switch {
				case fd.Kind() == protoreflect.BoolKind:
					if rapid.IntRange(0, 2).Draw(t, "extraBool."+string(fd.Name())) == 1 {
						req.ProtoReflect().Set(fd, protoreflect.ValueOfBool(true))
						extras += " " + string(fd.Name()) + "=true"
					}
				case fd.Message() != nil && fd.Message().FullName() != "google.protobuf.FieldMask":
					if rapid.IntRange(0, 3).Draw(t, "extraMsg."+string(fd.Name())) == 1 {
						em := lib.GenMessage(t, "extra."+string(fd.Name()), newOf(fd.Message()), mgen)
						req.ProtoReflect().Set(fd, protoreflect.ValueOfMessage(em.ProtoReflect()))
						extras += " " + string(fd.Name()) + "=" + txt(em)
					}
				}
			}
			if extras != "" {
				lib.Ev.Class("update request with further fields set (relative / delta / ...)")
			}
			resp := newOf(tr.update.Output())
			err := conn.Invoke(ctx, method(tr.update), req, resp)
			after := get(nil)
			if err != nil {
				hist = append(hist, fmt.Sprintf("update %s mask=%s%s => %v", txt(val), lib.MaskString(um), extras, err))
				if !proto.Equal(before, after) {
					fail("an %s rejected with %v changed what %s returns: %s -> %s", tr.update.Name(), err, tr.get.Name(), txt(before), txt(after))
				}
				continue
			}
			updates++
			hist = append(hist, fmt.Sprintf("update %s mask=%s%s => ok %s", txt(val), lib.MaskString(um), extras, txt(resp)))
			if !proto.Equal(resp, after) {
				fail("%s returned %s but the next %s returns %s", tr.update.Name(), txt(resp), tr.get.Name(), txt(after))
			}
			for si, ps := range streams {
				p := lib.RefProject(resp, ps.mask)
				ps.allowed = append(ps.allowed, p)
				// presence of empty messages on mask paths is not compared (as in C05/C06), so it cannot demand a delivery either
				must := significantDiff(lib.DropEmptyOnPaths(proto.Clone(p), ps.mask), lib.DropEmptyOnPaths(proto.Clone(ps.last), ps.mask)) && !ps.unsynced
				if err := awaitNext(ps, ps.allowed, must, ps.mask); err != nil {
					fail("stream %d (mask %s updatesOnly=%v) after a successful update: %v", si, lib.MaskString(ps.mask), ps.updatesOnly, err)
				}
				if must {
					ps.last, ps.allowed = p, nil
				}
				if ps.unsynced {
					ps.mu.Lock()
					if len(ps.msgs) > 0 {
						ps.unsynced = false
					}
					ps.mu.Unlock()
				}
			}
			if rapid.IntRange(0, 2).Draw(t, "clientEditsResponse") == 1 {
				// the response is the caller's: editing it is not an update
				keep := proto.Clone(after)
				scribble(resp.ProtoReflect())
				scribble(after.ProtoReflect())
				if again := get(nil); !proto.Equal(again, keep) {
					fail("%s returned %s; the client then edited that response, and now %s returns %s (no further Update)", tr.update.Name(), txt(keep), tr.get.Name(), txt(again))
				}
				lib.Ev.Class("client edits a response it received")
			}
		}
	}
	for si, ps := range streams {
		ps.mu.Lock()
		for _, nm := range ps.names {
			if tr.changeName != nil && nm != deviceName {
				ps.mu.Unlock()
				fail("stream %d delivered a change named %q, the Pull request named %q", si, nm, deviceName)
			}
		}
		ps.mu.Unlock()
		ps.cancel()
	}
	if updates >= 2 && len(streams) >= 1 && masked >= 1 {
		return fmt.Sprintf("%s|%v|%s", e.Name, tr, strings.Join(hist, ";"))
	}
	return ""
}

// awaitNext consumes what has arrived on the stream. Every message must equal one of the allowed values, in order.
// When must is set it blocks (bounded) until the last allowed value has been delivered.
// compositeServices update their resource in several steps (one collection write per part): their streams may show
// intermediate aggregates between two responses, so only "the response's value arrives" is demanded of them.
// pullGoroutines: the forwarding goroutines every resource subscription starts once its listener is registered.
var pullGoroutines = []string{"resource.(*Value).Pull.func", "resource.(*Collection).Pull.func"}

var compositeServices = map[string]bool{"smartcore.traits.OpenCloseApi": true}

func awaitNext(ps *pullStream, allowed []proto.Message, must bool, mask *fieldmaskpb.FieldMask) error {
	deadline := time.After(10 * time.Second)
	pos := 0
	for {
		ps.mu.Lock()
		msgs := ps.msgs[ps.checked:]
		serr := ps.err
		for _, m := range msgs {
			found := -1
			for k := pos; k < len(allowed); k++ {
				a := lib.DropEmptyOnPaths(proto.Clone(allowed[k]), mask)
				g := lib.DropEmptyOnPaths(proto.Clone(m), mask)
				if proto.Equal(a, g) {
					found = k
					break
				}
			}
			if found < 0 && ps.composite {
				ps.checked++
				continue
			}
			if found < 0 && ps.last != nil && proto.Equal(lib.DropEmptyOnPaths(proto.Clone(m), mask), lib.DropEmptyOnPaths(proto.Clone(ps.last), mask)) {
				// the value it delivered last, again (an update that changed nothing under this mask, whose entry
				// in the allowed list was already taken to be delivered)
				ps.checked++
				continue
			}
			if found < 0 {
				ps.mu.Unlock()
				return fmt.Errorf("the stream delivered %s which is not one of the values it may deliver now (stale, invented or out of order); allowed: %v", txt(m), txtAll(allowed[pos:]))
			}
			pos = found + 1
			ps.checked++
			ps.last = allowed[found]
		}
		ps.mu.Unlock()
		// values that differ only in the presence of empty messages on mask paths compare equal here, so a delivered
		// message may have been matched against an earlier, equal-looking allowed value: the tail counts as delivered
		// when every remaining allowed value looks like the last delivered one
		if must && pos > 0 && pos < len(allowed) {
			lastDelivered := lib.DropEmptyOnPaths(proto.Clone(allowed[pos-1]), mask)
			tailSame := true
			for k := pos; k < len(allowed); k++ {
				if !proto.Equal(lib.DropEmptyOnPaths(proto.Clone(allowed[k]), mask), lastDelivered) {
					tailSame = false
					break
				}
			}
			if tailSame {
				pos = len(allowed)
			}
		}
		if !must || pos == len(allowed) {
			if pos > 0 {
				ps.allowed = append([]proto.Message(nil), allowed[pos:]...)
			}
			return nil
		}
		if serr != nil {
			return fmt.Errorf("the stream ended with %v before delivering %s", serr, txt(allowed[len(allowed)-1]))
		}
		select {
		case <-ps.arrived:
		case <-deadline:
			return fmt.Errorf("%s was not delivered within 10s although the reader keeps up", txt(allowed[len(allowed)-1]))
		}
	}
}

// scribble is a client editing a message it received (responses belong to whoever made the call): every nested
// message, list and map is emptied in place, then the top level fields are cleared.
func scribble(m protoreflect.Message) {
	if !m.IsValid() {
		return
	}
	m.Range(func(fd protoreflect.FieldDescriptor, v protoreflect.Value) bool {
		switch {
		case fd.IsList():
			l := v.List()
			if fd.Message() != nil {
				for i := 0; i < l.Len(); i++ {
					scribble(l.Get(i).Message())
				}
			}
			l.Truncate(0)
		case fd.IsMap():
			mp := v.Map()
			var keys []protoreflect.MapKey
			mp.Range(func(k protoreflect.MapKey, mv protoreflect.Value) bool {
				if fd.MapValue().Message() != nil {
					scribble(mv.Message())
				}
				keys = append(keys, k)
				return true
			})
			for _, k := range keys {
				mp.Clear(k)
			}
		case fd.Message() != nil:
			scribble(v.Message())
		default:
			m.Clear(fd)
		}
		return true
	})
}

// stoppedClock always reads the zero time.
type stoppedClock struct{}

func (stoppedClock) Now() time.Time { return time.Time{} }

func txtAll(ms []proto.Message) []string {
	var out []string
	for _, m := range ms {
		out = append(out, txt(m))
	}
	return out
}

// keyAdapter prepares a keyed resource: it creates one item in the server's model and says which request field and
// which resource field carry its key.
type keyAdapter struct {
	reqField, resField string
	create             func(server any) string
}

var keyAdapters = map[string]keyAdapter{
	"smartcore.traits.HailApi": {reqField: "id", resField: "id", create: func(server any) string {
		m := server.(interface{ Unwrap() any }).Unwrap().(*hailpb.Model)
		h, err := m.CreateHail(&traits.Hail{State: traits.Hail_CALLED})
		if err != nil {
			panic(err)
		}
		return h.Id
	}},
	"smartcore.traits.VendingApi": {reqField: "consumable", resField: "consumable", create: func(server any) string {
		m := server.(interface{ Unwrap() any }).Unwrap().(*vendingpb.Model)
		if _, err := m.CreateStock(&traits.Consumable_Stock{Consumable: "cola"}); err != nil {
			panic(err)
		}
		return "cola"
	}},
}

type tripleRef struct {
	entry serverEntry
	tr    triple
}

var (
	triplesOnce sync.Once
	allTriples  []tripleRef
	skipped     []string
)

func loadTriples(t interface{ Fatalf(string, ...any) }) {
	triplesOnce.Do(func() {
		for _, e := range discoveredServers {
			trs, err := findTriples(e.Desc)
			if err != nil {
				t.Fatalf("%s: %v", e.Name, err)
			}
			for _, tr := range trs {
				if len(tr.keyed) > 0 {
					if _, ok := keyAdapters[string(tr.svc.FullName())]; !ok {
						skipped = append(skipped, fmt.Sprintf("%s %v (keyed by %v)", e.Name, tr, tr.keyed))
						continue
					}
				}
				allTriples = append(allTriples, tripleRef{e, tr})
			}
		}
	})
}

// TestTripleSweep: every discovered (server, Get/Update/Pull triple), a few generated histories each.
func TestTripleSweep(t *testing.T) {
	loadTriples(t)
	if len(allTriples) < 8 {
		t.Fatalf("only %d Get/Update/Pull triples discovered", len(allTriples))
	}
	shard, nshards := lib.Shard()
	for i, ref := range allTriples {
		if i%nshards != shard {
			continue
		}
		ref := ref
		rapid.Check(t, func(rt *rapid.T) {
			nt := runTriple(rt, ref.entry, ref.tr)
			lib.Ev.Case(nt, func() any { return nt })
		})
		lib.Ev.Class("triple:" + ref.entry.Name + " " + string(ref.tr.get.Name()))
	}
	for _, s := range skipped {
		lib.Ev.Note("not driven generically: %s", s)
	}
	lib.Ev.Exhaustive(fmt.Sprintf("all %d discovered Get/Update/Pull triples", len(allTriples)), true)
}
