package c14

import (
	"context"
	"fmt"
	"strings"
	"sync"
	"sync/atomic"
	"testing"
	"time"

	"pgregory.net/rapid"

	"github.com/smart-core-os/sc-api/go/traits"

	"github.com/smart-core-os/sc-golang/pkg/router"
	"github.com/smart-core-os/sc-golang/pkg/wrap"
	"github.com/smart-core-os/sc-golang/verifh/lib"
)

// TestPullStreamChurn: through wrapper -> router -> wrapper -> server (the light model server), one client keeps
// updating the brightness (level 0, 1, 2, ...) while other clients keep opening and cancelling Pull streams. A stream that
// had received its initial value before update number b began is open for every update from b on; before it is cancelled
// it must have been brought up to (at least) the value of the last update that has returned (streams may coalesce, so
// only the latest counts).
func TestPullStreamChurn(t *testing.T) {
	var entry *serverEntry
	for i := range discoveredServers {
		if strings.HasPrefix(discoveredServers[i].Name, "lightpb.ModelServer") && strings.HasSuffix(discoveredServers[i].Name, "LightApi") {
			entry = &discoveredServers[i]
		}
	}
	if entry == nil {
		t.Fatal("the light model server was not discovered")
	}
	rapid.Check(t, func(t *rapid.T) {
		srv := entry.NewServer()
		r := entry.NewRouter()
		r.(router.Router).Add(deviceName, entry.Wrap(srv))
		client := traits.NewLightApiClient(wrap.ServerToClient(*entry.Desc, r))
		nupdates := rapid.IntRange(60, 400).Draw(t, "updates")
		nchurn := rapid.IntRange(2, 5).Draw(t, "churners")
		lifetimes := rapid.SliceOfN(rapid.IntRange(0, 20), 6, 6).Draw(t, "lifetimes")
		var begun, ended atomic.Int64
		stop := make(chan struct{})
		var mu sync.Mutex
		problem := ""
		report := func(format string, a ...any) {
			mu.Lock()
			if problem == "" {
				problem = fmt.Sprintf(format, a...)
			}
			mu.Unlock()
		}
		var joins atomic.Int64
		var wg sync.WaitGroup
		for ci := 0; ci < nchurn; ci++ {
			ci := ci
			wg.Add(1)
			go func() {
				defer wg.Done()
				for round := 0; ; round++ {
					select {
					case <-stop:
						return
					default:
					}
					ctx, cancel := context.WithCancel(context.Background())
					st, err := client.PullBrightness(ctx, &traits.PullBrightnessRequest{Name: deviceName})
					if err != nil {
						cancel()
						report("PullBrightness: %v", err)
						return
					}
					var last atomic.Int64 // level of the latest message
					var count atomic.Int64
					first := make(chan struct{})
					recvDone := make(chan struct{})
					go func() {
						defer close(recvDone)
						for {
							m, err := st.Recv()
							if err != nil {
								return
							}
							for _, c := range m.Changes {
								last.Store(int64(c.Brightness.GetLevelPercent()))
								if count.Add(1) == 1 {
									close(first)
								}
							}
						}
					}()
					select {
					case <-first: // the stream is open: it has its initial value
					case <-time.After(10 * time.Second):
						cancel()
						report("churner %d round %d: a new Pull did not start with the current value within 10s", ci, round)
						return
					}
					b := begun.Load()
					joins.Add(1)
					stay := int64(lifetimes[(ci+round)%len(lifetimes)])
				waiting:
					for ended.Load() < b+stay {
						select {
						case <-stop:
							break waiting
						default:
							time.Sleep(20 * time.Microsecond)
						}
					}
					if e := ended.Load(); e > b {
						// updates b..e-1 happened with this stream open: it must get to level e-1 or beyond
						deadline := time.Now().Add(5 * time.Second)
						for last.Load() < e-1 {
							if time.Now().After(deadline) {
								report("churner %d round %d: the stream was open before update %d began; update %d (level %d) has returned, but 5s later the stream's latest level is still %d (%d messages received)", ci, round, b, e-1, e-1, last.Load(), count.Load())
								break
							}
							time.Sleep(50 * time.Microsecond)
						}
					}
					cancel()
					select {
					case <-recvDone:
					case <-time.After(10 * time.Second):
						report("churner %d round %d: stream did not end within 10s of its cancel", ci, round)
						return
					}
				}
			}()
		}
		for k := int64(0); k < int64(nupdates); k++ {
			begun.Add(1)
			_, err := client.UpdateBrightness(context.Background(), &traits.UpdateBrightnessRequest{Name: deviceName, Brightness: &traits.Brightness{LevelPercent: float32(k)}})
			ended.Add(1)
			if err != nil {
				report("update %d failed: %v", k, err)
				break
			}
			mu.Lock()
			failed := problem != ""
			mu.Unlock()
			if failed {
				break
			}
		}
		close(stop)
		wg.Wait()
		if problem != "" {
			t.Fatalf("%s\n(%d updates, %d churning clients, %d streams opened)", problem, nupdates, nchurn, joins.Load())
		}
		lib.Ev.Class("stream churn")
		lib.Ev.ClassN("stream churn: streams opened", joins.Load())
		lib.Ev.Case(fmt.Sprintf("churn|%d|%d|%v", nupdates, nchurn, lifetimes), func() any {
			return fmt.Sprintf("light through the full stack: %d updates, %d churning clients, %d streams opened", nupdates, nchurn, joins.Load())
		})
	})
}
