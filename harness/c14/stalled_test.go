package c14

import (
	"context"
	"fmt"
	"strings"
	"testing"
	"time"

	"google.golang.org/grpc"
	"google.golang.org/protobuf/proto"
	"google.golang.org/protobuf/reflect/protoreflect"
	"pgregory.net/rapid"

	"github.com/smart-core-os/sc-golang/pkg/router"
	"github.com/smart-core-os/sc-golang/pkg/wrap"
	"github.com/smart-core-os/sc-golang/verifh/lib"
)

// runStalled: one open Pull stream whose client never reads, then a run of updates. The property does not promise that
// these updates succeed - but one that is rejected with an error status must leave Get unchanged, and one that succeeds
// must be what Get returns next, stalled reader or not.
func runStalled(t *rapid.T, e serverEntry, tr triple) string {
	srv := e.NewServer()
	r := e.NewRouter()
	r.(router.Router).Add(deviceName, e.Wrap(srv))
	conn := wrap.ServerToClient(*e.Desc, r)
	var keyReq, keyRes, keyVal string
	if ad, ok := keyAdapters[string(tr.svc.FullName())]; ok && len(tr.keyed) > 0 {
		keyReq, keyRes, keyVal = ad.reqField, ad.resField, ad.create(srv)
	}
	ctx, cancelAll := context.WithCancel(context.Background())
	defer cancelAll()
	method := func(m protoreflect.MethodDescriptor) string { return fmt.Sprintf("/%s/%s", tr.svc.FullName(), m.Name()) }
	var hist []string
	get := func() proto.Message {
		req := newOf(tr.get.Input())
		setStr(req, "name", deviceName)
		setStr(req, keyReq, keyVal)
		resp := newOf(tr.get.Output())
		if err := conn.Invoke(ctx, method(tr.get), req, resp); err != nil {
			t.Fatalf("%s %v: %s failed: %v", e.Name, tr, tr.get.Name(), err)
		}
		return resp
	}
	// the stalled stream: opened, request sent, never read
	req := newOf(tr.pull.Input())
	setStr(req, "name", deviceName)
	setStr(req, keyReq, keyVal)
	cs, err := conn.NewStream(ctx, &grpc.StreamDesc{ServerStreams: true}, method(tr.pull))
	if err != nil {
		t.Fatalf("%s %v: opening %s: %v", e.Name, tr, tr.pull.Name(), err)
	}
	if err := cs.SendMsg(req); err != nil {
		t.Fatalf("%s %v: sending the %s request: %v", e.Name, tr, tr.pull.Name(), err)
	}
	_ = cs.CloseSend()
	// give the handler the chance to subscribe (not required for the checks below to be sound)
	lib.WaitNewGoroutine(map[string]bool{}, 200*time.Millisecond, pullGoroutines...)
	n := rapid.IntRange(5, 8).Draw(t, "updates")
	ok, rejected := 0, 0
	for i := 0; i < n; i++ {
		before := get()
		val := lib.GenMessage(t, fmt.Sprintf("value%d", i), newOf(tr.res), mgen)
		setStr(val, keyRes, keyVal)
		ureq := newOf(tr.update.Input())
		setStr(ureq, "name", deviceName)
		ureq.ProtoReflect().Set(tr.updField, protoreflect.ValueOfMessage(val.ProtoReflect()))
		resp := newOf(tr.update.Output())
		t0 := time.Now()
		err := conn.Invoke(ctx, method(tr.update), ureq, resp)
		after := get()
		if err != nil {
			rejected++
			hist = append(hist, fmt.Sprintf("update %s => %v after %v", txt(val), err, time.Since(t0).Round(time.Millisecond)))
			if !proto.Equal(before, after) {
				t.Fatalf("%s %v: with a Pull stream open whose client is not reading, an %s rejected with %q (after %v) changed what %s returns: %s -> %s\nhistory:\n  %s",
					e.Name, tr, tr.update.Name(), err, time.Since(t0).Round(time.Millisecond), tr.get.Name(), txt(before), txt(after), strings.Join(hist, "\n  "))
			}
			continue
		}
		ok++
		hist = append(hist, fmt.Sprintf("update %s => ok %s", txt(val), txt(resp)))
		if !proto.Equal(resp, after) {
			t.Fatalf("%s %v: %s returned %s but the next %s returns %s (a Pull stream is open whose client is not reading)\nhistory:\n  %s",
				e.Name, tr, tr.update.Name(), txt(resp), tr.get.Name(), txt(after), strings.Join(hist, "\n  "))
		}
	}
	lib.Ev.Class("stalled reader")
	if rejected > 0 {
		lib.Ev.Class("stalled reader: some update rejected")
	}
	if ok >= 4 {
		return fmt.Sprintf("stalled|%s|%v|%s", e.Name, tr, strings.Join(hist, ";"))
	}
	return ""
}

// TestStalledReader: every discovered triple once or twice with a stalled Pull reader.
func TestStalledReader(t *testing.T) {
	loadTriples(t)
	for _, ref := range allTriples {
		ref := ref
		rapid.Check(t, func(rt *rapid.T) {
			nt := runStalled(rt, ref.entry, ref.tr)
			lib.Ev.Case(nt, func() any { return nt })
		})
	}
}
