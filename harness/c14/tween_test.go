package c14

import (
	"context"
	"fmt"
	"strings"
	"sync"
	"testing"
	"time"

	"google.golang.org/grpc/codes"
	"google.golang.org/grpc/status"
	"google.golang.org/protobuf/proto"
	"google.golang.org/protobuf/types/known/durationpb"
	"pgregory.net/rapid"

	"github.com/smart-core-os/sc-api/go/traits"
	"github.com/smart-core-os/sc-api/go/types"

	"github.com/smart-core-os/sc-golang/pkg/router"
	"github.com/smart-core-os/sc-golang/pkg/wrap"
	"github.com/smart-core-os/sc-golang/verifh/lib"
)

// TestLightFadeInterrupted: the one place in the tree where a server writes to its resource by itself - the light
// memory device fading to a target over a duration. The sweep leaves durations at zero; here a fade is started and,
// while it runs, a plain update (no duration) is made through the full stack. From then on nobody writes: the update's
// response is what every later Get returns, and open Pull streams see that value last, however the fade's target and
// the update's value relate (equal targets, a fade to exactly 0, a fade that had not ticked yet).
func TestLightFadeInterrupted(t *testing.T) {
	var entry *serverEntry
	for i := range discoveredServers {
		if strings.HasPrefix(discoveredServers[i].Name, "lightpb.MemoryDevice") && strings.HasSuffix(discoveredServers[i].Name, "LightApi") {
			entry = &discoveredServers[i]
		}
	}
	if entry == nil {
		t.Fatal("the light memory device was not discovered")
	}
	rapid.Check(t, func(t *rapid.T) {
		srv := entry.NewServer()
		r := entry.NewRouter()
		r.(router.Router).Add(deviceName, entry.Wrap(srv))
		client := traits.NewLightApiClient(wrap.ServerToClient(*entry.Desc, r))
		ctx, cancel := context.WithCancel(context.Background())
		defer cancel()
		start := float32(rapid.SampledFrom([]int{0, 20, 50, 80, 100}).Draw(t, "startLevel"))
		target := float32(rapid.SampledFrom([]int{0, 0, 10, 50, 100}).Draw(t, "fadeTarget"))
		dur := time.Duration(rapid.IntRange(150, 450).Draw(t, "fadeMs")) * time.Millisecond
		wait := time.Duration(rapid.IntRange(0, int(dur/time.Millisecond)-40).Draw(t, "interruptAfterMs")) * time.Millisecond
		plain := float32(rapid.SampledFrom([]int{0, 30, 50, 100}).Draw(t, "plainLevel"))
		delta := rapid.IntRange(0, 4).Draw(t, "delta") == 0
		desc := fmt.Sprintf("level %v; fade to %v over %v; after %v a plain update to %v (delta=%v)", start, target, dur, wait, plain, delta)
		if _, err := client.UpdateBrightness(ctx, &traits.UpdateBrightnessRequest{Name: deviceName, Brightness: &traits.Brightness{LevelPercent: start}}); err != nil {
			t.Fatalf("initial update: %v", err)
		}
		st, err := client.PullBrightness(ctx, &traits.PullBrightnessRequest{Name: deviceName})
		if err != nil {
			t.Fatalf("PullBrightness: %v", err)
		}
		var mu sync.Mutex
		var msgs []*traits.Brightness
		go func() {
			for {
				m, err := st.Recv()
				if err != nil {
					return
				}
				mu.Lock()
				for _, c := range m.Changes {
					msgs = append(msgs, c.Brightness)
				}
				mu.Unlock()
			}
		}()
		if _, err := client.UpdateBrightness(ctx, &traits.UpdateBrightnessRequest{Name: deviceName, Brightness: &traits.Brightness{LevelPercent: target, BrightnessTween: &types.Tween{TotalDuration: durationpb.New(dur)}}}); err != nil {
			t.Fatalf("starting the fade: %v (%s)", err, desc)
		}
		time.Sleep(wait)
		var resp *traits.Brightness
		for attempt := 0; ; attempt++ {
			resp, err = client.UpdateBrightness(ctx, &traits.UpdateBrightnessRequest{Name: deviceName, Delta: delta, Brightness: &traits.Brightness{LevelPercent: plain}})
			if status.Code(err) == codes.Aborted && attempt < 20 {
				// the update lost a race against one of the fade's own writes: an error status, nothing changed, the client tries again
				lib.Ev.Class("plain update lost a race against a fade tick (Aborted), retried")
				continue
			}
			break
		}
		if err != nil {
			t.Fatalf("plain update: %v (%s)", err, desc)
		}
		if resp.BrightnessTween != nil || resp.TargetLevelPercent != 0 {
			t.Fatalf("a plain update answered with a fade in progress: %v (%s)", resp, desc)
		}
		// nobody writes from here on
		deadline := time.Now().Add(dur + 300*time.Millisecond)
		for time.Now().Before(deadline) {
			got, err := client.GetBrightness(ctx, &traits.GetBrightnessRequest{Name: deviceName})
			if err != nil {
				t.Fatalf("GetBrightness: %v", err)
			}
			if !proto.Equal(got, resp) {
				t.Fatalf("the plain update answered %v; %v later, with nobody writing, GetBrightness returns %v (%s)", resp, time.Since(deadline.Add(-dur-300*time.Millisecond)).Round(time.Millisecond), got, desc)
			}
			time.Sleep(25 * time.Millisecond)
		}
		mu.Lock()
		n := len(msgs)
		var last *traits.Brightness
		if n > 0 {
			last = msgs[n-1]
		}
		mu.Unlock()
		if last == nil || !proto.Equal(last, resp) {
			t.Fatalf("the last message on the open stream is %v, the last update answered %v (%d messages; %s)", last, resp, n, desc)
		}
		lib.Ev.Class("light fade interrupted by a plain update")
		lib.Ev.Case("fade|"+desc, func() any { return desc })
	})
}
