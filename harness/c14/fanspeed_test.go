package c14

import (
	"context"
	"fmt"
	"math"
	"strings"
	"sync"
	"testing"
	"time"

	"pgregory.net/rapid"

	"github.com/smart-core-os/sc-api/go/traits"

	"github.com/smart-core-os/sc-golang/pkg/router"
	"github.com/smart-core-os/sc-golang/pkg/wrap"
	"github.com/smart-core-os/sc-golang/verifh/lib"
)

// TestFanSpeedSmallSteps: the one Get/Update/Pull server in the tree with a float tolerance (0.01 on the percentage).
// The sweep only demands delivery of updates that differ by a whole unit; here the percentage moves in steps of 0.004,
// so consecutive values are within the tolerance of each other or clearly beyond it (>= 0.012), and streams are opened
// in the middle of such runs. An update whose value differs by >= 0.012 from what a stream holds (its seed or the last
// value it was sent) changes the value beyond the tolerance for that stream and must arrive on it; smaller moves may or
// may not. What a stream holds is known exactly: every expected delivery is awaited before the next update.
func TestFanSpeedSmallSteps(t *testing.T) {
	var entry *serverEntry
	for i := range discoveredServers {
		if strings.HasPrefix(discoveredServers[i].Name, "fanspeedpb.ModelServer") && strings.HasSuffix(discoveredServers[i].Name, "FanSpeedApi") {
			entry = &discoveredServers[i]
		}
	}
	if entry == nil {
		t.Fatal("the fan speed model server was not discovered")
	}
	rapid.Check(t, func(t *rapid.T) {
		srv := entry.NewServer()
		r := entry.NewRouter()
		r.(router.Router).Add(deviceName, entry.Wrap(srv))
		client := traits.NewFanSpeedApiClient(wrap.ServerToClient(*entry.Desc, r))
		ctx, cancel := context.WithCancel(context.Background())
		defer cancel()
		type stream struct {
			mu     sync.Mutex
			got    []float32
			raw    []string
			held   float32
			opened int
		}
		var streams []*stream
		pct := func(n int) float32 { return 41.3 + float32(n)*0.004 } // between the default presets
		n := 0
		var hist []string
		set := func(k int) *traits.FanSpeed {
			// the model reads a preset index that differs from the stored one as a change of preset: a client that only
			// moves the percentage echoes the index it read
			cur, err := client.GetFanSpeed(ctx, &traits.GetFanSpeedRequest{Name: deviceName})
			if err != nil {
				t.Fatalf("GetFanSpeed: %v", err)
			}
			res, err := client.UpdateFanSpeed(ctx, &traits.UpdateFanSpeedRequest{Name: deviceName, FanSpeed: &traits.FanSpeed{Percentage: pct(k), PresetIndex: cur.PresetIndex}})
			if err != nil {
				t.Fatalf("UpdateFanSpeed(%v): %v\nhistory: %s", pct(k), err, strings.Join(hist, " "))
			}
			return res
		}
		set(n)
		steps := rapid.IntRange(3, 25).Draw(t, "steps")
		delivered := 0
		for i := 0; i < steps; i++ {
			if len(streams) < 3 && rapid.IntRange(0, 3).Draw(t, "open") == 0 {
				st, err := client.PullFanSpeed(ctx, &traits.PullFanSpeedRequest{Name: deviceName})
				if err != nil {
					t.Fatalf("PullFanSpeed: %v", err)
				}
				s := &stream{opened: i}
				first := make(chan struct{})
				go func() {
					seen := false
					for {
						m, err := st.Recv()
						if err != nil {
							return
						}
						s.mu.Lock()
						for _, c := range m.Changes {
							s.got = append(s.got, c.FanSpeed.GetPercentage())
							s.raw = append(s.raw, fmt.Sprint(c))
						}
						s.mu.Unlock()
						if !seen {
							seen = true
							close(first)
						}
					}
				}()
				select {
				case <-first:
				case <-time.After(10 * time.Second):
					t.Fatalf("a new PullFanSpeed stream did not start with the current value\nhistory: %s", strings.Join(hist, " "))
				}
				s.mu.Lock()
				s.held = s.got[len(s.got)-1]
				s.mu.Unlock()
				if s.held != pct(n) {
					t.Fatalf("a new stream starts with %v, the current value is %v\nhistory: %s", s.held, pct(n), strings.Join(hist, " "))
				}
				streams = append(streams, s)
				hist = append(hist, fmt.Sprintf("open(stream %d holds %v)", len(streams)-1, s.held))
			}
			n += rapid.SampledFrom([]int{-5, -3, -2, -1, 1, 2, 3, 5}).Draw(t, "step")
			res := set(n)
			hist = append(hist, fmt.Sprintf("update(%v)", pct(n)))
			if res.GetPercentage() != pct(n) {
				t.Fatalf("UpdateFanSpeed(percentage=%v) answered %v\nhistory: %s", pct(n), res, strings.Join(hist, " "))
			}
			if got, err := client.GetFanSpeed(ctx, &traits.GetFanSpeedRequest{Name: deviceName}); err != nil || got.GetPercentage() != res.GetPercentage() {
				t.Fatalf("UpdateFanSpeed answered %v, GetFanSpeed returns %v (%v)\nhistory: %s", res, got, err, strings.Join(hist, " "))
			}
			for si, s := range streams {
				diff := math.Abs(float64(pct(n)) - float64(s.held))
				if diff < 0.0119 {
					// within (or too close to) the tolerance for this stream: may or may not be sent; see what came
					time.Sleep(300 * time.Microsecond)
					s.mu.Lock()
					if len(s.got) > 0 {
						s.held = s.got[len(s.got)-1]
					}
					s.mu.Unlock()
					continue
				}
				deadline := time.Now().Add(5 * time.Second)
				for {
					s.mu.Lock()
					last := s.got[len(s.got)-1]
					s.mu.Unlock()
					if last == pct(n) {
						s.held = last
						delivered++
						break
					}
					if time.Now().After(deadline) {
						t.Fatalf("stream %d holds %v; the update to %v (a move of %.3f, the tolerance is 0.01) was not delivered within 5s although its reader keeps up (received so far %v)\nhistory: %s", si, s.held, pct(n), diff, s.raw, strings.Join(hist, " "))
					}
					time.Sleep(100 * time.Microsecond)
				}
			}
		}
		// the far ends of the scale: a sensor fault may report an infinite percentage, of either sign. The model accepts what
		// it is given; +Inf and -Inf are as far from each other as two values can be, so each such update appears on every
		// open stream like any other change beyond the tolerance
		if len(streams) > 0 && rapid.IntRange(0, 2).Draw(t, "infinities") == 1 {
			vals := []float32{float32(math.Inf(1)), float32(math.Inf(-1))}
			if rapid.Bool().Draw(t, "negativeFirst") {
				vals[0], vals[1] = vals[1], vals[0]
			}
			for _, v := range vals {
				cur, err := client.GetFanSpeed(ctx, &traits.GetFanSpeedRequest{Name: deviceName})
				if err != nil {
					t.Fatalf("GetFanSpeed: %v", err)
				}
				res, err := client.UpdateFanSpeed(ctx, &traits.UpdateFanSpeedRequest{Name: deviceName, FanSpeed: &traits.FanSpeed{Percentage: v, PresetIndex: cur.PresetIndex}})
				hist = append(hist, fmt.Sprintf("update(%v)=%v", v, err))
				if err != nil {
					break // a model may refuse such a value; then nothing is expected of the streams
				}
				if res.GetPercentage() != v {
					t.Fatalf("UpdateFanSpeed(percentage=%v) answered %v\nhistory: %s", v, res, strings.Join(hist, " "))
				}
				for si, s := range streams {
					deadline := time.Now().Add(5 * time.Second)
					for {
						s.mu.Lock()
						last := s.got[len(s.got)-1]
						s.mu.Unlock()
						if last == v {
							delivered++
							break
						}
						if time.Now().After(deadline) {
							t.Fatalf("stream %d: the update to %v (Get now says %v) was not delivered within 5s although its reader keeps up (received so far %v)\nhistory: %s", si, v, res.GetPercentage(), s.raw, strings.Join(hist, " "))
						}
						time.Sleep(100 * time.Microsecond)
					}
				}
			}
			lib.Ev.Class("fan speed: infinite percentages of both signs")
		}
		nt := ""
		if delivered > 0 && len(streams) > 0 {
			nt = strings.Join(hist, " ")
		}
		lib.Ev.Class("fan speed: steps around the 0.01 tolerance")
		lib.Ev.Case(nt, func() any { return strings.Join(hist, " ") })
	})
}
