package c14

import (
	"context"
	"fmt"
	"strings"
	"testing"

	"google.golang.org/grpc"
	"google.golang.org/protobuf/proto"
	"google.golang.org/protobuf/reflect/protoreflect"
	"google.golang.org/protobuf/types/known/fieldmaskpb"
	"pgregory.net/rapid"

	"github.com/smart-core-os/sc-golang/pkg/router"
	"github.com/smart-core-os/sc-golang/pkg/wrap"
	"github.com/smart-core-os/sc-golang/verifh/lib"
)

// device is one trait server behind wrapper, router and wrapper.
type device struct {
	ref  tripleRef
	conn grpc.ClientConnInterface
}

func newDevice(ref tripleRef) *device {
	srv := ref.entry.NewServer()
	r := ref.entry.NewRouter()
	r.(router.Router).Add(deviceName, ref.entry.Wrap(srv))
	return &device{ref: ref, conn: wrap.ServerToClient(*ref.entry.Desc, r)}
}

func (d *device) method(m protoreflect.MethodDescriptor) string {
	return fmt.Sprintf("/%s/%s", d.ref.tr.svc.FullName(), m.Name())
}

func (d *device) get(mask *fieldmaskpb.FieldMask) (proto.Message, error) {
	req := newOf(d.ref.tr.get.Input())
	setStr(req, "name", deviceName)
	setMask(req, "read_mask", mask)
	resp := newOf(d.ref.tr.get.Output())
	err := d.conn.Invoke(context.Background(), d.method(d.ref.tr.get), req, resp)
	return resp, err
}

func (d *device) update(val proto.Message) error {
	req := newOf(d.ref.tr.update.Input())
	setStr(req, "name", deviceName)
	req.ProtoReflect().Set(d.ref.tr.updField, protoreflect.ValueOfMessage(val.ProtoReflect()))
	return d.conn.Invoke(context.Background(), d.method(d.ref.tr.update), req, newOf(d.ref.tr.update.Output()))
}

// TestSameMaskOnDifferentDevices: one process serves devices of different kinds, and clients reuse their read masks
// across them (a dashboard asking every device for "preset.name"). What a mask selects on one kind of resource has no
// bearing on what it selects on another: each masked Get is the projection of that device's own full Get, in whichever
// order the devices are asked, and a path that leads nowhere on one type selects nothing there.
func TestSameMaskOnDifferentDevices(t *testing.T) {
	loadTriples(t)
	var plain []tripleRef
	for _, ref := range allTriples {
		if len(ref.tr.keyed) == 0 {
			plain = append(plain, ref)
		}
	}
	if len(plain) < 4 {
		t.Fatalf("only %d un-keyed triples discovered", len(plain))
	}
	rapid.Check(t, func(t *rapid.T) {
		ia := rapid.IntRange(0, len(plain)-1).Draw(t, "deviceA")
		ib := rapid.IntRange(0, len(plain)-1).Draw(t, "deviceB")
		devs := []*device{newDevice(plain[ia]), newDevice(plain[ib])}
		var hist []string
		for i, d := range devs {
			for k := 0; k < rapid.IntRange(0, 2).Draw(t, fmt.Sprintf("updates%d", i)); k++ {
				val := lib.GenMessage(t, fmt.Sprintf("value%d_%d", i, k), newOf(d.ref.tr.res), mgen)
				err := d.update(val)
				hist = append(hist, fmt.Sprintf("%s.update(%s) => %v", d.ref.entry.Name, txt(val), err))
			}
		}
		nested, crossed := false, false
		for round := 0; round < rapid.IntRange(1, 4).Draw(t, "masks"); round++ {
			// a mask written for one of the two kinds (or for a third), sent to both
			src := rapid.IntRange(0, 2).Draw(t, "maskWrittenFor")
			md := plain[rapid.IntRange(0, len(plain)-1).Draw(t, "third")].tr.res
			if src < 2 {
				md = devs[src].ref.tr.res
			}
			mask, _ := lib.DrawMask(t, "mask", md)
			if mask == nil || len(mask.Paths) == 0 {
				continue
			}
			for _, p := range mask.Paths {
				if strings.Contains(p, ".") {
					nested = true
				}
			}
			order := []int{0, 1}
			if rapid.Bool().Draw(t, "askBFirst") {
				order = []int{1, 0}
			}
			for _, i := range order {
				d := devs[i]
				full, err := d.get(nil)
				if err != nil {
					t.Fatalf("%s: full Get failed: %v", d.ref.entry.Name, err)
				}
				got, err := d.get(mask)
				if err != nil {
					// a server may refuse a mask that is not valid for its type; then it must say so, not answer something else
					hist = append(hist, fmt.Sprintf("%s.get(mask %s) => %v", d.ref.entry.Name, lib.MaskString(mask), err))
					continue
				}
				want := lib.RefProject(full, mask)
				g := lib.DropEmptyOnPaths(proto.Clone(got), mask)
				w := lib.DropEmptyOnPaths(proto.Clone(want), mask)
				hist = append(hist, fmt.Sprintf("%s.get(mask %s) => %s", d.ref.entry.Name, lib.MaskString(mask), txt(got)))
				if !proto.Equal(g, w) {
					t.Fatalf("%s: Get with read mask %s (written for %s) returned %s, the projection of its full value %s is %s\nhistory:\n  %s",
						d.ref.entry.Name, lib.MaskString(mask), md.FullName(), txt(got), txt(full), txt(want), strings.Join(hist, "\n  "))
				}
				if d.ref.tr.res != md {
					crossed = true
				}
			}
		}
		nt := ""
		if nested && crossed {
			nt = fmt.Sprintf("%s|%s|%s", plain[ia].entry.Name, plain[ib].entry.Name, strings.Join(hist, ";"))
			lib.Ev.Class("two devices: a nested mask written for one kind sent to another kind")
		}
		lib.Ev.Case(nt, func() any { return strings.Join(hist, "; ") })
	})
}
