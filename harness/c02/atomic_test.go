package c02

import (
	"time"
	"fmt"
	"strings"
	"sync"
	"sync/atomic"
	"testing"

	"google.golang.org/protobuf/proto"
	"pgregory.net/rapid"

	"github.com/smart-core-os/sc-golang/internal/testproto"
	"github.com/smart-core-os/sc-golang/internal/verifhook"
	"github.com/smart-core-os/sc-golang/pkg/resource"
	"github.com/smart-core-os/sc-golang/verifh/lib"
	"github.com/smart-core-os/sc-golang/verifh/rlib"
)

func fm(c int32) proto.Message { return &testproto.ForeignMessage{C: c} }

// target is the resource under test together with its initial model.
type target struct {
	fold    bool
	isValue bool
	val     *resource.Value
	col     *resource.Collection
	model   *rlib.Store
}

// equivalenceOption: what the resource is configured to treat as "no change worth an event". It concerns emission only:
// what is stored, returned and detected as a concurrent modification is the same with any of them.
func equivalenceOption(name string) []resource.Option {
	switch name {
	case "nodup":
		return []resource.Option{resource.WithNoDuplicates()}
	case "coarse": // values whose counters differ by at most 1 are equivalent (an analogue tolerance)
		return []resource.Option{resource.WithMessageEquivalence(func(x, y proto.Message) bool {
			d := rlib.GetCounter(x) - rlib.GetCounter(y)
			return d >= -1 && d <= 1
		})}
	}
	return nil
}

var equivalences = []string{"", "", "nodup", "coarse"}

// stoppedClocks: set per case by the forced-interleaving test; read by newTarget.
var stoppedClocks atomic.Bool

type stoppedClock struct{}

func (stoppedClock) Now() time.Time { return time.Unix(1700000000, 0) }

func newTarget(isValue bool, initial map[string]int32, equivalence ...string) *target {
	tg := &target{isValue: isValue, model: &rlib.Store{IsValue: isValue, Proto: &testproto.ForeignMessage{}, Items: map[string]*rlib.Entry{}}}
	var eq []resource.Option
	if len(equivalence) > 0 {
		eq = equivalenceOption(equivalence[0])
	}
	if stoppedClocks.Load() {
		// a simulated clock that is not running: every write happens "at the same time"; whether a write interfered with
		// another is a matter of values, not of time stamps
		eq = append(eq, resource.WithClock(stoppedClock{}))
	}
	if len(equivalence) > 1 && equivalence[1] == "fold" && !isValue {
		// a case-insensitive collection: callers say "X" or "x" and mean the same item
		eq = append(eq, resource.WithIDInterceptor(strings.ToLower))
		tg.model.Interceptor = strings.ToLower
		tg.fold = true
	}
	if isValue {
		opts := append([]resource.Option(nil), eq...)
		if v, ok := initial["x"]; ok {
			opts = append(opts, resource.WithInitialValue(fm(v)))
			tg.model.Items[rlib.ValueKey] = &rlib.Entry{Msg: fm(v)}
		}
		tg.val = resource.NewValue(opts...)
		return tg
	}
	opts := append([]resource.Option(nil), eq...)
	for id, v := range initial {
		opts = append(opts, resource.WithInitialRecord(id, fm(v)))
		tg.model.Items[id] = &rlib.Entry{Msg: fm(v)}
	}
	tg.col = resource.NewCollection(opts...)
	return tg
}

func (tg *target) exec(op rlib.Op) (proto.Message, error) {
	log := &rlib.CallLog{}
	switch op.Kind {
	case rlib.OpSet:
		return tg.val.Set(proto.Clone(op.Val), op.WriteOptions(log)...)
	case rlib.OpAdd:
		return tg.col.Add(op.ID, proto.Clone(op.Val), op.WriteOptions(log)...)
	case rlib.OpUpdate:
		return tg.col.Update(op.ID, proto.Clone(op.Val), op.WriteOptions(log)...)
	case rlib.OpDelete:
		return tg.col.Delete(op.ID, op.WriteOptions(log)...)
	}
	panic("unexpected op kind")
}

func (tg *target) final() map[string]proto.Message {
	out := map[string]proto.Message{}
	if tg.isValue {
		if v := tg.val.Get(); v != nil {
			out[rlib.ValueKey] = v
		}
		return out
	}
	for _, id := range []string{"x", "y"} {
		if m, ok := tg.col.Get(id); ok {
			out[id] = m
		}
	}
	return out
}

// drawOp draws a write on id x (sometimes the control id y).
func drawOp(t *rapid.T, label string, isValue bool, fold ...bool) rlib.Op {
	var op rlib.Op
	v := int32(rapid.IntRange(0, 3).Draw(t, label+".v")) // 0: an all-default (empty) message
	op.Val = fm(v)
	if isValue {
		op.Kind = rlib.OpSet
	} else {
		op.Kind = rapid.SampledFrom([]rlib.OpKind{rlib.OpAdd, rlib.OpUpdate, rlib.OpUpdate, rlib.OpDelete}).Draw(t, label+".kind")
		op.ID = rapid.SampledFrom([]string{"x", "x", "x", "x", "y"}).Draw(t, label+".id")
		if len(fold) > 0 && fold[0] && rapid.Bool().Draw(t, label+".upper") {
			op.ID = strings.ToUpper(op.ID)
		}
	}
	if op.Kind == rlib.OpDelete {
		op.Val = nil
		op.AllowMissing = rapid.IntRange(0, 3).Draw(t, label+".am") == 0
	} else if rapid.IntRange(0, 4).Draw(t, label+".backdated") == 2 {
		// late or replayed data: the writer says the change happened long ago (or gives no time worth the name)
		op.WriteTick = rapid.SampledFrom([]int64{-5, 1, 2, rlib.ZeroTimeTick}).Draw(t, label+".tick")
	}
	switch rapid.IntRange(0, 7).Draw(t, label+".pre") {
	case 0:
		op.Expected, op.ExpectedLabel = fm(int32(rapid.IntRange(0, 3).Draw(t, label+".exp"))), "cas"
	case 1:
		op.Check = fmt.Sprintf("counter=%d", rapid.IntRange(0, 3).Draw(t, label+".chk"))
	case 5:
		// both kinds of precondition on one call: each has to hold
		op.Expected, op.ExpectedLabel = fm(int32(rapid.IntRange(0, 3).Draw(t, label+".exp"))), "cas"
		op.Check = rapid.SampledFrom([]string{"counter=0", "counter=1", "counter=2", "counter<=1", "reject:ABORTED", "accept"}).Draw(t, label+".chk2")
	case 4:
		// a precondition that accepts several successive versions and then stops accepting: a call that re-reads after
		// losing a race must re-evaluate it against what it finally acts on
		op.Check = fmt.Sprintf("counter<=%d", rapid.IntRange(0, 8).Draw(t, label+".chkmax"))
	case 2:
		if op.Kind != rlib.OpDelete {
			op.Before = "delta"
		}
	case 3:
		if op.Kind != rlib.OpDelete {
			op.Before = "delta"
			op.Expected, op.ExpectedLabel = fm(int32(rapid.IntRange(0, 3).Draw(t, label+".exp"))), "cas"
		}
	}
	if op.Kind == rlib.OpUpdate {
		op.CreateIfAbsent = rapid.IntRange(0, 2).Draw(t, label+".cia") == 0
		op.ExpectAbsent = rapid.IntRange(0, 5).Draw(t, label+".ea") == 0
	}
	return op
}

var gauPoints = []string{"gau.afterRead", "gau.beforeLock"}
var deletePoints = []string{"coll.delete.afterRead", "coll.delete.beforeLock"}

type injection struct {
	point  string
	op     rlib.Op
	repeat int
}

// TestForcedInterleavings: an interfering call is run inline inside a chosen window of another call (nested up to
// depth 3); the resulting history must be linearizable.
func TestForcedInterleavings(t *testing.T) {
	if !verifhook.Enabled {
		t.Fatal("hooks are not compiled in (build with -tags verif)")
	}
	rapid.Check(t, func(t *rapid.T) {
		isValue := rapid.IntRange(0, 3).Draw(t, "isValue") == 0
		initial := map[string]int32{}
		if rapid.IntRange(0, 2).Draw(t, "hasX") > 0 {
			initial["x"] = int32(rapid.IntRange(0, 3).Draw(t, "x0"))
		}
		if !isValue && rapid.Bool().Draw(t, "hasY") {
			initial["y"] = 1
		}
		equiv := rapid.SampledFrom(equivalences).Draw(t, "equivalence")
		foldIDs := ""
		if !isValue && rapid.IntRange(0, 2).Draw(t, "foldIDs") == 1 {
			foldIDs = "fold"
		}
		stoppedClocks.Store(rapid.IntRange(0, 2).Draw(t, "stoppedClock") == 1)
		tg := newTarget(isValue, initial, equiv, foldIDs)
		stoppedClocks.Store(false)
		depth := rapid.IntRange(1, 3).Draw(t, "depth")
		ops := make([]rlib.Op, depth+1)
		ops[0] = drawOp(t, "op0", isValue, tg.fold)
		plan := make([]injection, depth)
		for d := 0; d < depth; d++ {
			ops[d+1] = drawOp(t, fmt.Sprintf("op%d", d+1), isValue, tg.fold)
			pts := gauPoints
			if ops[d].Kind == rlib.OpDelete {
				pts = deletePoints
			}
			plan[d] = injection{point: rapid.SampledFrom(pts).Draw(t, fmt.Sprintf("point%d", d)), op: ops[d+1], repeat: 1}
			if ops[d].Kind == rlib.OpDelete && rapid.IntRange(0, 3).Draw(t, fmt.Sprintf("repeat%d", d)) == 0 {
				plan[d].repeat = rapid.IntRange(2, 8).Draw(t, fmt.Sprintf("nrepeat%d", d))
			}
		}
		var hist []rlib.HistOp
		var clock int64
		fired := make([]int, depth)
		cur := 0 // nesting level of the op currently running
		hits := 0
		var run func(level int, op rlib.Op) rlib.HistOp
		run = func(level int, op rlib.Op) rlib.HistOp {
			h := rlib.HistOp{Op: op, Who: fmt.Sprintf("L%d", level)}
			clock++
			h.Inv = clock
			saved := cur
			cur = level
			h.Ret, h.Err = tg.exec(op)
			cur = saved
			clock++
			h.Res = clock
			hist = append(hist, h)
			return h
		}
		verifhook.Set(func(point string) {
			level := cur
			if level >= depth || plan[level].point != point || fired[level] >= plan[level].repeat {
				return
			}
			fired[level]++
			hits++
			run(level+1, plan[level].op)
		})
		func() {
			defer verifhook.Set(nil)
			run(0, ops[0])
		}()
		final := tg.final()
		var desc []string
		desc = append(desc, fmt.Sprintf("initial=%v equivalence=%q caseInsensitiveIDs=%v", initial, equiv, tg.fold))
		for d := range plan {
			desc = append(desc, fmt.Sprintf("inject@%s x%d(fired %d): %v", plan[d].point, plan[d].repeat, fired[d], plan[d].op))
		}
		if _, err := rlib.Linearizable(tg.model, hist, final); err != nil {
			t.Fatalf("%v\nmain op: %v\n%s", err, ops[0], strings.Join(desc, "\n"))
		}
		// sharp invariants on top
		if err := sharpInvariants(tg, hist, final, initial); err != nil {
			t.Fatalf("%v\nmain op: %v\n%s", err, ops[0], strings.Join(desc, "\n"))
		}
		nt := ""
		if hits > 0 {
			var codes []string
			for _, h := range hist {
				codes = append(codes, fmt.Sprintf("%s=%v", h.Op.OptionKey(), h.Err == nil))
			}
			nt = fmt.Sprintf("%v|%v|%s", isValue, plan[0].point, strings.Join(codes, ";"))
			lib.Ev.Class("window:" + plan[0].point)
		} else {
			lib.Ev.Class("window not reached")
		}
		lib.Ev.Case(nt, func() any {
			var hs []string
			for _, h := range hist {
				hs = append(hs, h.String())
			}
			return map[string]any{"plan": desc, "main": ops[0].String(), "history": hs}
		})
	})
}

// sharpInvariants: cheap direct consequences of atomicity.
func sharpInvariants(tg *target, hist []rlib.HistOp, final map[string]proto.Message, initial map[string]int32) error {
	// at most one of several Adds of one id succeeds unless a successful Delete of it is in the history
	adds := map[string]int{}
	dels := map[string]int{}
	for _, h := range hist {
		if h.Err != nil {
			continue
		}
		id := h.Op.ID
		if tg.fold {
			id = strings.ToLower(id)
		}
		switch h.Op.Kind {
		case rlib.OpAdd:
			adds[id]++
		case rlib.OpDelete:
			if h.Ret != nil {
				dels[id]++
			}
		}
	}
	for id, n := range adds {
		_, had := initial[id]
		max := dels[id] + 1
		if had {
			max = dels[id]
		}
		if n > max {
			return fmt.Errorf("%d Adds of %q succeeded with %d successful deletes (initially present: %v): two Adds of one id both succeeded", n, id, dels[id], had)
		}
	}
	return nil
}

// TestStressLinearizable: real goroutines, hook points turned into random yields.
func TestStressLinearizable(t *testing.T) {
	rapid.Check(t, func(t *rapid.T) {
		isValue := rapid.IntRange(0, 3).Draw(t, "isValue") == 0
		initial := map[string]int32{}
		if rapid.Bool().Draw(t, "hasX") {
			initial["x"] = int32(rapid.IntRange(0, 3).Draw(t, "x0"))
		}
		foldIDs := ""
		if !isValue && rapid.IntRange(0, 2).Draw(t, "foldIDs") == 1 {
			foldIDs = "fold"
		}
		tg := newTarget(isValue, initial, rapid.SampledFrom(equivalences).Draw(t, "equivalence"), foldIDs)
		ng := rapid.IntRange(2, 4).Draw(t, "goroutines")
		scripts := make([][]rlib.Op, ng)
		total := 0
		for g := range scripts {
			n := rapid.IntRange(1, 4).Draw(t, fmt.Sprintf("n%d", g))
			for i := 0; i < n; i++ {
				scripts[g] = append(scripts[g], drawOp(t, fmt.Sprintf("g%dop%d", g, i), isValue, tg.fold))
			}
			total += n
		}
		yields := rapid.SliceOfN(rapid.Byte(), 16, 16).Draw(t, "yields")
		var yi atomic.Int64
		verifhook.Set(func(point string) {
			b := yields[int(yi.Add(1))%len(yields)]
			for k := 0; k < int(b%4); k++ {
				runtimeGosched()
			}
		})
		defer verifhook.Set(nil)
		var clock atomic.Int64
		var mu sync.Mutex
		var hist []rlib.HistOp
		var wg sync.WaitGroup
		start := make(chan struct{})
		for g := range scripts {
			g := g
			wg.Add(1)
			go func() {
				defer wg.Done()
				<-start
				for _, op := range scripts[g] {
					h := rlib.HistOp{Op: op, Who: fmt.Sprintf("g%d", g)}
					h.Inv = clock.Add(1)
					h.Ret, h.Err = tg.exec(op)
					h.Res = clock.Add(1)
					mu.Lock()
					hist = append(hist, h)
					mu.Unlock()
				}
			}()
		}
		close(start)
		wg.Wait()
		final := tg.final()
		if _, err := rlib.Linearizable(tg.model, hist, final); err != nil {
			t.Fatalf("%v\ninitial=%v", err, initial)
		}
		if err := sharpInvariants(tg, hist, final, initial); err != nil {
			t.Fatalf("%v", err)
		}
		overlap := false
		for i := range hist {
			for j := range hist {
				if i != j && hist[i].Inv < hist[j].Res && hist[j].Inv < hist[i].Res {
					overlap = true
				}
			}
		}
		nt := ""
		if overlap {
			var ks []string
			for _, h := range hist {
				ks = append(ks, h.Who+":"+h.Op.OptionKey()+fmt.Sprint(h.Err == nil))
			}
			nt = strings.Join(ks, ";")
		}
		lib.Ev.Class("stress")
		lib.Ev.Case(nt, func() any {
			var hs []string
			for _, h := range hist {
				hs = append(hs, h.String())
			}
			return map[string]any{"stress": true, "history": hs}
		})
	})
}

// TestStressCounters: many concurrent read-modify-write increments: the final counter equals the number of successes.
func TestStressCounters(t *testing.T) {
	rapid.Check(t, func(t *rapid.T) {
		isValue := rapid.Bool().Draw(t, "isValue")
		equiv := rapid.SampledFrom(equivalences).Draw(t, "equivalence")
		tg := newTarget(isValue, map[string]int32{"x": 0}, equiv)
		ng := rapid.IntRange(2, 8).Draw(t, "goroutines")
		per := rapid.IntRange(1, 50).Draw(t, "per")
		useCAS := rapid.Bool().Draw(t, "cas")
		// rendezvous: the writers of a round meet inside their interceptor / between their read and their write, so they
		// all act on the same version and reach the store's compare-and-write step together
		rendezvous := rapid.Bool().Draw(t, "rendezvous")
		arrived := make([]atomic.Int32, per)
		meet := func(i int) {
			if !rendezvous {
				return
			}
			arrived[i].Add(1)
			for spins := 0; int(arrived[i].Load()) < ng && spins < 20000; spins++ {
				if spins%64 == 63 {
					runtimeGosched()
				}
			}
		}
		var ok atomic.Int64
		var wg sync.WaitGroup
		for g := 0; g < ng; g++ {
			wg.Add(1)
			go func() {
				defer wg.Done()
				for i := 0; i < per; i++ {
					i := i
					var err error
					if !useCAS && rendezvous {
						opt := resource.InterceptBefore(func(old, change proto.Message) {
							change.(*testproto.ForeignMessage).C = old.(*testproto.ForeignMessage).C + 1
							meet(i)
						})
						if isValue {
							_, err = tg.val.Set(fm(0), opt)
						} else {
							_, err = tg.col.Update("x", fm(0), opt)
						}
					} else if useCAS {
						// read, then compare-and-swap to +1
						var cur proto.Message
						if isValue {
							cur = tg.val.Get()
						} else {
							cur, _ = tg.col.Get("x")
						}
						next := fm(cur.(*testproto.ForeignMessage).C + 1)
						meet(i)
						if isValue {
							_, err = tg.val.Set(next, resource.WithExpectedValue(cur))
						} else {
							_, err = tg.col.Update("x", next, resource.WithExpectedValue(cur))
						}
					} else {
						op := rlib.Op{Kind: rlib.OpUpdate, ID: "x", Val: fm(1), Before: "delta"}
						if isValue {
							op.Kind = rlib.OpSet
						}
						_, err = tg.exec(op)
					}
					if err == nil {
						ok.Add(1)
					}
				}
			}()
		}
		wg.Wait()
		final := tg.final()
		key := "x"
		if isValue {
			key = rlib.ValueKey
		}
		got := final[key].(*testproto.ForeignMessage).C
		if int64(got) != ok.Load() {
			t.Fatalf("%d increments reported success but the counter is %d (isValue=%v cas=%v rendezvous=%v equivalence=%q goroutines=%d x %d): an update was lost or applied twice", ok.Load(), got, isValue, useCAS, rendezvous, equiv, ng, per)
		}
		lib.Ev.Class("stress-counter")
		if rendezvous {
			lib.Ev.Class("stress-counter: writers of a round rendezvous between read and write")
		}
		lib.Ev.Case(fmt.Sprintf("counter|%v|%v|%v|%s|%d|%d|%d", isValue, useCAS, rendezvous, equiv, ng, per, got), func() any {
			return fmt.Sprintf("counter stress isValue=%v cas=%v rendezvous=%v equivalence=%q %dx%d: %d successes", isValue, useCAS, rendezvous, equiv, ng, per, got)
		})
	})
}
