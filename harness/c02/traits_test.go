package c02

import (
	"context"
	"fmt"
	"strings"
	"testing"

	"google.golang.org/grpc/codes"
	"google.golang.org/grpc/status"
	"pgregory.net/rapid"

	"github.com/smart-core-os/sc-api/go/traits"
	"github.com/smart-core-os/sc-api/go/types"

	"github.com/smart-core-os/sc-golang/internal/verifhook"
	"github.com/smart-core-os/sc-golang/pkg/trait/countpb"
	"github.com/smart-core-os/sc-golang/pkg/trait/fanspeedpb"
	"github.com/smart-core-os/sc-golang/pkg/trait/speakerpb"
	"github.com/smart-core-os/sc-golang/verifh/lib"
)

// counter is a read-modify-write interceptor as the tree's own servers use it: a relative / delta update of one number
// held in a Value.
type counter struct {
	name string
	add  func(d int) error // one relative update through the server
	read func() float64
}

func newCounter(kind string, start int) counter {
	ctx := context.Background()
	switch kind {
	case "fanspeed":
		m := fanspeedpb.NewModel()
		s := fanspeedpb.NewModelServer(m)
		_, _ = s.UpdateFanSpeed(ctx, &traits.UpdateFanSpeedRequest{FanSpeed: &traits.FanSpeed{Percentage: float32(start) + 0.25, PresetIndex: -1}})
		return counter{name: "fanspeedpb.ModelServer.UpdateFanSpeed(relative)",
			add: func(d int) error {
				_, err := s.UpdateFanSpeed(ctx, &traits.UpdateFanSpeedRequest{Relative: true, FanSpeed: &traits.FanSpeed{Percentage: float32(d)}})
				return err
			},
			read: func() float64 { return float64(m.FanSpeed().Percentage) }}
	case "count":
		s := countpb.NewMemoryDevice()
		_, _ = s.UpdateCount(ctx, &traits.UpdateCountRequest{Count: &traits.Count{Added: int32(start)}})
		return counter{name: "countpb.MemoryDevice.UpdateCount(delta)",
			add: func(d int) error {
				_, err := s.UpdateCount(ctx, &traits.UpdateCountRequest{Delta: true, Count: &traits.Count{Added: int32(d)}})
				return err
			},
			read: func() float64 {
				c, _ := s.GetCount(ctx, &traits.GetCountRequest{})
				return float64(c.GetAdded())
			}}
	default:
		s := speakerpb.NewMemoryDevice(&types.AudioLevel{Gain: float32(start)})
		return counter{name: "speakerpb.MemoryDevice.UpdateVolume(delta)",
			add: func(d int) error {
				_, err := s.UpdateVolume(ctx, &traits.UpdateSpeakerVolumeRequest{Delta: true, Volume: &types.AudioLevel{Gain: float32(d)}})
				return err
			},
			read: func() float64 {
				v, _ := s.GetVolume(ctx, &traits.GetSpeakerVolumeRequest{})
				return float64(v.GetGain())
			}}
	}
}

// TestTraitCountersForced: the relative / delta updates the tree's own servers build from InterceptBefore. Interfering
// relative updates are run inline inside the optimistic window of another one; every call that reports success has added
// its amount exactly once, every call that reports an error has added nothing.
func TestTraitCountersForced(t *testing.T) {
	if !verifhook.Enabled {
		t.Fatal("hooks are not compiled in (build with -tags verif)")
	}
	rapid.Check(t, func(t *rapid.T) {
		kind := rapid.SampledFrom([]string{"fanspeed", "count", "speaker"}).Draw(t, "server")
		c := newCounter(kind, rapid.IntRange(1, 20).Draw(t, "start"))
		want := c.read()
		n := rapid.IntRange(1, 6).Draw(t, "calls")
		var hist []string
		lost := 0
		for i := 0; i < n; i++ {
			d := rapid.IntRange(1, 3).Draw(t, "amount")
			point := rapid.SampledFrom([]string{"", "gau.afterRead", "gau.beforeLock"}).Draw(t, "window")
			k := rapid.IntRange(1, 2).Draw(t, "interferers")
			inHook, fired := false, false
			var inner []string
			if point != "" {
				verifhook.Set(func(p string) {
					if p != point || inHook || fired {
						return
					}
					inHook, fired = true, true
					defer func() { inHook = false }()
					for j := 0; j < k; j++ {
						// a complete relative update by somebody else, inside this call's window
						e := rapid.IntRange(1, 3).Draw(t, "interferingAmount")
						err := c.add(e)
						inner = append(inner, fmt.Sprintf("add(%d)=%v", e, status.Code(err)))
						if err == nil {
							want += float64(e)
						}
					}
				})
			}
			err := c.add(d)
			verifhook.Set(nil)
			h := fmt.Sprintf("add(%d)", d)
			if fired {
				h += fmt.Sprintf(" [in its %s window: %s]", point, strings.Join(inner, ", "))
			}
			h += fmt.Sprintf(" = %v", status.Code(err))
			hist = append(hist, h)
			switch status.Code(err) {
			case codes.OK:
				want += float64(d)
			case codes.Aborted, codes.Unavailable, codes.FailedPrecondition:
				lost++
			default:
				t.Fatalf("%s: unexpected error %v\nhistory: %s", c.name, err, strings.Join(hist, "; "))
			}
			if got := c.read(); got != want {
				t.Fatalf("%s: after the calls that reported success the number must be %v, it is %v (a call that reports an error adds nothing, one that reports success adds its amount once)\nhistory: %s",
					c.name, want, got, strings.Join(hist, "; "))
			}
		}
		nt := ""
		if lost > 0 {
			nt = kind + "|" + strings.Join(hist, ";")
		}
		lib.Ev.Class("trait-counter:" + kind)
		lib.Ev.Case(nt, func() any { return c.name + ": " + strings.Join(hist, "; ") })
	})
}
