package c02

import (
	"fmt"
	"strings"
	"testing"

	"github.com/smart-core-os/sc-golang/internal/verifhook"
	"github.com/smart-core-os/sc-golang/verifh/lib"
	"github.com/smart-core-os/sc-golang/verifh/rlib"
)

// retryCase: a Delete of x with a precondition, and an interfering write that is run inline inside the Delete's
// read->lock window each time the Delete passes it, up to Fires times (a Delete re-reads and tries again when the item
// changed under it, with a bounded number of attempts).
type retryCase struct {
	X0        int32  // initial counter of x
	Pre       string // "", "check<=", "check=", "cas"
	N         int32  // the precondition's parameter
	Interfere string // "increment", "alternate", "delete", "delete-readd"
	Fires     int
	Point     string
	Allow     bool
	Equiv     string
}

func (c retryCase) String() string {
	return fmt.Sprintf("x0=%d Delete(x) pre=%s%d allowMissing=%v equivalence=%q; %q runs in %s, at most %d times", c.X0, c.Pre, c.N, c.Allow, c.Equiv, c.Interfere, c.Point, c.Fires)
}

func runRetryCase(c retryCase) error {
	tg := newTarget(false, map[string]int32{"x": c.X0}, c.Equiv)
	del := rlib.Op{Kind: rlib.OpDelete, ID: "x", AllowMissing: c.Allow}
	switch c.Pre {
	case "check<=":
		del.Check = fmt.Sprintf("counter<=%d", c.N)
	case "check=":
		del.Check = fmt.Sprintf("counter=%d", c.N)
	case "cas":
		del.Expected, del.ExpectedLabel = fm(c.N), "cas"
	}
	var hist []rlib.HistOp
	var clock int64
	run := func(who string, op rlib.Op) {
		h := rlib.HistOp{Op: op, Who: who}
		clock++
		h.Inv = clock
		h.Ret, h.Err = tg.exec(op)
		clock++
		h.Res = clock
		hist = append(hist, h)
	}
	fired := 0
	inDelete := false
	verifhook.Set(func(point string) {
		if !inDelete || point != c.Point || fired >= c.Fires {
			return
		}
		fired++
		inDelete = false // the interfering calls pass hook points of their own
		defer func() { inDelete = true }()
		switch c.Interfere {
		case "increment":
			run("I", rlib.Op{Kind: rlib.OpUpdate, ID: "x", Val: fm(1), Before: "delta"})
		case "alternate":
			run("I", rlib.Op{Kind: rlib.OpUpdate, ID: "x", Val: fm(int32(100 + fired%2))})
		case "delete":
			run("I", rlib.Op{Kind: rlib.OpDelete, ID: "x", AllowMissing: true})
		case "delete-readd":
			run("I", rlib.Op{Kind: rlib.OpDelete, ID: "x", AllowMissing: true})
			run("I", rlib.Op{Kind: rlib.OpAdd, ID: "x", Val: fm(c.X0 + int32(fired))})
		}
	})
	func() {
		defer verifhook.Set(nil)
		inDelete = true
		run("D", del)
		inDelete = false
	}()
	final := tg.final()
	if _, err := rlib.Linearizable(tg.model, hist, final); err != nil {
		var hs []string
		for _, h := range hist {
			hs = append(hs, h.String())
		}
		return fmt.Errorf("%v\n%v (fired %d times)\nhistory:\n  %s", err, c, fired, strings.Join(hs, "\n  "))
	}
	nt := ""
	if fired >= 2 {
		nt = c.String()
	}
	lib.Ev.Class(fmt.Sprintf("delete retries: interfering call ran %d times", fired))
	lib.Ev.Case(nt, func() any { return fmt.Sprintf("%v (fired %d)", c, fired) })
	return nil
}

// TestDeleteRetryExhaustive enumerates every combination of precondition, parameter, interfering call and number of
// consecutive interferences (0..8, on both sides of the Delete's attempt budget): whatever the Delete reports must be
// explainable by a one-at-a-time order, in particular it never removes a version its precondition did not accept.
func TestDeleteRetryExhaustive(t *testing.T) {
	if !verifhook.Enabled {
		t.Fatal("hooks are not compiled in (build with -tags verif)")
	}
	done := false
	lib.Enumerate(t, "TestDeleteRetryExhaustive", func(yield func(retryCase) bool) {
		for _, x0 := range []int32{0, 2} {
			for _, pre := range []string{"", "check<=", "check=", "cas"} {
				ns := []int32{0}
				if pre != "" {
					ns = nil
					for n := x0 - 1; n <= x0+9; n++ {
						ns = append(ns, n)
					}
					ns = append(ns, 100, 101)
				}
				for _, n := range ns {
					for _, intf := range []string{"increment", "alternate", "delete", "delete-readd"} {
						for fires := 0; fires <= 8; fires++ {
							for _, point := range deletePoints {
								for _, allow := range []bool{false, true} {
									eq := equivalences[(int(n)+fires+len(intf))%len(equivalences)]
									if !yield(retryCase{X0: x0, Pre: pre, N: n, Interfere: intf, Fires: fires, Point: point, Allow: allow, Equiv: eq}) {
										return
									}
								}
							}
						}
					}
				}
			}
		}
		done = true
	}, runRetryCase)
	lib.Ev.Exhaustive("Delete(x) x {no precondition, check counter<=N, check counter=N, expected value N} x N in x0-1..x0+9,100,101 x interfering {increment, alternate, delete, delete+re-add} run 0..8 consecutive times in {coll.delete.afterRead, coll.delete.beforeLock} x allow-missing", done)
}
