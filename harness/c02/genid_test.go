package c02

import (
	"fmt"
	"strings"
	"testing"

	"google.golang.org/grpc/codes"
	"google.golang.org/grpc/status"
	"pgregory.net/rapid"

	"github.com/smart-core-os/sc-golang/internal/testproto"
	"github.com/smart-core-os/sc-golang/internal/verifhook"
	"github.com/smart-core-os/sc-golang/pkg/resource"
	"github.com/smart-core-os/sc-golang/verifh/lib"
	"github.com/smart-core-os/sc-golang/verifh/rlib"
)

// TestGeneratedIDsUnderInterference: creates that let the collection pick the id, on a collection whose random source
// repeats itself (a configured WithRNG may: a test double, a counter that was reset, a poor generator). Two creates
// that come up with the same id are two Adds of one id: forced into each other's optimistic window, they never both
// succeed, every create that reports success has added exactly one item, and that item is the caller's.
func TestGeneratedIDsUnderInterference(t *testing.T) {
	if !verifhook.Enabled {
		t.Fatal("hooks are not compiled in (build with -tags verif)")
	}
	rapid.Check(t, func(t *rapid.T) {
		opts := []resource.Option{resource.WithRNG(rlib.StaticRNG{B: byte(rapid.IntRange(1, 9).Draw(t, "rngByte"))})}
		if rapid.Bool().Draw(t, "caseInsensitive") {
			opts = append(opts, resource.WithIDInterceptor(strings.ToLower))
		}
		col := resource.NewCollection(opts...)
		next := int32(1)
		type created struct {
			id  string
			val int32
		}
		var ok []created
		var hist []string
		create := func(t *rapid.T, label string) {
			v := next
			next++
			var got string
			wopts := []resource.WriteOption{resource.WithGenIDIfAbsent(), resource.WithIDCallback(func(id string) { got = id })}
			var err error
			if rapid.Bool().Draw(t, label+".viaUpdate") {
				_, err = col.Update("", &testproto.ForeignMessage{C: v}, append(wopts, resource.WithCreateIfAbsent())...)
			} else {
				_, err = col.Add("", &testproto.ForeignMessage{C: v}, wopts...)
			}
			hist = append(hist, fmt.Sprintf("%s: create(%d) => id %q, %v", label, v, got, status.Code(err)))
			switch status.Code(err) {
			case codes.OK:
				ok = append(ok, created{got, v})
			case codes.AlreadyExists, codes.Aborted, codes.Unavailable, codes.FailedPrecondition:
			default:
				t.Fatalf("unexpected error %v\nhistory: %s", err, strings.Join(hist, "; "))
			}
		}
		n := rapid.IntRange(1, 4).Draw(t, "creates")
		forced := 0
		for i := 0; i < n; i++ {
			point := rapid.SampledFrom([]string{"", "gau.afterRead", "gau.beforeLock"}).Draw(t, "window")
			k := rapid.IntRange(1, 2).Draw(t, "interferers")
			inHook, fired := false, false
			if point != "" {
				verifhook.Set(func(p string) {
					if p != point || inHook || fired {
						return
					}
					inHook, fired = true, true
					defer func() { inHook = false }()
					for j := 0; j < k; j++ {
						create(t, fmt.Sprintf("  inside create %d's %s window", i, point))
					}
				})
			}
			create(t, fmt.Sprintf("create %d", i))
			verifhook.Set(nil)
			if fired {
				forced++
			}
		}
		items := col.List()
		if len(items) != len(ok) {
			t.Fatalf("%d creates reported success, the collection holds %d items\nhistory: %s", len(ok), len(items), strings.Join(hist, "; "))
		}
		seen := map[string]bool{}
		for _, c := range ok {
			if c.id == "" || seen[c.id] {
				t.Fatalf("two successful creates were given the id %q (or none)\nhistory: %s", c.id, strings.Join(hist, "; "))
			}
			seen[c.id] = true
			m, found := col.Get(c.id)
			if !found || m.(*testproto.ForeignMessage).C != c.val {
				t.Fatalf("the create of value %d reported success under id %q, Get(%q) = %v, %v\nhistory: %s", c.val, c.id, c.id, m, found, strings.Join(hist, "; "))
			}
		}
		nt := ""
		if forced > 0 {
			nt = strings.Join(hist, ";")
			lib.Ev.Class("generated ids: a create forced into another create's window")
		}
		lib.Ev.Case(nt, func() any { return strings.Join(hist, "; ") })
	})
}
