package c02

import "runtime"

func runtimeGosched() { runtime.Gosched() }
