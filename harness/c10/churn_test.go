package c10

import (
	"context"
	"fmt"
	"sync"
	"sync/atomic"
	"testing"
	"time"

	"pgregory.net/rapid"

	"github.com/smart-core-os/sc-golang/internal/minibus"
	"github.com/smart-core-os/sc-golang/verifh/lib"
)

// TestBusChurn: listeners come and go while one sender keeps sending. A listener whose Listen call returned before send
// number b began, and which did not cancel before send number e-1 had returned, is live for the whole of every send in
// [b, e): it must have received exactly those, once each, in order (plus possibly some neighbours outside the range).
// Leaving listeners make almost every Send garbage-collect, so joins keep falling into and around that clean-up.
func TestBusChurn(t *testing.T) {
	rapid.Check(t, func(t *rapid.T) {
		if n := lib.WaitGoroutines(0, 3*time.Second, libFrames...); n != 0 {
			t.Skipf("VERIF-UNDECIDED %d library goroutines alive before the case", n)
		}
		var bus minibus.Bus
		nsends := rapid.IntRange(200, 1500).Draw(t, "sends")
		nchurn := rapid.IntRange(2, 8).Draw(t, "churners")
		lifetimes := rapid.SliceOfN(rapid.IntRange(0, 40), 8, 8).Draw(t, "lifetimes") // in sends
		var begun, ended atomic.Int64
		stop := make(chan struct{})
		var mu sync.Mutex
		var problems []string
		report := func(format string, a ...any) {
			mu.Lock()
			if len(problems) < 5 {
				problems = append(problems, fmt.Sprintf(format, a...))
			}
			mu.Unlock()
		}
		var joins atomic.Int64
		var wg sync.WaitGroup
		for c := 0; c < nchurn; c++ {
			c := c
			wg.Add(1)
			go func() {
				defer wg.Done()
				for round := 0; ; round++ {
					select {
					case <-stop:
						return
					default:
					}
					ctx, cancel := context.WithCancel(context.Background())
					ch := bus.Listen(ctx)
					b := begun.Load() // sends numbered >= b begin after Listen has returned
					joins.Add(1)
					var got []int
					recvDone := make(chan struct{})
					go func() {
						defer close(recvDone)
						for v := range ch {
							got = append(got, v.(event).seq)
						}
					}()
					// stay for a while (measured in sends), then leave
					stay := int64(lifetimes[(c+round)%len(lifetimes)])
					for ended.Load() < b+stay {
						select {
						case <-stop:
							stay = 0
						default:
							time.Sleep(5 * time.Microsecond)
						}
						if stay == 0 {
							break
						}
					}
					e := ended.Load() // sends numbered < e returned before the cancel below
					cancel()
					select {
					case <-recvDone:
					case <-time.After(closeBound):
						report("churner %d round %d: channel not closed within %v of its cancel", c, round, closeBound)
						return
					}
					// every send in [b, e) exactly once, in order
					idx := map[int]int{}
					for i, s := range got {
						if j, dup := idx[s]; dup {
							report("churner %d round %d: send %d delivered twice (positions %d and %d)", c, round, s, j, i)
						}
						idx[s] = i
						if i > 0 && got[i-1] >= s {
							report("churner %d round %d: send %d delivered after send %d", c, round, s, got[i-1])
						}
					}
					for s := b; s < e; s++ {
						if _, ok := idx[int(s)]; !ok {
							report("churner %d round %d: joined before send %d began and left after send %d had returned, but send %d never reached it (received %d events: first %v)", c, round, b, e-1, s, len(got), firstFew(got))
							break
						}
					}
				}
			}()
		}
		for k := 0; k < nsends; k++ {
			begun.Add(1)
			ctx, cancel := context.WithTimeout(context.Background(), sendGuard)
			bus.Send(ctx, event{0, k})
			timedOut := ctx.Err() != nil
			cancel()
			ended.Add(1)
			if timedOut {
				report("send %d blocked for longer than %v", k, sendGuard)
				break
			}
		}
		close(stop)
		wg.Wait()
		if len(problems) > 0 {
			t.Fatalf("%s\n(%d sends, %d churners, %d joins)", problems[0], nsends, nchurn, joins.Load())
		}
		if n := lib.WaitGoroutines(0, 3*time.Second, libFrames...); n != 0 {
			t.Fatalf("%d library goroutine(s) still running after every listener was cancelled", n)
		}
		lib.Ev.Class("bus:churn")
		lib.Ev.ClassN("bus:churn joins", joins.Load())
		lib.Ev.Case(fmt.Sprintf("churn|%d|%d|%v", nsends, nchurn, lifetimes), func() any {
			return fmt.Sprintf("bus churn: %d sends, %d churning listeners (%d joins), lifetimes %v", nsends, nchurn, joins.Load(), lifetimes)
		})
	})
}

func firstFew(s []int) []int {
	if len(s) > 6 {
		return s[:6]
	}
	return s
}
