package c10

import (
	"context"
	"fmt"
	"strings"
	"sync"
	"sync/atomic"
	"testing"
	"time"

	"pgregory.net/rapid"

	"github.com/smart-core-os/sc-golang/internal/minibus"
	"github.com/smart-core-os/sc-golang/internal/verifhook"
	"github.com/smart-core-os/sc-golang/verifh/lib"
)

const (
	closeBound = 10 * time.Second
	sendGuard  = 10 * time.Second
)

var libFrames = []string{"sc-golang/internal/minibus.", "sc-golang/pkg/resource."}

type event struct{ sender, seq int }

type busListener struct {
	idx        int
	ctx        context.Context
	cancel     context.CancelFunc
	ch         <-chan any
	stallAfter int // stop receiving after this many events (-1: never) until cancelled
	mu         sync.Mutex
	got        []event
	afterClose int
	closedSeen chan struct{}
	registered atomic.Int64 // logical time Listen returned (0 = not yet)
	cancelled  atomic.Int64 // logical time cancel was called (0 = not yet)
}

type busAction struct {
	point  string
	nth    int
	kind   string // cancel | listen
	target int
	fired  bool
}

func (a busAction) String() string {
	return fmt.Sprintf("%s#%d:%s(L%d) fired=%v", a.point, a.nth, a.kind, a.target, a.fired)
}

var busPoints = []string{"bus.send.afterSnapshot", "bus.send.beforeListener", "bus.listen.beforeRegister"}

// TestBusShutdown: listeners cancelled / created at every yield point of Send and Listen.
func TestBusShutdown(t *testing.T) {
	if !verifhook.Enabled {
		t.Fatal("hooks are not compiled in (build with -tags verif)")
	}
	rapid.Check(t, func(t *rapid.T) {
		if n := lib.WaitGoroutines(0, 3*time.Second, libFrames...); n != 0 {
			t.Skipf("VERIF-UNDECIDED %d library goroutines alive before the case", n)
		}
		var bus minibus.Bus
		var clock atomic.Int64
		nl := rapid.IntRange(0, 8).Draw(t, "listeners")
		ls := make([]*busListener, nl)
		for i := range ls {
			ctx, cancel := context.WithCancel(context.Background())
			ls[i] = &busListener{idx: i, ctx: ctx, cancel: cancel, stallAfter: -1, closedSeen: make(chan struct{})}
			if rapid.IntRange(0, 4).Draw(t, "stalls") == 0 {
				ls[i].stallAfter = rapid.IntRange(0, 3).Draw(t, "stallAfter")
			}
		}
		startNow := make([]bool, nl)
		for i := range startNow {
			startNow[i] = rapid.IntRange(0, 3).Draw(t, "startNow") > 0
		}
		nsend := rapid.IntRange(1, 8).Draw(t, "sends")
		nact := rapid.IntRange(0, 4).Draw(t, "actions")
		var actions []*busAction
		for i := 0; i < nact && nl > 0; i++ {
			actions = append(actions, &busAction{
				point:  rapid.SampledFrom(busPoints).Draw(t, "point"),
				nth:    rapid.IntRange(1, 10).Draw(t, "nth"),
				kind:   rapid.SampledFrom([]string{"cancel", "cancel", "listen"}).Draw(t, "kind"),
				target: rapid.IntRange(0, nl-1).Draw(t, "target"),
			})
		}
		cancelBetween := map[int]int{} // after send k cancel listener i
		for i := 0; i < nl; i++ {
			if rapid.IntRange(0, 3).Draw(t, "cancelBetween") == 0 {
				cancelBetween[i] = rapid.IntRange(0, nsend).Draw(t, "afterSend")
			}
		}
		var consumers sync.WaitGroup
		listen := func(l *busListener) {
			if l.registered.Load() != 0 {
				return
			}
			l.ch = bus.Listen(l.ctx)
			l.registered.Store(clock.Add(1))
			consumers.Add(1)
			go func() {
				defer consumers.Done()
				defer close(l.closedSeen)
				n := 0
				for {
					if l.stallAfter >= 0 && n >= l.stallAfter {
						<-l.ctx.Done() // stop receiving until cancelled, then drain
					}
					v, ok := <-l.ch
					if !ok {
						return
					}
					n++
					l.mu.Lock()
					l.got = append(l.got, v.(event))
					l.mu.Unlock()
				}
			}()
		}
		doCancel := func(l *busListener) {
			if l.cancelled.Load() == 0 {
				l.cancelled.Store(clock.Add(1))
				l.cancel()
			}
		}
		// every stalling listener gets cancelled by a timer so a Send never blocks for ever
		for _, l := range ls {
			if l.stallAfter >= 0 {
				l := l
				time.AfterFunc(time.Duration(1+l.idx)*time.Millisecond, func() { doCancel(l) })
			}
		}
		for i, l := range ls {
			if startNow[i] {
				listen(l)
			}
		}
		hits := map[string]int{}
		inHook := false
		verifhook.Set(func(point string) {
			if point == "bus.stop.begin" {
				return // runs on the listener's stop goroutine
			}
			if inHook {
				return
			}
			hits[point]++
			for _, a := range actions {
				if a.fired || a.point != point || a.nth != hits[point] {
					continue
				}
				a.fired = true
				inHook = true
				switch a.kind {
				case "cancel":
					doCancel(ls[a.target])
				case "listen":
					listen(ls[a.target])
				}
				inHook = false
			}
		})
		type sendRec struct{ begin, end int64 }
		sends := make([]sendRec, nsend)
		var sendErr string
		func() {
			defer verifhook.Set(nil)
			for k := 0; k < nsend; k++ {
				sends[k].begin = clock.Add(1)
				done := make(chan bool, 1)
				// the driver's own goroutine performs the Send so that inline hook actions are deterministic; a
				// watchdog only observes
				wd := time.AfterFunc(sendGuard, func() { done <- false })
				ok := bus.Send(context.Background(), event{0, k})
				wd.Stop()
				select {
				case <-done:
					sendErr = fmt.Sprintf("Send %d took longer than %v", k, sendGuard)
				default:
				}
				if !ok {
					sendErr = fmt.Sprintf("Send %d reported failure although its context is live", k)
				}
				sends[k].end = clock.Add(1)
				for i, after := range cancelBetween {
					if after == k {
						doCancel(ls[i])
					}
				}
			}
		}()
		for _, l := range ls {
			doCancel(l)
		}
		desc := func() string {
			var sb strings.Builder
			fmt.Fprintf(&sb, "listeners=%d sends=%d", nl, nsend)
			for i, l := range ls {
				fmt.Fprintf(&sb, "\n  L%d startNow=%v stallAfter=%d registered@%d cancelled@%d got=%v", i, startNow[i], l.stallAfter, l.registered.Load(), l.cancelled.Load(), l.got)
			}
			for _, a := range actions {
				fmt.Fprintf(&sb, "\n  %v", a)
			}
			return sb.String()
		}
		if sendErr != "" {
			t.Fatalf("%s\n%s", sendErr, desc())
		}
		// every consumer observes the close
		for _, l := range ls {
			if l.registered.Load() == 0 {
				continue
			}
			select {
			case <-l.closedSeen:
			case <-time.After(closeBound):
				t.Fatalf("listener L%d did not see its channel closed within %v of being cancelled\n%s", l.idx, closeBound, desc())
			}
		}
		// exactly once, in order, for listeners live for the whole send
		for _, l := range ls {
			reg := l.registered.Load()
			if reg == 0 {
				continue
			}
			seen := map[int]int{}
			last := -1
			for _, e := range l.got {
				seen[e.seq]++
				if e.seq <= last {
					t.Fatalf("listener L%d received event %d after %d: per-sender order broken or duplicate\n%s", l.idx, e.seq, last, desc())
				}
				last = e.seq
			}
			for k, s := range sends {
				if reg < s.begin && l.cancelled.Load() > s.end {
					if seen[k] != 1 {
						t.Fatalf("listener L%d was live for the whole of send %d but received it %d times\n%s", l.idx, k, seen[k], desc())
					}
				}
				if seen[k] > 1 {
					t.Fatalf("listener L%d received send %d %d times\n%s", l.idx, k, seen[k], desc())
				}
				if seen[k] == 1 && reg > s.end {
					t.Fatalf("listener L%d received send %d although it registered after that send returned\n%s", l.idx, k, desc())
				}
			}
		}
		if n := lib.WaitGoroutines(0, 3*time.Second, libFrames...); n != 0 {
			t.Fatalf("%d library goroutine(s) still running after every listener was cancelled:\n%s\n%s", n, lib.GoroutinesMatching(libFrames...)[0], desc())
		}
		fired := 0
		var parts []string
		for _, a := range actions {
			if a.fired {
				fired++
				parts = append(parts, a.String())
			}
		}
		nt := ""
		if fired > 0 {
			nt = fmt.Sprintf("bus|%d|%d|%s", nl, nsend, strings.Join(parts, ";"))
			for _, a := range actions {
				if a.fired {
					lib.Ev.Class("bus:" + a.kind + "@" + a.point)
				}
			}
		}
		lib.Ev.Case(nt, func() any { return "bus " + desc() })
	})
}

// TestBusStress: concurrent senders, listeners and cancels.
func TestBusStress(t *testing.T) {
	rapid.Check(t, func(t *rapid.T) {
		if n := lib.WaitGoroutines(0, 3*time.Second, libFrames...); n != 0 {
			t.Skipf("VERIF-UNDECIDED %d library goroutines alive before the case", n)
		}
		var bus minibus.Bus
		nsenders := rapid.IntRange(1, 3).Draw(t, "senders")
		per := rapid.IntRange(1, 20).Draw(t, "perSender")
		nl := rapid.IntRange(1, 8).Draw(t, "listeners")
		cancelAfter := make([]int, nl) // microseconds
		for i := range cancelAfter {
			cancelAfter[i] = rapid.IntRange(0, 2000).Draw(t, "cancelAfterUs")
		}
		var yi atomic.Int64
		verifhook.Set(func(string) {
			if yi.Add(1)%2 == 0 {
				time.Sleep(time.Duration(yi.Load()%7) * 5 * time.Microsecond)
			}
		})
		defer verifhook.Set(nil)
		type rec struct {
			got    []event
			closed chan struct{}
		}
		recs := make([]*rec, nl)
		var wg sync.WaitGroup
		for i := 0; i < nl; i++ {
			ctx, cancel := context.WithCancel(context.Background())
			r := &rec{closed: make(chan struct{})}
			recs[i] = r
			ch := bus.Listen(ctx)
			go func() {
				defer close(r.closed)
				for v := range ch {
					r.got = append(r.got, v.(event))
				}
			}()
			time.AfterFunc(time.Duration(cancelAfter[i])*time.Microsecond, cancel)
		}
		for s := 0; s < nsenders; s++ {
			s := s
			wg.Add(1)
			go func() {
				defer wg.Done()
				for k := 0; k < per; k++ {
					ctx, cancel := context.WithTimeout(context.Background(), sendGuard)
					bus.Send(ctx, event{s, k})
					if ctx.Err() != nil {
						cancel()
						panic("Send blocked for longer than the guard")
					}
					cancel()
				}
			}()
		}
		wg.Wait()
		for i, r := range recs {
			select {
			case <-r.closed:
			case <-time.After(closeBound):
				t.Fatalf("listener %d did not see its channel closed within %v", i, closeBound)
			}
			last := map[int]int{}
			for _, e := range r.got {
				if prev, ok := last[e.sender]; ok && e.seq <= prev {
					t.Fatalf("listener %d received sender %d's event %d after %d", i, e.sender, e.seq, prev)
				}
				last[e.sender] = e.seq
			}
		}
		if n := lib.WaitGoroutines(0, 3*time.Second, libFrames...); n != 0 {
			t.Fatalf("%d library goroutine(s) still running after every listener was cancelled:\n%s", n, lib.GoroutinesMatching(libFrames...)[0])
		}
		lib.Ev.Class("bus:stress")
		lib.Ev.Case(fmt.Sprintf("busstress|%d|%d|%d|%v", nsenders, per, nl, cancelAfter), func() any {
			return fmt.Sprintf("bus stress senders=%d per=%d listeners=%d cancelAfterUs=%v", nsenders, per, nl, cancelAfter)
		})
	})
}
