package c10

import (
	"context"
	"fmt"
	"sync"
	"testing"
	"time"

	"github.com/smart-core-os/sc-golang/pkg/resource"
	"github.com/smart-core-os/sc-golang/verifh/lib"
)

// quietCase: a backpressured subscriber of a collection stops receiving without cancelling for longer than any send
// budget in the tree, then either resumes or cancels. A single-item subscription of the same collection, live the whole
// time and receiving, must still end when its item is removed, and everything must terminate afterwards.
type quietCase struct {
	QuietFirst   bool   // the quiet subscriber registered before the single-item subscription
	Backpressure bool   // of the single-item subscription
	Ends         string // how the quiet spell ends: resume | cancel
}

func (c quietCase) String() string {
	return fmt.Sprintf("quietFirst=%v pullID-backpressure=%v quietSubscriber=%s", c.QuietFirst, c.Backpressure, c.Ends)
}

const quietFor = 5600 * time.Millisecond

func runQuietCase(c quietCase) error {
	col := resource.NewCollection(resource.WithInitialRecord("a", fm(0)), resource.WithInitialRecord("b", fm(0)))
	ctx, cancel := context.WithCancel(context.Background())
	defer cancel()
	qctx, qcancel := context.WithCancel(ctx)
	defer qcancel()
	wake := make(chan struct{})
	quietSeeded := make(chan struct{})
	quietClosed := make(chan struct{})
	openQuiet := func() {
		ch := col.Pull(qctx, resource.WithBackpressure(true))
		go func() {
			defer close(quietClosed)
			for i := 0; i < 2; i++ {
				<-ch
			}
			close(quietSeeded)
			<-wake
			for range ch {
			}
		}()
	}
	itemSeeded := make(chan struct{})
	itemClosed := make(chan struct{})
	openItem := func() {
		ch := col.PullID(ctx, "b", resource.WithBackpressure(c.Backpressure))
		go func() {
			defer close(itemClosed)
			first := true
			for range ch {
				if first {
					first = false
					close(itemSeeded)
				}
			}
		}()
	}
	if c.QuietFirst {
		openQuiet()
		openItem()
	} else {
		openItem()
		openQuiet()
	}
	for _, ch := range []chan struct{}{quietSeeded, itemSeeded} {
		select {
		case <-ch:
		case <-time.After(10 * time.Second):
			return fmt.Errorf("the seeds of an idle collection did not arrive within 10s")
		}
	}
	time.AfterFunc(quietFor, func() {
		if c.Ends == "cancel" {
			qcancel()
		}
		close(wake)
	})
	written := make(chan error, 1)
	go func() {
		// the first change is absorbed by the quiet subscriber's forwarding goroutine, the removal waits for it
		if _, err := col.Update("a", fm(1)); err != nil {
			written <- err
			return
		}
		_, err := col.Delete("b")
		written <- err
	}()
	select {
	case err := <-written:
		if err != nil {
			return fmt.Errorf("write failed: %v", err)
		}
	case <-time.After(quietFor + closeBound):
		return fmt.Errorf("Delete(b) still had not returned %v after the quiet subscriber %sd", closeBound, c.Ends)
	}
	// b is removed (the write returned) and the quiet spell is over or about to be: the single-item stream ends
	select {
	case <-itemClosed:
	case <-time.After(quietFor + closeBound):
		return fmt.Errorf("PullID(b) was open and receiving the whole time, b was removed, the quiet subscriber has %sd - its stream is still open %v later", c.Ends, closeBound)
	}
	cancel()
	select {
	case <-quietClosed:
	case <-time.After(closeBound):
		return fmt.Errorf("the quiet subscriber's channel did not close within %v of cancelling", closeBound)
	}
	return nil
}

// TestQuietBackpressuredSubscriber runs every scenario side by side (about one quiet spell of wall time), then checks
// that no goroutine of the library is left.
func TestQuietBackpressuredSubscriber(t *testing.T) {
	if n := lib.WaitGoroutines(0, 3*time.Second, libFrames...); n != 0 {
		t.Skipf("VERIF-UNDECIDED %d library goroutines alive before the test", n)
	}
	var cases []quietCase
	for _, qf := range []bool{true, false} {
		for _, bp := range []bool{false, true} {
			for _, e := range []string{"resume", "cancel"} {
				cases = append(cases, quietCase{qf, bp, e})
			}
		}
	}
	errs := make([]error, len(cases))
	var wg sync.WaitGroup
	for i, c := range cases {
		wg.Add(1)
		go func(i int, c quietCase) {
			defer wg.Done()
			errs[i] = runQuietCase(c)
		}(i, c)
	}
	wg.Wait()
	for i, c := range cases {
		if errs[i] != nil {
			t.Errorf("%v: %v", c, errs[i])
			continue
		}
		c := c
		nt := ""
		if c.QuietFirst {
			nt = "quiet|" + c.String()
		}
		lib.Ev.Class("quiet-subscriber:" + c.Ends)
		lib.Ev.Case(nt, func() any { return "backpressured subscriber quiet for 5.6s: " + c.String() })
	}
	if !t.Failed() {
		if n := lib.WaitGoroutines(0, 5*time.Second, libFrames...); n != 0 {
			t.Errorf("%d library goroutine(s) still running after every subscription ended:\n%s", n, lib.GoroutinesMatching(libFrames...)[0])
		}
	}
	lib.Ev.Exhaustive("quiet subscriber registered before/after a PullID of the removed item x PullID backpressure on/off x quiet spell ends by resuming/cancelling", !t.Failed())
}

// TestAbandonedLossySubscriberManyIDs: a subscriber without backpressure stops receiving without cancelling while a
// writer touches many DIFFERENT items (more than any buffer one might think of), and cancels afterwards. The writer is
// never held up, the cancel closes the channel and every goroutine started for the subscription ends - how much was
// pending makes no difference.
func TestAbandonedLossySubscriberManyIDs(t *testing.T) {
	if n := lib.WaitGoroutines(0, 3*time.Second, libFrames...); n != 0 {
		t.Skipf("VERIF-UNDECIDED %d library goroutines alive before the test", n)
	}
	done := true
	for _, kind := range []string{"pull", "pullid"} {
		for _, takes := range []int{0, 1, 3} {
			for _, nids := range []int{40, 1100, 2500, 6000} {
				desc := fmt.Sprintf("%s without backpressure, consumer takes %d event(s) then stops; %d distinct ids written; then cancel", kind, takes, nids)
				col := resource.NewCollection(resource.WithInitialRecord("k", fm(0)))
				ctx, cancel := context.WithCancel(context.Background())
				closed := make(chan struct{})
				recv := func() bool { return false }
				if kind == "pull" {
					ch := col.Pull(ctx)
					recv = func() bool { _, ok := <-ch; return ok }
				} else {
					ch := col.PullID(ctx, "k")
					recv = func() bool { _, ok := <-ch; return ok }
				}
				taken := make(chan struct{})
				go func() {
					defer close(closed)
					for i := 0; i < takes; i++ {
						if i == 1 {
							close(taken)
						}
						if !recv() {
							return
						}
					}
					if takes <= 1 {
						close(taken)
					}
					<-ctx.Done()
					for recv() {
					}
				}()
				<-taken
				written := make(chan error, 1)
				go func() {
					for i := 0; i < nids; i++ {
						if _, err := col.Update(fmt.Sprintf("id-%05d", i), fm(int32(i)), resource.WithCreateIfAbsent()); err != nil {
							written <- fmt.Errorf("write %d failed: %v", i, err)
							return
						}
						if i%50 == 0 {
							// the watched item changes as well now and then
							if _, err := col.Update("k", fm(int32(i+1))); err != nil {
								written <- fmt.Errorf("write to k failed: %v", err)
								return
							}
						}
					}
					written <- nil
				}()
				select {
				case err := <-written:
					if err != nil {
						t.Fatalf("%s: %v", desc, err)
					}
				case <-time.After(20 * time.Second):
					done = false
					t.Fatalf("%s: the writes had not finished after 20s: a subscriber without backpressure that is not receiving must not hold writers up", desc)
				}
				cancel()
				select {
				case <-closed:
				case <-time.After(closeBound):
					t.Fatalf("%s: the channel did not close within %v of the cancel", desc, closeBound)
				}
				if n := lib.WaitGoroutines(0, 5*time.Second, libFrames...); n != 0 {
					t.Fatalf("%s: %d library goroutine(s) still running after the cancel:\n%s", desc, n, lib.GoroutinesMatching(libFrames...)[0])
				}
				nt := ""
				if nids > 1000 {
					nt = "abandoned|" + desc
				}
				lib.Ev.Class("abandoned-lossy:" + kind)
				lib.Ev.Case(nt, func() any { return desc })
			}
		}
	}
	lib.Ev.Exhaustive("Pull/PullID without backpressure x consumer takes 0/1/3 events before it stops x 40/1100/2500/6000 distinct ids written while it is away, then cancel", done)
}
