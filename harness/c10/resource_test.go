package c10

import (
	"context"
	"fmt"
	"strings"
	"sync"
	"sync/atomic"
	"testing"
	"time"

	"google.golang.org/protobuf/proto"
	"pgregory.net/rapid"

	"github.com/smart-core-os/sc-golang/internal/testproto"
	"github.com/smart-core-os/sc-golang/internal/verifhook"
	"github.com/smart-core-os/sc-golang/pkg/resource"
	"github.com/smart-core-os/sc-golang/verifh/lib"
)

func fm(c int32) proto.Message { return &testproto.ForeignMessage{C: c} }

type rsub struct {
	idx          int
	kind         string // pull | pullid
	id           string
	updatesOnly  bool
	backpressure bool
	stallAfter   int
	ctx          context.Context
	cancel       context.CancelFunc
	cancelled    atomic.Bool
	opened       atomic.Bool
	events       atomic.Int64
	closedSeen   chan struct{}
}

func (s *rsub) String() string {
	return fmt.Sprintf("sub%d %s(%s) updatesOnly=%v backpressure=%v stallAfter=%d", s.idx, s.kind, s.id, s.updatesOnly, s.backpressure, s.stallAfter)
}

var resourcePoints = []string{
	"gau.afterRead", "gau.beforeLock", "value.set.afterCommit", "coll.update.afterCommit", "coll.delete.afterRead", "coll.delete.beforeLock",
	"bus.send.afterSnapshot", "bus.send.beforeListener", "value.sub.afterSnapshot", "coll.sub.afterSnapshot", "bus.listen.beforeRegister",
}

// TestResourceShutdown: cancels (and new subscriptions) injected at every hook point while a writer is active; stalled
// consumers that cancel later; PullID ends when its item is removed; everything terminates.
func TestResourceShutdown(t *testing.T) {
	if !verifhook.Enabled {
		t.Fatal("hooks are not compiled in (build with -tags verif)")
	}
	rapid.Check(t, func(t *rapid.T) {
		if n := lib.WaitGoroutines(0, 3*time.Second, libFrames...); n != 0 {
			t.Skipf("VERIF-UNDECIDED %d library goroutines alive before the case", n)
		}
		isValue := rapid.IntRange(0, 2).Draw(t, "isValue") == 0
		var val *resource.Value
		var col *resource.Collection
		// how the resource is configured has no bearing on how its subscriptions end
		var ropts []resource.Option
		noDup := rapid.IntRange(0, 2).Draw(t, "noDuplicates") == 1
		if noDup {
			ropts = append(ropts, resource.WithNoDuplicates())
		}
		if isValue {
			val = resource.NewValue(append(ropts, resource.WithInitialValue(fm(0)))...)
		} else {
			col = resource.NewCollection(append(ropts, resource.WithInitialRecord("a", fm(0)), resource.WithInitialRecord("b", fm(0)))...)
		}
		ns := rapid.IntRange(0, 6).Draw(t, "subs")
		subs := make([]*rsub, ns)
		for i := range subs {
			ctx, cancel := context.WithCancel(context.Background())
			s := &rsub{idx: i, kind: "pull", ctx: ctx, cancel: cancel, stallAfter: -1, closedSeen: make(chan struct{}),
				updatesOnly: rapid.Bool().Draw(t, "updatesOnly"), backpressure: rapid.Bool().Draw(t, "backpressure")}
			if !isValue && rapid.IntRange(0, 2).Draw(t, "pullid") == 0 {
				s.kind, s.id = "pullid", rapid.SampledFrom([]string{"a", "b", "c"}).Draw(t, "pid")
			}
			if rapid.IntRange(0, 3).Draw(t, "stalls") == 0 {
				s.stallAfter = rapid.IntRange(0, 2).Draw(t, "stallAfter")
			}
			subs[i] = s
		}
		var consumers sync.WaitGroup
		open := func(s *rsub) {
			if s.opened.Swap(true) {
				return
			}
			opts := []resource.ReadOption{resource.WithUpdatesOnly(s.updatesOnly), resource.WithBackpressure(s.backpressure)}
			drain := func(recv func() bool) {
				consumers.Add(1)
				go func() {
					defer consumers.Done()
					defer close(s.closedSeen)
					n := 0
					for {
						if s.stallAfter >= 0 && n >= s.stallAfter {
							<-s.ctx.Done()
						}
						if !recv() {
							return
						}
						n++
						s.events.Add(1)
					}
				}()
			}
			switch {
			case isValue:
				ch := val.Pull(s.ctx, opts...)
				drain(func() bool { _, ok := <-ch; return ok })
			case s.kind == "pullid":
				ch := col.PullID(s.ctx, s.id, opts...)
				drain(func() bool { _, ok := <-ch; return ok })
			default:
				ch := col.Pull(s.ctx, opts...)
				drain(func() bool { _, ok := <-ch; return ok })
			}
		}
		doCancel := func(s *rsub) {
			if !s.cancelled.Swap(true) {
				s.cancel()
			}
		}
		openNow := make([]bool, ns)
		for i := range subs {
			openNow[i] = rapid.IntRange(0, 3).Draw(t, "openNow") > 0
		}
		type action struct {
			point string
			nth   int
			kind  string
			sub   int
			fired bool
		}
		var actions []*action
		for i := 0; i < rapid.IntRange(0, 4).Draw(t, "actions") && ns > 0; i++ {
			actions = append(actions, &action{point: rapid.SampledFrom(resourcePoints).Draw(t, "point"), nth: rapid.IntRange(1, 6).Draw(t, "nth"),
				kind: rapid.SampledFrom([]string{"cancel", "cancel", "open"}).Draw(t, "akind"), sub: rapid.IntRange(0, ns-1).Draw(t, "asub")})
		}
		// writes
		type wr struct {
			kind string
			id   string
		}
		nw := rapid.IntRange(1, 10).Draw(t, "writes")
		writes := make([]wr, nw)
		for i := range writes {
			writes[i] = wr{"update", "a"}
			if !isValue {
				writes[i] = wr{rapid.SampledFrom([]string{"update", "update", "delete"}).Draw(t, "wkind"), rapid.SampledFrom([]string{"a", "b", "c"}).Draw(t, "wid")}
			}
		}
		for _, s := range subs {
			if s.stallAfter >= 0 {
				s := s
				// a stalled consumer cancels a little later (a backpressured stall holds the writer until then)
				time.AfterFunc(time.Duration(2+s.idx)*time.Millisecond, func() { doCancel(s) })
			}
		}
		for i, s := range subs {
			if openNow[i] {
				open(s)
			}
		}
		hits := map[string]int{}
		var inDelete bool
		inHook := false
		var helpers sync.WaitGroup
		writer := lib.GoID()
		verifhook.Set(func(point string) {
			// only points reached by the writing goroutine count: helper goroutines opening subscriptions pass hook
			// points too, concurrently with it
			if point == "bus.stop.begin" || lib.GoID() != writer || inHook {
				return
			}
			hits[point]++
			for _, a := range actions {
				if a.fired || a.point != point || a.nth != hits[point] {
					continue
				}
				a.fired = true
				switch a.kind {
				case "cancel":
					doCancel(subs[a.sub])
				case "open":
					// opening takes the read lock: not from inside a locked window or Delete's critical section
					if strings.Contains(point, ".sub.") || point == "bus.listen.beforeRegister" || (inDelete && strings.HasPrefix(point, "bus.send")) {
						helpers.Add(1)
						go func(s *rsub) { defer helpers.Done(); open(s) }(subs[a.sub])
					} else {
						// inline: the subscription is complete before the writer takes its next step. Run with a
						// watchdog: were the point inside a critical section (the write holding the resource's lock
						// here), the subscribe could only finish after the writer has moved on - then let it
						helpers.Add(1)
						opened := make(chan struct{})
						go func(s *rsub) { defer helpers.Done(); defer close(opened); open(s) }(subs[a.sub])
						select {
						case <-opened:
						case <-time.After(3 * time.Second):
							lib.Ev.Class("a subscribe issued at " + point + " could not finish before the writer moved on")
						}
					}
				}
			}
		})
		removedAfterOpen := map[int]bool{} // pullid subs whose item was deleted after they were opened (and before cancel)
		var slow string
		func() {
			defer verifhook.Set(nil)
			for i, w := range writes {
				t0 := time.Now()
				var err error
				switch {
				case isValue:
					_, err = val.Set(fm(int32(i + 1)))
				case w.kind == "delete":
					openBefore := map[int]bool{}
					for _, s := range subs {
						if s.kind == "pullid" && s.id == w.id && s.opened.Load() && !s.cancelled.Load() {
							openBefore[s.idx] = true
						}
					}
					inDelete = true
					var old proto.Message
					dopts := []resource.WriteOption{resource.WithAllowMissing(true)}
					if i%2 == 1 {
						// the writer says when the item went away: long ago. A removal is a removal whenever it is said to have happened
						dopts = append(dopts, resource.WithWriteTime(time.Unix(1, 0)))
					}
					old, err = col.Delete(w.id, dopts...)
					inDelete = false
					if err == nil && old != nil {
						for idx := range openBefore {
							removedAfterOpen[idx] = true
						}
					}
				default:
					_, err = col.Update(w.id, fm(int32(i+1)), resource.WithCreateIfAbsent())
				}
				if d := time.Since(t0); d > 4*time.Second {
					slow = fmt.Sprintf("write %d (%v) took %v: cancelled or abandoned subscribers must not stall writers (err=%v)", i, w, d, err)
				}
			}
		}()
		helpers.Wait()
		desc := func() string {
			var sb strings.Builder
			fmt.Fprintf(&sb, "isValue=%v noDuplicates=%v writes=%v", isValue, noDup, writes)
			for i, s := range subs {
				fmt.Fprintf(&sb, "\n  %v openNow=%v opened=%v cancelled=%v events=%d", s, openNow[i], s.opened.Load(), s.cancelled.Load(), s.events.Load())
			}
			for _, a := range actions {
				fmt.Fprintf(&sb, "\n  %s#%d %s sub%d fired=%v", a.point, a.nth, a.kind, a.sub, a.fired)
			}
			return sb.String()
		}
		if slow != "" {
			t.Fatalf("%s\n%s", slow, desc())
		}
		// a single-item subscription ends when its item is removed
		for idx := range removedAfterOpen {
			s := subs[idx]
			if s.stallAfter >= 0 {
				continue // it is not receiving, its end is observed after its cancel below
			}
			if !s.backpressure {
				// a lossy stream may merge a remove with a following re-add into a replace: the end is only certain when
				// the item stays removed
				if _, exists := col.Get(s.id); exists {
					continue
				}
				// ... and an add merged with its remove cancels out: a subscriber that never saw the item has nothing to end on
				if s.events.Load() == 0 {
					continue
				}
			}
			select {
			case <-s.closedSeen:
			case <-time.After(closeBound):
				t.Fatalf("%v: its item was removed while it was subscribed but the stream did not end within %v\n%s", s, closeBound, desc())
			}
		}
		for _, s := range subs {
			doCancel(s)
		}
		for _, s := range subs {
			if !s.opened.Load() {
				continue
			}
			select {
			case <-s.closedSeen:
			case <-time.After(closeBound):
				t.Fatalf("%v: channel not closed within %v of cancelling its context\n%s", s, closeBound, desc())
			}
		}
		if n := lib.WaitGoroutines(0, 3*time.Second, libFrames...); n != 0 {
			t.Fatalf("%d library goroutine(s) still running after every subscription was cancelled and drained:\n%s\n%s", n, lib.GoroutinesMatching(libFrames...)[0], desc())
		}
		fired := 0
		var parts []string
		for _, a := range actions {
			if a.fired {
				fired++
				parts = append(parts, fmt.Sprintf("%s#%d:%s", a.point, a.nth, a.kind))
				lib.Ev.Class("resource:" + a.kind + "@" + a.point)
			}
		}
		stalled := false
		for _, s := range subs {
			if s.stallAfter >= 0 && s.opened.Load() {
				stalled = true
			}
		}
		nt := ""
		if fired > 0 || stalled {
			var ss []string
			for _, s := range subs {
				ss = append(ss, s.String())
			}
			nt = fmt.Sprintf("res|%v|%s|%s|%v", isValue, strings.Join(parts, ";"), strings.Join(ss, ";"), writes)
		}
		if len(removedAfterOpen) > 0 {
			lib.Ev.Class("resource:pullid item removed while subscribed")
		}
		lib.Ev.Case(nt, func() any { return "resource shutdown " + desc() })
	})
}

// TestResourceShutdownStress: writers, subscribers and cancels on real goroutines.
func TestResourceShutdownStress(t *testing.T) {
	rapid.Check(t, func(t *rapid.T) {
		if n := lib.WaitGoroutines(0, 3*time.Second, libFrames...); n != 0 {
			t.Skipf("VERIF-UNDECIDED %d library goroutines alive before the case", n)
		}
		isValue := rapid.Bool().Draw(t, "isValue")
		var val *resource.Value
		var col *resource.Collection
		if isValue {
			val = resource.NewValue(resource.WithInitialValue(fm(0)))
		} else {
			col = resource.NewCollection(resource.WithInitialRecord("a", fm(0)))
		}
		ns := rapid.IntRange(1, 8).Draw(t, "subs")
		nwriters := rapid.IntRange(1, 4).Draw(t, "writers")
		per := rapid.IntRange(1, 20).Draw(t, "per")
		type sd struct {
			cancelUs     int
			backpressure bool
			reads        bool
		}
		sds := make([]sd, ns)
		for i := range sds {
			sds[i] = sd{rapid.IntRange(0, 3000).Draw(t, "cancelUs"), rapid.Bool().Draw(t, "bp"), rapid.IntRange(0, 3).Draw(t, "reads") > 0}
		}
		var yi atomic.Int64
		verifhook.Set(func(string) {
			if yi.Add(1)%2 == 0 {
				time.Sleep(time.Duration(yi.Load()%7) * 5 * time.Microsecond)
			}
		})
		defer verifhook.Set(nil)
		closed := make([]chan struct{}, ns)
		for i := range sds {
			ctx, cancel := context.WithCancel(context.Background())
			closed[i] = make(chan struct{})
			drain := func(recv func() bool, reads bool, done chan struct{}) {
				go func() {
					defer close(done)
					if !reads {
						<-ctx.Done()
					}
					for recv() {
					}
				}()
			}
			if isValue {
				ch := val.Pull(ctx, resource.WithBackpressure(sds[i].backpressure))
				drain(func() bool { _, ok := <-ch; return ok }, sds[i].reads, closed[i])
			} else if i%3 == 2 {
				ch := col.PullID(ctx, "a", resource.WithBackpressure(sds[i].backpressure))
				drain(func() bool { _, ok := <-ch; return ok }, sds[i].reads, closed[i])
			} else {
				ch := col.Pull(ctx, resource.WithBackpressure(sds[i].backpressure))
				drain(func() bool { _, ok := <-ch; return ok }, sds[i].reads, closed[i])
			}
			time.AfterFunc(time.Duration(sds[i].cancelUs)*time.Microsecond, cancel)
		}
		var wg sync.WaitGroup
		var slow atomic.Value
		for w := 0; w < nwriters; w++ {
			w := w
			wg.Add(1)
			go func() {
				defer wg.Done()
				for k := 0; k < per; k++ {
					t0 := time.Now()
					if isValue {
						_, _ = val.Set(fm(int32(w*1000 + k)))
					} else if k%5 == 4 {
						_, _ = col.Delete("a", resource.WithAllowMissing(true))
					} else {
						_, _ = col.Update("a", fm(int32(w*1000+k)), resource.WithCreateIfAbsent())
					}
					if d := time.Since(t0); d > 4*time.Second {
						slow.Store(fmt.Sprintf("a write took %v while subscribers were being cancelled", d))
					}
				}
			}()
		}
		done := make(chan struct{})
		go func() { wg.Wait(); close(done) }()
		select {
		case <-done:
		case <-time.After(30 * time.Second):
			t.Fatalf("writers did not finish within 30s: a cancelled or abandoned subscriber stalls them (isValue=%v subs=%+v)", isValue, sds)
		}
		if s := slow.Load(); s != nil {
			t.Fatalf("%v (isValue=%v subs=%+v)", s, isValue, sds)
		}
		for i := range closed {
			select {
			case <-closed[i]:
			case <-time.After(closeBound):
				t.Fatalf("subscription %d: channel not closed within %v of cancel (isValue=%v subs=%+v)", i, closeBound, isValue, sds)
			}
		}
		if n := lib.WaitGoroutines(0, 3*time.Second, libFrames...); n != 0 {
			t.Fatalf("%d library goroutine(s) still running after every subscription was cancelled:\n%s", n, lib.GoroutinesMatching(libFrames...)[0])
		}
		lib.Ev.Class("resource:stress")
		lib.Ev.Case(fmt.Sprintf("resstress|%v|%d|%d|%+v", isValue, nwriters, per, sds), func() any {
			return fmt.Sprintf("resource shutdown stress isValue=%v writers=%dx%d subs=%+v", isValue, nwriters, per, sds)
		})
	})
}
