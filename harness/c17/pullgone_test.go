package c17

import (
	"context"
	"errors"
	"fmt"
	"sync/atomic"
	"testing"
	"time"

	"google.golang.org/grpc"
	"pgregory.net/rapid"

	"github.com/smart-core-os/sc-api/go/traits"

	"github.com/smart-core-os/sc-golang/pkg/group"
	"github.com/smart-core-os/sc-golang/pkg/trait/lightpb"
	"github.com/smart-core-os/sc-golang/pkg/trait/onoffpb"
	"github.com/smart-core-os/sc-golang/verifh/lib"
)

// feedStream is a member's Pull stream that does deliver: `left` messages, then it waits for its context like a real
// client stream and ends with the context's error.
type feedStream[T any] struct {
	grpc.ClientStream
	ctx  context.Context
	left int
	mk   func(k int) *T
}

func (f *feedStream[T]) Recv() (*T, error) {
	if f.left > 0 {
		f.left--
		return f.mk(f.left), nil
	}
	<-f.ctx.Done()
	return nil, f.ctx.Err()
}
func (f *feedStream[T]) Context() context.Context { return f.ctx }

type feedOnOff struct {
	traits.OnOffApiClient
	msgs int
}

func (f *feedOnOff) PullOnOff(ctx context.Context, in *traits.PullOnOffRequest, _ ...grpc.CallOption) (traits.OnOffApi_PullOnOffClient, error) {
	return &feedStream[traits.PullOnOffResponse]{ctx: ctx, left: f.msgs, mk: func(k int) *traits.PullOnOffResponse {
		return &traits.PullOnOffResponse{Changes: []*traits.PullOnOffResponse_Change{{Name: in.Name, OnOff: &traits.OnOff{State: traits.OnOff_State(1 + k%2)}}}}
	}}, nil
}

type feedLight struct {
	traits.LightApiClient
	msgs int
}

func (f *feedLight) PullBrightness(ctx context.Context, in *traits.PullBrightnessRequest, _ ...grpc.CallOption) (traits.LightApi_PullBrightnessClient, error) {
	return &feedStream[traits.PullBrightnessResponse]{ctx: ctx, left: f.msgs, mk: func(k int) *traits.PullBrightnessResponse {
		return &traits.PullBrightnessResponse{Changes: []*traits.PullBrightnessResponse_Change{{Name: in.Name, Brightness: &traits.Brightness{LevelPercent: float32(10 + k)}}}}
	}}, nil
}

// goneStream is the subscriber's side of a group Pull whose subscriber goes away while a change is being delivered.
type goneStream[T any] struct {
	grpc.ServerStream
	ctx      context.Context
	cancel   context.CancelFunc
	failAt   int32 // the Send (1-based) at which the subscriber is gone
	how      string
	sends    atomic.Int32
	sendGone atomic.Bool
}

func (g *goneStream[T]) Context() context.Context { return g.ctx }
func (g *goneStream[T]) Send(*T) error {
	if g.sends.Add(1) < g.failAt {
		return nil
	}
	g.sendGone.Store(true)
	switch g.how {
	case "cancelled then Send fails": // what a dropped connection looks like
		g.cancel()
		return errors.New("transport is closing")
	case "Send fails, context still live": // e.g. a message the transport refuses
		return errors.New("message too large")
	default: // the context ends, this Send is still accepted
		g.cancel()
		return nil
	}
}

var pullFrames = []string{"onoffpb.(*Group).PullOnOff", "lightpb.(*Group).PullBrightness", "sc-golang/pkg/group."}

// TestGroupPullSubscriberGone: a group Pull whose members deliver changes and whose subscriber goes away in the middle
// of a delivery. The call returns and every goroutine it started ends once its members have returned.
func TestGroupPullSubscriberGone(t *testing.T) {
	rapid.Check(t, func(t *rapid.T) {
		if n := lib.WaitGoroutines(0, 3*time.Second, pullFrames...); n != 0 {
			t.Skipf("VERIF-UNDECIDED %d group goroutines alive before the case", n)
		}
		via := rapid.SampledFrom([]string{"onoffpb.Group.PullOnOff", "lightpb.Group.PullBrightness"}).Draw(t, "via")
		n := rapid.IntRange(1, 4).Draw(t, "members")
		msgs := rapid.IntRange(1, 4).Draw(t, "messagesPerMember")
		strategy := strategies[rapid.IntRange(0, len(strategies)-1).Draw(t, "strategy")]
		how := rapid.SampledFrom([]string{"cancelled then Send fails", "Send fails, context still live", "cancelled, Send accepted"}).Draw(t, "how")
		failAt := int32(rapid.IntRange(1, 3).Draw(t, "failAtSend"))
		desc := fmt.Sprintf("%s members=%d (each delivers %d changes) strategy=%s subscriber gone at send %d: %s", via, n, msgs, stratName(strategy), failAt, how)
		ctx, cancel := context.WithCancel(context.Background())
		defer cancel()
		done := make(chan error, 1)
		var gone func() bool
		if via == "onoffpb.Group.PullOnOff" {
			g := onoffpb.NewGroup(&feedOnOff{msgs: msgs}, memberNames(n)...)
			g.ReadExecution = strategy
			st := &goneStream[traits.PullOnOffResponse]{ctx: ctx, cancel: cancel, failAt: failAt, how: how}
			gone = st.sendGone.Load
			go func() { done <- g.PullOnOff(&traits.PullOnOffRequest{Name: "the-group"}, st) }()
		} else {
			g := lightpb.NewGroup(&feedLight{msgs: msgs}, memberNames(n)...)
			g.ReadExecution = strategy
			st := &goneStream[traits.PullBrightnessResponse]{ctx: ctx, cancel: cancel, failAt: failAt, how: how}
			gone = st.sendGone.Load
			go func() { done <- g.PullBrightness(&traits.PullBrightnessRequest{Name: "the-group"}, st) }()
		}
		// if fewer changes are forwarded than failAt, the subscriber simply leaves a little later
		timer := time.AfterFunc(300*time.Millisecond, cancel)
		defer timer.Stop()
		select {
		case <-done:
		case <-time.After(10 * time.Second):
			t.Fatalf("%s: the Pull call had not returned 10s after the subscriber was gone", desc)
		}
		cancel()
		if left := lib.WaitGoroutines(0, 3*time.Second, pullFrames...); left != 0 {
			t.Fatalf("%s: %d goroutine(s) started by the call still running 3s after it returned and all members had returned:\n%s", desc, left, lib.GoroutinesMatching(pullFrames...)[0])
		}
		nt := ""
		if gone() {
			nt = desc
			lib.Ev.Class("group-pull subscriber gone during a delivery: " + how)
		}
		lib.Ev.Case(nt, func() any { return desc })
	})
}

var _ = group.ExecutionStrategyAll
