package c17

import (
	"context"
	"errors"
	"fmt"
	"io"
	"strconv"
	"strings"
	"testing"

	"google.golang.org/grpc"
	"google.golang.org/grpc/codes"
	"google.golang.org/grpc/status"
	"google.golang.org/protobuf/proto"
	"pgregory.net/rapid"

	"github.com/smart-core-os/sc-api/go/traits"

	"github.com/smart-core-os/sc-golang/pkg/group"
	"github.com/smart-core-os/sc-golang/pkg/trait/lightpb"
	"github.com/smart-core-os/sc-golang/pkg/trait/onoffpb"
	"github.com/smart-core-os/sc-golang/verifh/lib"
)

// memberIndex finds which member a request is for ("m<i>"), checking that the group named exactly one known member.
func memberIndex(name string, n int) (int, error) {
	i, err := strconv.Atoi(strings.TrimPrefix(name, "m"))
	if err != nil || !strings.HasPrefix(name, "m") || i < 0 || i >= n {
		return 0, status.Errorf(codes.Internal, "the group called a member named %q", name)
	}
	return i, nil
}

func memberNames(n int) []string {
	names := make([]string, n)
	for i := range names {
		names[i] = "m" + strconv.Itoa(i)
	}
	return names
}

// fakeLight / fakeOnOff are the member clients of a trait group: each call is one gated member of the case.
type fakeLight struct {
	traits.LightApiClient
	members []group.Member
	wantReq proto.Message // what every member request must look like apart from its name
}

func (f *fakeLight) call(ctx context.Context, name string, req proto.Message) (*traits.Brightness, error) {
	i, err := memberIndex(name, len(f.members))
	if err != nil {
		return nil, err
	}
	if !proto.Equal(req, f.wantReq) {
		return nil, status.Errorf(codes.Internal, "member %d was sent %v, the group was asked %v", i, req, f.wantReq)
	}
	if _, err := f.members[i](ctx); err != nil {
		return nil, err
	}
	return &traits.Brightness{LevelPercent: float32(i + 1)}, nil
}

func (f *fakeLight) GetBrightness(ctx context.Context, in *traits.GetBrightnessRequest, _ ...grpc.CallOption) (*traits.Brightness, error) {
	c := proto.Clone(in).(*traits.GetBrightnessRequest)
	c.Name = ""
	return f.call(ctx, in.Name, c)
}

func (f *fakeLight) UpdateBrightness(ctx context.Context, in *traits.UpdateBrightnessRequest, _ ...grpc.CallOption) (*traits.Brightness, error) {
	c := proto.Clone(in).(*traits.UpdateBrightnessRequest)
	c.Name = ""
	return f.call(ctx, in.Name, c)
}

type fakeOnOff struct {
	traits.OnOffApiClient
	members []group.Member
	wantReq proto.Message
}

func (f *fakeOnOff) call(ctx context.Context, name string, req proto.Message) (*traits.OnOff, error) {
	i, err := memberIndex(name, len(f.members))
	if err != nil {
		return nil, err
	}
	if !proto.Equal(req, f.wantReq) {
		return nil, status.Errorf(codes.Internal, "member %d was sent %v, the group was asked %v", i, req, f.wantReq)
	}
	if _, err := f.members[i](ctx); err != nil {
		return nil, err
	}
	return &traits.OnOff{State: traits.OnOff_ON}, nil
}

func (f *fakeOnOff) GetOnOff(ctx context.Context, in *traits.GetOnOffRequest, _ ...grpc.CallOption) (*traits.OnOff, error) {
	c := proto.Clone(in).(*traits.GetOnOffRequest)
	c.Name = ""
	return f.call(ctx, in.Name, c)
}

func (f *fakeOnOff) UpdateOnOff(ctx context.Context, in *traits.UpdateOnOffRequest, _ ...grpc.CallOption) (*traits.OnOff, error) {
	c := proto.Clone(in).(*traits.UpdateOnOffRequest)
	c.Name = ""
	return f.call(ctx, in.Name, c)
}

// memberStream is a member's Pull stream: it delivers nothing and ends - with the member's error - when the case releases
// the member, or as soon as the context it was opened with is done (as a real client stream does).
type memberStream[T any] struct {
	grpc.ClientStream
	ctx    context.Context
	member group.Member
}

func (m *memberStream[T]) Recv() (*T, error) {
	_, err := m.member(m.ctx)
	if err == nil {
		err = io.EOF // a stream ends with an error, if only EOF
	}
	return nil, err
}
func (m *memberStream[T]) Context() context.Context { return m.ctx }

// groupServerStream is the caller's side of a group Pull.
type groupServerStream[T any] struct {
	grpc.ServerStream
	ctx context.Context
}

func (g *groupServerStream[T]) Context() context.Context { return g.ctx }
func (g *groupServerStream[T]) Send(*T) error            { return nil }

func (f *fakeLight) PullBrightness(ctx context.Context, in *traits.PullBrightnessRequest, _ ...grpc.CallOption) (traits.LightApi_PullBrightnessClient, error) {
	i, err := memberIndex(in.Name, len(f.members))
	if err != nil {
		return nil, err
	}
	c := proto.Clone(in).(*traits.PullBrightnessRequest)
	c.Name = ""
	if !proto.Equal(c, f.wantReq) {
		return nil, status.Errorf(codes.Internal, "member %d was sent %v, the group was asked %v", i, c, f.wantReq)
	}
	return &memberStream[traits.PullBrightnessResponse]{ctx: ctx, member: f.members[i]}, nil
}

func (f *fakeOnOff) PullOnOff(ctx context.Context, in *traits.PullOnOffRequest, _ ...grpc.CallOption) (traits.OnOffApi_PullOnOffClient, error) {
	i, err := memberIndex(in.Name, len(f.members))
	if err != nil {
		return nil, err
	}
	c := proto.Clone(in).(*traits.PullOnOffRequest)
	c.Name = ""
	if !proto.Equal(c, f.wantReq) {
		return nil, status.Errorf(codes.Internal, "member %d was sent %v, the group was asked %v", i, c, f.wantReq)
	}
	return &memberStream[traits.PullOnOffResponse]{ctx: ctx, member: f.members[i]}, nil
}

// otherStrategy: what the group's other direction (reads for a write, writes for a read) is configured with - a
// strategy with a different contract, so that using the wrong one shows.
func otherStrategy(s group.ExecutionStrategy) group.ExecutionStrategy {
	if s == group.ExecutionStrategyAny || s == group.ExecutionStrategyRace {
		return group.ExecutionStrategyAll
	}
	return group.ExecutionStrategyAny
}

// traitCalls run one group RPC of a trait group whose members are the case's gated members.
var traitCalls = map[string]func(ctx context.Context, s group.ExecutionStrategy, members []group.Member) error{
	"lightpb.Group.GetBrightness": func(ctx context.Context, s group.ExecutionStrategy, members []group.Member) error {
		req := &traits.GetBrightnessRequest{Name: "the-group"}
		g := lightpb.NewGroup(&fakeLight{members: members, wantReq: &traits.GetBrightnessRequest{}}, memberNames(len(members))...)
		g.ReadExecution, g.WriteExecution = s, otherStrategy(s)
		_, err := g.GetBrightness(ctx, req)
		return callerUntouched(err, req, &traits.GetBrightnessRequest{Name: "the-group"})
	},
	"lightpb.Group.UpdateBrightness": func(ctx context.Context, s group.ExecutionStrategy, members []group.Member) error {
		mk := func() *traits.UpdateBrightnessRequest {
			return &traits.UpdateBrightnessRequest{Name: "the-group", Brightness: &traits.Brightness{LevelPercent: 42}}
		}
		req := mk()
		want := mk()
		want.Name = ""
		g := lightpb.NewGroup(&fakeLight{members: members, wantReq: want}, memberNames(len(members))...)
		g.WriteExecution, g.ReadExecution = s, otherStrategy(s)
		_, err := g.UpdateBrightness(ctx, req)
		return callerUntouched(err, req, mk())
	},
	"onoffpb.Group.GetOnOff": func(ctx context.Context, s group.ExecutionStrategy, members []group.Member) error {
		req := &traits.GetOnOffRequest{Name: "the-group"}
		g := onoffpb.NewGroup(&fakeOnOff{members: members, wantReq: &traits.GetOnOffRequest{}}, memberNames(len(members))...)
		g.ReadExecution, g.WriteExecution = s, otherStrategy(s)
		_, err := g.GetOnOff(ctx, req)
		return callerUntouched(err, req, &traits.GetOnOffRequest{Name: "the-group"})
	},
	"onoffpb.Group.UpdateOnOff": func(ctx context.Context, s group.ExecutionStrategy, members []group.Member) error {
		mk := func() *traits.UpdateOnOffRequest {
			return &traits.UpdateOnOffRequest{Name: "the-group", OnOff: &traits.OnOff{State: traits.OnOff_ON}}
		}
		req := mk()
		want := mk()
		want.Name = ""
		g := onoffpb.NewGroup(&fakeOnOff{members: members, wantReq: want}, memberNames(len(members))...)
		g.WriteExecution, g.ReadExecution = s, otherStrategy(s)
		_, err := g.UpdateOnOff(ctx, req)
		return callerUntouched(err, req, mk())
	},
}

func init() {
	// group Pulls: every member is a stream that only ever ends with an error, so these are driven with failing,
	// cancellation-aware members only (see TestTraitGroups)
	traitCalls["lightpb.Group.PullBrightness"] = func(ctx context.Context, s group.ExecutionStrategy, members []group.Member) error {
		mk := func() *traits.PullBrightnessRequest {
			return &traits.PullBrightnessRequest{Name: "the-group", UpdatesOnly: true}
		}
		req := mk()
		want := mk()
		want.Name = ""
		g := lightpb.NewGroup(&fakeLight{members: members, wantReq: want}, memberNames(len(members))...)
		g.ReadExecution = s
		err := g.PullBrightness(req, &groupServerStream[traits.PullBrightnessResponse]{ctx: ctx})
		return callerUntouched(err, req, mk())
	}
	traitCalls["onoffpb.Group.PullOnOff"] = func(ctx context.Context, s group.ExecutionStrategy, members []group.Member) error {
		mk := func() *traits.PullOnOffRequest { return &traits.PullOnOffRequest{Name: "the-group", UpdatesOnly: true} }
		req := mk()
		want := mk()
		want.Name = ""
		g := onoffpb.NewGroup(&fakeOnOff{members: members, wantReq: want}, memberNames(len(members))...)
		g.ReadExecution = s
		err := g.PullOnOff(req, &groupServerStream[traits.PullOnOffResponse]{ctx: ctx})
		return callerUntouched(err, req, mk())
	}
}

type requestMutated struct{ error }

func callerUntouched(err error, req, pristine proto.Message) error {
	if !proto.Equal(req, pristine) {
		return requestMutated{fmt.Errorf("the group modified the caller's request: %v, was %v", req, pristine)}
	}
	return err
}

var traitVias = []string{"lightpb.Group.GetBrightness", "lightpb.Group.UpdateBrightness", "onoffpb.Group.GetOnOff", "onoffpb.Group.UpdateOnOff",
	"lightpb.Group.PullBrightness", "onoffpb.Group.PullOnOff"}

// TestTraitGroups: the trait groups built on pkg/group (light, on/off) honour the configured strategy the same way:
// error or not and which error, every member called once with its own name and the caller's request otherwise intact,
// remaining members cancelled once the outcome is decided, no goroutine left behind.
func TestTraitGroups(t *testing.T) {
	rapid.Check(t, func(t *rapid.T) {
		n := rapid.IntRange(1, 5).Draw(t, "n")
		c := groupCase{
			Via:      rapid.SampledFrom(traitVias).Draw(t, "via"),
			Strategy: int(strategies[rapid.IntRange(0, len(strategies)-1).Draw(t, "strategy")]),
			OK:       rapid.SliceOfN(rapid.Bool(), n, n).Draw(t, "ok"),
			CtxAware: rapid.SliceOfN(rapid.Bool(), n, n).Draw(t, "ctxAware"),
			ErrKind:  rapid.SliceOfN(rapid.IntRange(0, 4), n, n).Draw(t, "errKind"),
		}
		idx := make([]int, n)
		for i := range idx {
			idx[i] = i
		}
		c.Order = rapid.Permutation(idx).Draw(t, "order")
		if group.ExecutionStrategy(c.Strategy) == group.ExecutionStrategyOne {
			c.Order = idx
		}
		if strings.Contains(c.Via, ".Pull") {
			for i := range c.OK {
				c.OK[i], c.CtxAware[i] = false, true
			}
		}
		err := runGroupCase(c)
		if errors.Is(err, errUndecided) {
			t.Skip(err.Error())
		}
		if err != nil {
			t.Fatalf("%v\ncase: %v", err, c)
		}
		lib.Ev.Class("trait-group:" + c.Via)
		lib.Ev.Case(ntKey(c), func() any { return c.String() })
	})
}
