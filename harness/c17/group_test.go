package c17

import (
	"context"
	"errors"
	"fmt"
	"io"
	"sync"
	"sync/atomic"
	"testing"
	"time"

	"google.golang.org/grpc/codes"
	"google.golang.org/grpc/status"
	"google.golang.org/protobuf/proto"
	"pgregory.net/rapid"

	"github.com/smart-core-os/sc-golang/internal/testproto"
	"github.com/smart-core-os/sc-golang/pkg/group"
	"github.com/smart-core-os/sc-golang/verifh/lib"
)

const groupFrame = "sc-golang/pkg/group."

var strategies = []group.ExecutionStrategy{
	group.ExecutionStrategyUnspecified, group.ExecutionStrategyAll, group.ExecutionStrategyMost, group.ExecutionStrategyAny,
	group.ExecutionStrategyOne, group.ExecutionStrategyFast, group.ExecutionStrategyRace,
}

func stratName(s group.ExecutionStrategy) string {
	return [...]string{"Unspecified", "All", "Most", "Any", "One", "Fast", "Race"}[s]
}

// groupCase is one fully determined execution.
type groupCase struct {
	Strategy int    // group.ExecutionStrategy
	OK       []bool // member i succeeds
	Order    []int  // completion order (permutation of member indexes); ignored by One (index order is forced)
	CtxAware []bool // member i returns ctx.Err() as soon as its context is cancelled
	Direct   bool   // call ExecuteAll/Most/Any/One/Fast/Race instead of Execute
	ErrKind  []int  // what a failing member's error looks like (see memberErr); missing = plain
	Via      string // "": pkg/group directly; otherwise a trait group built on it (see traitCalls)
}

func (c groupCase) String() string {
	return fmt.Sprintf("%s(direct=%v via=%q) ok=%v order=%v ctxAware=%v errKind=%v", stratName(group.ExecutionStrategy(c.Strategy)), c.Direct, c.Via, c.OK, c.Order, c.CtxAware, c.ErrKind)
}

type memberLog struct {
	invoked       atomic.Bool
	returned      atomic.Bool
	sawCancel     atomic.Bool // ctx was cancelled when the member returned
	earlyOnCancel atomic.Bool
}

type callResult struct {
	results []proto.Message
	one     proto.Message
	idx     int
	err     error
	panicV  any
}

// expectation derived from the contract.
type expectation struct {
	wantErr      error // nil = success
	errIs        int   // member whose error must be returned (-1: none / unspecified)
	decidedAfter int   // number of completions (in order) after which the outcome is decided and the rest get cancelled; -1: never (before all completed)
	winner       int   // One/Fast/Race: index reported; -1 n/a
}

// memberErr is the error member i fails with. A failure is a failure whatever it looks like: members also fail with
// errors that wrap (or are) cancellation and deadline errors of their own, e.g. from a downstream call.
func (c groupCase) memberErr(i int) error {
	kind := 0
	if i < len(c.ErrKind) {
		kind = c.ErrKind[i]
	}
	switch kind {
	case 1:
		return fmt.Errorf("member %d: downstream call: %w", i, context.Canceled)
	case 2:
		return fmt.Errorf("member %d: downstream call: %w", i, context.DeadlineExceeded)
	case 3:
		return status.Errorf(codes.Canceled, "member %d: downstream cancelled", i)
	case 4:
		return fmt.Errorf("member %d: %w", i, io.EOF)
	}
	return fmt.Errorf("member %d failed", i)
}
func memberMsg(i int) proto.Message {
	return &testproto.ForeignMessage{C: int32(i + 1)}
}

func contract(c groupCase) expectation {
	n := len(c.OK)
	s := group.ExecutionStrategy(c.Strategy)
	e := expectation{errIs: -1, decidedAfter: -1, winner: -1}
	switch s {
	case group.ExecutionStrategyUnspecified, group.ExecutionStrategyAll, group.ExecutionStrategyMost, group.ExecutionStrategyAny:
		allowed := 0
		switch s {
		case group.ExecutionStrategyMost:
			allowed = n / 2
		case group.ExecutionStrategyAny:
			allowed = n - 1
		}
		errs := 0
		first := -1
		for k, i := range c.Order {
			if !c.OK[i] {
				if first < 0 {
					first = i
				}
				errs++
				if errs > allowed && e.decidedAfter < 0 {
					e.decidedAfter = k + 1
				}
			}
		}
		if errs > allowed && n > 0 {
			e.errIs = first
			e.wantErr = c.memberErr(first)
		}
	case group.ExecutionStrategyOne:
		for i := 0; i < n; i++ {
			if c.OK[i] {
				e.winner = i
				break
			}
		}
		if e.winner < 0 && n > 0 {
			e.errIs = 0
			e.wantErr = c.memberErr(0)
		}
	case group.ExecutionStrategyFast:
		first := -1
		for k, i := range c.Order {
			if c.OK[i] {
				e.winner = i
				e.decidedAfter = k + 1
				break
			}
			if first < 0 {
				first = i
			}
		}
		if e.winner < 0 {
			if n > 0 {
				e.errIs = first
				e.wantErr = c.memberErr(first)
				e.winner = first
			} else {
				e.wantErr = errors.New("some error")
			}
		}
	case group.ExecutionStrategyRace:
		if n > 0 {
			i := c.Order[0]
			e.winner = i
			e.decidedAfter = 1
			if !c.OK[i] {
				e.errIs = i
				e.wantErr = c.memberErr(i)
			}
		} else {
			e.wantErr = errors.New("some error")
		}
	}
	return e
}

var errUndecided = errors.New("VERIF-UNDECIDED")

func runGroupCase(c groupCase) error {
	n := len(c.OK)
	s := group.ExecutionStrategy(c.Strategy)
	exp := contract(c)
	if base := lib.WaitGoroutines(0, 2*time.Second, groupFrame); base != 0 {
		return fmt.Errorf("%w: %d goroutines of pkg/group alive before the case starts", errUndecided, base)
	}
	gates := make([]chan struct{}, n)
	logs := make([]*memberLog, n)
	// position of each member in the completion order
	pos := make([]int, n)
	for k, i := range c.Order {
		pos[i] = k
	}
	sequential := s == group.ExecutionStrategyOne
	members := make([]group.Member, n)
	for i := 0; i < n; i++ {
		i := i
		gates[i] = make(chan struct{})
		logs[i] = &memberLog{}
		aware := len(c.CtxAware) > i && c.CtxAware[i]
		expectCancel := !sequential && exp.decidedAfter >= 0 && pos[i] >= exp.decidedAfter
		members[i] = func(ctx context.Context) (proto.Message, error) {
			logs[i].invoked.Store(true)
			defer logs[i].returned.Store(true)
			if aware {
				select {
				case <-gates[i]:
				case <-ctx.Done():
					logs[i].sawCancel.Store(true)
					logs[i].earlyOnCancel.Store(true)
					return nil, ctx.Err()
				}
			} else {
				<-gates[i]
			}
			if expectCancel {
				// the outcome was decided before this member was released: its context must be (or become) cancelled
				select {
				case <-ctx.Done():
					logs[i].sawCancel.Store(true)
				case <-time.After(5 * time.Second):
				}
			} else if ctx.Err() != nil {
				logs[i].sawCancel.Store(true)
			}
			if c.OK[i] {
				return memberMsg(i), nil
			}
			return nil, c.memberErr(i)
		}
	}

	parent, cancelParent := context.WithCancel(context.Background())
	defer cancelParent()
	done := make(chan callResult, 1)
	go func() {
		var r callResult
		defer func() {
			if p := recover(); p != nil {
				r.panicV = p
			}
			done <- r
		}()
		if c.Via != "" {
			r.err = traitCalls[c.Via](parent, s, members)
			return
		}
		if !c.Direct {
			r.results, r.err = group.Execute(parent, s, members)
			return
		}
		switch s {
		case group.ExecutionStrategyUnspecified, group.ExecutionStrategyAll:
			r.results, r.err = group.ExecuteAll(parent, members)
		case group.ExecutionStrategyMost:
			r.results, r.err = group.ExecuteMost(parent, members)
		case group.ExecutionStrategyAny:
			r.results, r.err = group.ExecuteAny(parent, members)
		case group.ExecutionStrategyOne:
			r.one, r.idx, r.err = group.ExecuteOne(parent, members)
		case group.ExecutionStrategyFast:
			r.one, r.idx, r.err = group.ExecuteFast(parent, members)
		case group.ExecutionStrategyRace:
			r.one, r.idx, r.err = group.ExecuteRace(parent, members)
		}
	}()

	var res callResult
	haveRes := false
	poll := func() bool {
		if haveRes {
			return true
		}
		select {
		case res = <-done:
			haveRes = true
		default:
		}
		return haveRes
	}
	if sequential {
		for i := range gates {
			close(gates[i])
		}
	} else {
		// every member must be running (blocked on its gate) before the first release, or the order is not ours
		startDeadline := time.Now().Add(10 * time.Second)
		for {
			all := true
			for i := range logs {
				all = all && logs[i].invoked.Load()
			}
			if all || poll() {
				break
			}
			if time.Now().After(startDeadline) {
				return fmt.Errorf("not every member was started within 10s of the call")
			}
			time.Sleep(20 * time.Microsecond)
		}
		// release in the chosen order; before releasing the next wait until the previous member's goroutine is gone
		// (its response was consumed) or the call has returned (order no longer matters).
		remaining := n
		for k, i := range c.Order {
			close(gates[i])
			remaining--
			if (s == group.ExecutionStrategyFast || s == group.ExecutionStrategyRace) && exp.decidedAfter == k+1 && remaining > 0 {
				// Fast returns the first success and Race the first response: the call is over now, whatever the members
				// that are still running (and are not released yet) do
				deadline := time.Now().Add(5 * time.Second)
				for !poll() {
					if time.Now().After(deadline) {
						return fmt.Errorf("the outcome was decided when member %d completed, but the call had not returned 5s later (%d members still running)", i, remaining)
					}
					time.Sleep(50 * time.Microsecond)
				}
			}
			deadline := time.Now().Add(10 * time.Second)
			for {
				if poll() {
					break
				}
				// goroutines still inside executeEach's member wrapper
				if cnt := lib.CountGoroutines("pkg/group.executeEach.func1"); cnt <= remaining {
					break
				}
				if time.Now().After(deadline) {
					return fmt.Errorf("member %d returned but its response was not consumed within 10s and the call has not returned (stall)", i)
				}
				time.Sleep(20 * time.Microsecond)
			}
		}
	}
	if !haveRes {
		select {
		case res = <-done:
		case <-time.After(20 * time.Second):
			return fmt.Errorf("call did not return within 20s after every member returned")
		}
	}
	if res.panicV != nil {
		return fmt.Errorf("call panicked: %v", res.panicV)
	}
	// every goroutine ends once its members have returned
	if left := lib.WaitGoroutines(0, 3*time.Second, groupFrame); left != 0 {
		g := lib.GoroutinesMatching(groupFrame)
		return fmt.Errorf("%d goroutine(s) of pkg/group still running after the call returned and all members returned:\n%s", left, g[0])
	}

	// ---- verdict ----
	if (res.err != nil) != (exp.wantErr != nil) {
		return fmt.Errorf("returned error %v, contract says error=%v (%v)", res.err, exp.wantErr != nil, exp.wantErr)
	}
	if exp.errIs >= 0 && res.err.Error() != c.memberErr(exp.errIs).Error() {
		return fmt.Errorf("returned error %q, want the first observed error %q", res.err, c.memberErr(exp.errIs))
	}
	upTo := s <= group.ExecutionStrategyAny
	if c.Via != "" {
		// a trait group reduces the members' responses to one: how is the trait's business, the strategy's contract
		// (error or not, which error, who gets cancelled, who is called) is checked below and above
	} else if upTo {
		if len(res.results) != n {
			return fmt.Errorf("result slice has %d entries, want %d", len(res.results), n)
		}
		for i := 0; i < n; i++ {
			decidedBefore := exp.decidedAfter >= 0 && pos[i] >= exp.decidedAfter
			if decidedBefore && len(c.CtxAware) > i && c.CtxAware[i] {
				continue // may have returned early with ctx.Err()
			}
			var want proto.Message
			if c.OK[i] {
				want = memberMsg(i)
			}
			if !proto.Equal(res.results[i], want) || (res.results[i] == nil) != (want == nil) {
				return fmt.Errorf("results[%d] = %v, want %v (responses must be reported at the member's own index)", i, res.results[i], want)
			}
		}
	} else {
		var gotMsg proto.Message
		gotIdx := -1
		if c.Direct {
			gotMsg, gotIdx = res.one, res.idx
		} else {
			if len(res.results) != n {
				return fmt.Errorf("result slice has %d entries, want %d", len(res.results), n)
			}
			for i, m := range res.results {
				if m != nil {
					if gotIdx >= 0 {
						return fmt.Errorf("more than one result slot filled: %v", res.results)
					}
					gotMsg, gotIdx = m, i
				}
			}
		}
		if exp.wantErr == nil && n > 0 {
			if gotIdx != exp.winner || !proto.Equal(gotMsg, memberMsg(exp.winner)) {
				return fmt.Errorf("winner index %d message %v, want member %d", gotIdx, gotMsg, exp.winner)
			}
		} else if gotMsg != nil {
			return fmt.Errorf("error outcome but a message %v was returned", gotMsg)
		}
		if c.Direct && exp.wantErr != nil && n > 0 && s != group.ExecutionStrategyOne && gotIdx != exp.winner {
			return fmt.Errorf("error outcome reports index %d, want %d", gotIdx, exp.winner)
		}
	}
	// One runs members in order and nothing after the first success
	if sequential {
		for i := 0; i < n; i++ {
			want := exp.winner < 0 || i <= exp.winner
			if logs[i].invoked.Load() != want {
				return fmt.Errorf("ExecuteOne: member %d invoked=%v, want %v", i, logs[i].invoked.Load(), want)
			}
		}
	} else {
		for i := 0; i < n; i++ {
			if !logs[i].invoked.Load() {
				return fmt.Errorf("member %d never invoked", i)
			}
			decided := exp.decidedAfter >= 0 && pos[i] >= exp.decidedAfter
			if decided && !logs[i].sawCancel.Load() {
				return fmt.Errorf("member %d was still running when the outcome was decided but its context was not cancelled", i)
			}
			if !decided && logs[i].sawCancel.Load() {
				return fmt.Errorf("member %d saw its context cancelled although the outcome was not decided yet (completion position %d, decided after %d)", i, pos[i], exp.decidedAfter)
			}
		}
	}
	return nil
}

func ntKey(c groupCase) string {
	n := len(c.OK)
	if n < 2 {
		return ""
	}
	mixed := false
	for _, ok := range c.OK {
		if ok != c.OK[0] {
			mixed = true
		}
	}
	identity := true
	for k, i := range c.Order {
		if k != i {
			identity = false
		}
	}
	if mixed && !identity {
		return c.String()
	}
	return ""
}

func permutations(n int) [][]int {
	if n == 0 {
		return [][]int{{}}
	}
	var out [][]int
	var rec func(cur []int, used []bool)
	rec = func(cur []int, used []bool) {
		if len(cur) == n {
			out = append(out, append([]int(nil), cur...))
			return
		}
		for i := 0; i < n; i++ {
			if !used[i] {
				used[i] = true
				rec(append(cur, i), used)
				used[i] = false
			}
		}
	}
	rec(nil, make([]bool, n))
	return out
}

var enumMu sync.Mutex

// TestGroupExhaustive: member counts 0..4 x every success/failure vector x every completion order x every strategy,
// through Execute and through the direct functions.
func TestGroupExhaustive(t *testing.T) {
	maxN := 4
	done := false
	shard, nshards := lib.Shard()
	idx := 0
	lib.Enumerate(t, "TestGroupExhaustive", func(yield0 func(groupCase) bool) {
		yield := func(c groupCase) bool {
			idx++
			if idx%nshards != shard {
				return true
			}
			return yield0(c)
		}
		for n := 0; n <= maxN; n++ {
			for bits := 0; bits < 1<<n; bits++ {
				ok := make([]bool, n)
				for i := range ok {
					ok[i] = bits&(1<<i) != 0
				}
				for _, perm := range permutations(n) {
					for _, s := range strategies {
						for _, direct := range []bool{false, true} {
							if s == group.ExecutionStrategyOne && !isIdentity(perm) {
								continue // order is forced for One
							}
							for _, kind := range []int{0, 1, 3} {
								if kind != 0 && bits == 1<<n-1 {
									continue // nobody fails: the kind of error is irrelevant
								}
								kinds := make([]int, n)
								for i := range kinds {
									kinds[i] = kind
								}
								if !yield(groupCase{Strategy: int(s), OK: ok, Order: perm, Direct: direct, ErrKind: kinds}) {
									return
								}
							}
						}
					}
				}
			}
		}
		done = true
	}, func(c groupCase) error {
		err := runGroupCase(c)
		if errors.Is(err, errUndecided) {
			return nil
		}
		lib.Ev.Case(ntKey(c), func() any { return c.String() })
		return err
	})
	lib.Ev.Exhaustive("members 0..4 x outcomes x completion orders x strategies x {Execute,direct} x error kind {plain, wraps context.Canceled, status Canceled}", done)
}

func isIdentity(p []int) bool {
	for k, i := range p {
		if k != i {
			return false
		}
	}
	return true
}

// TestGroupRandom: up to 8 members, some of them cancellation aware.
func TestGroupRandom(t *testing.T) {
	rapid.Check(t, func(t *rapid.T) {
		n := rapid.IntRange(0, 8).Draw(t, "n")
		if rapid.IntRange(0, 19).Draw(t, "large") == 0 {
			n = rapid.SampledFrom([]int{31, 32, 33, 40, 70}).Draw(t, "nLarge") // any number of members
		}
		c := groupCase{
			Strategy: int(strategies[rapid.IntRange(0, len(strategies)-1).Draw(t, "strategy")]),
			OK:       rapid.SliceOfN(rapid.Bool(), n, n).Draw(t, "ok"),
			CtxAware: rapid.SliceOfN(rapid.Bool(), n, n).Draw(t, "ctxAware"),
			Direct:   rapid.Bool().Draw(t, "direct"),
			ErrKind:  rapid.SliceOfN(rapid.IntRange(0, 4), n, n).Draw(t, "errKind"),
		}
		idx := make([]int, n)
		for i := range idx {
			idx[i] = i
		}
		c.Order = rapid.Permutation(idx).Draw(t, "order")
		if group.ExecutionStrategy(c.Strategy) == group.ExecutionStrategyOne {
			c.Order = idx
		}
		err := runGroupCase(c)
		if errors.Is(err, errUndecided) {
			t.Skip(err.Error())
		}
		if err != nil {
			t.Fatalf("%v\ncase: %v", err, c)
		}
		lib.Ev.Class("random:" + stratName(group.ExecutionStrategy(c.Strategy)))
		lib.Ev.Case(ntKey(c), func() any { return c.String() })
	})
}
