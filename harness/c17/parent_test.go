package c17

import (
	"context"
	"fmt"
	"sync/atomic"
	"testing"
	"time"

	"google.golang.org/protobuf/proto"

	"github.com/smart-core-os/sc-golang/pkg/group"
	"github.com/smart-core-os/sc-golang/verifh/lib"
)

type parentCase struct {
	Strategy int
	OK       []bool
	Parent   string // "live", "cancelled", "deadline-passed"
}

func (c parentCase) String() string {
	return fmt.Sprintf("%s ok=%v caller's context %s", stratName(group.ExecutionStrategy(c.Strategy)), c.OK, c.Parent)
}

// TestGroupCallerContextDone: the strategies' contracts are about what the members do. Members here do their work
// whatever the context says (a member need not look at it) and return at once; the caller's context is live, already
// cancelled, or past its deadline. What the call reports follows from the members' outcomes all the same: in particular
// it never reports success without a successful member, never a nil error when every member failed, and One still goes
// through the members in order until one succeeds.
func TestGroupCallerContextDone(t *testing.T) {
	done := false
	lib.Enumerate(t, "TestGroupCallerContextDone", func(yield func(parentCase) bool) {
		for n := 0; n <= 4; n++ {
			for bits := 0; bits < 1<<n; bits++ {
				ok := make([]bool, n)
				for i := range ok {
					ok[i] = bits&(1<<i) != 0
				}
				for _, s := range strategies {
					for _, p := range []string{"live", "cancelled", "deadline-passed"} {
						if !yield(parentCase{Strategy: int(s), OK: ok, Parent: p}) {
							return
						}
					}
				}
			}
		}
		done = true
	}, func(c parentCase) error {
		n := len(c.OK)
		s := group.ExecutionStrategy(c.Strategy)
		invoked := make([]atomic.Bool, n)
		gc := groupCase{OK: c.OK}
		members := make([]group.Member, n)
		for i := range members {
			i := i
			members[i] = func(ctx context.Context) (proto.Message, error) {
				invoked[i].Store(true)
				if c.OK[i] {
					return memberMsg(i), nil
				}
				return nil, gc.memberErr(i)
			}
		}
		ctx, cancel := context.WithCancel(context.Background())
		defer cancel()
		switch c.Parent {
		case "cancelled":
			cancel()
		case "deadline-passed":
			var c2 context.CancelFunc
			ctx, c2 = context.WithDeadline(context.Background(), time.Now().Add(-time.Second))
			defer c2()
		}
		res, err := group.Execute(ctx, s, members)
		fails, firstOK := 0, -1
		for i, o := range c.OK {
			if !o {
				fails++
			} else if firstOK < 0 {
				firstOK = i
			}
		}
		wantErr := false
		switch s {
		case group.ExecutionStrategyUnspecified, group.ExecutionStrategyAll:
			wantErr = fails > 0
		case group.ExecutionStrategyMost:
			wantErr = fails > n/2
		case group.ExecutionStrategyAny:
			wantErr = n > 0 && fails == n
		case group.ExecutionStrategyOne:
			wantErr = n > 0 && fails == n
		case group.ExecutionStrategyFast:
			wantErr = fails == n // also with no members at all
		case group.ExecutionStrategyRace:
			// whoever returns first decides: only the all-same cases are fixed
			if fails == 0 && n > 0 {
				wantErr = false
			} else if fails == n {
				wantErr = true
			} else {
				lib.Ev.Case("", nil)
				return nil
			}
		}
		if wantErr != (err != nil) {
			return fmt.Errorf("%v: Execute returned err=%v (results %v), the members' outcomes demand error=%v", c, err, res, wantErr)
		}
		if err == nil {
			for i, r := range res {
				if r != nil && (i >= n || !c.OK[i] || !proto.Equal(r, memberMsg(i))) {
					return fmt.Errorf("%v: result slot %d holds %v, which member %d did not return", c, i, r, i)
				}
			}
			if s == group.ExecutionStrategyOne && n > 0 {
				if firstOK < 0 || len(res) <= firstOK || res[firstOK] == nil {
					return fmt.Errorf("%v: One succeeded but the result of the first successful member (%d) is missing: %v", c, firstOK, res)
				}
			}
		}
		if s == group.ExecutionStrategyOne {
			for i := range c.OK {
				want := firstOK < 0 || i <= firstOK
				if invoked[i].Load() != want {
					return fmt.Errorf("%v: member %d invoked=%v, One tries members in order until one succeeds (first success: %d)", c, i, invoked[i].Load(), firstOK)
				}
			}
		}
		nt := ""
		if c.Parent != "live" && n > 0 {
			nt = c.String()
		}
		lib.Ev.Case(nt, func() any { return c.String() })
		return nil
	})
	lib.Ev.Exhaustive("members 0..4 (context-ignoring, immediate) x outcomes x strategies x caller context {live, cancelled, deadline passed}", done)
}
