package c04

import (
	"fmt"
	"testing"

	"pgregory.net/rapid"

	"github.com/smart-core-os/sc-golang/verifh/lib"
	"github.com/smart-core-os/sc-golang/verifh/rlib"
)

// TestStreamChurn: one writer, backpressured subscribers joining and leaving all the time. Whoever is subscribed for the
// whole of a write receives exactly one event for it, in write order, whatever the other subscribers do (see
// rlib.RunChurn for the precise window).
func TestStreamChurn(t *testing.T) {
	rapid.Check(t, func(t *rapid.T) {
		c := rlib.ChurnConfig{
			IsValue:      rapid.Bool().Draw(t, "isValue"),
			Backpressure: true,
			Writes:       rapid.IntRange(100, 800).Draw(t, "writes"),
			Churners:     rapid.IntRange(2, 6).Draw(t, "churners"),
			Lifetimes:    rapid.SliceOfN(rapid.IntRange(0, 30), 6, 6).Draw(t, "lifetimes"),
		}
		problem, joins := rlib.RunChurn(c)
		if problem != "" {
			t.Fatalf("%s\nrun: %+v (%d subscriptions opened)", problem, c, joins)
		}
		lib.Ev.Class("churn:subscribers joining and leaving")
		lib.Ev.ClassN("churn:subscriptions opened", joins)
		lib.Ev.Case(fmt.Sprintf("churn|%+v", c), func() any { return fmt.Sprintf("subscriber churn %+v: %d subscriptions opened", c, joins) })
	})
}
