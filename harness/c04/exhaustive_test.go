package c04

import (
	"errors"
	"fmt"
	"strings"
	"testing"

	"google.golang.org/protobuf/proto"
	"google.golang.org/protobuf/types/known/fieldmaskpb"

	"github.com/smart-core-os/sc-golang/internal/testproto"
	"github.com/smart-core-os/sc-golang/verifh/lib"
	"github.com/smart-core-os/sc-golang/verifh/rlib"
)

func fm(c, d int32) proto.Message { return &testproto.ForeignMessage{C: c, D: d} }

// streamOps is a compact alphabet aimed at the event bookkeeping: add / update / remove / re-add of two ids with two
// values that differ in one field only (so a read mask on the other field makes them equivalent under the mask),
// writes that fail for each documented reason, and explicit write times.
func streamOps(isValue bool) []rlib.Op {
	v1, v2, v3 := fm(1, 1), fm(2, 1), fm(1, 2)
	if isValue {
		return []rlib.Op{
			{Kind: rlib.OpSet, Val: v1},
			{Kind: rlib.OpSet, Val: v2},
			{Kind: rlib.OpSet, Val: v3},
			{Kind: rlib.OpSet, Val: v2, WriteTick: 500},
			{Kind: rlib.OpSet, Val: v3, WriteTick: rlib.ZeroTimeTick},
			{Kind: rlib.OpSet, Val: v1, UpdateMask: &fieldmaskpb.FieldMask{Paths: []string{"d"}}},
			{Kind: rlib.OpSet, Val: v2, Expected: fm(1, 1), ExpectedLabel: "v1"},
			{Kind: rlib.OpSet, Val: v3, Check: "reject:ABORTED"},
			{Kind: rlib.OpSet, Val: v1, UpdateMask: &fieldmaskpb.FieldMask{Paths: []string{"nope"}}},
			{Kind: rlib.OpSet, Val: v1, UpdateMask: &fieldmaskpb.FieldMask{}},
		}
	}
	var ops []rlib.Op
	for _, id := range []string{"a", "b"} {
		ops = append(ops,
			rlib.Op{Kind: rlib.OpAdd, ID: id, Val: v1},
			rlib.Op{Kind: rlib.OpUpdate, ID: id, Val: v2},
			rlib.Op{Kind: rlib.OpUpdate, ID: id, Val: v3, CreateIfAbsent: true},
			rlib.Op{Kind: rlib.OpUpdate, ID: id, Val: v1, WriteTick: 500},
			rlib.Op{Kind: rlib.OpUpdate, ID: id, Val: v2, Expected: fm(1, 1), ExpectedLabel: "v1"},
			rlib.Op{Kind: rlib.OpDelete, ID: id},
			rlib.Op{Kind: rlib.OpDelete, ID: id, AllowMissing: true, WriteTick: 700},
			rlib.Op{Kind: rlib.OpUpdate, ID: id, Val: v2, CreateIfAbsent: true, WriteTick: rlib.ZeroTimeTick},
		)
	}
	return ops
}

type streamCase struct {
	IsValue     bool
	Initial     int // 0: empty, 1: one item / initial value, 2: two items
	Equivalence bool
	Ops         []int
}

func (c streamCase) config() rlib.Config {
	cfg := rlib.Config{IsValue: c.IsValue, Proto: &testproto.ForeignMessage{}}
	if c.Equivalence {
		cfg.Equivalence = "nodup"
	}
	if c.IsValue {
		if c.Initial > 0 {
			cfg.InitialValue = fm(1, 1)
		}
		return cfg
	}
	cfg.Initial = map[string]proto.Message{}
	if c.Initial >= 1 {
		cfg.Initial["b"] = fm(1, 1)
	}
	if c.Initial >= 2 {
		cfg.Initial["a"] = fm(2, 1)
	}
	return cfg
}

// every history is observed by four backpressured subscriptions at once: plain, updates-only, masked to the field
// that v1/v3 share, and updates-only + masked.
func streamSubs() []rlib.SubSpec {
	maskC := &fieldmaskpb.FieldMask{Paths: []string{"c"}}
	return []rlib.SubSpec{
		{Backpressure: true},
		{Backpressure: true, UpdatesOnly: true},
		{Backpressure: true, ReadMask: maskC},
		{Backpressure: true, UpdatesOnly: true, ReadMask: maskC},
	}
}

func runStreamCase(c streamCase) error {
	ops := streamOps(c.IsValue)
	cfg := c.config()
	r := rlib.NewRunner(cfg, streamSubs()...)
	removed := map[string]bool{}
	readd := false
	for k, i := range c.Ops {
		if k > 0 && k == len(c.Ops)/2 {
			// two subscribers join mid-history: their seeds are the contents now, with the stored change times
			r.OpenSub(rlib.SubSpec{Backpressure: true})
			r.OpenSub(rlib.SubSpec{Backpressure: true, ReadMask: &fieldmaskpb.FieldMask{Paths: []string{"c"}}})
			// ... and one of the original subscribers leaves
			r.CancelSub(1)
		}
		okBefore := r.OKWrites
		op := ops[i]
		if err := r.Do(op); err != nil {
			if errors.Is(err, rlib.ErrStop) {
				break
			}
			return fmt.Errorf("%v\nconfig: %v\nhistory:\n  %s", err, cfg, strings.Join(r.History, "\n  "))
		}
		if r.OKWrites > okBefore {
			if op.Kind == rlib.OpDelete {
				removed[op.ID] = true
			} else if removed[op.ID] {
				readd = true
			}
		}
	}
	if err := r.Finish(); err != nil {
		return fmt.Errorf("%v\nconfig: %v\nhistory:\n  %s", err, cfg, strings.Join(r.History, "\n  "))
	}
	nt := ""
	if readd || (r.FailedWrites > 0 && r.OKWrites > 0) || (c.Equivalence && r.OKWrites > 1) {
		nt = fmt.Sprintf("exh|%v|%d|%v|%v", c.IsValue, c.Initial, c.Equivalence, c.Ops)
	}
	if readd {
		lib.Ev.Class("exhaustive:remove then re-add")
	}
	lib.Ev.Case(nt, func() any { return map[string]any{"exhaustive": true, "config": cfg.String(), "history": r.History} })
	return nil
}

// TestStreamExhaustive enumerates every history over the compact alphabet up to a length bound, for every initial
// content class and with / without an equivalence.
func TestStreamExhaustive(t *testing.T) {
	maxLens := map[bool]int{true: lib.Scale(4, 5), false: lib.Scale(3, 4)}
	done := false
	shard, nshards := lib.Shard()
	idx := 0
	lib.Enumerate(t, "TestStreamExhaustive", func(yield0 func(streamCase) bool) {
		yield := func(c streamCase) bool {
			idx++
			if idx%nshards != shard {
				return true
			}
			return yield0(c)
		}
		for _, isValue := range []bool{true, false} {
			n := len(streamOps(isValue))
			maxLen := maxLens[isValue]
			inits := []int{0, 1, 2}
			if isValue {
				inits = []int{0, 1}
			}
			for _, ini := range inits {
				for _, eq := range []bool{false, true} {
					var rec func(prefix []int) bool
					rec = func(prefix []int) bool {
						if len(prefix) > 0 && !yield(streamCase{IsValue: isValue, Initial: ini, Equivalence: eq, Ops: append([]int(nil), prefix...)}) {
							return false
						}
						if len(prefix) == maxLen {
							return true
						}
						for i := 0; i < n; i++ {
							if !rec(append(prefix, i)) {
								return false
							}
						}
						return true
					}
					if !rec(nil) {
						return
					}
				}
			}
		}
		done = true
	}, runStreamCase)
	lib.Ev.Exhaustive(fmt.Sprintf("all histories of up to %d (Value) / %d (Collection) calls over the compact stream alphabet x initial contents {empty, one, many} x equivalence on/off, each observed by 4 subscriptions", maxLens[true], maxLens[false]), done)
}
