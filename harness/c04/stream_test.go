package c04

import (
	"errors"
	"fmt"
	"strings"
	"testing"

	"google.golang.org/protobuf/types/known/fieldmaskpb"
	"pgregory.net/rapid"

	"github.com/smart-core-os/sc-golang/verifh/lib"
	"github.com/smart-core-os/sc-golang/verifh/rlib"
)

func drawSubs(t *rapid.T, cfg rlib.Config) []rlib.SubSpec {
	md := cfg.Proto.ProtoReflect().Descriptor()
	n := rapid.IntRange(1, 3).Draw(t, "nsubs")
	var subs []rlib.SubSpec
	for i := 0; i < n; i++ {
		s := rlib.SubSpec{Backpressure: true, UpdatesOnly: rapid.IntRange(0, 2).Draw(t, "updatesOnly") == 0}
		if rapid.Bool().Draw(t, "hasMask") {
			if cfg.Equivalence != "" {
				// with an equivalence keep to top level paths so the sentinel always differs under the mask
				fields := md.Fields()
				var paths []string
				k := rapid.IntRange(1, 2).Draw(t, "npaths")
				for j := 0; j < k; j++ {
					fd := fields.Get(rapid.IntRange(0, fields.Len()-1).Draw(t, "field"))
					if fd.Message() == nil && !fd.IsList() && !fd.IsMap() && fd.ContainingOneof() == nil {
						paths = append(paths, string(fd.Name()))
					}
				}
				if len(paths) > 0 {
					s.ReadMask = &fieldmaskpb.FieldMask{Paths: paths}
				}
			} else {
				s.ReadMask, _ = lib.DrawMask(t, "readMask", md)
				if s.ReadMask != nil && len(s.ReadMask.Paths) == 0 {
					s.ReadMask = nil
				}
			}
		}
		if !cfg.IsValue && rapid.IntRange(0, 4).Draw(t, "filtered") == 0 {
			s.IncludeName = rapid.SampledFrom([]string{"id<b", "counter-odd", "has-derived"}).Draw(t, "include")
			s.Include = rlib.IncludeFn(s.IncludeName)
			lib.Ev.Class("history:a filtered view among the subscribers")
		}
		subs = append(subs, s)
	}
	return subs
}

func runHistory(t *rapid.T, isValue bool) {
	cfg, alphabet := rlib.GenConfig(t, isValue, false)
	if rapid.IntRange(0, 3).Draw(t, "equivalence") == 0 {
		cfg.Equivalence = "nodup"
	}
	subs := drawSubs(t, cfg)
	if rapid.IntRange(0, 7).Draw(t, "crowd") == 0 {
		// a popular resource: dozens of subscribers, every one of them is owed every event
		crowd := rapid.IntRange(14, 40).Draw(t, "crowdSize")
		for i := 0; i < crowd; i++ {
			subs = append(subs, rlib.SubSpec{Backpressure: true, UpdatesOnly: i%5 == 4})
		}
		lib.Ev.Class("history:observed by more than 16 subscribers")
	}
	r := rlib.NewRunner(cfg, subs...)
	n := rapid.IntRange(1, 25).Draw(t, "writes")
	if rapid.IntRange(0, 19).Draw(t, "long") == 0 {
		n = rapid.IntRange(26, 120).Draw(t, "writesLong")
		lib.Ev.Class("history:long (26-120 writes)")
	}
	readd, failBetween, suppressed := false, false, false
	removed := map[string]bool{}
	late := 0
	for i := 0; i < n; i++ {
		if late < 2 && i > 0 && rapid.IntRange(0, 7).Draw(t, "lateSub") == 0 {
			// a subscriber that joins mid-history: its seed is the contents now, with the stored change times
			ls := drawSubs(t, cfg)[0]
			ls.UpdatesOnly = false
			r.OpenSub(ls)
			subs = append(subs, ls)
			late++
			lib.Ev.Class("history:subscriber joining mid-history")
		}
		if i > 0 && r.NumSubs() >= 2 && rapid.IntRange(0, 9).Draw(t, "cancelSub") == 0 {
			// a subscriber leaves: the others go on receiving one event per successful write
			if r.CancelSub(rapid.IntRange(0, r.NumSubs()-2).Draw(t, "which")) {
				lib.Ev.Class("history:a subscriber cancels mid-history")
			}
		}
		op := rlib.GenOp(t, r, alphabet, false)
		if rapid.IntRange(0, 5).Draw(t, "sameValue") == 0 && op.Val != nil {
			// write the value that is already there (equivalence suppression / duplicate delivery)
			if out := r.Model.Get(op.ID, nil); out.Found {
				op.Val, op.UpdateMask, op.MoreUpdateMask, op.ResetMask, op.Before, op.After = out.Ret, nil, nil, nil, "", ""
			}
		}
		okBefore, failBefore := r.OKWrites, r.FailedWrites
		err := r.Do(op)
		if errors.Is(err, rlib.ErrStop) {
			break
		}
		if err != nil {
			t.Fatalf("%v\nconfig: %v\nsubscriptions: %v\nhistory:\n  %s", err, cfg, subs, strings.Join(r.History, "\n  "))
		}
		if r.OKWrites > okBefore {
			if op.Kind == rlib.OpDelete {
				removed[op.ID] = true
			} else if removed[op.ID] {
				readd = true
			}
			if r.FailedWrites > 0 && okBefore > 0 {
				failBetween = true
			}
		}
		_ = failBefore
	}
	if err := r.Finish(); err != nil {
		t.Fatalf("%v\nconfig: %v\nhistory:\n  %s", err, cfg, strings.Join(r.History, "\n  "))
	}
	if cfg.Equivalence != "" {
		suppressed = true
		lib.Ev.Class("config:equivalence")
	}
	nt := ""
	if readd || failBetween || suppressed {
		nt = fmt.Sprintf("%v|%v|%s", cfg.IsValue, subs, strings.Join(r.OutcomeKey, ";"))
	}
	if readd {
		lib.Ev.Class("history:remove then re-add")
	}
	if failBetween {
		lib.Ev.Class("history:failing write between successful ones")
	}
	lib.Ev.Case(nt, func() any {
		var ss []string
		for _, s := range subs {
			ss = append(ss, s.String())
		}
		return map[string]any{"config": cfg.String(), "subscriptions": ss, "history": r.History}
	})
}

func TestValueStream(t *testing.T) {
	rapid.Check(t, func(t *rapid.T) { runHistory(t, true) })
}

func TestCollectionStream(t *testing.T) {
	rapid.Check(t, func(t *rapid.T) { runHistory(t, false) })
}
