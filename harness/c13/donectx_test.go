package c13

import (
	"context"
	"errors"
	"fmt"
	"io"
	"testing"
	"time"

	"google.golang.org/grpc"
	"google.golang.org/grpc/codes"
	"google.golang.org/grpc/status"

	"github.com/smart-core-os/sc-golang/internal/testproto"
	"github.com/smart-core-os/sc-golang/verifh/lib"
)

type doneCtxCase struct {
	Shape string // unary | serverStream | clientStream | bidi
	State string // cancelled | deadline-passed
}

// TestCallOnDoneContext: the client's cancel or deadline "at any point" includes before the call is made. Every call
// shape is started on a context that is already cancelled or past its deadline, over gRPC and through the wrapper; the
// client must observe cancellation / deadline expiry as such on both, and no handler may be left running.
func TestCallOnDoneContext(t *testing.T) {
	setup(t)
	classify := func(err error) string {
		switch {
		case err == nil:
			return "no error"
		case errors.Is(err, context.Canceled) || status.Code(err) == codes.Canceled:
			return "cancelled"
		case errors.Is(err, context.DeadlineExceeded) || status.Code(err) == codes.DeadlineExceeded:
			return "deadline"
		case err == io.EOF:
			return "io.EOF"
		}
		return fmt.Sprintf("status:%v", status.Code(err))
	}
	call := func(conn grpc.ClientConnInterface, srv *scriptedServer, c doneCtxCase) string {
		srv.begin(callScript{Shape: c.Shape, ServerMsgs: []string{"resp"}, ClientMsgs: []string{"hello"}, FailAfter: -1, CancelAfter: -1})
		ctx, cancel := context.WithCancel(context.Background())
		if c.State == "deadline-passed" {
			ctx, cancel = context.WithDeadline(context.Background(), time.Now().Add(-time.Second))
		} else {
			cancel()
		}
		defer cancel()
		client := testproto.NewTestApiClient(conn)
		var err error
		switch c.Shape {
		case "unary":
			_, err = client.Unary(ctx, &testproto.UnaryRequest{Msg: "hello"})
		case "serverStream":
			var st grpc.ServerStreamingClient[testproto.ServerStreamResponse]
			st, err = client.ServerStream(ctx, &testproto.ServerStreamRequest{NumRes: 1})
			if err == nil {
				_, err = st.Recv()
			}
		case "clientStream":
			var st grpc.ClientStreamingClient[testproto.ClientStreamRequest, testproto.ClientStreamResponse]
			st, err = client.ClientStream(ctx)
			if err == nil {
				_ = st.Send(&testproto.ClientStreamRequest{Msg: "hello"}) // a failed send only says "look at Recv"
				_, err = st.CloseAndRecv()
			}
		case "bidi":
			var st grpc.BidiStreamingClient[testproto.BidiStreamRequest, testproto.BidiStreamResponse]
			st, err = client.BidiStream(ctx)
			if err == nil {
				_ = st.Send(&testproto.BidiStreamRequest{Msg: "hello"})
				_, err = st.Recv()
			}
		}
		return classify(err)
	}
	done := false
	lib.Enumerate(t, "TestCallOnDoneContext", func(yield func(doneCtxCase) bool) {
		for _, shape := range []string{"unary", "serverStream", "clientStream", "bidi"} {
			for _, state := range []string{"cancelled", "deadline-passed"} {
				if !yield(doneCtxCase{shape, state}) {
					return
				}
			}
		}
		done = true
	}, func(c doneCtxCase) error {
		real := call(realConn, realSrv, c)
		wrapped := call(wrapConn, wrapSrv, c)
		if real != wrapped {
			return fmt.Errorf("%s on a context that is already %s: over gRPC the client observes %q, through the wrapper %q", c.Shape, c.State, real, wrapped)
		}
		if n := lib.WaitGoroutines(0, 3*time.Second, wrapFrame); n != 0 {
			return fmt.Errorf("%s on a context that is already %s: %d goroutine(s) of pkg/wrap still running", c.Shape, c.State, n)
		}
		lib.Ev.Case(fmt.Sprintf("donectx|%s|%s", c.Shape, c.State), func() any { return fmt.Sprintf("%s, context already %s: %s", c.Shape, c.State, real) })
		return nil
	})
	lib.Ev.Exhaustive("4 call shapes x {already cancelled, deadline already passed}", done)
}
