package c13

import (
	"google.golang.org/protobuf/types/dynamicpb"
	"google.golang.org/protobuf/reflect/protoregistry"
	"google.golang.org/protobuf/reflect/protoreflect"
	"google.golang.org/protobuf/reflect/protodesc"
	"context"
	"errors"
	"fmt"
	"io"
	"net"
	"os"
	"sort"
	"strings"
	"sync"
	"testing"
	"time"

	"google.golang.org/grpc"
	"google.golang.org/grpc/codes"
	"google.golang.org/grpc/credentials/insecure"
	"google.golang.org/grpc/metadata"
	"google.golang.org/grpc/status"
	"google.golang.org/grpc/test/bufconn"
	"pgregory.net/rapid"

	"github.com/smart-core-os/sc-golang/internal/testproto"
	"github.com/smart-core-os/sc-golang/pkg/wrap"
	"github.com/smart-core-os/sc-golang/verifh/lib"
)

// ---- the script ------------------------------------------------------------------------------------------------------

type mdOp struct {
	Kind string // setHeader | sendHeader | setTrailer
	K, V string
}

// callScript is one generated call: what the server does and what the client does. Scripts are rendezvous-consistent:
// every send is met by a receive unless the call has already been ended.
type callScript struct {
	Shape string // unary | serverStream | clientStream | bidi
	// server side
	PreOps     []mdOp   // metadata operations before any message
	ServerMsgs []string // responses the server sends (unary/clientStream: exactly one unless it fails first)
	MidOps     [][]mdOp // metadata operations after the i-th server message
	Code       int      // 0 = return nil, else status code
	Msg        string
	PlainErr   bool // return a plain (non-status) error instead
	FailAfter  int  // server returns after sending this many messages (streams); -1 = after all
	// client side
	ClientMsgs  []string
	CancelAfter int  // client cancels after receiving this many messages (-1 never)
	Deadline    bool // the handler blocks on ctx.Done(); the client uses a short deadline
	OutMD       [2]string
	WithCause   bool // the client's context is cancelled / times out with a caller-supplied cause
	InMD        bool // the client's context carries incoming metadata (the client is itself a handler forwarding a call)
	ViaStream   bool // unary only: the client opens the unary method as a (non-streaming) stream, as generic proxies do
	// Dynamic (unary, serverStream): the client's messages are dynamicpb messages built from its own resolved copy of the
	// file descriptor, as reflection clients, gateways and generic proxies use: same full names, other descriptor values
	Dynamic bool
	// OldSchema (with Dynamic): the client's copy of the schema predates the response fields: it receives them as
	// unknown fields, which it keeps (and would forward) byte for byte
	OldSchema bool
	// CtxMD (streaming shapes): the handler sets / sends its metadata through grpc.SetHeader / SendHeader / SetTrailer on
	// the stream's context - the only way open to code further down that is handed a context and no stream
	CtxMD bool
	// DupOpts (plain unary): the call carries two grpc.Header and two grpc.Trailer options
	DupOpts bool
}

func (s callScript) String() string {
	return fmt.Sprintf("%s pre=%v serverMsgs=%q mid=%v code=%d msg=%q plain=%v failAfter=%d clientMsgs=%q cancelAfter=%d deadline=%v outMD=%v inMD=%v viaStream=%v withCause=%v",
		s.Shape, s.PreOps, s.ServerMsgs, s.MidOps, s.Code, s.Msg, s.PlainErr, s.FailAfter, s.ClientMsgs, s.CancelAfter, s.Deadline, s.OutMD, s.InMD, s.ViaStream, s.WithCause) +
		fmt.Sprintf(" dynamicMessages=%v oldSchema=%v metadataViaContext=%v twoHeaderAndTrailerOptions=%v", s.Dynamic, s.OldSchema, s.CtxMD, s.DupOpts)
}

// the client's own copy of the test API's file descriptor
var dynFile = func() protoreflect.FileDescriptor {
	fd, err := protodesc.NewFile(protodesc.ToFileDescriptorProto(testproto.File_internal_testproto_test_proto), protoregistry.GlobalFiles)
	if err != nil {
		panic(err)
	}
	return fd
}()

// the same file as an older client knows it: the response messages have no fields yet
var dynFileOld = func() protoreflect.FileDescriptor {
	fdp := protodesc.ToFileDescriptorProto(testproto.File_internal_testproto_test_proto)
	for _, m := range fdp.MessageType {
		if m.GetName() == "UnaryResponse" || m.GetName() == "ServerStreamResponse" {
			m.Field = nil
		}
	}
	fd, err := protodesc.NewFile(fdp, protoregistry.GlobalFiles)
	if err != nil {
		panic(err)
	}
	return fd
}()

func dynMsg(name string) *dynamicpb.Message {
	return dynamicpb.NewMessage(dynFile.Messages().ByName(protoreflect.Name(name)))
}

func dynMsgOld(name string) *dynamicpb.Message {
	return dynamicpb.NewMessage(dynFileOld.Messages().ByName(protoreflect.Name(name)))
}

func dynSet(m *dynamicpb.Message, field string, v protoreflect.Value) *dynamicpb.Message {
	m.Set(m.Descriptor().Fields().ByName(protoreflect.Name(field)), v)
	return m
}

func dynGet(m *dynamicpb.Message, field string) protoreflect.Value {
	return m.Get(m.Descriptor().Fields().ByName(protoreflect.Name(field)))
}

// ---- the one scripted server serving both transports -----------------------------------------------------------

type scriptedServer struct {
	testproto.UnimplementedTestApiServer
	mu        sync.Mutex
	script    callScript
	recvd     []string // messages received by the server in this call
	inMD      []string
	held      []any // received messages (for the isolation check)
	done      chan struct{}
	started   chan struct{}
	startOnce *sync.Once
}

func (s *scriptedServer) begin(sc callScript) {
	s.mu.Lock()
	s.script, s.recvd, s.inMD, s.held = sc, nil, nil, nil
	s.done = make(chan struct{})
	s.started = make(chan struct{})
	s.startOnce = &sync.Once{}
	s.mu.Unlock()
}

func (s *scriptedServer) finish() { close(s.done) }

func (s *scriptedServer) note(ctx context.Context, msg string, held any) {
	s.mu.Lock()
	defer s.mu.Unlock()
	s.startOnce.Do(func() { close(s.started) })
	if msg != "" {
		s.recvd = append(s.recvd, msg)
	}
	if held != nil {
		s.held = append(s.held, held)
	}
	if md, ok := metadata.FromIncomingContext(ctx); ok && s.inMD == nil {
		s.inMD = append([]string{}, md.Get("x-client")...)
		for _, v := range md.Get("x-outer") {
			// metadata of the call the client itself is serving (its incoming context) is not the server's business
			s.inMD = append(s.inMD, "x-outer="+v)
		}
	}
}

type mdSetter interface {
	SetHeader(metadata.MD) error
	SendHeader(metadata.MD) error
	SetTrailer(metadata.MD)
}

type ctxSetter struct{ ctx context.Context }

func (c ctxSetter) SetHeader(md metadata.MD) error  { return grpc.SetHeader(c.ctx, md) }
func (c ctxSetter) SendHeader(md metadata.MD) error { return grpc.SendHeader(c.ctx, md) }
func (c ctxSetter) SetTrailer(md metadata.MD)       { _ = grpc.SetTrailer(c.ctx, md) }

// setter: how this call's streaming handler reaches its headers and trailers.
func (s *scriptedServer) setter(ss mdSetter, ctx context.Context) mdSetter {
	if s.script.CtxMD {
		return ctxSetter{ctx}
	}
	return ss
}

func applyOps(ss mdSetter, ops []mdOp) {
	for _, op := range ops {
		md := metadata.Pairs(op.K, op.V)
		switch op.Kind {
		case "setHeader":
			_ = ss.SetHeader(md)
		case "sendHeader":
			_ = ss.SendHeader(md)
		case "setTrailer":
			ss.SetTrailer(md)
		}
		// the metadata value stays the handler's: it goes on using it (here: for something else entirely), which is no
		// business of what was set or sent with it
		md.Set(op.K, "reused-by-the-handler")
		md.Set("scratch", "x")
	}
}

func (s *scriptedServer) result() error {
	sc := s.script
	switch {
	case sc.Code == 0:
		return nil
	case sc.PlainErr:
		return errors.New(sc.Msg)
	}
	return status.Error(codes.Code(sc.Code), sc.Msg)
}

func (s *scriptedServer) Unary(ctx context.Context, req *testproto.UnaryRequest) (*testproto.UnaryResponse, error) {
	defer s.finish()
	sc := s.script
	s.note(ctx, req.Msg, req)
	if sc.Deadline {
		<-ctx.Done()
		return nil, status.FromContextError(ctx.Err()).Err()
	}
	applyOps(ctxSetter{ctx}, sc.PreOps)
	if err := s.result(); err != nil {
		return nil, err
	}
	return &testproto.UnaryResponse{Msg: sc.ServerMsgs[0]}, nil
}

func (s *scriptedServer) ServerStream(req *testproto.ServerStreamRequest, ss grpc.ServerStreamingServer[testproto.ServerStreamResponse]) error {
	defer s.finish()
	sc := s.script
	s.note(ss.Context(), fmt.Sprint(req.NumRes), req)
	if sc.Deadline {
		<-ss.Context().Done()
		return status.FromContextError(ss.Context().Err()).Err()
	}
	applyOps(s.setter(ss, ss.Context()), sc.PreOps)
	for i := range sc.ServerMsgs {
		if sc.FailAfter >= 0 && i >= sc.FailAfter {
			break
		}
		if sc.CancelAfter >= 0 && i == sc.CancelAfter {
			// the client cancels now: wait for it rather than racing it with further (bufferable) sends
			<-ss.Context().Done()
			return status.FromContextError(ss.Context().Err()).Err()
		}
		if err := ss.Send(&testproto.ServerStreamResponse{Counter: int32(i + 1)}); err != nil {
			return err
		}
		if i < len(sc.MidOps) {
			applyOps(s.setter(ss, ss.Context()), sc.MidOps[i])
		}
	}
	return s.result()
}

func (s *scriptedServer) ClientStream(ss grpc.ClientStreamingServer[testproto.ClientStreamRequest, testproto.ClientStreamResponse]) error {
	defer s.finish()
	sc := s.script
	s.note(ss.Context(), "", nil)
	applyOps(s.setter(ss, ss.Context()), sc.PreOps)
	for {
		m, err := ss.Recv()
		if err == io.EOF {
			break
		}
		if err != nil {
			return err
		}
		s.note(ss.Context(), m.Msg, m)
	}
	if err := s.result(); err != nil {
		return err
	}
	return ss.SendAndClose(&testproto.ClientStreamResponse{Msg: sc.ServerMsgs[0]})
}

func (s *scriptedServer) BidiStream(ss grpc.BidiStreamingServer[testproto.BidiStreamRequest, testproto.BidiStreamResponse]) error {
	defer s.finish()
	sc := s.script
	s.note(ss.Context(), "", nil)
	applyOps(s.setter(ss, ss.Context()), sc.PreOps)
	i := 0
	for {
		m, err := ss.Recv()
		if err == io.EOF {
			break
		}
		if err != nil {
			return err
		}
		s.note(ss.Context(), m.Msg, m)
		// ping-pong: one response per request while responses remain
		if i < len(sc.ServerMsgs) {
			if sc.FailAfter >= 0 && i >= sc.FailAfter {
				return s.result()
			}
			if err := ss.Send(&testproto.BidiStreamResponse{Msg: sc.ServerMsgs[i]}); err != nil {
				return err
			}
			if i < len(sc.MidOps) {
				applyOps(s.setter(ss, ss.Context()), sc.MidOps[i])
			}
			i++
		}
	}
	return s.result()
}

// ---- transcript ------------------------------------------------------------------------------------------------------

type transcript struct {
	Received   []string
	Outcome    string // ok | status:<code>:<msg> | cancelled | deadline
	Header     map[string][]string
	Trailer    map[string][]string
	ServerRecv []string
	ServerInMD []string
	Note       string
}

func outcomeOf(err error) string {
	switch {
	case err == nil || err == io.EOF:
		return "ok"
	case errors.Is(err, context.Canceled) || status.Code(err) == codes.Canceled:
		return "cancelled"
	case errors.Is(err, context.DeadlineExceeded) || status.Code(err) == codes.DeadlineExceeded:
		return "deadline"
	}
	st := status.Convert(err)
	return fmt.Sprintf("status:%v:%s", st.Code(), st.Message())
}

var userKeys = []string{"k1", "k2", "x-trace"}

func userMD(md metadata.MD) map[string][]string {
	out := map[string][]string{}
	for _, k := range userKeys {
		if v := md.Get(k); len(v) > 0 {
			vv := append([]string(nil), v...)
			sort.Strings(vv)
			out[k] = vv
		}
	}
	return out
}

// runClient executes the client side of the script against cc and returns what the client observed.
func runClient(cc grpc.ClientConnInterface, srv *scriptedServer, sc callScript) (tr transcript) {
	srv.begin(sc)
	client := testproto.NewTestApiClient(cc)
	ctx := context.Background()
	if sc.InMD {
		ctx = metadata.NewIncomingContext(ctx, metadata.Pairs("x-outer", "secret", "x-client", "from-the-outer-call"))
	}
	if sc.OutMD[0] != "" {
		ctx = metadata.AppendToOutgoingContext(ctx, "x-client", sc.OutMD[0], "x-client", sc.OutMD[1])
	}
	var cancel context.CancelFunc
	switch {
	case sc.Deadline && sc.WithCause:
		// a caller may attach its own reason to a deadline or a cancel: the call still ends as deadline / cancelled
		ctx, cancel = context.WithTimeoutCause(ctx, 40*time.Millisecond, errors.New("the operator's patience ran out"))
	case sc.Deadline:
		ctx, cancel = context.WithTimeout(ctx, 40*time.Millisecond)
	case sc.WithCause:
		var cc context.CancelCauseFunc
		ctx, cc = context.WithCancelCause(ctx)
		cancel = func() { cc(errors.New("the operator pressed stop")) }
	default:
		ctx, cancel = context.WithCancel(ctx)
	}
	defer cancel()
	var header, trailer metadata.MD
	var err error
	finishStream := func(cs grpc.ClientStream) {
		if h, herr := cs.Header(); herr == nil {
			header = h
		}
		trailer = cs.Trailer()
	}
	switch sc.Shape {
	case "unary":
		if sc.ViaStream {
			var cs grpc.ClientStream
			cs, err = cc.NewStream(ctx, &grpc.StreamDesc{}, "/sc.go.test.TestApi/Unary")
			if err == nil {
				if err = cs.SendMsg(&testproto.UnaryRequest{Msg: sc.ClientMsgs[0]}); err == nil {
					_ = cs.CloseSend()
					resp := &testproto.UnaryResponse{}
					if err = cs.RecvMsg(resp); err == nil {
						tr.Received = append(tr.Received, resp.Msg)
						// the status of a call that produced its response arrives with the end of the stream
						if err = cs.RecvMsg(&testproto.UnaryResponse{}); err == io.EOF {
							err = nil
						}
					}
				}
				finishStream(cs)
			}
			break
		}
		if sc.Dynamic {
			resp := dynMsg("UnaryResponse")
			if sc.OldSchema {
				resp = dynMsgOld("UnaryResponse")
			}
			err = cc.Invoke(ctx, "/sc.go.test.TestApi/Unary", dynSet(dynMsg("UnaryRequest"), "msg", protoreflect.ValueOfString(sc.ClientMsgs[0])), resp, grpc.Header(&header), grpc.Trailer(&trailer))
			if err == nil {
				if sc.OldSchema {
					tr.Received = append(tr.Received, fmt.Sprintf("unknown:%x", []byte(resp.GetUnknown())))
				} else {
					tr.Received = append(tr.Received, dynGet(resp, "msg").String())
				}
			}
			break
		}
		var resp *testproto.UnaryResponse
		if sc.DupOpts {
			// a helper in the call chain added its own capture options to the caller's: every destination is filled
			var header2, trailer2 metadata.MD
			resp, err = client.Unary(ctx, &testproto.UnaryRequest{Msg: sc.ClientMsgs[0]}, grpc.Header(&header2), grpc.Trailer(&trailer2), grpc.Header(&header), grpc.Trailer(&trailer))
			tr.Received = append(tr.Received, fmt.Sprintf("first capture: header=%v trailer=%v", userMD(header2), userMD(trailer2)))
		} else {
			resp, err = client.Unary(ctx, &testproto.UnaryRequest{Msg: sc.ClientMsgs[0]}, grpc.Header(&header), grpc.Trailer(&trailer))
		}
		if err == nil {
			tr.Received = append(tr.Received, resp.Msg)
		}
	case "serverStream":
		if sc.Dynamic {
			var cs grpc.ClientStream
			cs, err = cc.NewStream(ctx, &grpc.StreamDesc{ServerStreams: true}, "/sc.go.test.TestApi/ServerStream")
			if err == nil {
				err = cs.SendMsg(dynSet(dynMsg("ServerStreamRequest"), "num_res", protoreflect.ValueOfInt32(int32(len(sc.ServerMsgs)))))
				if err == nil {
					err = cs.CloseSend()
				}
				for err == nil {
					if sc.CancelAfter >= 0 && len(tr.Received) == sc.CancelAfter {
						cancel()
					}
					m := dynMsg("ServerStreamResponse")
					if sc.OldSchema {
						m = dynMsgOld("ServerStreamResponse")
					}
					if err = cs.RecvMsg(m); err == nil {
						if sc.OldSchema {
							tr.Received = append(tr.Received, fmt.Sprintf("unknown:%x", []byte(m.GetUnknown())))
						} else {
							tr.Received = append(tr.Received, fmt.Sprint(dynGet(m, "counter").Int()))
						}
					}
				}
				finishStream(cs)
			}
			break
		}
		var st grpc.ServerStreamingClient[testproto.ServerStreamResponse]
		st, err = client.ServerStream(ctx, &testproto.ServerStreamRequest{NumRes: int32(len(sc.ServerMsgs))})
		if err == nil {
			for {
				if sc.CancelAfter >= 0 && len(tr.Received) == sc.CancelAfter {
					cancel()
				}
				var m *testproto.ServerStreamResponse
				m, err = st.Recv()
				if err != nil {
					break
				}
				tr.Received = append(tr.Received, fmt.Sprint(m.Counter))
			}
			finishStream(st)
		}
	case "clientStream":
		var st grpc.ClientStreamingClient[testproto.ClientStreamRequest, testproto.ClientStreamResponse]
		st, err = client.ClientStream(ctx)
		if err == nil {
			for _, m := range sc.ClientMsgs {
				if err = st.Send(&testproto.ClientStreamRequest{Msg: m}); err != nil {
					break
				}
			}
			var resp *testproto.ClientStreamResponse
			resp, err = st.CloseAndRecv()
			if err == nil {
				tr.Received = append(tr.Received, resp.Msg)
			}
			finishStream(st)
		}
	case "bidi":
		var st grpc.BidiStreamingClient[testproto.BidiStreamRequest, testproto.BidiStreamResponse]
		st, err = client.BidiStream(ctx)
		if err == nil {
			for i, m := range sc.ClientMsgs {
				if sc.CancelAfter >= 0 && len(tr.Received) == sc.CancelAfter {
					cancel()
				}
				if err = st.Send(&testproto.BidiStreamRequest{Msg: m}); err != nil {
					break
				}
				if i < len(sc.ServerMsgs) && (sc.FailAfter < 0 || i < sc.FailAfter) {
					var r *testproto.BidiStreamResponse
					r, err = st.Recv()
					if err != nil {
						break
					}
					tr.Received = append(tr.Received, r.Msg)
				}
			}
			if err == nil {
				_ = st.CloseSend()
				_, err = st.Recv() // the terminal status
			} else {
				// the terminal status is what a Recv reports after a failed Send
				if _, rerr := st.Recv(); rerr != nil {
					err = rerr
				}
			}
			finishStream(st)
		}
	}
	tr.Outcome = outcomeOf(err)
	tr.Header, tr.Trailer = userMD(header), userMD(trailer)
	// wait for the handler so its record is complete (it always ends: ctx is cancelled on return)
	cancel()
	select {
	case <-srv.started:
		select {
		case <-srv.done:
		case <-time.After(10 * time.Second):
			tr.Note = "handler did not finish within 10s of the call ending"
		}
	case <-time.After(150 * time.Millisecond):
		// the call was cancelled before the transport handed it to the handler
	}
	srv.mu.Lock()
	tr.ServerRecv = append([]string(nil), srv.recvd...)
	tr.ServerInMD = append([]string(nil), srv.inMD...)
	srv.mu.Unlock()
	return tr
}

// ---- generation ------------------------------------------------------------------------------------------------------

func drawOps(t *rapid.T, label string, allowSendHeader bool) []mdOp {
	var ops []mdOp
	for i := 0; i < rapid.IntRange(0, 2).Draw(t, label+".n"); i++ {
		kinds := []string{"setHeader", "setTrailer"}
		if allowSendHeader {
			kinds = append(kinds, "sendHeader")
		}
		ops = append(ops, mdOp{Kind: rapid.SampledFrom(kinds).Draw(t, label+".kind"), K: rapid.SampledFrom(userKeys).Draw(t, label+".k"), V: rapid.SampledFrom([]string{"v1", "v2"}).Draw(t, label+".v")})
	}
	return ops
}

func genScript(t *rapid.T) callScript {
	sc := callScript{Shape: rapid.SampledFrom([]string{"unary", "serverStream", "clientStream", "bidi"}).Draw(t, "shape"), FailAfter: -1, CancelAfter: -1}
	headerSent := false
	sc.PreOps = drawOps(t, "pre", true)
	for _, op := range sc.PreOps {
		if op.Kind == "sendHeader" {
			headerSent = true
		}
	}
	if headerSent {
		// SetHeader/SendHeader after the headers went out is misuse in gRPC: keep only trailer operations after it
		var ops []mdOp
		seen := false
		for _, op := range sc.PreOps {
			if seen && op.Kind != "setTrailer" {
				continue
			}
			if op.Kind == "sendHeader" {
				seen = true
			}
			ops = append(ops, op)
		}
		sc.PreOps = ops
	}
	if rapid.IntRange(0, 2).Draw(t, "fails") == 0 {
		sc.Code = rapid.IntRange(1, 16).Draw(t, "code")
		sc.Msg = rapid.SampledFrom([]string{"boom", "no luck", "x"}).Draw(t, "msg")
		sc.PlainErr = rapid.IntRange(0, 5).Draw(t, "plain") == 0
	}
	if rapid.Bool().Draw(t, "outMD") {
		sc.OutMD = [2]string{"c1", "c2"}
	}
	sc.InMD = rapid.IntRange(0, 2).Draw(t, "inMD") == 0
	sc.WithCause = rapid.IntRange(0, 2).Draw(t, "withCause") == 0
	sc.CtxMD = sc.Shape != "unary" && rapid.IntRange(0, 2).Draw(t, "metadataViaContext") == 1
	switch sc.Shape {
	case "unary":
		sc.ClientMsgs = []string{rapid.SampledFrom([]string{"hello", ""}).Draw(t, "req")}
		sc.ServerMsgs = []string{"resp"}
		sc.Deadline = rapid.IntRange(0, 9).Draw(t, "deadline") == 0
		sc.ViaStream = rapid.IntRange(0, 2).Draw(t, "viaStream") == 0
		sc.Dynamic = !sc.ViaStream && rapid.IntRange(0, 3).Draw(t, "dynamic") == 0
		sc.OldSchema = sc.Dynamic && rapid.Bool().Draw(t, "oldSchema")
		sc.DupOpts = !sc.ViaStream && !sc.Dynamic && rapid.IntRange(0, 3).Draw(t, "dupCallOptions") == 1
	case "serverStream":
		sc.Dynamic = rapid.IntRange(0, 3).Draw(t, "dynamic") == 0
		sc.OldSchema = sc.Dynamic && rapid.Bool().Draw(t, "oldSchema")
		n := rapid.IntRange(0, 5).Draw(t, "nserver")
		for i := 0; i < n; i++ {
			sc.ServerMsgs = append(sc.ServerMsgs, fmt.Sprint(i+1))
			// after the first message headers are out: only trailers may be set
			sc.MidOps = append(sc.MidOps, onlyTrailers(drawOps(t, fmt.Sprintf("mid%d", i), false)))
		}
		if sc.Code != 0 && n > 0 && rapid.Bool().Draw(t, "failEarly") {
			sc.FailAfter = rapid.IntRange(0, n).Draw(t, "failAfter")
		}
		if n > 0 && sc.FailAfter < 0 && rapid.IntRange(0, 4).Draw(t, "cancels") == 0 {
			sc.CancelAfter = rapid.IntRange(0, n-1).Draw(t, "cancelAfter")
		}
		sc.Deadline = rapid.IntRange(0, 12).Draw(t, "deadline") == 0
	case "clientStream":
		for i := 0; i < rapid.IntRange(0, 5).Draw(t, "nclient"); i++ {
			sc.ClientMsgs = append(sc.ClientMsgs, fmt.Sprintf("c%d", i))
		}
		sc.ServerMsgs = []string{"summary"}
	case "bidi":
		n := rapid.IntRange(0, 5).Draw(t, "rounds")
		for i := 0; i < n; i++ {
			sc.ClientMsgs = append(sc.ClientMsgs, fmt.Sprintf("c%d", i))
			sc.ServerMsgs = append(sc.ServerMsgs, fmt.Sprintf("s%d", i))
			sc.MidOps = append(sc.MidOps, onlyTrailers(drawOps(t, fmt.Sprintf("mid%d", i), false)))
		}
		if sc.Code != 0 && n > 0 && rapid.Bool().Draw(t, "failEarly") {
			sc.FailAfter = rapid.IntRange(0, n-1).Draw(t, "failAfter")
			// after the server has failed the client must not rely on further sends being received
			sc.ClientMsgs = sc.ClientMsgs[:sc.FailAfter+1]
		}
	}
	return sc
}

func onlyTrailers(ops []mdOp) []mdOp {
	var out []mdOp
	for _, op := range ops {
		if op.Kind == "setTrailer" {
			out = append(out, op)
		}
	}
	return out
}

// ---- the two transports ----------------------------------------------------------------------------------------------

var (
	setupOnce sync.Once
	realConn  *grpc.ClientConn
	realSrv   = &scriptedServer{}
	wrapSrv   = &scriptedServer{}
	wrapConn  grpc.ClientConnInterface
)

func setup(t interface{ Fatalf(string, ...any) }) {
	setupOnce.Do(func() {
		lis := bufconn.Listen(1 << 16)
		s := grpc.NewServer()
		testproto.RegisterTestApiServer(s, realSrv)
		go func() { _ = s.Serve(lis) }()
		conn, err := grpc.NewClient("passthrough:///bufnet", grpc.WithContextDialer(func(ctx context.Context, _ string) (net.Conn, error) {
			return lis.DialContext(ctx)
		}), grpc.WithTransportCredentials(insecure.NewCredentials()))
		if err != nil {
			t.Fatalf("bufconn dial: %v", err)
		}
		realConn = conn
		wrapConn = wrap.ServerToClient(testproto.TestApi_ServiceDesc, wrapSrv)
	})
}

const wrapFrame = "sc-golang/pkg/wrap."

// TestWrapMatchesGRPC: the same script through the wrapper and through a real gRPC connection.
func TestWrapMatchesGRPC(t *testing.T) {
	setup(t)
	rapid.Check(t, func(t *rapid.T) {
		sc := genScript(t)
		t0 := time.Now()
		real := runClient(realConn, realSrv, sc)
		t1 := time.Now()
		wrapped := runClient(wrapConn, wrapSrv, sc)
		if d := time.Since(t0); d > 2*time.Second && os.Getenv("VERIF_DEBUG") != "" {
			fmt.Fprintf(os.Stderr, "SLOW real=%v wrapped=%v script=%v\n real=%+v\n wrapped=%+v\n", t1.Sub(t0), time.Since(t1), sc, real, wrapped)
		}
		if real.Note != "" {
			t.Skipf("VERIF-UNDECIDED real transport: %s", real.Note)
		}
		if wrapped.Note != "" {
			t.Fatalf("wrapped call: %s\nscript: %v", wrapped.Note, sc)
		}
		if d := diffTranscripts(real, wrapped, sc); d != "" {
			t.Fatalf("the wrapped client observed something else than the real gRPC client: %s\n real:    %+v\n wrapped: %+v\nscript: %v", d, real, wrapped, sc)
		}
		if n := lib.WaitGoroutines(0, 3*time.Second, wrapFrame); n != 0 {
			t.Fatalf("%d goroutine(s) of pkg/wrap still running after the call ended:\n%s\nscript: %v", n, lib.GoroutinesMatching(wrapFrame)[0], sc)
		}
		nt := ""
		hasMD := len(sc.PreOps) > 0
		for _, ops := range sc.MidOps {
			hasMD = hasMD || len(ops) > 0
		}
		if (len(real.Received) > 0 || len(sc.ClientMsgs) > 0) && (sc.Code != 0 || hasMD || sc.CancelAfter >= 0) {
			nt = sc.String()
		}
		lib.Ev.Class("shape:" + sc.Shape)
		lib.Ev.Class("outcome:" + strings.SplitN(real.Outcome, ":", 3)[0])
		lib.Ev.Case(nt, func() any { return map[string]any{"script": sc.String(), "transcript": fmt.Sprintf("%+v", real)} })
	})
}

func diffTranscripts(real, wrapped transcript, sc callScript) string {
	if fmt.Sprint(real.Received) != fmt.Sprint(wrapped.Received) {
		// a cancelled call may be cut at a different message on a buffered transport: compare only the prefix relation
		if sc.CancelAfter >= 0 && (strings.HasPrefix(fmt.Sprint(real.Received), strings.TrimSuffix(fmt.Sprint(wrapped.Received), "]")) || strings.HasPrefix(fmt.Sprint(wrapped.Received), strings.TrimSuffix(fmt.Sprint(real.Received), "]"))) {
			// fine
		} else {
			return "received messages differ"
		}
	}
	if real.Outcome != wrapped.Outcome {
		return "terminal outcome differs"
	}
	if sc.CancelAfter < 0 && !sc.Deadline {
		if fmt.Sprint(real.Header) != fmt.Sprint(wrapped.Header) {
			return "user header metadata differs"
		}
		if fmt.Sprint(real.Trailer) != fmt.Sprint(wrapped.Trailer) {
			return "user trailer metadata differs"
		}
		if fmt.Sprint(real.ServerRecv) != fmt.Sprint(wrapped.ServerRecv) {
			return "the server received different messages"
		}
	}
	if fmt.Sprint(real.ServerInMD) != fmt.Sprint(wrapped.ServerInMD) && !sc.Deadline && sc.CancelAfter != 0 {
		return "the server saw different request metadata"
	}
	return ""
}

// TestWrapIsolationAndShape: messages are copied across the boundary; unknown methods and shape mismatches.
func TestWrapIsolationAndShape(t *testing.T) {
	setup(t)
	rapid.Check(t, func(t *rapid.T) {
		sc := callScript{Shape: "unary", ClientMsgs: []string{rapid.SampledFrom([]string{"hello", "x"}).Draw(t, "req")}, ServerMsgs: []string{"resp"}, FailAfter: -1, CancelAfter: -1}
		wrapSrv.begin(sc)
		req := &testproto.UnaryRequest{Msg: sc.ClientMsgs[0]}
		resp, err := testproto.NewTestApiClient(wrapConn).Unary(context.Background(), req)
		if err != nil {
			t.Fatalf("unary: %v", err)
		}
		<-wrapSrv.done
		wrapSrv.mu.Lock()
		held := wrapSrv.held[0].(*testproto.UnaryRequest)
		wrapSrv.mu.Unlock()
		if held == req {
			t.Fatalf("the server received the client's own request message, not a copy")
		}
		lib.Scribble(req)
		if held.Msg != sc.ClientMsgs[0] {
			t.Fatalf("changing the client's request after the call changed the server's copy")
		}
		lib.Scribble(held)
		if resp.Msg != "resp" {
			t.Fatalf("response corrupted")
		}
		// unknown method / shape mismatch
		err = wrapConn.Invoke(context.Background(), "/sc.go.test.TestApi/Nope", req, &testproto.UnaryResponse{})
		if status.Code(err) != codes.Unimplemented {
			t.Fatalf("unknown method: %v, want Unimplemented", err)
		}
		if _, err = wrapConn.NewStream(context.Background(), &grpc.StreamDesc{ServerStreams: true}, "/sc.go.test.TestApi/Nope"); status.Code(err) != codes.Unimplemented {
			t.Fatalf("unknown stream method: %v, want Unimplemented", err)
		}
		wrongShape := rapid.SampledFrom([]struct {
			method string
			desc   grpc.StreamDesc
		}{
			{"/sc.go.test.TestApi/ServerStream", grpc.StreamDesc{ClientStreams: true}},
			{"/sc.go.test.TestApi/ServerStream", grpc.StreamDesc{ClientStreams: true, ServerStreams: true}},
			{"/sc.go.test.TestApi/ClientStream", grpc.StreamDesc{ServerStreams: true}},
			{"/sc.go.test.TestApi/BidiStream", grpc.StreamDesc{ServerStreams: true}},
			{"/sc.go.test.TestApi/Unary", grpc.StreamDesc{ServerStreams: true}},
			{"/sc.go.test.TestApi/Unary", grpc.StreamDesc{ClientStreams: true}},
			{"/sc.go.test.TestApi/Unary", grpc.StreamDesc{ClientStreams: true, ServerStreams: true}},
			{"/sc.go.test.TestApi/ClientStream", grpc.StreamDesc{ClientStreams: true, ServerStreams: true}},
			{"/sc.go.test.TestApi/BidiStream", grpc.StreamDesc{ClientStreams: true}},
		}).Draw(t, "wrongShape")
		sctx, scancel := context.WithCancel(context.Background())
		_, err = wrapConn.NewStream(sctx, &wrongShape.desc, wrongShape.method)
		scancel() // whatever was started for a stream that should not exist must not outlive this case
		if status.Code(err) != codes.Internal {
			t.Fatalf("stream shape mismatch on %s with %+v: %v, want Internal", wrongShape.method, wrongShape.desc, err)
		}
		if n := lib.WaitGoroutines(0, 3*time.Second, wrapFrame); n != 0 {
			t.Fatalf("%d goroutine(s) of pkg/wrap still running", n)
		}
		lib.Ev.Class("isolation+shape")
		lib.Ev.Case("", nil)
	})
}

// endlessServer keeps sending until its Send fails; used to park a handler in Send when the client goes away.
type endlessServer struct {
	testproto.UnimplementedTestApiServer
	exited chan error
}

func (s *endlessServer) ServerStream(req *testproto.ServerStreamRequest, ss grpc.ServerStreamingServer[testproto.ServerStreamResponse]) error {
	var err error
	for i := int32(1); ; i++ {
		if err = ss.Send(&testproto.ServerStreamResponse{Counter: i}); err != nil {
			break
		}
	}
	s.exited <- err
	return err
}

func (s *endlessServer) BidiStream(ss grpc.BidiStreamingServer[testproto.BidiStreamRequest, testproto.BidiStreamResponse]) error {
	var err error
	for i := 0; ; i++ {
		if err = ss.Send(&testproto.BidiStreamResponse{Msg: fmt.Sprint(i)}); err != nil {
			break
		}
	}
	s.exited <- err
	return err
}

// TestWrapCancelWhileServerSends: a client that cancels (or hits its deadline) while the handler is parked in Send,
// with no receiver, must release the handler: nothing of a cancelled call may stay behind.
func TestWrapCancelWhileServerSends(t *testing.T) {
	rapid.Check(t, func(t *rapid.T) {
		srv := &endlessServer{exited: make(chan error, 1)}
		conn := wrap.ServerToClient(testproto.TestApi_ServiceDesc, srv)
		client := testproto.NewTestApiClient(conn)
		recvN := rapid.IntRange(0, 4).Draw(t, "recvBeforeCancel")
		useDeadline := rapid.Bool().Draw(t, "deadline")
		bidi := rapid.Bool().Draw(t, "bidi")
		ctx, cancel := context.WithCancel(context.Background())
		if useDeadline {
			ctx, cancel = context.WithTimeout(context.Background(), 5*time.Millisecond)
		}
		defer cancel()
		var recv func() error
		neverBegan := false
		if bidi {
			st, err := client.BidiStream(ctx)
			if err != nil && !useDeadline {
				t.Fatalf("BidiStream: %v", err)
			}
			neverBegan = err != nil
			recv = func() error { _, err := st.Recv(); return err }
		} else {
			st, err := client.ServerStream(ctx, &testproto.ServerStreamRequest{})
			if err != nil && !useDeadline {
				t.Fatalf("ServerStream: %v", err)
			}
			// with a 5 ms deadline on a busy machine the call can be over before its request is sent (the generated
			// client then reports the failed send): nothing to release, but nothing may stay behind either
			neverBegan = err != nil
			recv = func() error { _, err := st.Recv(); return err }
		}
		if neverBegan {
			if n := lib.WaitGoroutines(0, 3*time.Second, wrapFrame); n != 0 {
				t.Fatalf("%d goroutine(s) of pkg/wrap still running after a call whose deadline passed while it was being opened:\n%s", n, lib.GoroutinesMatching(wrapFrame)[0])
			}
			lib.Ev.Class("cancel-while-sending: deadline passed while the call was being opened")
			lib.Ev.Case("", nil)
			return
		}
		for i := 0; i < recvN; i++ {
			if err := recv(); err != nil {
				break
			}
		}
		if !useDeadline {
			// let the handler park in its next Send, then go away without receiving again
			time.Sleep(time.Duration(rapid.IntRange(0, 300).Draw(t, "settleUs")) * time.Microsecond)
			cancel()
		}
		select {
		case err := <-srv.exited:
			if err == nil {
				t.Fatalf("handler's Send did not fail after the client went away")
			}
		case <-time.After(5 * time.Second):
			t.Fatalf("the handler is still blocked in Send 5s after the client cancelled (bidi=%v deadline=%v received=%d): a cancelled call left a goroutine behind", bidi, useDeadline, recvN)
		}
		if n := lib.WaitGoroutines(0, 3*time.Second, wrapFrame); n != 0 {
			t.Fatalf("%d goroutine(s) of pkg/wrap still running after a cancelled call:\n%s", n, lib.GoroutinesMatching(wrapFrame)[0])
		}
		lib.Ev.Class("cancel-while-sending")
		lib.Ev.Case(fmt.Sprintf("cancelsend|%v|%v|%d", bidi, useDeadline, recvN), func() any {
			return fmt.Sprintf("client goes away while the handler sends: bidi=%v deadline=%v received=%d", bidi, useDeadline, recvN)
		})
	})
}
