package c13

import (
	"context"
	"fmt"
	"net"
	"sync"
	"testing"
	"time"

	"google.golang.org/grpc"
	"google.golang.org/grpc/codes"
	"google.golang.org/grpc/credentials/insecure"
	"google.golang.org/grpc/metadata"
	"google.golang.org/grpc/status"
	"google.golang.org/grpc/test/bufconn"

	"github.com/smart-core-os/sc-golang/internal/testproto"
	"github.com/smart-core-os/sc-golang/pkg/wrap"
	"github.com/smart-core-os/sc-golang/verifh/lib"
)

// holdServer sets a header and then does not come back until the test lets it, whatever happens to its context.
type holdServer struct {
	testproto.UnimplementedTestApiServer
	mu      sync.Mutex
	entered chan struct{} // receives a token when a handler has set its header and is about to block
	release chan struct{} // closed by the test when the handler may return
}

func (h *holdServer) arm() {
	h.mu.Lock()
	h.entered, h.release = make(chan struct{}, 4), make(chan struct{})
	h.mu.Unlock()
}

func (h *holdServer) hold() {
	h.mu.Lock()
	entered, release := h.entered, h.release
	h.mu.Unlock()
	entered <- struct{}{}
	<-release
}

func (h *holdServer) Unary(ctx context.Context, req *testproto.UnaryRequest) (*testproto.UnaryResponse, error) {
	_ = grpc.SetHeader(ctx, metadata.Pairs("k1", "set-but-never-sent"))
	h.hold()
	return &testproto.UnaryResponse{Msg: "late"}, nil
}

func (h *holdServer) ServerStream(req *testproto.ServerStreamRequest, ss grpc.ServerStreamingServer[testproto.ServerStreamResponse]) error {
	_ = ss.SetHeader(metadata.Pairs("k1", "set-but-never-sent"))
	h.hold()
	return nil
}

type heldOutcome struct {
	Outcome string
	Headers int
	Prompt  bool
}

// TestClientNotHeldByHandler: a client whose deadline expires (or that cancels) while the handler is busy and has not
// sent its headers yet gets its answer then - DeadlineExceeded / Canceled, no headers - and is not kept waiting for the
// handler, through the wrapper exactly as over a real connection (real time; the handler is held for as long as the
// client takes, the client must be back within 2 s of a 50 ms deadline).
func TestClientNotHeldByHandler(t *testing.T) {
	run := func(cc grpc.ClientConnInterface, h *holdServer, variant string) (out heldOutcome) {
		h.arm()
		client := testproto.NewTestApiClient(cc)
		done := make(chan struct{})
		busy := make(chan struct{}) // closed once the handler is known to be busy
		go func() {
			defer close(done)
			switch variant {
			case "unary+deadline+header":
				ctx, cancel := context.WithTimeout(context.Background(), 50*time.Millisecond)
				defer cancel()
				var hd metadata.MD
				_, err := client.Unary(ctx, &testproto.UnaryRequest{Msg: "x"}, grpc.Header(&hd))
				out.Outcome, out.Headers = outcomeOf(err), len(hd.Get("k1"))
			case "stream+deadline+Header()":
				ctx, cancel := context.WithTimeout(context.Background(), 50*time.Millisecond)
				defer cancel()
				st, err := client.ServerStream(ctx, &testproto.ServerStreamRequest{NumRes: 1})
				if err != nil {
					out.Outcome = "open:" + outcomeOf(err)
					return
				}
				hd, _ := st.Header()
				_, err = st.Recv()
				out.Outcome, out.Headers = outcomeOf(err), len(hd.Get("k1"))
			case "stream+cancel+Header()":
				ctx, cancel := context.WithCancel(context.Background())
				defer cancel()
				st, err := client.ServerStream(ctx, &testproto.ServerStreamRequest{NumRes: 1})
				if err != nil {
					out.Outcome = "open:" + outcomeOf(err)
					return
				}
				<-busy
				cancel()
				hd, _ := st.Header()
				_, err = st.Recv()
				out.Outcome, out.Headers = outcomeOf(err), len(hd.Get("k1"))
			}
		}()
		select {
		case <-h.entered:
		case <-time.After(5 * time.Second):
		}
		close(busy)
		select {
		case <-done:
			out.Prompt = true
		case <-time.After(2 * time.Second):
		}
		close(h.release)
		<-done
		return out
	}
	realH, wrapH := &holdServer{}, &holdServer{}
	lis := bufconn.Listen(1 << 16)
	s := grpc.NewServer()
	testproto.RegisterTestApiServer(s, realH)
	go func() { _ = s.Serve(lis) }()
	defer s.Stop()
	realCC, err := grpc.NewClient("passthrough:///bufnet", grpc.WithContextDialer(func(ctx context.Context, _ string) (net.Conn, error) { return lis.DialContext(ctx) }),
		grpc.WithTransportCredentials(insecure.NewCredentials()))
	if err != nil {
		t.Fatalf("bufconn dial: %v", err)
	}
	defer realCC.Close()
	wrapCC := wrap.ServerToClient(testproto.TestApi_ServiceDesc, wrapH)
	for _, variant := range []string{"unary+deadline+header", "stream+deadline+Header()", "stream+cancel+Header()"} {
		real := run(realCC, realH, variant)
		if !real.Prompt || (real.Outcome != "deadline" && real.Outcome != "cancelled") {
			t.Logf("VERIF-UNDECIDED %s: the real transport answered %+v, nothing to compare with", variant, real)
			continue
		}
		wrapped := run(wrapCC, wrapH, variant)
		if wrapped != real {
			t.Errorf("%s: over a real connection the client got %+v, through the wrapper %+v (Prompt=false: still waiting 2s after its 50ms deadline / its cancel, while the handler was busy)", variant, real, wrapped)
			continue
		}
		lib.Ev.Class("held handler:" + variant)
		v := variant
		lib.Ev.Case("held|"+v, func() any { return fmt.Sprintf("%s: both transports %+v", v, real) })
	}
	if n := lib.WaitGoroutines(0, 3*time.Second, wrapFrame); n != 0 {
		t.Errorf("%d goroutine(s) of pkg/wrap still running after the held calls ended", n)
	}
	_ = status.Code
	_ = codes.OK
}
