package c13

import (
	"context"
	"fmt"
	"testing"
	"time"

	"google.golang.org/grpc"
	"google.golang.org/grpc/codes"
	"google.golang.org/grpc/status"
	"pgregory.net/rapid"

	"github.com/smart-core-os/sc-golang/internal/testproto"
	"github.com/smart-core-os/sc-golang/verifh/lib"
)

// TestMethodNamesMatchGRPC: which full method names reach a handler is decided the same way as by a gRPC server with
// only this service registered: "/<service>/<method>" for exactly the registered service name and one of its methods,
// nothing else. The names are drawn from a family around the real ones: services that have the registered name as a
// prefix (TestApiV2, TestApi.Sub, TestApiInfo), differ in case or package, methods that differ in case, carry a suffix or
// an extra segment. Both transports get the same call; compared are whether a handler ran, whether the call succeeded,
// and for well-formed names the status code.
func TestMethodNamesMatchGRPC(t *testing.T) {
	setup(t)
	services := []string{"sc.go.test.TestApi", "sc.go.test.TestApi", "sc.go.test.TestApiV2", "sc.go.test.TestApi.Sub", "sc.go.test.TestApiInfo", "sc.go.test.TestApi2",
		"sc.go.test.Other", "sc.go.test.testapi", "sc.go.TestApi", "TestApi", "x.sc.go.test.TestApi", "sc.go.test.TestAp"}
	methods := []string{"Unary", "Unary", "ServerStream", "Nope", "unary", "Unary2", "Unar", "UnaryX/Unary", "Sub/Unary"}
	rapid.Check(t, func(t *rapid.T) {
		svc := rapid.SampledFrom(services).Draw(t, "service")
		m := rapid.SampledFrom(methods).Draw(t, "method")
		full := "/" + svc + "/" + m
		// the call has the shape of the method it names (a shape mismatch on an existing method is another matter)
		stream := m == "ServerStream" || (m != "Unary" && rapid.IntRange(0, 2).Draw(t, "asStream") == 0)
		sc := callScript{Shape: "unary", ClientMsgs: []string{"hello"}, ServerMsgs: []string{"resp"}, FailAfter: -1, CancelAfter: -1}
		type obs struct {
			ran  bool
			code codes.Code
			resp string
		}
		call := func(conn grpc.ClientConnInterface, srv *scriptedServer) obs {
			srv.begin(sc)
			var o obs
			ctx, cancel := context.WithTimeout(context.Background(), 5*time.Second)
			defer cancel()
			if stream {
				cs, err := conn.NewStream(ctx, &grpc.StreamDesc{ServerStreams: true}, full)
				if err == nil {
					err = cs.SendMsg(&testproto.ServerStreamRequest{})
					if err == nil {
						err = cs.CloseSend()
					}
					if err == nil {
						err = cs.RecvMsg(&testproto.ServerStreamResponse{})
					}
				}
				o.code = status.Code(err)
			} else {
				resp := &testproto.UnaryResponse{}
				err := conn.Invoke(ctx, full, &testproto.UnaryRequest{Msg: "hello"}, resp)
				o.code, o.resp = status.Code(err), resp.Msg
			}
			select {
			case <-srv.started:
				o.ran = true
				<-srv.done
			case <-time.After(50 * time.Millisecond):
			}
			return o
		}
		real := call(realConn, realSrv)
		wrapped := call(wrapConn, wrapSrv)
		if real.ran != wrapped.ran {
			t.Fatalf("%s (stream=%v): over gRPC a handler ran=%v (code %v), through the wrapper a handler ran=%v (code %v, response %q)", full, stream, real.ran, real.code, wrapped.ran, wrapped.code, wrapped.resp)
		}
		if (real.code == codes.OK) != (wrapped.code == codes.OK) || real.resp != wrapped.resp {
			t.Fatalf("%s (stream=%v): gRPC answers %v %q, the wrapper %v %q", full, stream, real.code, real.resp, wrapped.code, wrapped.resp)
		}
		if !real.ran && real.code == codes.Unimplemented && wrapped.code != codes.Unimplemented {
			t.Fatalf("%s (stream=%v): gRPC answers Unimplemented, the wrapper %v", full, stream, wrapped.code)
		}
		nt := ""
		if svc != "sc.go.test.TestApi" {
			nt = fmt.Sprintf("%s|%v", full, stream)
			lib.Ev.Class("method name on a service other than the wrapped one")
		}
		lib.Ev.Case(nt, func() any { return fmt.Sprintf("%s stream=%v -> ran=%v code=%v", full, stream, real.ran, real.code) })
	})
}
