package c01

import (
	"errors"
	"fmt"
	"strings"
	"testing"

	"pgregory.net/rapid"

	"github.com/smart-core-os/sc-golang/verifh/lib"
	"github.com/smart-core-os/sc-golang/verifh/rlib"
)

func runSequence(t *rapid.T, isValue bool) {
	cfg, alphabet := rlib.GenConfig(t, isValue, false)
	// a backpressured subscriber runs alongside: failed calls must emit nothing, successful ones exactly one event
	r := rlib.NewRunner(cfg, rlib.SubSpec{Backpressure: true})
	n := rapid.IntRange(1, 30).Draw(t, "steps")
	if rapid.IntRange(0, 14).Draw(t, "long") == 0 {
		n = rapid.IntRange(31, 150).Draw(t, "stepsLong") // long lived resources: many generated ids, many reuses of one option
	}
	multi := false
	for i := 0; i < n; i++ {
		op := rlib.GenOp(t, r, alphabet, true)
		err := r.Do(op)
		if errors.Is(err, rlib.ErrStop) {
			lib.Ev.Class("stopped:unspecified outcome")
			break
		}
		if err != nil {
			t.Fatalf("%v\nconfig: %v\nhistory:\n  %s", err, cfg, strings.Join(r.History, "\n  "))
		}
		if op.NumOptions() >= 2 {
			multi = true
		}
	}
	if err := r.Finish(); err != nil {
		t.Fatalf("%v\nconfig: %v\nhistory:\n  %s", err, cfg, strings.Join(r.History, "\n  "))
	}
	for _, k := range r.OutcomeKey {
		if i := strings.LastIndex(k, "="); i >= 0 {
			lib.Ev.Class("outcome:" + k[i+1:])
		}
	}
	if r.OptionsReused() > 0 {
		lib.Ev.Class("an option value was passed to more than one call")
	}
	if r.SameObjectWrites > 0 {
		lib.Ev.Class("a write was handed the object a Get returned")
	}
	if n > 30 {
		lib.Ev.Class("long history (31-150 calls)")
	}
	nt := ""
	if r.FailedWrites > 0 && r.OKWrites > 0 && multi {
		nt = fmt.Sprintf("%v|%s", cfg.IsValue, strings.Join(r.OutcomeKey, ";"))
	}
	lib.Ev.Case(nt, func() any {
		return map[string]any{"config": cfg.String(), "history": r.History}
	})
}

// TestValueSequences: Value vs the register model.
func TestValueSequences(t *testing.T) {
	rapid.Check(t, func(t *rapid.T) { runSequence(t, true) })
}

// TestCollectionSequences: Collection vs the map model.
func TestCollectionSequences(t *testing.T) {
	rapid.Check(t, func(t *rapid.T) { runSequence(t, false) })
}
