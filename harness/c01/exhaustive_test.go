package c01

import (
	"errors"
	"fmt"
	"strings"
	"testing"

	"google.golang.org/protobuf/proto"
	"google.golang.org/protobuf/types/known/fieldmaskpb"

	"github.com/smart-core-os/sc-golang/internal/testproto"
	"github.com/smart-core-os/sc-golang/verifh/lib"
	"github.com/smart-core-os/sc-golang/verifh/rlib"
)

func fm(c, d int32) proto.Message { return &testproto.ForeignMessage{C: c, D: d} }

// curatedOps: every option appears, and the list is closed under the two ids and two values.
func curatedOps(isValue bool) []rlib.Op {
	var ops []rlib.Op
	vals := []proto.Message{fm(1, 1), fm(2, 0)}
	maskC := &fieldmaskpb.FieldMask{Paths: []string{"c"}}
	if isValue {
		for _, v := range vals {
			ops = append(ops,
				rlib.Op{Kind: rlib.OpSet, Val: v},
				rlib.Op{Kind: rlib.OpSet, Val: v, UpdateMask: maskC},
				rlib.Op{Kind: rlib.OpSet, Val: v, Expected: fm(1, 1), ExpectedLabel: "v1"},
				rlib.Op{Kind: rlib.OpSet, Val: v, Check: "counter=1"},
				rlib.Op{Kind: rlib.OpSet, Val: v, Before: "delta"},
				rlib.Op{Kind: rlib.OpSet, Val: v, ResetMask: &fieldmaskpb.FieldMask{Paths: []string{"d"}}, WriteTick: 77},
				rlib.Op{Kind: rlib.OpSet, Val: v, UpdateMask: &fieldmaskpb.FieldMask{Paths: []string{"nope"}}},
				rlib.Op{Kind: rlib.OpSet, Val: v, UpdateMask: &fieldmaskpb.FieldMask{}},
			)
		}
		ops = append(ops, rlib.Op{Kind: rlib.OpGet}, rlib.Op{Kind: rlib.OpGet, ReadMask: maskC})
		return ops
	}
	for _, id := range []string{"a", "b"} {
		for _, v := range vals {
			ops = append(ops,
				rlib.Op{Kind: rlib.OpAdd, ID: id, Val: v, CreatedCB: true},
				rlib.Op{Kind: rlib.OpUpdate, ID: id, Val: v},
				rlib.Op{Kind: rlib.OpUpdate, ID: id, Val: v, CreateIfAbsent: true, CreatedCB: true, After: "noop"},
				rlib.Op{Kind: rlib.OpUpdate, ID: id, Val: v, UpdateMask: maskC, MoreUpdateMask: &fieldmaskpb.FieldMask{Paths: []string{"d"}}},
				rlib.Op{Kind: rlib.OpUpdate, ID: id, Val: v, Expected: fm(1, 1), ExpectedLabel: "v1", WriteTick: 99},
				rlib.Op{Kind: rlib.OpUpdate, ID: id, Val: v, Check: "counter=1", CreateIfAbsent: true},
				rlib.Op{Kind: rlib.OpUpdate, ID: id, Val: v, Before: "delta", CreateIfAbsent: true},
				rlib.Op{Kind: rlib.OpUpdate, ID: id, Val: v, ExpectAbsent: true, CreateIfAbsent: true},
				rlib.Op{Kind: rlib.OpUpdate, ID: id, Val: v, UpdateMask: &fieldmaskpb.FieldMask{Paths: []string{"c.x"}}, CreateIfAbsent: true},
				rlib.Op{Kind: rlib.OpUpdate, ID: id, Val: v, ResetMask: &fieldmaskpb.FieldMask{Paths: []string{"d"}}},
			)
		}
		ops = append(ops,
			rlib.Op{Kind: rlib.OpDelete, ID: id},
			rlib.Op{Kind: rlib.OpDelete, ID: id, AllowMissing: true},
			rlib.Op{Kind: rlib.OpDelete, ID: id, Expected: fm(1, 1), ExpectedLabel: "v1"},
			rlib.Op{Kind: rlib.OpDelete, ID: id, Check: "reject:DATA_LOSS", AllowMissing: true},
			rlib.Op{Kind: rlib.OpGet, ID: id, ReadMask: maskC},
		)
	}
	ops = append(ops,
		rlib.Op{Kind: rlib.OpAdd, ID: "", Val: vals[0], GenID: true, CreatedCB: true},
		rlib.Op{Kind: rlib.OpUpdate, ID: "", Val: vals[1], GenID: true},
		rlib.Op{Kind: rlib.OpList},
	)
	return ops
}

type exhCase struct {
	IsValue bool
	Ops     []int
}

func runExh(c exhCase) error {
	ops := curatedOps(c.IsValue)
	cfg := rlib.Config{IsValue: c.IsValue, Proto: &testproto.ForeignMessage{}, StaticRNG: true}
	if !c.IsValue {
		cfg.Initial = map[string]proto.Message{}
	}
	r := rlib.NewRunner(cfg, rlib.SubSpec{Backpressure: true})
	for _, i := range c.Ops {
		if err := r.Do(ops[i]); err != nil {
			if errors.Is(err, rlib.ErrStop) {
				break
			}
			return fmt.Errorf("%v\nhistory:\n  %s", err, strings.Join(r.History, "\n  "))
		}
	}
	if err := r.Finish(); err != nil {
		return fmt.Errorf("%v\nhistory:\n  %s", err, strings.Join(r.History, "\n  "))
	}
	nt := ""
	if r.FailedWrites > 0 && r.OKWrites > 0 {
		nt = strings.Join(r.OutcomeKey, ";") + fmt.Sprint(c.Ops)
	}
	lib.Ev.Case(nt, func() any { return map[string]any{"exhaustive": true, "history": r.History} })
	return nil
}

// TestExhaustiveShort enumerates every sequence of curated calls up to length 2 (quick) / 3 (thorough).
func TestExhaustiveShort(t *testing.T) {
	maxLens := map[bool]int{true: lib.Scale(3, 4), false: lib.Scale(2, 3)}
	done := false
	lib.Enumerate(t, "TestExhaustiveShort", func(yield func(exhCase) bool) {
		for _, isValue := range []bool{true, false} {
			n := len(curatedOps(isValue))
			maxLen := maxLens[isValue]
			var rec func(prefix []int) bool
			rec = func(prefix []int) bool {
				if len(prefix) > 0 {
					if !yield(exhCase{IsValue: isValue, Ops: append([]int(nil), prefix...)}) {
						return false
					}
				}
				if len(prefix) == maxLen {
					return true
				}
				for i := 0; i < n; i++ {
					if !rec(append(prefix, i)) {
						return false
					}
				}
				return true
			}
			if !rec(nil) {
				return
			}
		}
		done = true
	}, runExh)
	lib.Ev.Exhaustive(fmt.Sprintf("curated call sequences up to length %d (Value) / %d (Collection)", maxLens[true], maxLens[false]), done)
}
