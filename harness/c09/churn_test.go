package c09

import (
	"fmt"
	"testing"

	"pgregory.net/rapid"

	"github.com/smart-core-os/sc-golang/verifh/lib"
	"github.com/smart-core-os/sc-golang/verifh/rlib"
)

// TestLossyChurn: one writer, lossy subscribers joining and leaving all the time: a subscriber that keeps receiving gets
// the most recent value of every write it was subscribed for the whole of, and with backpressure nothing is dropped,
// whatever the other subscribers do (see rlib.RunChurn).
func TestLossyChurn(t *testing.T) {
	rapid.Check(t, func(t *rapid.T) {
		c := rlib.ChurnConfig{
			IsValue:      rapid.Bool().Draw(t, "isValue"),
			Backpressure: rapid.IntRange(0, 1).Draw(t, "backpressure") == 0,
			Writes:       rapid.IntRange(100, 800).Draw(t, "writes"),
			Churners:     rapid.IntRange(2, 6).Draw(t, "churners"),
			Lifetimes:    rapid.SliceOfN(rapid.IntRange(0, 30), 6, 6).Draw(t, "lifetimes"),
		}
		if c.Backpressure && rapid.Bool().Draw(t, "twoWriters") {
			c.Writers = 2
			c.Writes = rapid.IntRange(100, 400).Draw(t, "writesEach")
		}
		problem, joins := rlib.RunChurnWriters(c)
		if problem != "" {
			t.Fatalf("%s\nrun: %+v (%d subscriptions opened)", problem, c, joins)
		}
		lib.Ev.Class("api:subscriber churn")
		lib.Ev.Case(fmt.Sprintf("churn|%+v", c), func() any { return fmt.Sprintf("subscriber churn %+v: %d subscriptions opened", c, joins) })
	})
}
