package c09

import (
	"context"
	"fmt"
	"sync"
	"testing"
	"time"

	"github.com/smart-core-os/sc-api/go/types"

	"github.com/smart-core-os/sc-golang/internal/testproto"
	"github.com/smart-core-os/sc-golang/pkg/resource"
	"github.com/smart-core-os/sc-golang/verifh/lib"
)

// TestBackpressureSlowCollectionConsumer: a backpressured Collection subscriber that pauses for longer than any send
// timeout in the library (6.5 s) and then carries on receiving loses nothing: the writer waits, and after the pause
// every event arrives, in order. Each kind of write is tried as the one that has to wait (real time, scenarios run in
// parallel).
func TestBackpressureSlowCollectionConsumer(t *testing.T) {
	const pause = 6500 * time.Millisecond
	kinds := []string{"Add", "Update", "Delete", "Update-create"}
	var wg sync.WaitGroup
	errs := make([]error, len(kinds))
	for ki, kind := range kinds {
		ki, kind := ki, kind
		wg.Add(1)
		go func() {
			defer wg.Done()
			errs[ki] = func() error {
				col := resource.NewCollection(resource.WithInitialRecord("j", fmsg(1)), resource.WithInitialRecord("k", fmsg(2)))
				ctx, cancel := context.WithCancel(context.Background())
				defer cancel()
				ch := col.Pull(ctx, resource.WithBackpressure(true), resource.WithUpdatesOnly(true))
				type ev struct {
					id   string
					kind types.ChangeType
					c    int32
				}
				resume := make(chan struct{})
				got := make(chan ev, 8)
				go func() {
					<-resume
					for e := range ch {
						x := ev{id: e.Id, kind: e.ChangeType}
						if e.NewValue != nil {
							x.c = e.NewValue.(*testproto.ForeignMessage).C
						}
						got <- x
					}
				}()
				// write 1 fills the delivery slot (the forwarding goroutine holds it); write 2 is the one that must wait
				want := []ev{{"j", types.ChangeType_UPDATE, 10}}
				type res struct {
					err error
					d   time.Duration
				}
				done := make(chan res, 1)
				go func() {
					if _, err := col.Update("j", fmsg(10)); err != nil {
						done <- res{err: fmt.Errorf("first write: %w", err)}
						return
					}
					t0 := time.Now()
					var err error
					switch kind {
					case "Add":
						_, err = col.Add("n", fmsg(20))
					case "Update":
						_, err = col.Update("k", fmsg(20))
					case "Update-create":
						_, err = col.Update("n", fmsg(20), resource.WithCreateIfAbsent())
					case "Delete":
						_, err = col.Delete("k")
					}
					if err == nil {
						// and one more behind it
						_, err = col.Update("j", fmsg(30))
					}
					done <- res{err, time.Since(t0)}
				}()
				switch kind {
				case "Add", "Update-create":
					want = append(want, ev{"n", types.ChangeType_ADD, 20})
				case "Update":
					want = append(want, ev{"k", types.ChangeType_UPDATE, 20})
				case "Delete":
					want = append(want, ev{"k", types.ChangeType_REMOVE, 0})
				}
				want = append(want, ev{"j", types.ChangeType_UPDATE, 30})
				time.Sleep(pause)
				select {
				case r := <-done:
					return fmt.Errorf("the writer finished (%v after %v) while the backpressured subscriber was not receiving: with backpressure writers wait for delivery", r.err, r.d)
				default:
				}
				close(resume)
				for i, w := range want {
					select {
					case g := <-got:
						if g != w {
							return fmt.Errorf("after the pause event %d is %v, want %v: an event was dropped or reordered although the subscriber carried on receiving (expected %v)", i, g, w, want)
						}
					case <-time.After(10 * time.Second):
						return fmt.Errorf("after the pause event %d (%v) never arrived: it was dropped although the subscriber carried on receiving (expected %v)", i, w, want)
					}
				}
				select {
				case r := <-done:
					if r.err != nil {
						return fmt.Errorf("the waiting write failed after %v: %v (the subscriber was slow, not gone)", r.d, r.err)
					}
				case <-time.After(10 * time.Second):
					return fmt.Errorf("the writer did not finish within 10s after the subscriber resumed")
				}
				return nil
			}()
		}()
	}
	wg.Wait()
	for ki, err := range errs {
		if err != nil {
			t.Errorf("waiting write = %s: %v", kinds[ki], err)
			continue
		}
		lib.Ev.Class("api:slow backpressured collection consumer")
		kind := kinds[ki]
		lib.Ev.Case("slow-consumer:"+kind, func() any {
			return fmt.Sprintf("backpressured Collection.Pull paused %v with a %s waiting for delivery: writer waited, all events arrived in order", pause, kind)
		})
	}
}
