package c09

import (
	"context"
	"fmt"
	"strings"
	"sync"
	"sync/atomic"
	"testing"
	"time"

	"github.com/smart-core-os/sc-api/go/types"
	"pgregory.net/rapid"

	"github.com/smart-core-os/sc-golang/internal/testproto"
	"github.com/smart-core-os/sc-golang/pkg/resource"
	"github.com/smart-core-os/sc-golang/verifh/lib"
)

// knownDeleteUnderLock: Collection.Delete publishes its REMOVE event while it holds the collection's write lock.
const knownDeleteUnderLock = "C09:collection-delete-publishes-under-lock:consumer-reads-between-receives"

// TestBackpressuredConsumerThatReads: the consumer of a backpressured stream does what consumers of change streams
// commonly do: on a change it reads the resource (Get / List) before it receives the next one. It never stops
// servicing the stream, so the backpressure clause applies in full: the writer waits for delivery, every write
// succeeds, and exactly one event per write arrives, in order. A write that holds the resource's lock while it waits
// for this consumer can never be served by it: the consumer is waiting for that lock.
func TestBackpressuredConsumerThatReads(t *testing.T) {
	rapid.Check(t, func(t *rapid.T) {
		isValue := rapid.IntRange(0, 2).Draw(t, "isValue") == 0
		n := rapid.IntRange(2, 25).Draw(t, "writes")
		nsubs := rapid.IntRange(1, 3).Draw(t, "subs")
		readEvery := make([]int, nsubs) // 0: never reads; k: reads after every k-th event
		for i := range readEvery {
			readEvery[i] = rapid.SampledFrom([]int{0, 1, 1, 2, 3}).Draw(t, "readEvery")
		}
		type wr struct {
			kind string // set | update | add | delete
			id   string
			v    int32
		}
		writes := make([]wr, n)
		hasDelete := rapid.IntRange(0, 4).Draw(t, "withDeletes") == 0
		for k := range writes {
			w := wr{kind: "set", v: int32(k + 1)}
			if !isValue {
				w.id = rapid.SampledFrom([]string{"a", "b"}).Draw(t, "id")
				w.kind = "update"
				if hasDelete && rapid.IntRange(0, 2).Draw(t, "delete") == 0 {
					w.kind = "delete"
				}
			}
			writes[k] = w
		}
		var val *resource.Value
		var col *resource.Collection
		if isValue {
			val = resource.NewValue(resource.WithInitialValue(fmsg(0)))
		} else {
			col = resource.NewCollection(resource.WithInitialRecord("a", fmsg(0)))
		}
		ctx, cancel := context.WithCancel(context.Background())
		defer cancel()
		var consumers sync.WaitGroup
		got := make([][]string, nsubs)
		counts := make([]atomic.Int64, nsubs)
		for i := 0; i < nsubs; i++ {
			i := i
			consumers.Add(1)
			read := func(k int) {
				if readEvery[i] == 0 || k%readEvery[i] != 0 {
					return
				}
				if isValue {
					_ = val.Get()
				} else if k%2 == 0 {
					_ = col.List()
				} else {
					_, _ = col.Get("a")
				}
			}
			if isValue {
				ch := val.Pull(ctx, resource.WithBackpressure(true), resource.WithUpdatesOnly(true))
				go func() {
					defer consumers.Done()
					k := 0
					for e := range ch {
						k++
						got[i] = append(got[i], fmt.Sprintf("set %d", e.Value.(*testproto.ForeignMessage).C))
						counts[i].Add(1)
						read(k)
					}
				}()
			} else {
				ch := col.Pull(ctx, resource.WithBackpressure(true), resource.WithUpdatesOnly(true))
				go func() {
					defer consumers.Done()
					k := 0
					for e := range ch {
						k++
						if e.ChangeType == types.ChangeType_REMOVE {
							got[i] = append(got[i], "delete "+e.Id)
						} else {
							got[i] = append(got[i], fmt.Sprintf("update %s %d", e.Id, e.NewValue.(*testproto.ForeignMessage).C))
						}
						counts[i].Add(1)
						read(k)
					}
				}()
			}
		}
		// the writer
		var cur atomic.Int64
		cur.Store(-1)
		var want []string
		werr := make(chan error, 1)
		go func() {
			for k, w := range writes {
				cur.Store(int64(k))
				var err error
				switch w.kind {
				case "set":
					_, err = val.Set(fmsg(w.v))
					want = append(want, fmt.Sprintf("set %d", w.v))
				case "update":
					_, err = col.Update(w.id, fmsg(w.v), resource.WithCreateIfAbsent())
					want = append(want, fmt.Sprintf("update %s %d", w.id, w.v))
				case "delete":
					var old any
					old, err = col.Delete(w.id, resource.WithAllowMissing(true))
					if old != nil && err == nil {
						want = append(want, "delete "+w.id)
					}
				}
				if err != nil {
					werr <- fmt.Errorf("write %d (%s %s %d) failed: %v", k, w.kind, w.id, w.v, err)
					return
				}
			}
			cur.Store(int64(len(writes)))
			werr <- nil
		}()
		desc := func() string {
			var ws []string
			for _, w := range writes {
				ws = append(ws, strings.TrimSpace(fmt.Sprintf("%s %s %d", w.kind, w.id, w.v)))
			}
			return fmt.Sprintf("isValue=%v consumers read after every k-th event, k=%v; writes: %s", isValue, readEvery, strings.Join(ws, ", "))
		}
		// progress watch: as long as the writer moves on, keep waiting; a write that makes no progress for stuckFor is stuck
		const stuckFor = 2500 * time.Millisecond
		last, lastAt := int64(-2), time.Now()
		var err error
	wait:
		for {
			select {
			case err = <-werr:
				break wait
			case <-time.After(20 * time.Millisecond):
			}
			if c := cur.Load(); c != last {
				last, lastAt = c, time.Now()
				continue
			}
			if time.Since(lastAt) < stuckFor {
				continue
			}
			k := int(last)
			stuck := writes[k]
			if !isValue && stuck.kind == "delete" && lib.IsKnown(knownDeleteUnderLock) {
				cancel() // releases the Delete (a cancelled listener no longer holds a send up)
				<-werr
				consumers.Wait()
				lib.Ev.Class("known: Delete stuck behind a consumer that reads")
				return
			}
			if isValue {
				continue // a Value write gives up by itself (send timeout) and reports an error: wait for that
			}
			cancel()
			t.Fatalf("write %d (%s %s) made no progress for %v: the writer waits for a backpressured consumer which is itself waiting to read the resource (all consumers only read between receives)\n%s",
				k, stuck.kind, stuck.id, stuckFor, desc())
		}
		if err != nil {
			cancel()
			t.Fatalf("%v: every consumer kept servicing its stream (reading the resource between receives)\n%s", err, desc())
		}
		// every event arrived? (backpressure: delivery is complete when the write returned, apart from the hand-over of the last one)
		deadline := time.Now().Add(10 * time.Second)
		for i := 0; i < nsubs; i++ {
			for {
				if int(counts[i].Load()) >= len(want) || time.Now().After(deadline) {
					break
				}
				time.Sleep(200 * time.Microsecond)
			}
		}
		cancel()
		consumers.Wait()
		for i := 0; i < nsubs; i++ {
			if strings.Join(got[i], ";") != strings.Join(want, ";") {
				t.Fatalf("consumer %d received %v, want exactly %v\n%s", i, got[i], want, desc())
			}
		}
		reads := 0
		for _, r := range readEvery {
			if r > 0 {
				reads++
			}
		}
		nt := ""
		if reads > 0 && len(want) >= 3 {
			nt = desc()
			lib.Ev.Class("backpressured consumer reads the resource between receives")
		}
		lib.Ev.Case(nt, func() any { return desc() })
	})
}
