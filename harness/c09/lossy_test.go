package c09

import (
	"context"
	"fmt"
	"strings"
	"sync"
	"testing"
	"time"

	"google.golang.org/protobuf/proto"
	"pgregory.net/rapid"

	"github.com/smart-core-os/sc-api/go/types"

	"github.com/smart-core-os/sc-golang/internal/minibus"
	"github.com/smart-core-os/sc-golang/internal/testproto"
	"github.com/smart-core-os/sc-golang/pkg/resource"
	"github.com/smart-core-os/sc-golang/verifh/lib"
)

const guard = 5 * time.Second

// ---- DropExcess, driven directly -------------------------------------------------------------------------------------

// script: true = receive, false = send next number.
func runDropExcess(script []bool) (bool, error) {
	in := make(chan any)
	out := minibus.DropExcess(in)
	defer close(in)
	sent, lastRecv, pendingSince := 0, 0, 0
	dropped, recvBetween := false, false
	recv := func(step int) error {
		select {
		case v, ok := <-out:
			if !ok {
				return fmt.Errorf("step %d: output closed", step)
			}
			if v.(int) != sent {
				return fmt.Errorf("step %d: received %v, the most recent message sent is %d", step, v, sent)
			}
			if sent-lastRecv >= 2 {
				dropped = true
			}
			lastRecv = sent
			pendingSince = 0
		case <-time.After(guard):
			return fmt.Errorf("step %d: message %d is pending but nothing was delivered within %v", step, sent, guard)
		}
		return nil
	}
	for step, r := range script {
		if r {
			if lastRecv == sent {
				continue // nothing pending
			}
			if err := recv(step); err != nil {
				return false, err
			}
			recvBetween = true
			continue
		}
		sent++
		pendingSince++
		select {
		case in <- sent:
		case <-time.After(guard):
			return false, fmt.Errorf("step %d: send blocked for %v although DropExcess must never make the producer wait for the consumer", step, guard)
		}
	}
	if lastRecv != sent {
		if err := recv(len(script)); err != nil {
			return false, err
		}
	}
	select {
	case v, ok := <-out:
		if ok {
			return false, fmt.Errorf("an extra (stale or duplicate) message %v was delivered after the latest one", v)
		}
	case <-time.After(300 * time.Microsecond):
	}
	return dropped && recvBetween, nil
}

type dropCase struct{ Script []bool }

func TestDropExcessExhaustive(t *testing.T) {
	maxLen := lib.Scale(10, 14)
	done := false
	lib.Enumerate(t, "TestDropExcessExhaustive", func(yield func(dropCase) bool) {
		for l := 1; l <= maxLen; l++ {
			for bits := 0; bits < 1<<l; bits++ {
				s := make([]bool, l)
				for i := range s {
					s[i] = bits&(1<<i) != 0
				}
				if !yield(dropCase{s}) {
					return
				}
			}
		}
		done = true
	}, func(c dropCase) error {
		nt, err := runDropExcess(c.Script)
		key := ""
		if nt {
			key = fmt.Sprint(c.Script)
		}
		lib.Ev.Case(key, func() any { return fmt.Sprintf("DropExcess script (true=receive) %v", c.Script) })
		return err
	})
	lib.Ev.Exhaustive(fmt.Sprintf("DropExcess send/receive scripts up to length %d", maxLen), done)
}

// guarded runs f and reports whether it returned within the guard (a writer blocked by a slow reader never returns).
func guarded(f func() error) (error, bool) {
	done := make(chan error, 1)
	go func() { done <- f() }()
	select {
	case err := <-done:
		return err, true
	case <-time.After(guard):
		return nil, false
	}
}

// ---- API level: lossy Pull with scripted consumer pacing -----------------------------------------------------------

func fmsg(n int32) proto.Message { return &testproto.ForeignMessage{C: n} }

type paced struct {
	mu     sync.Mutex
	tokens chan struct{}
	events []*resource.CollectionChange
	errs   []string
}

// TestLossyCollectionPull: writes never wait for a slow lossy subscriber, the folded view converges, old values chain.
func TestLossyCollectionPull(t *testing.T) {
	rapid.Check(t, func(t *rapid.T) {
		opts := []resource.Option{}
		store := map[string]int32{}
		for _, id := range []string{"a", "b", "c", ""} {
			if rapid.Bool().Draw(t, "init-"+id) {
				store[id] = 0
				opts = append(opts, resource.WithInitialRecord(id, fmsg(0)))
			}
		}
		c := resource.NewCollection(opts...)
		ctx, cancel := context.WithCancel(context.Background())
		defer cancel()
		updatesOnly := rapid.Bool().Draw(t, "updatesOnly")
		ch := c.Pull(ctx, resource.WithUpdatesOnly(updatesOnly)) // backpressure defaults to off
		view := map[string]int32{}
		known := map[string]bool{} // ids the view has information about
		if updatesOnly {
			for id, v := range store {
				view[id] = v
			}
		}
		apply := func(e *resource.CollectionChange) error {
			old, had := view[e.Id]
			if known[e.Id] || !updatesOnly {
				// chain: the event's old value is what the view holds
				switch {
				case e.OldValue == nil && had:
					return fmt.Errorf("event {%s %v} has no old value but the view holds %d", e.Id, e.ChangeType, old)
				case e.OldValue != nil && !had:
					return fmt.Errorf("event {%s %v old=%v} but the view holds nothing for it", e.Id, e.ChangeType, e.OldValue)
				case e.OldValue != nil && e.OldValue.(*testproto.ForeignMessage).C != old:
					return fmt.Errorf("event {%s %v old=%v}: old value does not chain, the view holds %d", e.Id, e.ChangeType, e.OldValue, old)
				}
			}
			known[e.Id] = true
			switch e.ChangeType {
			case types.ChangeType_REMOVE:
				delete(view, e.Id)
			case types.ChangeType_ADD, types.ChangeType_UPDATE, types.ChangeType_REPLACE:
				if e.NewValue == nil {
					return fmt.Errorf("event {%s %v} without new value", e.Id, e.ChangeType)
				}
				view[e.Id] = e.NewValue.(*testproto.ForeignMessage).C
			default:
				return fmt.Errorf("unexpected change type %v", e.ChangeType)
			}
			return nil
		}
		recvOne := func() error {
			select {
			case e, ok := <-ch:
				if !ok {
					return fmt.Errorf("stream closed")
				}
				return apply(e)
			case <-time.After(guard):
				return fmt.Errorf("no event within %v although changes are outstanding", guard)
			}
		}
		n := rapid.IntRange(1, 40).Draw(t, "steps")
		next := int32(1)
		var hist []string
		burst := 0
		maxBurst := 0
		for i := 0; i < n; i++ {
			if rapid.IntRange(0, 3).Draw(t, "recv") == 0 {
				// receive only if the view is behind (otherwise the receive would block)
				behind := !updatesOnly && len(hist) == 0 && len(store) > 0 && len(view) < len(store)
				for id, v := range store {
					if w, ok := view[id]; !ok || w != v {
						behind = true
					}
				}
				for id := range view {
					if _, ok := store[id]; !ok {
						behind = true
					}
				}
				if behind {
					if err := recvOne(); err != nil {
						t.Fatalf("%v\nhistory: %s", err, strings.Join(hist, " "))
					}
					hist = append(hist, "recv")
				}
				burst = 0
				continue
			}
			id := rapid.SampledFrom([]string{"a", "b", "c", ""}).Draw(t, "id")
			var werr error
			var returned bool
			if _, exists := store[id]; exists && rapid.IntRange(0, 2).Draw(t, "del") == 0 {
				werr, returned = guarded(func() error { _, err := c.Delete(id); return err })
				delete(store, id)
				hist = append(hist, "delete("+id+")")
			} else {
				val := fmsg(next)
				wopts := []resource.WriteOption{resource.WithCreateIfAbsent()}
				if rapid.IntRange(0, 2).Draw(t, "writeTime") == 0 {
					// the caller chooses the write time; it need not move forward
					wopts = append(wopts, resource.WithWriteTime(time.Unix(int64(1000+rapid.IntRange(-500, 500).Draw(t, "at")), 0)))
				}
				werr, returned = guarded(func() error { _, err := c.Update(id, val, wopts...); return err })
				store[id] = next
				hist = append(hist, fmt.Sprintf("write(%s,%d)", id, next))
				next++
			}
			if !returned {
				t.Fatalf("a write did not return within %v while a lossy subscriber was not receiving (writers must not wait for slow readers)\nhistory: %s", guard, strings.Join(hist, " "))
			}
			if werr != nil {
				t.Fatalf("write failed: %v\nhistory: %s", werr, strings.Join(hist, " "))
			}
			burst++
			if burst > maxBurst {
				maxBurst = burst
			}
		}
		// sentinel + drain
		if err, returned := guarded(func() error { _, err := c.Add("zz", fmsg(-1)); return err }); err != nil || !returned {
			t.Fatalf("sentinel write: err=%v returned=%v\nhistory: %s", err, returned, strings.Join(hist, " "))
		}
		store["zz"] = -1
		for k := 0; ; k++ {
			if v, ok := view["zz"]; ok && v == -1 {
				break
			}
			if k > 20 {
				t.Fatalf("sentinel not received after %d events\nhistory: %s", k, strings.Join(hist, " "))
			}
			if err := recvOne(); err != nil {
				t.Fatalf("draining: %v\nhistory: %s\nview: %v store: %v", err, strings.Join(hist, " "), view, store)
			}
		}
		for id, v := range store {
			if w, ok := view[id]; (!ok || w != v) && (!updatesOnly || known[id]) {
				t.Fatalf("folded view has %s=%v(%v), store has %v\nhistory: %s", id, w, ok, v, strings.Join(hist, " "))
			}
		}
		for id, w := range view {
			if _, ok := store[id]; !ok {
				t.Fatalf("folded view still has %s=%v which the store removed\nhistory: %s", id, w, strings.Join(hist, " "))
			}
		}
		nt := ""
		if maxBurst >= 3 {
			nt = strings.Join(hist, " ")
		}
		lib.Ev.Class("api:lossy collection pull")
		lib.Ev.Case(nt, func() any { return "lossy Collection.Pull: " + strings.Join(hist, " ") })
	})
}

// TestLossyValuePull: the same for a Value: latest value eventually received, values only move forward.
func TestLossyValuePull(t *testing.T) {
	rapid.Check(t, func(t *rapid.T) {
		v := resource.NewValue(resource.WithInitialValue(fmsg(0)))
		ctx, cancel := context.WithCancel(context.Background())
		defer cancel()
		ch := v.Pull(ctx)
		last := int32(-1)
		cur := int32(0)
		next := int32(1)
		recvOne := func() error {
			select {
			case e, ok := <-ch:
				if !ok {
					return fmt.Errorf("stream closed")
				}
				got := e.Value.(*testproto.ForeignMessage).C
				if got <= last {
					return fmt.Errorf("received %d after %d: values must move forward", got, last)
				}
				if got > cur {
					return fmt.Errorf("received %d which was never written (current %d)", got, cur)
				}
				last = got
				return nil
			case <-time.After(guard):
				return fmt.Errorf("value %d is newer than the last received (%d) but nothing arrived within %v", cur, last, guard)
			}
		}
		n := rapid.IntRange(1, 60).Draw(t, "steps")
		var hist []string
		burst, maxBurst := 0, 0
		for i := 0; i < n; i++ {
			if rapid.IntRange(0, 3).Draw(t, "recv") == 0 {
				if last < cur {
					if err := recvOne(); err != nil {
						t.Fatalf("%v\nhistory: %s", err, strings.Join(hist, " "))
					}
					hist = append(hist, fmt.Sprintf("recv=%d", last))
				}
				burst = 0
				continue
			}
			val := fmsg(next)
			t0 := time.Now()
			var wopts []resource.WriteOption
			at := ""
			if rapid.IntRange(0, 2).Draw(t, "writeTime") == 1 {
				// caller-chosen write times need not move forward: which value is the latest is decided by the order of the writes
				sec := int64(1000 + rapid.IntRange(-500, 500).Draw(t, "at"))
				wopts = append(wopts, resource.WithWriteTime(time.Unix(sec, 0)))
				at = fmt.Sprintf("@%d", sec)
			}
			err, returned := guarded(func() error { _, err := v.Set(val, wopts...); return err })
			if !returned || time.Since(t0) > guard-time.Second {
				t.Fatalf("Set took %v (returned=%v) while a lossy subscriber was not receiving\nhistory: %s", time.Since(t0), returned, strings.Join(hist, " "))
			}
			if err != nil {
				t.Fatalf("Set: %v", err)
			}
			cur = next
			hist = append(hist, fmt.Sprintf("set(%d)%s", next, at))
			next++
			burst++
			if burst > maxBurst {
				maxBurst = burst
			}
		}
		for k := 0; last < cur; k++ {
			if k > 5 {
				t.Fatalf("latest value %d not received after draining (last %d)\nhistory: %s", cur, last, strings.Join(hist, " "))
			}
			if err := recvOne(); err != nil {
				t.Fatalf("draining: %v\nhistory: %s", err, strings.Join(hist, " "))
			}
		}
		nt := ""
		if maxBurst >= 3 {
			nt = strings.Join(hist, " ")
		}
		lib.Ev.Class("api:lossy value pull")
		lib.Ev.Case(nt, func() any { return "lossy Value.Pull: " + strings.Join(hist, " ") })
	})
}

// TestBackpressureLockstep: with backpressure and a consumer that keeps receiving nothing is dropped, and the writer
// never runs more than the pipeline depth ahead of the consumer.
func TestBackpressureLockstep(t *testing.T) {
	rapid.Check(t, func(t *rapid.T) {
		v := resource.NewValue(resource.WithInitialValue(fmsg(0)))
		ctx, cancel := context.WithCancel(context.Background())
		defer cancel()
		ch := v.Pull(ctx, resource.WithBackpressure(true), resource.WithUpdatesOnly(true))
		n := rapid.IntRange(1, 30).Draw(t, "writes")
		gate := make(chan struct{})
		received := make(chan int32, n+1)
		go func() {
			for range gate {
				e, ok := <-ch
				if !ok {
					return
				}
				received <- e.Value.(*testproto.ForeignMessage).C
			}
		}()
		completed := make(chan int32, n+1)
		go func() {
			for i := int32(1); i <= int32(n); i++ {
				if _, err := v.Set(fmsg(i)); err != nil {
					completed <- -i
					return
				}
				completed <- i
			}
		}()
		// the consumer is held back: at most 2 writes (one in the forwarder's hands, one blocked in Send) may complete... we
		// only assert the bound, then release the consumer step by step.
		time.Sleep(time.Duration(rapid.IntRange(0, 2).Draw(t, "settleMs")) * time.Millisecond)
		done, recvd := 0, 0
		for recvd < n {
			// count completions so far without blocking
		drain:
			for {
				select {
				case c := <-completed:
					if c < 0 {
						t.Fatalf("write %d failed while the consumer was only slow, not stopped", -c)
					}
					done++
				default:
					break drain
				}
			}
			if done-recvd > 2 {
				t.Fatalf("%d writes completed but only %d events were received: a backpressured writer ran %d ahead (depth is 2)", done, recvd, done-recvd)
			}
			gate <- struct{}{}
			select {
			case got := <-received:
				recvd++
				if got != int32(recvd) {
					t.Fatalf("received %d as event number %d: an event was dropped or reordered under backpressure", got, recvd)
				}
			case <-time.After(guard):
				t.Fatalf("event %d not received within %v", recvd+1, guard)
			}
		}
		close(gate)
		lib.Ev.Class("api:backpressure lockstep")
		lib.Ev.Case(fmt.Sprintf("lockstep n=%d", n), func() any { return fmt.Sprintf("backpressure lock-step with %d writes", n) })
	})
}

// TestBackpressureSendTimeout: a Value write whose event cannot be delivered returns an error after the five second
// send timeout instead of hanging (real time; accepted window 4-9 s).
func TestBackpressureSendTimeout(t *testing.T) {
	v := resource.NewValue(resource.WithInitialValue(fmsg(0)))
	ctx, cancel := context.WithCancel(context.Background())
	defer cancel()
	ch := v.Pull(ctx, resource.WithBackpressure(true))
	<-ch // take the seed, then stop receiving
	type res struct {
		err error
		d   time.Duration
	}
	results := make(chan res, 3)
	go func() {
		for i := int32(1); i <= 3; i++ {
			t0 := time.Now()
			_, err := v.Set(fmsg(i))
			results <- res{err, time.Since(t0)}
			if err != nil {
				return
			}
		}
	}()
	deadline := time.After(30 * time.Second)
	for i := 0; i < 3; i++ {
		select {
		case r := <-results:
			if r.err != nil {
				if r.d < 4*time.Second || r.d > 9*time.Second {
					t.Fatalf("write %d failed after %v, expected the five second send timeout (4-9s): %v", i+1, r.d, r.err)
				}
				lib.Ev.Class("api:send timeout observed")
				lib.Ev.Case("send-timeout", func() any { return fmt.Sprintf("stalled backpressured consumer: write %d returned %q after %v", i+1, r.err, r.d) })
				afterTimeout(t, v, ch)
				return
			}
		case <-deadline:
			t.Fatalf("a Value write with a stalled backpressured consumer neither completed nor failed within 30s (it must fail after its 5s send timeout)")
		}
	}
	t.Fatalf("three writes completed although the backpressured consumer stopped receiving after the seed")
}

// afterTimeout: the consumer that caused a send timeout comes back and keeps receiving from then on, slowly but
// steadily (a quarter of a second per event - well inside the five second budget every write has). One timeout in
// the past changes nothing about the contract: every later write waits for delivery, succeeds, and is delivered in order.
func afterTimeout(t *testing.T, v *resource.Value, ch <-chan *resource.ValueChange) {
	got := make(chan int32, 16)
	go func() {
		for {
			time.Sleep(250 * time.Millisecond) // busy with something else between receives
			e, ok := <-ch
			if !ok {
				return
			}
			got <- e.Value.(*testproto.ForeignMessage).C
		}
	}()
	// whatever was in flight before (the write absorbed by the forwarding goroutine) drains first
	var want []int32
	for i := int32(10); i < 14; i++ {
		t0 := time.Now()
		if _, err := v.Set(fmsg(i)); err != nil {
			t.Fatalf("after an earlier send timeout, with the consumer receiving again (one event per 250ms): Set(%d) failed after %v: %v", i, time.Since(t0), err)
		}
		want = append(want, i)
	}
	var seen []int32
	deadline := time.After(20 * time.Second)
	for len(seen) < len(want) {
		select {
		case c := <-got:
			if c >= 10 {
				seen = append(seen, c)
			}
		case <-deadline:
			t.Fatalf("after an earlier send timeout the consumer received %v of the later writes %v", seen, want)
		}
	}
	if fmt.Sprint(seen) != fmt.Sprint(want) {
		t.Fatalf("after an earlier send timeout the consumer received %v, want %v", seen, want)
	}
	lib.Ev.Class("api:writes after a send timeout, consumer slow but receiving")
}
