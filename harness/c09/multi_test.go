package c09

import (
	"context"
	"fmt"
	"strings"
	"testing"
	"time"

	"google.golang.org/protobuf/proto"
	"pgregory.net/rapid"

	"github.com/smart-core-os/sc-api/go/types"

	"github.com/smart-core-os/sc-golang/internal/testproto"
	"github.com/smart-core-os/sc-golang/pkg/resource"
	"github.com/smart-core-os/sc-golang/verifh/lib"
)

// lossySub is one lossy (no backpressure) subscriber folding what it receives and checking that old values chain.
type lossySub struct {
	name        string
	ch          <-chan *resource.CollectionChange
	updatesOnly bool
	view        map[string]int32
	known       map[string]bool
	recvd       int
	lastTime    map[string]time.Time // change time of the last event received per id
}

func (s *lossySub) apply(e *resource.CollectionChange) error {
	old, had := s.view[e.Id]
	if s.known[e.Id] || !s.updatesOnly {
		switch {
		case e.OldValue == nil && had:
			return fmt.Errorf("%s: event {%s %v} has no old value but the view holds %d", s.name, e.Id, e.ChangeType, old)
		case e.OldValue != nil && !had:
			return fmt.Errorf("%s: event {%s %v old=%v} but the view holds nothing for it", s.name, e.Id, e.ChangeType, e.OldValue)
		case e.OldValue != nil && e.OldValue.(*testproto.ForeignMessage).C != old:
			return fmt.Errorf("%s: event {%s %v old=%v}: old value does not chain, the view holds %d", s.name, e.Id, e.ChangeType, e.OldValue, old)
		}
	}
	s.known[e.Id] = true
	if s.lastTime == nil {
		s.lastTime = map[string]time.Time{}
	}
	s.lastTime[e.Id] = e.ChangeTime
	switch e.ChangeType {
	case types.ChangeType_REMOVE:
		delete(s.view, e.Id)
	case types.ChangeType_ADD, types.ChangeType_UPDATE, types.ChangeType_REPLACE:
		if e.NewValue == nil {
			return fmt.Errorf("%s: event {%s %v} without new value", s.name, e.Id, e.ChangeType)
		}
		s.view[e.Id] = e.NewValue.(*testproto.ForeignMessage).C
	default:
		return fmt.Errorf("%s: unexpected change type %v", s.name, e.ChangeType)
	}
	return nil
}

func (s *lossySub) recvOne() error {
	select {
	case e, ok := <-s.ch:
		if !ok {
			return fmt.Errorf("%s: stream closed", s.name)
		}
		s.recvd++
		return s.apply(e)
	case <-time.After(guard):
		return fmt.Errorf("%s: no event within %v although changes are outstanding", s.name, guard)
	}
}

// behind: the subscriber's view differs from the store, so at least one event is (or will be) deliverable.
func (s *lossySub) behind(store map[string]int32, seedsOutstanding bool) bool {
	if seedsOutstanding {
		return true
	}
	for id, v := range store {
		if w, ok := s.view[id]; (!ok || w != v) && (!s.updatesOnly || s.known[id] || !ok) {
			return true
		}
	}
	for id := range s.view {
		if _, ok := store[id]; !ok {
			return true
		}
	}
	return false
}

// TestLossySubscribersSideBySide: several lossy subscribers of one collection, each receiving at its own pace. What one
// of them merges while it lags must not change what another one receives: every subscriber's folded view converges
// and its old values chain, whatever the others do.
func TestLossySubscribersSideBySide(t *testing.T) {
	rapid.Check(t, func(t *rapid.T) {
		opts := []resource.Option{}
		store := map[string]int32{}
		for _, id := range []string{"a", "b", "c", ""} {
			if rapid.Bool().Draw(t, "init-"+id) {
				store[id] = 0
				opts = append(opts, resource.WithInitialRecord(id, fmsg(0)))
			}
		}
		c := resource.NewCollection(opts...)
		ctx, cancel := context.WithCancel(context.Background())
		defer cancel()
		// a neighbour that keeps receiving: a backpressured filtered view (odd values only) subscribed first. Most writes move
		// an item in or out of its view; what the collection makes of a change for this subscriber is its own business and
		// must not show in what the lossy subscribers are given.
		var neighbour chan map[string]int32
		if rapid.Bool().Draw(t, "filteredNeighbour") {
			neighbour = make(chan map[string]int32, 1)
			nch := c.Pull(ctx, resource.WithBackpressure(true), resource.WithInclude(func(_ string, m proto.Message) bool {
				return m != nil && m.(*testproto.ForeignMessage).C%2 != 0
			}))
			go func() {
				view := map[string]int32{}
				for e := range nch {
					if e.NewValue != nil {
						view[e.Id] = e.NewValue.(*testproto.ForeignMessage).C
					} else {
						delete(view, e.Id)
					}
					if v, ok := view["zz"]; ok && v == -1 {
						neighbour <- view
						for range nch {
						}
						return
					}
				}
			}()
			lib.Ev.Class("api:lossy subscribers next to a backpressured filtered view")
		}
		nsubs := rapid.IntRange(2, 3).Draw(t, "subscribers")
		subs := make([]*lossySub, nsubs)
		for i := range subs {
			s := &lossySub{name: fmt.Sprintf("subscriber %c", 'A'+i), view: map[string]int32{}, known: map[string]bool{}}
			s.ch = c.Pull(ctx) // seeded, backpressure off
			subs[i] = s
		}
		seedsLeft := make([]int, nsubs)
		for i := range seedsLeft {
			seedsLeft[i] = len(store)
		}
		n := rapid.IntRange(1, 40).Draw(t, "steps")
		storeTime := map[string]time.Time{} // the write time of the last write per id, where the caller chose it
		next := int32(1)
		var hist []string
		lag := make([]int, nsubs) // writes since the subscriber last received
		maxLagDiff := 0
		for i := 0; i < n; i++ {
			if k := rapid.IntRange(0, 2*nsubs).Draw(t, "who"); k < nsubs {
				s := subs[k]
				if s.behind(store, seedsLeft[k] > 0) {
					if err := s.recvOne(); err != nil {
						t.Fatalf("%v\nhistory: %s", err, strings.Join(hist, " "))
					}
					if seedsLeft[k] > 0 {
						seedsLeft[k]--
					}
					hist = append(hist, fmt.Sprintf("recv%c", 'A'+k))
				}
				lag[k] = 0
				continue
			}
			id := rapid.SampledFrom([]string{"a", "b", "c", ""}).Draw(t, "id")
			var werr error
			var returned bool
			if _, exists := store[id]; exists && rapid.IntRange(0, 2).Draw(t, "del") == 0 {
				werr, returned = guarded(func() error { _, err := c.Delete(id); return err })
				delete(store, id)
				delete(storeTime, id)
				hist = append(hist, "delete("+id+")")
			} else {
				val := fmsg(next)
				wopts := []resource.WriteOption{resource.WithCreateIfAbsent()}
				delete(storeTime, id)
				if rapid.IntRange(0, 2).Draw(t, "writeTime") == 0 {
					// the caller chooses the write time; it need not move forward
					at := time.Unix(int64(1000+rapid.IntRange(-500, 500).Draw(t, "at")), 0)
					wopts = append(wopts, resource.WithWriteTime(at))
					storeTime[id] = at
				}
				werr, returned = guarded(func() error { _, err := c.Update(id, val, wopts...); return err })
				store[id] = next
				hist = append(hist, fmt.Sprintf("write(%s,%d)", id, next))
				next++
			}
			if !returned {
				t.Fatalf("a write did not return within %v while lossy subscribers were not receiving\nhistory: %s", guard, strings.Join(hist, " "))
			}
			if werr != nil {
				t.Fatalf("write failed: %v\nhistory: %s", werr, strings.Join(hist, " "))
			}
			lo, hi := lag[0], lag[0]
			for k := range lag {
				lag[k]++
				if lag[k] < lo {
					lo = lag[k]
				}
				if lag[k] > hi {
					hi = lag[k]
				}
			}
			if hi-lo > maxLagDiff {
				maxLagDiff = hi - lo
			}
		}
		if err, returned := guarded(func() error { _, err := c.Add("zz", fmsg(-1)); return err }); err != nil || !returned {
			t.Fatalf("sentinel write: err=%v returned=%v\nhistory: %s", err, returned, strings.Join(hist, " "))
		}
		store["zz"] = -1
		for _, s := range subs {
			for k := 0; ; k++ {
				if v, ok := s.view["zz"]; ok && v == -1 {
					break
				}
				if k > 24 {
					t.Fatalf("%s: sentinel not received after %d events\nhistory: %s", s.name, k, strings.Join(hist, " "))
				}
				if err := s.recvOne(); err != nil {
					t.Fatalf("draining: %v\nhistory: %s\nview: %v store: %v", err, strings.Join(hist, " "), s.view, store)
				}
			}
			for id, v := range store {
				if w, ok := s.view[id]; !ok || w != v {
					t.Fatalf("%s: folded view has %s=%v(%v), store has %v\nhistory: %s", s.name, id, w, ok, v, strings.Join(hist, " "))
				}
			}
			for id, w := range s.view {
				if _, ok := store[id]; !ok {
					t.Fatalf("%s: folded view still has %s=%v which the store removed\nhistory: %s", s.name, id, w, strings.Join(hist, " "))
				}
			}
			// the most recent change is what the subscriber is left with - its time included
			for id, at := range storeTime {
				if _, ok := store[id]; !ok {
					continue
				}
				if got, ok := s.lastTime[id]; ok && !got.Equal(at) {
					t.Fatalf("%s: the last change it received for %q is stamped %v, the last write to it was made at %v\nhistory: %s", s.name, id, got.UTC(), at.UTC(), strings.Join(hist, " "))
				}
			}
		}
		if neighbour != nil {
			select {
			case view := <-neighbour:
				for id, v := range store {
					if w, ok := view[id]; v%2 != 0 && (!ok || w != v) || v%2 == 0 && ok {
						t.Fatalf("the filtered (odd values) backpressured neighbour folded %v, the store has %v\nhistory: %s", view, store, strings.Join(hist, " "))
					}
				}
				for id := range view {
					if _, ok := store[id]; !ok {
						t.Fatalf("the filtered neighbour still holds %q which the store removed: %v\nhistory: %s", id, view, strings.Join(hist, " "))
					}
				}
			case <-time.After(guard):
				t.Fatalf("the filtered backpressured neighbour never received the sentinel\nhistory: %s", strings.Join(hist, " "))
			}
		}
		nt := ""
		if maxLagDiff >= 2 {
			nt = fmt.Sprintf("%d|%v|%s", nsubs, neighbour != nil, strings.Join(hist, " "))
		}
		lib.Ev.Class("api:lossy subscribers side by side")
		lib.Ev.Case(nt, func() any {
			return fmt.Sprintf("%d lossy Collection.Pull subscribers at different paces: %s", nsubs, strings.Join(hist, " "))
		})
	})
}

// TestLossyManyIDs: a lossy subscriber that is not receiving while thousands of different items are written: the writes
// complete without waiting for it, and once it receives again its folded view is the collection (nothing about the
// property depends on how many items there are).
func TestLossyManyIDs(t *testing.T) {
	rapid.Check(t, func(t *rapid.T) {
		n := rapid.SampledFrom([]int{300, 1024, 1025, 1500, 3000}).Draw(t, "ids")
		masked := rapid.Bool().Draw(t, "masked")
		c := resource.NewCollection()
		ctx, cancel := context.WithCancel(context.Background())
		defer cancel()
		var ropts []resource.ReadOption
		if masked {
			ropts = append(ropts, resource.WithReadPaths(&testproto.ForeignMessage{}, "c"))
		}
		ch := c.Pull(ctx, ropts...)
		deleted := map[int]bool{}
		err, returned := guarded(func() error {
			for i := 0; i < n; i++ {
				if _, err := c.Add(fmt.Sprintf("id-%05d", i), &testproto.ForeignMessage{C: int32(i), D: 7}); err != nil {
					return err
				}
			}
			// some churn on top: delete and re-add (REPLACE when merged), update
			for i := 0; i < n; i += 97 {
				id := fmt.Sprintf("id-%05d", i)
				if _, err := c.Delete(id); err != nil {
					return err
				}
				if i%2 == 0 {
					if _, err := c.Add(id, &testproto.ForeignMessage{C: int32(-i - 1), D: 7}); err != nil {
						return err
					}
				} else {
					deleted[i] = true
				}
			}
			_, err := c.Add("zz-sentinel", &testproto.ForeignMessage{C: -1, D: 7})
			return err
		})
		if !returned {
			t.Fatalf("writing %d items did not finish within %v while a lossy subscriber was not receiving (writers must not wait for slow readers)", n, guard)
		}
		if err != nil {
			t.Fatalf("write failed: %v", err)
		}
		view := map[string]int32{}
		for events := 0; ; events++ {
			if v, ok := view["zz-sentinel"]; ok && v == -1 {
				break
			}
			if events > 3*n+10 {
				t.Fatalf("sentinel not received after %d events", events)
			}
			select {
			case e, ok := <-ch:
				if !ok {
					t.Fatalf("stream closed")
				}
				for _, m := range []proto.Message{e.OldValue, e.NewValue} {
					if masked && m != nil && m.(*testproto.ForeignMessage).D != 0 {
						t.Fatalf("event {%s %v} carries a value outside the read mask: %v", e.Id, e.ChangeType, m)
					}
				}
				if e.ChangeType == types.ChangeType_REMOVE {
					delete(view, e.Id)
				} else {
					view[e.Id] = e.NewValue.(*testproto.ForeignMessage).C
				}
			case <-time.After(guard):
				t.Fatalf("no event within %v although %d changes are outstanding (view has %d items)", guard, n, len(view))
			}
		}
		want := 1
		for i := 0; i < n; i++ {
			id := fmt.Sprintf("id-%05d", i)
			wantC := int32(i)
			if i%97 == 0 {
				if deleted[i] {
					if _, ok := view[id]; ok {
						t.Fatalf("folded view still has %s which was deleted", id)
					}
					continue
				}
				wantC = int32(-i - 1)
			}
			want++
			if got, ok := view[id]; !ok || got != wantC {
				t.Fatalf("folded view has %s=%v(%v), the collection has %v", id, got, ok, wantC)
			}
		}
		if len(view) != want {
			t.Fatalf("folded view has %d items, the collection %d", len(view), want)
		}
		lib.Ev.Class("api:lossy subscriber, many ids")
		lib.Ev.Case(fmt.Sprintf("many|%d|%v", n, masked), func() any { return fmt.Sprintf("%d items written while a lossy subscriber (masked=%v) was stalled", n, masked) })
	})
}
