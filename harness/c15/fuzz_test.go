package c15

import (
	"testing"
)

// FuzzPageToken: coverage guided search over (page token, page size) against every paged RPC holding a small fixed
// collection: never a panic, never an endless chain, errors or well formed pages only.
func FuzzPageToken(f *testing.F) {
	for _, tok := range []string{"", "abc", "-5", "101", "99999999999999999999", "EgA=", "CgFh", "EgFh", "AAAA", "====", "\x00", "1e3"} {
		for _, size := range []int32{0, 1, 2, -1, 1000, 5000} {
			f.Add(tok, size)
		}
	}
	ids := []string{"a", "aa", "A", "b", "c"}
	type prepared struct {
		name string
		want []string
		list listFn
	}
	var prep []prepared
	for _, p := range pagers {
		want, list := p.setup(ids)
		prep = append(prep, prepared{p.name, want, list})
	}
	f.Fuzz(func(t *testing.T, token string, size int32) {
		if len(token) > 100 {
			return
		}
		for _, p := range prep {
			r := callPage(p.list, size, token, nil)
			if r.panic != nil {
				t.Fatalf("%s page_size=%d token=%q: panic: %v", p.name, size, token, r.panic)
			}
			if size < 0 && r.err == nil {
				t.Fatalf("%s: negative page size %d answered with a page", p.name, size)
			}
			if r.err == nil {
				if _, _, err := follow(p.list, size, token, nil, len(p.want), false); err != nil {
					t.Fatalf("%s page_size=%d token=%q: %v", p.name, size, token, err)
				}
			}
		}
	})
}
