package c15

import (
	"time"
	"context"
	"encoding/base64"
	"fmt"
	"math"
	"sort"
	"strconv"
	"strings"
	"testing"

	"google.golang.org/protobuf/proto"
	"google.golang.org/protobuf/types/known/fieldmaskpb"
	"google.golang.org/protobuf/types/known/timestamppb"
	"pgregory.net/rapid"

	"github.com/smart-core-os/sc-api/go/traits"
	"github.com/smart-core-os/sc-api/go/types"

	"github.com/smart-core-os/sc-golang/pkg/resource"
	"github.com/smart-core-os/sc-golang/pkg/trait/electricpb"
	"github.com/smart-core-os/sc-golang/pkg/trait/hailpb"
	"github.com/smart-core-os/sc-golang/pkg/trait/parentpb"
	"github.com/smart-core-os/sc-golang/pkg/trait/publicationpb"
	"github.com/smart-core-os/sc-golang/pkg/trait/vendingpb"
	"github.com/smart-core-os/sc-golang/pkg/trait/wastepb"
	"github.com/smart-core-os/sc-golang/verifh/lib"
)

// pager is one paged List RPC on a freshly populated server.
type pager struct {
	name string
	// setup creates a server holding len(ids) items (keyed by ids where the API lets the caller choose keys) and returns
	// the expected full listing (keys in listing order) and the page function.
	setup func(ids []string) (want []string, list listFn)
	// key extracts the listing key from an (unmasked) item.
	key func(m proto.Message) string
	// indexToken: page tokens are plain decimal indexes rather than encoded PageToken messages.
	indexToken bool
	// minItems: the model always holds at least this many items.
	minItems int
}

var ctx = context.Background()

// listFn performs one List call: page size, page token and an optional read mask.
type listFn func(size int32, token string, mask *fieldmaskpb.FieldMask) (items []proto.Message, next string, total int32, err error)

func toMsgs[T proto.Message](in []T) []proto.Message {
	out := make([]proto.Message, len(in))
	for i, m := range in {
		out[i] = m
	}
	return out
}

func sorted(ids []string) []string {
	out := append([]string(nil), ids...)
	sort.Strings(out)
	return out
}

var pagers = []pager{
	{name: "ListModes", setup: func(ids []string) ([]string, listFn) {
		m := electricpb.NewModel()
		for _, id := range ids {
			if err := m.AddMode(&traits.ElectricMode{Id: id, Title: "t" + id}); err != nil {
				panic(err)
			}
		}
		s := electricpb.NewModelServer(m)
		return sorted(ids), func(size int32, token string, mask *fieldmaskpb.FieldMask) ([]proto.Message, string, int32, error) {
			r, err := s.ListModes(ctx, &traits.ListModesRequest{Name: "n", PageSize: size, PageToken: token, ReadMask: mask})
			if err != nil {
				return nil, "", 0, err
			}
			return toMsgs(r.Modes), r.NextPageToken, r.TotalSize, nil
		}
	}, key: func(m proto.Message) string { return m.(*traits.ElectricMode).Id }},
	{name: "ListHails", setup: func(ids []string) ([]string, listFn) {
		m := hailpb.NewModel()
		var got []string
		for range ids {
			h, err := m.CreateHail(&traits.Hail{Origin: &traits.Hail_Location{Name: "o"}})
			if err != nil {
				panic(err)
			}
			got = append(got, h.Id)
		}
		s := hailpb.NewModelServer(m)
		return sorted(got), func(size int32, token string, mask *fieldmaskpb.FieldMask) ([]proto.Message, string, int32, error) {
			r, err := s.ListHails(ctx, &traits.ListHailsRequest{Name: "n", PageSize: size, PageToken: token, ReadMask: mask})
			if err != nil {
				return nil, "", 0, err
			}
			return toMsgs(r.Hails), r.NextPageToken, r.TotalSize, nil
		}
	}, key: func(m proto.Message) string { return m.(*traits.Hail).Id }},
	{name: "ListHails(initial records, arrived long ago)", setup: func(ids []string) ([]string, listFn) {
		// a model restored from stored state: hails under their own ids, every other one arrived an hour or more ago
		// (older than any keep-alive). Listing is a read: whatever housekeeping the model has, a walk returns them all
		var opts []resource.Option
		for i, id := range ids {
			h := &traits.Hail{Id: id, State: traits.Hail_CALLED, Origin: &traits.Hail_Location{Name: "o"}}
			if i%2 == 0 {
				h.State = traits.Hail_ARRIVED
				h.ArriveTime = timestamppb.New(time.Now().Add(-time.Duration(i+1) * time.Hour))
			}
			opts = append(opts, resource.WithInitialRecord(id, h))
		}
		s := hailpb.NewModelServer(hailpb.NewModel(opts...))
		return sorted(append([]string(nil), ids...)), func(size int32, token string, mask *fieldmaskpb.FieldMask) ([]proto.Message, string, int32, error) {
			r, err := s.ListHails(ctx, &traits.ListHailsRequest{Name: "n", PageSize: size, PageToken: token, ReadMask: mask})
			if err != nil {
				return nil, "", 0, err
			}
			return toMsgs(r.Hails), r.NextPageToken, r.TotalSize, nil
		}
	}, key: func(m proto.Message) string { return m.(*traits.Hail).Id }},
	{name: "ListHails(writable fields configured, generated ids)", setup: func(ids []string) ([]string, listFn) {
		// the arrival and departure times are the driver's to maintain: the collection restricts what clients may write.
		// Hails are created through the API, their ids are generated
		m := hailpb.NewModel(resource.WithWritablePaths(&traits.Hail{}, "id", "origin", "destination", "state"))
		s := hailpb.NewModelServer(m)
		var got []string
		for i := range ids {
			h, err := s.CreateHail(ctx, &traits.CreateHailRequest{Name: "n", Hail: &traits.Hail{Origin: &traits.Hail_Location{DisplayName: fmt.Sprint("floor ", i)}}})
			if err != nil {
				panic(err)
			}
			got = append(got, h.Id)
		}
		return sorted(got), func(size int32, token string, mask *fieldmaskpb.FieldMask) ([]proto.Message, string, int32, error) {
			r, err := s.ListHails(ctx, &traits.ListHailsRequest{Name: "n", PageSize: size, PageToken: token, ReadMask: mask})
			if err != nil {
				return nil, "", 0, err
			}
			return toMsgs(r.Hails), r.NextPageToken, r.TotalSize, nil
		}
	}, key: func(m proto.Message) string { return m.(*traits.Hail).Id }},
	{name: "ListPublications(writable fields configured, generated ids)", setup: func(ids []string) ([]string, listFn) {
		m := publicationpb.NewModel(resource.WithWritablePaths(&traits.Publication{}, "id", "body", "media_type", "audience"))
		var got []string
		for i := range ids {
			p, err := m.CreatePublication(&traits.Publication{Body: []byte(fmt.Sprint("body ", i))})
			if err != nil {
				panic(err)
			}
			got = append(got, p.Id)
		}
		s := publicationpb.NewModelServer(m)
		return sorted(got), func(size int32, token string, mask *fieldmaskpb.FieldMask) ([]proto.Message, string, int32, error) {
			r, err := s.ListPublications(ctx, &traits.ListPublicationsRequest{Name: "n", PageSize: size, PageToken: token, ReadMask: mask})
			if err != nil {
				return nil, "", 0, err
			}
			return toMsgs(r.Publications), r.NextPageToken, r.TotalSize, nil
		}
	}, key: func(m proto.Message) string { return m.(*traits.Publication).Id }},
	{name: "ListChildren", setup: func(ids []string) ([]string, listFn) {
		m := parentpb.NewModel()
		for _, id := range ids {
			m.AddChild(&traits.Child{Name: id})
		}
		s := parentpb.NewModelServer(m)
		return sorted(ids), func(size int32, token string, mask *fieldmaskpb.FieldMask) ([]proto.Message, string, int32, error) {
			r, err := s.ListChildren(ctx, &traits.ListChildrenRequest{Name: "n", PageSize: size, PageToken: token, ReadMask: mask})
			if err != nil {
				return nil, "", 0, err
			}
			return toMsgs(r.Children), r.NextPageToken, r.TotalSize, nil
		}
	}, key: func(m proto.Message) string { return m.(*traits.Child).Name }},
	{name: "ListChildren(case-insensitive ids)", setup: func(ids []string) ([]string, listFn) {
		// a model configured with an id interceptor: children are keyed by lower-cased name but listed by name
		m := parentpb.NewModel(resource.WithIDInterceptor(strings.ToLower))
		seen := map[string]bool{}
		var names []string
		for _, id := range ids {
			if seen[strings.ToLower(id)] {
				id = id + "~" + strconv.Itoa(len(names)) // keep keys distinct under the interceptor
			}
			seen[strings.ToLower(id)] = true
			names = append(names, id)
			m.AddChild(&traits.Child{Name: id})
		}
		s := parentpb.NewModelServer(m)
		return sorted(names), func(size int32, token string, mask *fieldmaskpb.FieldMask) ([]proto.Message, string, int32, error) {
			r, err := s.ListChildren(ctx, &traits.ListChildrenRequest{Name: "n", PageSize: size, PageToken: token, ReadMask: mask})
			if err != nil {
				return nil, "", 0, err
			}
			return toMsgs(r.Children), r.NextPageToken, r.TotalSize, nil
		}
	}, key: func(m proto.Message) string { return m.(*traits.Child).Name }},
	{name: "ListPublications", setup: func(ids []string) ([]string, listFn) {
		m := publicationpb.NewModel()
		for _, id := range ids {
			if _, err := m.CreatePublication(&traits.Publication{Id: id, Body: []byte(id)}); err != nil {
				panic(err)
			}
		}
		s := publicationpb.NewModelServer(m)
		return sorted(ids), func(size int32, token string, mask *fieldmaskpb.FieldMask) ([]proto.Message, string, int32, error) {
			r, err := s.ListPublications(ctx, &traits.ListPublicationsRequest{Name: "n", PageSize: size, PageToken: token, ReadMask: mask})
			if err != nil {
				return nil, "", 0, err
			}
			return toMsgs(r.Publications), r.NextPageToken, r.TotalSize, nil
		}
	}, key: func(m proto.Message) string { return m.(*traits.Publication).Id }},
	{name: "ListConsumables", setup: func(ids []string) ([]string, listFn) {
		m := vendingpb.NewModel()
		for _, id := range ids {
			if _, err := m.CreateConsumable(&traits.Consumable{Name: id}); err != nil {
				panic(err)
			}
		}
		s := vendingpb.NewModelServer(m)
		return sorted(ids), func(size int32, token string, mask *fieldmaskpb.FieldMask) ([]proto.Message, string, int32, error) {
			r, err := s.ListConsumables(ctx, &traits.ListConsumablesRequest{Name: "n", PageSize: size, PageToken: token, ReadMask: mask})
			if err != nil {
				return nil, "", 0, err
			}
			return toMsgs(r.Consumables), r.NextPageToken, r.TotalSize, nil
		}
	}, key: func(m proto.Message) string { return m.(*traits.Consumable).Name }},
	{name: "ListInventory", setup: func(ids []string) ([]string, listFn) {
		m := vendingpb.NewModel()
		for _, id := range ids {
			if _, err := m.CreateStock(&traits.Consumable_Stock{Consumable: id}); err != nil {
				panic(err)
			}
		}
		s := vendingpb.NewModelServer(m)
		return sorted(ids), func(size int32, token string, mask *fieldmaskpb.FieldMask) ([]proto.Message, string, int32, error) {
			r, err := s.ListInventory(ctx, &traits.ListInventoryRequest{Name: "n", PageSize: size, PageToken: token, ReadMask: mask})
			if err != nil {
				return nil, "", 0, err
			}
			return toMsgs(r.Inventory), r.NextPageToken, r.TotalSize, nil
		}
	}, key: func(m proto.Message) string { return m.(*traits.Consumable_Stock).Consumable }},
	{name: "ListWasteRecords", indexToken: true, minItems: 100, setup: func(ids []string) ([]string, listFn) {
		m := wastepb.NewModel() // starts with 100 generated records
		for i := m.GetWasteRecordCount(); i < len(ids); i++ {
			if i%7 == 3 {
				// a conditional add that is turned down: no record, and nothing else, comes of it
				if _, err := m.AddWasteRecord(&traits.WasteRecord{Id: "rejected"}, resource.WithExpectedValue(&traits.WasteRecord{Id: "no such record"})); err == nil {
					panic("an add with an expected value that does not match was accepted")
				}
			}
			if _, err := m.GenerateWasteRecord(timestamppb.Now()); err != nil {
				panic(err)
			}
		}
		if len(ids)%2 == 1 {
			if _, err := m.AddWasteRecord(&traits.WasteRecord{Id: "rejected"}, resource.WithExpectedValue(&traits.WasteRecord{Id: "no such record"})); err == nil {
				panic("an add with an expected value that does not match was accepted")
			}
		}
		n := m.GetWasteRecordCount()
		var want []string // latest first; generated ids are 0,1,2...
		for i := n - 1; i >= 0; i-- {
			want = append(want, strconv.Itoa(i))
		}
		s := wastepb.NewModelServer(m)
		return want, func(size int32, token string, mask *fieldmaskpb.FieldMask) ([]proto.Message, string, int32, error) {
			r, err := s.ListWasteRecords(ctx, &traits.ListWasteRecordsRequest{Name: "n", PageSize: size, PageToken: token, ReadMask: mask})
			if err != nil {
				return nil, "", 0, err
			}
			return toMsgs(r.WasteRecords), r.NextPageToken, r.TotalSize, nil
		}
	}, key: func(m proto.Message) string { return m.(*traits.WasteRecord).Id }},
}

// keyField is the proto field each listing is keyed (and its page token built) by.
var keyField = map[string]string{"ListModes": "id", "ListHails": "id", "ListHails(initial records, arrived long ago)": "id", "ListHails(writable fields configured, generated ids)": "id", "ListPublications(writable fields configured, generated ids)": "id",
	"ListChildren": "name", "ListChildren(case-insensitive ids)": "name", "ListPublications": "id",
	"ListConsumables": "name", "ListInventory": "consumable", "ListWasteRecords": "id"}

func effectiveSize(size int32) int {
	switch {
	case size == 0:
		return 50
	case size > 1000:
		return 1000
	}
	return int(size)
}

type pageResult struct {
	items []proto.Message
	next  string
	total int32
	err   error
	panic any
}

func callPage(list listFn, size int32, token string, mask *fieldmaskpb.FieldMask) (r pageResult) {
	defer func() {
		if p := recover(); p != nil {
			r.panic = p
		}
	}()
	r.items, r.next, r.total, r.err = list(size, token, mask)
	return
}

func keysOf(p pager, items []proto.Message) []string {
	keys := make([]string, len(items))
	for i, m := range items {
		keys[i] = p.key(m)
	}
	return keys
}

// follow walks the token chain starting at token. It returns the concatenated keys or an error describing the violation.
func follow(list listFn, size int32, token string, mask *fieldmaskpb.FieldMask, n int, strictTotal bool) ([]proto.Message, int, error) {
	eff := effectiveSize(size)
	maxPages := n/eff + 4
	var all []proto.Message
	pages := 0
	for {
		r := callPage(list, size, token, mask)
		if r.panic != nil {
			return all, pages, fmt.Errorf("page %d (token %q) panicked: %v", pages, token, r.panic)
		}
		if r.err != nil {
			return all, pages, fmt.Errorf("page %d (token %q) failed: %v", pages, token, r.err)
		}
		pages++
		if len(r.items) > eff {
			return all, pages, fmt.Errorf("page %d has %d items, more than the effective page size %d (requested %d)", pages-1, len(r.items), eff, size)
		}
		if strictTotal && int(r.total) != n {
			return all, pages, fmt.Errorf("page %d reports total_size %d, want %d", pages-1, r.total, n)
		}
		all = append(all, r.items...)
		if r.next == "" {
			return all, pages, nil
		}
		if pages > maxPages {
			return all, pages, fmt.Errorf("token chain did not end after %d pages for %d items with page size %d (endless chain?)", pages, n, eff)
		}
		token = r.next
	}
}

// ids include bytes that make a base64 page token contain each of its special characters ('+', '/', '-', '_', '=')
var idAlphabet = []string{"a", "aa", "a0", "A", "ab", "b", "é", "日", "a-", "a_", "Z", "0", "a.b", "aaa", "B", "ba", " a", "a ",
	"?", ">", "~", "abc?", "abc>", "abc~", "ÿ", "¿", "¾", "aoé", "ao¿", "a/¿", "a?é", "a_ÿ", "þ", "ab>cd?", "+", "/", "a+b/c="}

func drawIDs(t *rapid.T, n int) []string {
	if n > 80 {
		ids := make([]string, n)
		for i := range ids {
			ids[i] = "i" + strconv.Itoa(i) // i1, i10, i100: prefixes of each other
		}
		return ids
	}
	seen := map[string]bool{}
	var ids []string
	for len(ids) < n {
		var id string
		if rapid.IntRange(0, 2).Draw(t, "idkind") == 0 {
			id = rapid.SampledFrom(idAlphabet).Draw(t, "id")
		} else {
			id = rapid.StringMatching(`[aAb0é?>~o/_ÿ¿]{1,6}`).Draw(t, "id")
		}
		if rapid.IntRange(0, 11).Draw(t, "long") == 0 {
			// long but perfectly valid ids (device paths, urns): a page token has to carry them
			id += strings.Repeat(rapid.SampledFrom([]string{"x", "/seg", "é"}).Draw(t, "longPart"), rapid.SampledFrom([]int{24, 60, 95, 128, 300}).Draw(t, "longN"))
		}
		for seen[id] {
			id += rapid.SampledFrom([]string{"a", "0", "A"}).Draw(t, "idext")
		}
		seen[id] = true
		ids = append(ids, id)
	}
	return ids
}

func drawCount(t *rapid.T, min int) int {
	if rapid.IntRange(0, 79).Draw(t, "huge") == 41 {
		// long-lived collections: thousands of records, around the sizes where buffers and histories get trimmed
		lib.Ev.Class("collection of thousands of records (2048-9000)")
		return rapid.SampledFrom([]int{2048, 4095, 4096, 4097, 4200, 4700, 8192, 9000}).Draw(t, "nhuge")
	}
	if rapid.IntRange(0, 24).Draw(t, "big") == 0 {
		return rapid.SampledFrom([]int{999, 1000, 1001}).Draw(t, "nbig")
	}
	n := rapid.OneOf(rapid.IntRange(0, 60), rapid.SampledFrom([]int{49, 50, 51})).Draw(t, "n")
	if n < min {
		n += min
	}
	return n
}

func drawPageSize(t *rapid.T, n int) int32 {
	if n > 200 {
		return rapid.SampledFrom([]int32{0, 50, 333, 999, 1000, 1001, 5000, math.MaxInt32}).Draw(t, "size")
	}
	return rapid.OneOf(
		rapid.SampledFrom([]int32{0, 1, 2, 3, 7, 50, 1000, 5000, math.MaxInt32}),
		rapid.Int32Range(1, 70),
	).Draw(t, "size")
}

func pagerFor(t *rapid.T) pager {
	name := strings.TrimPrefix(t.Name(), "TestPaging/")
	_ = name
	return pagers[rapid.IntRange(0, len(pagers)-1).Draw(t, "rpc")]
}

// TestPaging: following next_page_token enumerates every item exactly once, in order.
func TestPaging(t *testing.T) {
	rapid.Check(t, func(t *rapid.T) {
		p := pagerFor(t)
		n := drawCount(t, p.minItems)
		ids := drawIDs(t, n)
		want, list := p.setup(ids)
		size := drawPageSize(t, len(want))
		gotItems, pages, err := follow(list, size, "", nil, len(want), true)
		desc := fmt.Sprintf("%s n=%d page_size=%d", p.name, len(want), size)
		if err != nil {
			t.Fatalf("%s: %v\n ids: %q", desc, err, want)
		}
		got := keysOf(p, gotItems)
		if len(got) != len(want) {
			t.Fatalf("%s: %d items enumerated in %d pages, want %d\n got  %q\n want %q", desc, len(got), pages, len(want), got, want)
		}
		for i := range got {
			if got[i] != want[i] {
				t.Fatalf("%s: item %d is %q, want %q (missing, duplicated or out of order)\n got  %q\n want %q", desc, i, got[i], want[i], got, want)
			}
		}
		// the same walk with a read mask (which may well leave out the field the listing is keyed by): same number of
		// items, each the projection of the item the unmasked walk returned at that position
		masked := false
		if len(want) > 0 && len(want) <= 120 && rapid.IntRange(0, 2).Draw(t, "withReadMask") > 0 {
			md := gotItems[0].ProtoReflect().Descriptor()
			mask, _ := lib.DrawMask(t, "readMask", md, gotItems[0])
			if mask != nil && lib.ValidMask(md, mask) {
				masked = true
				mItems, _, err := follow(list, size, "", mask, len(want), true)
				mdesc := fmt.Sprintf("%s read_mask=%s", desc, lib.MaskString(mask))
				if err != nil {
					t.Fatalf("%s: %v\n ids: %q", mdesc, err, want)
				}
				if len(mItems) != len(gotItems) {
					t.Fatalf("%s: %d items enumerated, the unmasked walk gave %d\n ids: %q", mdesc, len(mItems), len(gotItems), want)
				}
				for i := range mItems {
					// position i must be the same item: compared on the fields the mask keeps (whether fields outside the
					// mask are really left out is C06's / C14's business, not this property's)
					wantItem := lib.DropEmptyOnPaths(lib.RefProject(gotItems[i], mask), mask)
					if !proto.Equal(lib.DropEmptyOnPaths(lib.RefProject(mItems[i], mask), mask), wantItem) {
						t.Fatalf("%s: item %d is %v, which is not item %d of the unmasked walk (%v) under the mask", mdesc, i, mItems[i], i, gotItems[i])
					}
					if !proto.Equal(lib.DropEmptyOnPaths(proto.Clone(mItems[i]), mask), wantItem) {
						lib.Ev.Class("paging:read mask not applied by " + p.name + " (not judged here)")
					}
				}
				// listing is a read: the plain walk afterwards returns what the plain walk before returned
				again, _, err := follow(list, size, "", nil, len(want), true)
				if err != nil {
					t.Fatalf("%s: the plain walk after the masked one: %v\n ids: %q", mdesc, err, want)
				}
				if len(again) != len(gotItems) {
					t.Fatalf("%s: the plain walk after the masked one enumerates %d items, before it %d", mdesc, len(again), len(gotItems))
				}
				for i := range again {
					if !proto.Equal(again[i], gotItems[i]) {
						t.Fatalf("%s: after the masked walk item %d reads %v, before it read %v: listing with a read mask changed the contents", mdesc, i, again[i], gotItems[i])
					}
				}
				lib.Ev.Class("paging:walk repeated with a read mask")
				if !lib.Covers(mask.Paths, keyField[p.name]) {
					lib.Ev.Class("paging:read mask leaves out the key field")
				}
			}
		}
		// a client is free to ask for a different page size on every request: the token alone carries the position
		if len(want) > 1 && len(want) <= 200 && rapid.IntRange(0, 1).Draw(t, "varySizes") == 0 {
			sizes := rapid.SliceOfN(rapid.SampledFrom([]int32{1, 2, 3, 7, 0, 50, 1000, 5000, math.MaxInt32, math.MaxInt32 - 1}), 2, 6).Draw(t, "sizes")
			if n := len(want); rapid.Bool().Draw(t, "sizeAroundN") {
				sizes = append(sizes, int32(n-1), int32(n), int32(n+1))
			}
			var all []proto.Message
			token := ""
			for page := 0; ; page++ {
				sz := sizes[page%len(sizes)]
				if sz < 0 {
					sz = 1
				}
				r := callPage(list, sz, token, nil)
				vdesc := fmt.Sprintf("%s with page sizes %v, page %d (size %d, token %q)", desc, sizes, page, sz, token)
				if r.panic != nil || r.err != nil {
					t.Fatalf("%s: panic=%v err=%v", vdesc, r.panic, r.err)
				}
				if len(r.items) > effectiveSize(sz) {
					t.Fatalf("%s: %d items, more than the page size", vdesc, len(r.items))
				}
				all = append(all, r.items...)
				if r.next == "" {
					break
				}
				if page > len(want)+4 {
					t.Fatalf("%s: token chain did not end (%d items so far, %d exist)", vdesc, len(all), len(want))
				}
				token = r.next
			}
			gotV := keysOf(p, all)
			if fmt.Sprint(gotV) != fmt.Sprint(want) {
				t.Fatalf("%s with page sizes %v cycling: enumerated %q, want every item exactly once in order %q", desc, sizes, gotV, want)
			}
			lib.Ev.Class("paging:walk with a different page size per request")
		}
		lib.Ev.Class("paging:" + p.name)
		nt := ""
		if masked && pages >= 2 {
			nt = fmt.Sprintf("%s|masked|%v", desc, want)
		} else if pages >= 2 {
			nt = fmt.Sprintf("%s|%v", desc, want)
			lib.Ev.Class("paging:multi-page")
		}
		lib.Ev.Case(nt, func() any { return fmt.Sprintf("%s pages=%d ids=%q", desc, pages, trim(want)) })
	})
}

func trim(s []string) []string {
	if len(s) > 12 {
		return append(append([]string(nil), s[:12]...), fmt.Sprintf("... %d more", len(s)-12))
	}
	return s
}

func encodeToken(pt *types.PageToken) string {
	b, _ := proto.Marshal(pt)
	return base64.StdEncoding.EncodeToString(b)
}

// drawHostileToken returns a token that no server handed out (or a corrupted one) and a label.
func drawHostileToken(t *rapid.T, p pager, valid string, want []string) (string, string) {
	if p.indexToken {
		k := rapid.IntRange(0, 6).Draw(t, "tk")
		switch k {
		case 0:
			return "abc", "not-a-number"
		case 1:
			return "-5", "negative-index"
		case 2:
			return strconv.Itoa(len(want) + rapid.IntRange(1, 1000000).Draw(t, "over")), "index-beyond-end"
		case 3:
			return "99999999999999999999999999", "overflowing-number"
		case 4:
			return "1e3", "float-syntax"
		case 5:
			return " 7", "space"
		default:
			return string(rapid.SliceOfN(rapid.Byte(), 1, 8).Draw(t, "raw")), "random-bytes"
		}
	}
	k := rapid.IntRange(0, 7).Draw(t, "tk")
	switch k {
	case 0:
		return string(rapid.SliceOfN(rapid.Byte(), 1, 12).Draw(t, "raw")), "random-bytes"
	case 1:
		return base64.StdEncoding.EncodeToString(rapid.SliceOfN(rapid.Byte(), 1, 12).Draw(t, "garbage")), "base64-of-garbage"
	case 2:
		if len(valid) > 1 {
			return valid[:rapid.IntRange(1, len(valid)-1).Draw(t, "cut")], "truncated-valid-token"
		}
		return "A", "truncated-valid-token"
	case 3:
		return encodeToken(&types.PageToken{PageStart: &types.PageToken_LastOffset{LastOffset: rapid.SampledFrom([]int32{-1, 0, 1, 1 << 30, -1 << 31}).Draw(t, "off")}}), "offset-token"
	case 4:
		return encodeToken(&types.PageToken{PageStart: &types.PageToken_LastResourceName{LastResourceName: ""}}), "empty-resource-name"
	case 5:
		return encodeToken(&types.PageToken{PageStart: &types.PageToken_LastResourceName{LastResourceName: rapid.SampledFrom([]string{"\x00", "zzzzzz", "\xff\xfe", "a\x00b", " "}).Draw(t, "name")}}), "unknown-resource-name"
	case 6:
		return encodeToken(&types.PageToken{}), "empty-message"
	default:
		return valid + rapid.SampledFrom([]string{"=", "A", "==", "\n", "!"}).Draw(t, "suffix"), "valid-token-with-suffix"
	}
}

// TestHostileRequests: negative page sizes give an error status; malformed tokens give an error or a well formed page;
// never a panic, never an endless chain.
func TestHostileRequests(t *testing.T) {
	rapid.Check(t, func(t *rapid.T) {
		p := pagerFor(t)
		n := rapid.IntRange(0, 12).Draw(t, "n")
		if n < p.minItems {
			n += p.minItems
		}
		ids := drawIDs(t, n)
		want, list := p.setup(ids)
		inWant := map[string]bool{}
		for _, k := range want {
			inWant[k] = true
		}
		// a valid token to corrupt
		valid := ""
		if r := callPage(list, 1, "", nil); r.panic == nil && r.err == nil {
			valid = r.next
		}
		if rapid.Bool().Draw(t, "negativeSize") {
			size := rapid.Int32Range(-5, -1).Draw(t, "size")
			tok := ""
			if rapid.Bool().Draw(t, "withToken") {
				tok = valid
			}
			r := callPage(list, size, tok, nil)
			desc := fmt.Sprintf("%s n=%d page_size=%d token=%q", p.name, len(want), size, tok)
			if r.panic != nil {
				t.Fatalf("%s: panic: %v", desc, r.panic)
			}
			if r.err == nil {
				t.Fatalf("%s: negative page size answered with a page of %d items (next=%q) instead of an error status", desc, len(r.items), r.next)
			}
			lib.Ev.Class("hostile:negative-page-size")
			lib.Ev.Case(desc, func() any { return desc })
			return
		}
		tok, kind := drawHostileToken(t, p, valid, want)
		size := rapid.SampledFrom([]int32{0, 1, 2, 3, 7}).Draw(t, "size")
		desc := fmt.Sprintf("%s n=%d page_size=%d hostile token %q (%s)", p.name, len(want), size, tok, kind)
		r := callPage(list, size, tok, nil)
		if r.panic != nil {
			t.Fatalf("%s: panic: %v", desc, r.panic)
		}
		if r.err == nil {
			// a well formed page: follow it to the end
			gotItems, _, err := follow(list, size, tok, nil, len(want), false)
			if err != nil {
				t.Fatalf("%s: %v", desc, err)
			}
			got := keysOf(p, gotItems)
			seen := map[string]bool{}
			for _, k := range got {
				if !inWant[k] {
					t.Fatalf("%s: returned an item %q that does not exist", desc, k)
				}
				if seen[k] {
					t.Fatalf("%s: item %q returned twice while following the chain", desc, k)
				}
				seen[k] = true
			}
			lib.Ev.Class("hostile:token answered with a page")
		} else {
			lib.Ev.Class("hostile:token answered with an error")
		}
		lib.Ev.Class("hostile:" + kind)
		lib.Ev.Case(desc, func() any { return desc })
	})
}
