package c15

import (
	"context"
	"encoding/base64"
	"fmt"
	"sort"
	"strconv"
	"strings"
	"testing"

	"google.golang.org/protobuf/proto"
	"google.golang.org/protobuf/types/known/timestamppb"
	"pgregory.net/rapid"

	"github.com/smart-core-os/sc-api/go/traits"
	"github.com/smart-core-os/sc-api/go/types"

	"github.com/smart-core-os/sc-golang/pkg/resource"
	"github.com/smart-core-os/sc-golang/pkg/trait/electricpb"
	"github.com/smart-core-os/sc-golang/pkg/trait/hailpb"
	"github.com/smart-core-os/sc-golang/pkg/trait/parentpb"
	"github.com/smart-core-os/sc-golang/pkg/trait/publicationpb"
	"github.com/smart-core-os/sc-golang/pkg/trait/vendingpb"
	"github.com/smart-core-os/sc-golang/pkg/trait/wastepb"
	"github.com/smart-core-os/sc-golang/verifh/lib"
)

// pager is one paged List RPC on a freshly populated server.
type pager struct {
	name string
	// setup creates a server holding len(ids) items (keyed by ids where the API lets the caller choose keys) and returns
	// the expected full listing (keys in listing order) and the page function.
	setup func(ids []string) (want []string, list func(size int32, token string) (keys []string, next string, total int32, err error))
	// indexToken: page tokens are plain decimal indexes rather than encoded PageToken messages.
	indexToken bool
	// minItems: the model always holds at least this many items.
	minItems int
}

var ctx = context.Background()

func sorted(ids []string) []string {
	out := append([]string(nil), ids...)
	sort.Strings(out)
	return out
}

var pagers = []pager{
	{name: "ListModes", setup: func(ids []string) ([]string, func(int32, string) ([]string, string, int32, error)) {
		m := electricpb.NewModel()
		for _, id := range ids {
			if err := m.AddMode(&traits.ElectricMode{Id: id, Title: "t" + id}); err != nil {
				panic(err)
			}
		}
		s := electricpb.NewModelServer(m)
		return sorted(ids), func(size int32, token string) ([]string, string, int32, error) {
			r, err := s.ListModes(ctx, &traits.ListModesRequest{Name: "n", PageSize: size, PageToken: token})
			if err != nil {
				return nil, "", 0, err
			}
			var keys []string
			for _, it := range r.Modes {
				keys = append(keys, it.Id)
			}
			return keys, r.NextPageToken, r.TotalSize, nil
		}
	}},
	{name: "ListHails", setup: func(ids []string) ([]string, func(int32, string) ([]string, string, int32, error)) {
		m := hailpb.NewModel()
		var got []string
		for range ids {
			h, err := m.CreateHail(&traits.Hail{Origin: &traits.Hail_Location{Name: "o"}})
			if err != nil {
				panic(err)
			}
			got = append(got, h.Id)
		}
		s := hailpb.NewModelServer(m)
		return sorted(got), func(size int32, token string) ([]string, string, int32, error) {
			r, err := s.ListHails(ctx, &traits.ListHailsRequest{Name: "n", PageSize: size, PageToken: token})
			if err != nil {
				return nil, "", 0, err
			}
			var keys []string
			for _, it := range r.Hails {
				keys = append(keys, it.Id)
			}
			return keys, r.NextPageToken, r.TotalSize, nil
		}
	}},
	{name: "ListChildren", setup: func(ids []string) ([]string, func(int32, string) ([]string, string, int32, error)) {
		m := parentpb.NewModel()
		for _, id := range ids {
			m.AddChild(&traits.Child{Name: id})
		}
		s := parentpb.NewModelServer(m)
		return sorted(ids), func(size int32, token string) ([]string, string, int32, error) {
			r, err := s.ListChildren(ctx, &traits.ListChildrenRequest{Name: "n", PageSize: size, PageToken: token})
			if err != nil {
				return nil, "", 0, err
			}
			var keys []string
			for _, it := range r.Children {
				keys = append(keys, it.Name)
			}
			return keys, r.NextPageToken, r.TotalSize, nil
		}
	}},
	{name: "ListChildren(case-insensitive ids)", setup: func(ids []string) ([]string, func(int32, string) ([]string, string, int32, error)) {
		// a model configured with an id interceptor: children are keyed by lower-cased name but listed by name
		m := parentpb.NewModel(resource.WithIDInterceptor(strings.ToLower))
		seen := map[string]bool{}
		var names []string
		for _, id := range ids {
			if seen[strings.ToLower(id)] {
				id = id + "~" + strconv.Itoa(len(names)) // keep keys distinct under the interceptor
			}
			seen[strings.ToLower(id)] = true
			names = append(names, id)
			m.AddChild(&traits.Child{Name: id})
		}
		s := parentpb.NewModelServer(m)
		return sorted(names), func(size int32, token string) ([]string, string, int32, error) {
			r, err := s.ListChildren(ctx, &traits.ListChildrenRequest{Name: "n", PageSize: size, PageToken: token})
			if err != nil {
				return nil, "", 0, err
			}
			var keys []string
			for _, it := range r.Children {
				keys = append(keys, it.Name)
			}
			return keys, r.NextPageToken, r.TotalSize, nil
		}
	}},
	{name: "ListPublications", setup: func(ids []string) ([]string, func(int32, string) ([]string, string, int32, error)) {
		m := publicationpb.NewModel()
		for _, id := range ids {
			if _, err := m.CreatePublication(&traits.Publication{Id: id, Body: []byte(id)}); err != nil {
				panic(err)
			}
		}
		s := publicationpb.NewModelServer(m)
		return sorted(ids), func(size int32, token string) ([]string, string, int32, error) {
			r, err := s.ListPublications(ctx, &traits.ListPublicationsRequest{Name: "n", PageSize: size, PageToken: token})
			if err != nil {
				return nil, "", 0, err
			}
			var keys []string
			for _, it := range r.Publications {
				keys = append(keys, it.Id)
			}
			return keys, r.NextPageToken, r.TotalSize, nil
		}
	}},
	{name: "ListConsumables", setup: func(ids []string) ([]string, func(int32, string) ([]string, string, int32, error)) {
		m := vendingpb.NewModel()
		for _, id := range ids {
			if _, err := m.CreateConsumable(&traits.Consumable{Name: id}); err != nil {
				panic(err)
			}
		}
		s := vendingpb.NewModelServer(m)
		return sorted(ids), func(size int32, token string) ([]string, string, int32, error) {
			r, err := s.ListConsumables(ctx, &traits.ListConsumablesRequest{Name: "n", PageSize: size, PageToken: token})
			if err != nil {
				return nil, "", 0, err
			}
			var keys []string
			for _, it := range r.Consumables {
				keys = append(keys, it.Name)
			}
			return keys, r.NextPageToken, r.TotalSize, nil
		}
	}},
	{name: "ListInventory", setup: func(ids []string) ([]string, func(int32, string) ([]string, string, int32, error)) {
		m := vendingpb.NewModel()
		for _, id := range ids {
			if _, err := m.CreateStock(&traits.Consumable_Stock{Consumable: id}); err != nil {
				panic(err)
			}
		}
		s := vendingpb.NewModelServer(m)
		return sorted(ids), func(size int32, token string) ([]string, string, int32, error) {
			r, err := s.ListInventory(ctx, &traits.ListInventoryRequest{Name: "n", PageSize: size, PageToken: token})
			if err != nil {
				return nil, "", 0, err
			}
			var keys []string
			for _, it := range r.Inventory {
				keys = append(keys, it.Consumable)
			}
			return keys, r.NextPageToken, r.TotalSize, nil
		}
	}},
	{name: "ListWasteRecords", indexToken: true, minItems: 100, setup: func(ids []string) ([]string, func(int32, string) ([]string, string, int32, error)) {
		m := wastepb.NewModel() // starts with 100 generated records
		for i := m.GetWasteRecordCount(); i < len(ids); i++ {
			if _, err := m.GenerateWasteRecord(timestamppb.Now()); err != nil {
				panic(err)
			}
		}
		n := m.GetWasteRecordCount()
		var want []string // latest first; generated ids are 0,1,2...
		for i := n - 1; i >= 0; i-- {
			want = append(want, strconv.Itoa(i))
		}
		s := wastepb.NewModelServer(m)
		return want, func(size int32, token string) ([]string, string, int32, error) {
			r, err := s.ListWasteRecords(ctx, &traits.ListWasteRecordsRequest{Name: "n", PageSize: size, PageToken: token})
			if err != nil {
				return nil, "", 0, err
			}
			var keys []string
			for _, it := range r.WasteRecords {
				keys = append(keys, it.Id)
			}
			return keys, r.NextPageToken, r.TotalSize, nil
		}
	}},
}

func effectiveSize(size int32) int {
	switch {
	case size == 0:
		return 50
	case size > 1000:
		return 1000
	}
	return int(size)
}

type pageResult struct {
	keys  []string
	next  string
	total int32
	err   error
	panic any
}

func callPage(list func(int32, string) ([]string, string, int32, error), size int32, token string) (r pageResult) {
	defer func() {
		if p := recover(); p != nil {
			r.panic = p
		}
	}()
	r.keys, r.next, r.total, r.err = list(size, token)
	return
}

// follow walks the token chain starting at token. It returns the concatenated keys or an error describing the violation.
func follow(list func(int32, string) ([]string, string, int32, error), size int32, token string, n int, strictTotal bool) ([]string, int, error) {
	eff := effectiveSize(size)
	maxPages := n/eff + 4
	var all []string
	pages := 0
	for {
		r := callPage(list, size, token)
		if r.panic != nil {
			return all, pages, fmt.Errorf("page %d (token %q) panicked: %v", pages, token, r.panic)
		}
		if r.err != nil {
			return all, pages, fmt.Errorf("page %d (token %q) failed: %v", pages, token, r.err)
		}
		pages++
		if len(r.keys) > eff {
			return all, pages, fmt.Errorf("page %d has %d items, more than the effective page size %d (requested %d)", pages-1, len(r.keys), eff, size)
		}
		if strictTotal && int(r.total) != n {
			return all, pages, fmt.Errorf("page %d reports total_size %d, want %d", pages-1, r.total, n)
		}
		all = append(all, r.keys...)
		if r.next == "" {
			return all, pages, nil
		}
		if pages > maxPages {
			return all, pages, fmt.Errorf("token chain did not end after %d pages for %d items with page size %d (endless chain?)", pages, n, eff)
		}
		token = r.next
	}
}

var idAlphabet = []string{"a", "aa", "a0", "A", "ab", "b", "é", "日", "a-", "a_", "Z", "0", "a.b", "aaa", "B", "ba", " a", "a "}

func drawIDs(t *rapid.T, n int) []string {
	if n > 80 {
		ids := make([]string, n)
		for i := range ids {
			ids[i] = "i" + strconv.Itoa(i) // i1, i10, i100: prefixes of each other
		}
		return ids
	}
	seen := map[string]bool{}
	var ids []string
	for len(ids) < n {
		var id string
		if rapid.IntRange(0, 2).Draw(t, "idkind") == 0 {
			id = rapid.SampledFrom(idAlphabet).Draw(t, "id")
		} else {
			id = rapid.StringMatching(`[aAb0é]{1,4}`).Draw(t, "id")
		}
		for seen[id] {
			id += rapid.SampledFrom([]string{"a", "0", "A"}).Draw(t, "idext")
		}
		seen[id] = true
		ids = append(ids, id)
	}
	return ids
}

func drawCount(t *rapid.T, min int) int {
	if rapid.IntRange(0, 24).Draw(t, "big") == 0 {
		return rapid.SampledFrom([]int{999, 1000, 1001}).Draw(t, "nbig")
	}
	n := rapid.OneOf(rapid.IntRange(0, 60), rapid.SampledFrom([]int{49, 50, 51})).Draw(t, "n")
	if n < min {
		n += min
	}
	return n
}

func drawPageSize(t *rapid.T, n int) int32 {
	if n > 200 {
		return rapid.SampledFrom([]int32{0, 50, 333, 999, 1000, 1001, 5000}).Draw(t, "size")
	}
	return rapid.OneOf(
		rapid.SampledFrom([]int32{0, 1, 2, 3, 7, 50, 1000, 5000}),
		rapid.Int32Range(1, 70),
	).Draw(t, "size")
}

func pagerFor(t *rapid.T) pager {
	name := strings.TrimPrefix(t.Name(), "TestPaging/")
	_ = name
	return pagers[rapid.IntRange(0, len(pagers)-1).Draw(t, "rpc")]
}

// TestPaging: following next_page_token enumerates every item exactly once, in order.
func TestPaging(t *testing.T) {
	rapid.Check(t, func(t *rapid.T) {
		p := pagerFor(t)
		n := drawCount(t, p.minItems)
		ids := drawIDs(t, n)
		want, list := p.setup(ids)
		size := drawPageSize(t, len(want))
		got, pages, err := follow(list, size, "", len(want), true)
		desc := fmt.Sprintf("%s n=%d page_size=%d", p.name, len(want), size)
		if err != nil {
			t.Fatalf("%s: %v\n ids: %q", desc, err, want)
		}
		if len(got) != len(want) {
			t.Fatalf("%s: %d items enumerated in %d pages, want %d\n got  %q\n want %q", desc, len(got), pages, len(want), got, want)
		}
		for i := range got {
			if got[i] != want[i] {
				t.Fatalf("%s: item %d is %q, want %q (missing, duplicated or out of order)\n got  %q\n want %q", desc, i, got[i], want[i], got, want)
			}
		}
		lib.Ev.Class("paging:" + p.name)
		nt := ""
		if pages >= 2 {
			nt = fmt.Sprintf("%s|%v", desc, want)
			lib.Ev.Class("paging:multi-page")
		}
		lib.Ev.Case(nt, func() any { return fmt.Sprintf("%s pages=%d ids=%q", desc, pages, trim(want)) })
	})
}

func trim(s []string) []string {
	if len(s) > 12 {
		return append(append([]string(nil), s[:12]...), fmt.Sprintf("... %d more", len(s)-12))
	}
	return s
}

func encodeToken(pt *types.PageToken) string {
	b, _ := proto.Marshal(pt)
	return base64.StdEncoding.EncodeToString(b)
}

// drawHostileToken returns a token that no server handed out (or a corrupted one) and a label.
func drawHostileToken(t *rapid.T, p pager, valid string, want []string) (string, string) {
	if p.indexToken {
		k := rapid.IntRange(0, 6).Draw(t, "tk")
		switch k {
		case 0:
			return "abc", "not-a-number"
		case 1:
			return "-5", "negative-index"
		case 2:
			return strconv.Itoa(len(want) + rapid.IntRange(1, 1000000).Draw(t, "over")), "index-beyond-end"
		case 3:
			return "99999999999999999999999999", "overflowing-number"
		case 4:
			return "1e3", "float-syntax"
		case 5:
			return " 7", "space"
		default:
			return string(rapid.SliceOfN(rapid.Byte(), 1, 8).Draw(t, "raw")), "random-bytes"
		}
	}
	k := rapid.IntRange(0, 7).Draw(t, "tk")
	switch k {
	case 0:
		return string(rapid.SliceOfN(rapid.Byte(), 1, 12).Draw(t, "raw")), "random-bytes"
	case 1:
		return base64.StdEncoding.EncodeToString(rapid.SliceOfN(rapid.Byte(), 1, 12).Draw(t, "garbage")), "base64-of-garbage"
	case 2:
		if len(valid) > 1 {
			return valid[:rapid.IntRange(1, len(valid)-1).Draw(t, "cut")], "truncated-valid-token"
		}
		return "A", "truncated-valid-token"
	case 3:
		return encodeToken(&types.PageToken{PageStart: &types.PageToken_LastOffset{LastOffset: rapid.SampledFrom([]int32{-1, 0, 1, 1 << 30, -1 << 31}).Draw(t, "off")}}), "offset-token"
	case 4:
		return encodeToken(&types.PageToken{PageStart: &types.PageToken_LastResourceName{LastResourceName: ""}}), "empty-resource-name"
	case 5:
		return encodeToken(&types.PageToken{PageStart: &types.PageToken_LastResourceName{LastResourceName: rapid.SampledFrom([]string{"\x00", "zzzzzz", "\xff\xfe", "a\x00b", " "}).Draw(t, "name")}}), "unknown-resource-name"
	case 6:
		return encodeToken(&types.PageToken{}), "empty-message"
	default:
		return valid + rapid.SampledFrom([]string{"=", "A", "==", "\n", "!"}).Draw(t, "suffix"), "valid-token-with-suffix"
	}
}

// TestHostileRequests: negative page sizes give an error status; malformed tokens give an error or a well formed page;
// never a panic, never an endless chain.
func TestHostileRequests(t *testing.T) {
	rapid.Check(t, func(t *rapid.T) {
		p := pagerFor(t)
		n := rapid.IntRange(0, 12).Draw(t, "n")
		if n < p.minItems {
			n += p.minItems
		}
		ids := drawIDs(t, n)
		want, list := p.setup(ids)
		inWant := map[string]bool{}
		for _, k := range want {
			inWant[k] = true
		}
		// a valid token to corrupt
		valid := ""
		if r := callPage(list, 1, ""); r.panic == nil && r.err == nil {
			valid = r.next
		}
		if rapid.Bool().Draw(t, "negativeSize") {
			size := rapid.Int32Range(-5, -1).Draw(t, "size")
			tok := ""
			if rapid.Bool().Draw(t, "withToken") {
				tok = valid
			}
			r := callPage(list, size, tok)
			desc := fmt.Sprintf("%s n=%d page_size=%d token=%q", p.name, len(want), size, tok)
			if r.panic != nil {
				t.Fatalf("%s: panic: %v", desc, r.panic)
			}
			if r.err == nil {
				t.Fatalf("%s: negative page size answered with a page of %d items (next=%q) instead of an error status", desc, len(r.keys), r.next)
			}
			lib.Ev.Class("hostile:negative-page-size")
			lib.Ev.Case(desc, func() any { return desc })
			return
		}
		tok, kind := drawHostileToken(t, p, valid, want)
		size := rapid.SampledFrom([]int32{0, 1, 2, 3, 7}).Draw(t, "size")
		desc := fmt.Sprintf("%s n=%d page_size=%d hostile token %q (%s)", p.name, len(want), size, tok, kind)
		r := callPage(list, size, tok)
		if r.panic != nil {
			t.Fatalf("%s: panic: %v", desc, r.panic)
		}
		if r.err == nil {
			// a well formed page: follow it to the end
			got, _, err := follow(list, size, tok, len(want), false)
			if err != nil {
				t.Fatalf("%s: %v", desc, err)
			}
			seen := map[string]bool{}
			for _, k := range got {
				if !inWant[k] {
					t.Fatalf("%s: returned an item %q that does not exist", desc, k)
				}
				if seen[k] {
					t.Fatalf("%s: item %q returned twice while following the chain", desc, k)
				}
				seen[k] = true
			}
			lib.Ev.Class("hostile:token answered with a page")
		} else {
			lib.Ev.Class("hostile:token answered with an error")
		}
		lib.Ev.Class("hostile:" + kind)
		lib.Ev.Case(desc, func() any { return desc })
	})
}
