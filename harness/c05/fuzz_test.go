package c05

import (
	"strings"
	"testing"

	"google.golang.org/protobuf/proto"
	"google.golang.org/protobuf/types/known/fieldmaskpb"

	"github.com/smart-core-os/sc-golang/internal/testproto"
	"github.com/smart-core-os/sc-golang/verifh/lib"
)

func splitMask(s string) *fieldmaskpb.FieldMask {
	switch s {
	case "":
		return nil
	case "-":
		return &fieldmaskpb.FieldMask{}
	}
	return &fieldmaskpb.FieldMask{Paths: strings.Split(s, ",")}
}

// FuzzMaskedWrite: coverage guided search over (wire bytes of the stored and written TestAllTypes, update / writable /
// extra-writable / reset masks as comma separated paths, "" = option absent, "-" = empty mask) with the same oracle as
// TestMaskedWrite (reference classification + reference masked update + frame condition), through the FieldUpdater,
// Value.Set and Collection.Update.
func FuzzMaskedWrite(f *testing.F) {
	msgs := []proto.Message{
		&testproto.TestAllTypes{},
		&testproto.TestAllTypes{DefaultInt32: 1, DefaultString: "a", OptionalInt32: proto.Int32(0), DefaultNestedMessage: &testproto.TestAllTypes_NestedMessage{A: 2, Corecursive: &testproto.TestAllTypes{DefaultBool: true, DefaultInt64: 5}}},
		&testproto.TestAllTypes{RepeatedString: []string{"x", "y"}, MapStringString: map[string]string{"k": "v"}, RepeatedNestedMessage: []*testproto.TestAllTypes_NestedMessage{{A: 1}}},
		&testproto.TestAllTypes{OneofDefault: &testproto.TestAllTypes_OneofDefaultNestedMessage{OneofDefaultNestedMessage: &testproto.TestAllTypes_NestedMessage{A: 3}}, DefaultNestedMessage: &testproto.TestAllTypes_NestedMessage{}},
		&testproto.TestAllTypes{OneofDefault: &testproto.TestAllTypes_OneofDefaultInt32{OneofDefaultInt32: 9}, DefaultForeignMessage: &testproto.ForeignMessage{C: 1, D: 2}},
	}
	masksSeed := []string{"", "-", "default_int32", "default_nested_message", "default_nested_message.a", "default_nested_message.corecursive.default_bool",
		"default_nested_message.a,default_nested_message", "repeated_string", "map_string_string", "oneof_default_nested_message.a", "oneof_default_int32", "nope", "default_int32.x",
		"default_foreign_message.c", "optional_int32"}
	for i, a := range msgs {
		ab, _ := proto.Marshal(a)
		bb, _ := proto.Marshal(msgs[(i+1)%len(msgs)])
		for j, u := range masksSeed {
			f.Add(ab, bb, u, masksSeed[(j*7+i)%len(masksSeed)], "", masksSeed[(j*3+1)%len(masksSeed)], byte(i+j))
		}
	}
	f.Fuzz(func(t *testing.T, storedB, writtenB []byte, update, writable, more, reset string, flags byte) {
		if len(update)+len(writable)+len(more)+len(reset) > 300 {
			return
		}
		stored, written := &testproto.TestAllTypes{}, &testproto.TestAllTypes{}
		if proto.Unmarshal(storedB, stored) != nil || proto.Unmarshal(writtenB, written) != nil {
			return
		}
		if !lib.Sanitize(stored) || !lib.Sanitize(written) {
			return
		}
		c := writeCase{proto: &testproto.TestAllTypes{}, written: written, updateKind: "fuzz", resetKind: "fuzz"}
		if flags&1 == 0 {
			c.stored = stored
		}
		c.allWrit = flags&6 == 6
		c.update, c.writable, c.more, c.reset = splitMask(update), splitMask(writable), splitMask(more), splitMask(reset)
		if c.writable != nil && len(c.writable.Paths) == 0 {
			c.writable = nil // "no fields writable" is not a configuration the property describes
		}
		if c.more != nil && len(c.more.Paths) == 0 {
			c.more = nil
		}
		md := c.proto.ProtoReflect().Descriptor()
		// resource-level configuration must itself be well formed (it is the developer's, not the caller's, input)
		if c.writable != nil && !lib.ValidMask(md, c.writable) {
			return
		}
		if c.more != nil && !lib.ValidMask(md, c.more) {
			return
		}
		runCase(t, c)
	})
}
