package c05

import (
	"fmt"
	"strings"
	"testing"

	"google.golang.org/grpc/codes"
	"google.golang.org/grpc/status"
	"google.golang.org/protobuf/encoding/prototext"
	"google.golang.org/protobuf/proto"
	"google.golang.org/protobuf/reflect/protoreflect"
	"google.golang.org/protobuf/types/known/fieldmaskpb"
	"pgregory.net/rapid"

	"github.com/smart-core-os/sc-golang/pkg/masks"
	"github.com/smart-core-os/sc-golang/pkg/resource"
	"github.com/smart-core-os/sc-golang/verifh/lib"
)

func txt(m proto.Message) string {
	if m == nil {
		return "<nil>"
	}
	return prototext.MarshalOptions{Multiline: false}.Format(m)
}

// writeCase is one (stored, written, masks) tuple.
type writeCase struct {
	proto      proto.Message
	stored     proto.Message // may be nil for Value (nothing stored yet)
	written    proto.Message
	update     *fieldmaskpb.FieldMask
	updateKind string
	writable   *fieldmaskpb.FieldMask // resource level
	more       *fieldmaskpb.FieldMask // per write extra writable
	allWrit    bool
	union      bool // update is the union of several mask options
	reset      *fieldmaskpb.FieldMask
	resetKind  string
}

func (c writeCase) String() string {
	return fmt.Sprintf("type=%s stored={%s} written={%s} update=%s(%s) writable=%s more=%s allWritable=%v reset=%s(%s)",
		c.proto.ProtoReflect().Descriptor().Name(), txt(c.stored), txt(c.written), lib.MaskString(c.update), c.updateKind,
		lib.MaskString(c.writable), lib.MaskString(c.more), c.allWrit, lib.MaskString(c.reset), c.resetKind)
}

// effectiveWritable mirrors the documented option semantics: nil resource mask or all-writable => everything,
// otherwise the union of the resource mask and the per-write extra paths.
func (c writeCase) effectiveWritable() *fieldmaskpb.FieldMask {
	if c.allWrit || c.writable == nil {
		return nil
	}
	paths := append([]string(nil), c.writable.Paths...)
	if c.more != nil {
		paths = append(paths, c.more.Paths...)
	}
	return &fieldmaskpb.FieldMask{Paths: paths}
}

func (c writeCase) spec() lib.UpdateSpec {
	return lib.UpdateSpec{UpdateMask: c.update, Writable: c.effectiveWritable(), ResetMask: c.reset, PathByPath: !c.union}
}

func drawValidMaskNoNilEmpty(t *rapid.T, label string, md protoreflect.MessageDescriptor, bias ...proto.Message) (*fieldmaskpb.FieldMask, string) {
	for i := 0; i < 8; i++ {
		m, k := lib.DrawMask(t, fmt.Sprintf("%s%d", label, i), md, bias...)
		if m != nil && len(m.Paths) > 0 {
			return m, string(k)
		}
	}
	return &fieldmaskpb.FieldMask{Paths: []string{lib.CachedPaths(md)[0]}}, "paths"
}

func genWriteCase(t *rapid.T) writeCase {
	var c writeCase
	c.proto = lib.DrawType(t, "type")
	md := c.proto.ProtoReflect().Descriptor()
	o := lib.GenOpts{FieldProb: -1}
	if rapid.IntRange(0, 9).Draw(t, "storedNil") > 0 {
		c.stored = lib.GenMessage(t, "stored", c.proto, o)
	}
	if c.stored != nil && rapid.IntRange(0, 9).Draw(t, "sendBack") == 0 {
		// a client that reads the value and sends it straight back (with masks): equal to what is stored
		c.written = proto.Clone(c.stored)
	} else if c.stored != nil && rapid.IntRange(0, 2).Draw(t, "mutant") > 0 {
		c.written, _ = lib.Mutate(t, "written", c.stored, 3, o)
	} else {
		c.written = lib.GenMessage(t, "written", c.proto, o)
	}
	// resource writable fields
	switch rapid.IntRange(0, 3).Draw(t, "wkind") {
	case 0, 1:
		c.writable = nil
	default:
		c.writable, _ = drawValidMaskNoNilEmpty(t, "writable", md, c.stored, c.written)
	}
	if rapid.IntRange(0, 4).Draw(t, "moreKind") == 0 {
		c.more, _ = drawValidMaskNoNilEmpty(t, "more", md, c.written)
	}
	c.allWrit = rapid.IntRange(0, 9).Draw(t, "allWritable") == 0
	w := c.effectiveWritable()
	// update mask
	switch k := rapid.IntRange(0, 11).Draw(t, "ukind"); {
	case k <= 1:
		c.update, c.updateKind = nil, "nil"
	case k == 2:
		c.update, c.updateKind = &fieldmaskpb.FieldMask{}, "empty"
	case k <= 6 || w == nil:
		if k == 10 {
			var ck lib.CorruptKind
			c.update, ck, _ = lib.DrawCorruptMask(t, "ucorrupt", md, c.written)
			c.updateKind = "corrupt:" + string(ck)
			break
		}
		c.update, c.updateKind = drawValidMaskNoNilEmpty(t, "update", md, c.stored, c.written)
	case k <= 8:
		// paths derived from the writable set: exact, below, above (broader)
		n := rapid.IntRange(1, 3).Draw(t, "un")
		var paths []string
		kinds := map[string]bool{}
		all := lib.CachedPaths(md)
		for i := 0; i < n; i++ {
			wp := rapid.SampledFrom(w.Paths).Draw(t, "wp")
			switch rapid.IntRange(0, 3).Draw(t, "rel") {
			case 0, 1:
				paths = append(paths, wp)
				kinds["exact"] = true
			case 2: // a child of the writable path, if any
				var kids []string
				for _, p := range all {
					if strings.HasPrefix(p, wp+".") {
						kids = append(kids, p)
					}
				}
				if len(kids) > 0 {
					paths = append(paths, rapid.SampledFrom(kids).Draw(t, "kid"))
					kinds["below"] = true
				} else {
					paths = append(paths, wp)
				}
			case 3: // the parent (broader than writable)
				if i := strings.LastIndex(wp, "."); i > 0 {
					paths = append(paths, wp[:i])
					kinds["above"] = true
				} else {
					paths = append(paths, wp)
				}
			}
		}
		// sometimes add a path that is not writable at all (must be rejected)
		if rapid.IntRange(0, 3).Draw(t, "addDisjoint") == 0 {
			for tries := 0; tries < 5; tries++ {
				p := rapid.SampledFrom(all).Draw(t, "dp")
				if !lib.Covers(w.Paths, p) && len(lib.StrictlyUnder(w.Paths, p)) == 0 {
					paths = append(paths, p)
					kinds["disjoint"] = true
					break
				}
			}
		}
		c.update = &fieldmaskpb.FieldMask{Paths: paths}
		var ks []string
		for _, k := range []string{"exact", "below", "above", "disjoint"} {
			if kinds[k] {
				ks = append(ks, k)
			}
		}
		c.updateKind = "vsW:" + strings.Join(ks, "+")
	case k == 9:
		c.update, c.updateKind = drawValidMaskNoNilEmpty(t, "update", md, c.stored, c.written)
	default:
		var ck lib.CorruptKind
		c.update, ck, _ = lib.DrawCorruptMask(t, "ucorrupt", md, c.written)
		c.updateKind = "corrupt:" + string(ck)
	}
	// reset mask
	switch rapid.IntRange(0, 9).Draw(t, "rkind") {
	case 0, 1:
		c.reset, c.resetKind = drawValidMaskNoNilEmpty(t, "reset", md, c.stored, c.written)
	case 2:
		var ck lib.CorruptKind
		c.reset, ck, _ = lib.DrawCorruptMask(t, "rcorrupt", md, c.written)
		c.resetKind = "corrupt:" + string(ck)
	default:
		c.resetKind = "nil"
	}
	return c
}

// oneofSiblings lists paths of oneof members of the message type at top level and one level down (enough for the
// generated types): changing one member legitimately clears its siblings.
func oneofSibling(md protoreflect.MessageDescriptor, path string) bool {
	segs := strings.Split(path, ".")
	for i, s := range segs {
		fd := md.Fields().ByName(protoreflect.Name(strings.TrimSuffix(s, "{presence}")))
		if fd == nil {
			return false
		}
		if od := fd.ContainingOneof(); od != nil && !od.IsSynthetic() {
			return true
		}
		if i < len(segs)-1 {
			if fd.Message() == nil {
				return false
			}
			md = fd.Message()
		}
	}
	return false
}

// checkOutcome applies the oracle to one executed write.
// before: stored value before (nil = nothing); after: stored value after; ret/err: what the call returned.
func checkOutcome(c writeCase, before, after, ret proto.Message, err error, entry string) error {
	md := c.proto.ProtoReflect().Descriptor()
	spec := c.spec()
	verdict, why := spec.Classify(md)
	beforeOrEmpty := before
	if beforeOrEmpty == nil {
		beforeOrEmpty = c.proto.ProtoReflect().New().Interface()
	}
	afterOrEmpty := after
	if afterOrEmpty == nil {
		afterOrEmpty = c.proto.ProtoReflect().New().Interface()
	}
	unchanged := func() error {
		if (before == nil) != (after == nil) && strings.HasPrefix(entry, "Collection") {
			return fmt.Errorf("%s: failed write changed existence of the stored value", entry)
		}
		if !proto.Equal(beforeOrEmpty, afterOrEmpty) {
			return fmt.Errorf("%s: rejected write changed stored state: before={%s} after={%s}", entry, txt(before), txt(after))
		}
		return nil
	}
	frame := func() error {
		eff, everything := spec.EffectivePaths()
		if everything {
			return nil
		}
		allowed := append([]string(nil), eff...)
		if c.reset != nil {
			allowed = append(allowed, c.reset.Paths...)
		}
		for _, d := range lib.LeafDiff(beforeOrEmpty, afterOrEmpty, 4) {
			p := strings.TrimSuffix(d, "{presence}")
			if lib.Covers(allowed, p) || len(lib.StrictlyUnder(allowed, p)) > 0 && strings.HasSuffix(d, "{presence}") {
				continue
			}
			if oneofSibling(md, p) {
				continue
			}
			return fmt.Errorf("%s: field %q changed although it is outside updateMask∩writable (%q) and the reset mask: before={%s} after={%s}",
				entry, d, eff, txt(before), txt(after))
		}
		return nil
	}
	switch verdict {
	case lib.MustRejectInvalidArgument:
		if err == nil {
			return fmt.Errorf("%s: write accepted but must be rejected with InvalidArgument (%s); after={%s}", entry, why, txt(after))
		}
		if status.Code(err) != codes.InvalidArgument {
			return fmt.Errorf("%s: rejected with %v, want InvalidArgument (%s)", entry, status.Code(err), why)
		}
		return unchanged()
	case lib.MustRejectAny:
		if err == nil {
			return fmt.Errorf("%s: write accepted but must be rejected (%s)", entry, why)
		}
		return unchanged()
	case lib.Unspecified:
		lib.Ev.Class("unspecified:" + why)
		if err != nil {
			return unchanged()
		}
		return frame()
	}
	// must accept
	if err != nil {
		return fmt.Errorf("%s: valid write rejected: %v", entry, err)
	}
	want := lib.RefUpdate(before, c.written, spec)
	eff, _ := spec.EffectivePaths()
	norm := &fieldmaskpb.FieldMask{Paths: append([]string(nil), eff...)}
	if c.reset != nil {
		norm.Paths = append(norm.Paths, c.reset.Paths...)
	}
	g := lib.DropEmptyOnPaths(proto.Clone(afterOrEmpty), norm)
	w := lib.DropEmptyOnPaths(proto.Clone(want), norm)
	if !proto.Equal(g, w) {
		return fmt.Errorf("%s: stored value after write differs from reference at %q:\n got  {%s}\n want {%s}", entry, lib.LeafDiff(g, w, 4), txt(after), txt(want))
	}
	if ret != nil && !proto.Equal(ret, afterOrEmpty) {
		return fmt.Errorf("%s: returned message {%s} differs from stored {%s}", entry, txt(ret), txt(after))
	}
	return frame()
}

func (c writeCase) writeOpts() []resource.WriteOption {
	var opts []resource.WriteOption
	if c.update != nil {
		opts = append(opts, resource.WithUpdateMask(lib.CloneMask(c.update)))
	}
	if c.more != nil {
		opts = append(opts, resource.WithMoreWritableFields(lib.CloneMask(c.more)))
	}
	if c.allWrit {
		opts = append(opts, resource.WithAllFieldsWritable())
	}
	if c.reset != nil {
		opts = append(opts, resource.WithResetMask(lib.CloneMask(c.reset)))
	}
	return opts
}

func (c writeCase) nontrivialKey(changed bool) string {
	if c.update == nil || len(c.update.Paths) == 0 || !changed {
		return ""
	}
	nested := false
	for _, p := range c.update.Paths {
		if strings.Contains(p, ".") {
			nested = true
		}
	}
	if !nested || c.stored == nil {
		return ""
	}
	// something populated outside the mask?
	outside := false
	for _, p := range lib.PopulatedPaths(c.stored, 1) {
		if !lib.Covers(c.update.Paths, p) && len(lib.StrictlyUnder(c.update.Paths, p)) == 0 {
			outside = true
		}
	}
	if !outside {
		return ""
	}
	return c.String()
}

// fataler is the part of *rapid.T / *testing.T the case runner needs.
type fataler interface {
	Fatalf(format string, args ...any)
}

func runCase(t fataler, c writeCase) {
	lib.Ev.Class("update:" + strings.SplitN(c.updateKind, ":", 2)[0])
	if strings.HasPrefix(c.updateKind, "vsW:") {
		lib.Ev.Class(c.updateKind)
	}
	// 1. FieldUpdater directly
	{
		var fopts []masks.FieldUpdaterOption
		fopts = append(fopts, masks.WithUpdateMask(lib.CloneMask(c.update)))
		if c.reset != nil {
			fopts = append(fopts, masks.WithResetMask(lib.CloneMask(c.reset)))
		}
		fopts = append(fopts, masks.WithWritableFields(lib.CloneMask(c.effectiveWritable())))
		fu := masks.NewFieldUpdater(fopts...)
		src := proto.Clone(c.written)
		var dst proto.Message
		if c.stored != nil {
			dst = proto.Clone(c.stored)
		} else {
			dst = c.proto.ProtoReflect().New().Interface()
		}
		before := proto.Clone(dst)
		err := fu.Validate(src)
		if err == nil {
			fu.Merge(dst, src)
		}
		var beforeArg proto.Message = before
		if c.stored == nil {
			beforeArg = nil
		}
		if e := checkOutcome(c, beforeArg, dst, nil, err, "FieldUpdater"); e != nil {
			t.Fatalf("%v\ncase: %v", e, c)
		}
	}
	// 2. Value.Set
	{
		var ropts []resource.Option
		if c.stored != nil {
			ropts = append(ropts, resource.WithInitialValue(proto.Clone(c.stored)))
		}
		if c.writable != nil {
			ropts = append(ropts, resource.WithWritableFields(lib.CloneMask(c.writable)))
		}
		v := resource.NewValue(ropts...)
		ret, err := v.Set(proto.Clone(c.written), c.writeOpts()...)
		after := v.Get()
		if e := checkOutcome(c, c.stored, after, ret, err, "Value.Set"); e != nil {
			t.Fatalf("%v\ncase: %v", e, c)
		}
	}
	// 3. Collection.Update (existing item, or created when nothing is stored)
	changed := false
	{
		var ropts []resource.Option
		if c.stored != nil {
			ropts = append(ropts, resource.WithInitialRecord("id", proto.Clone(c.stored)))
		}
		if c.writable != nil {
			ropts = append(ropts, resource.WithWritableFields(lib.CloneMask(c.writable)))
		}
		col := resource.NewCollection(ropts...)
		opts := c.writeOpts()
		if c.stored == nil {
			opts = append(opts, resource.WithCreateIfAbsent())
		}
		ret, err := col.Update("id", proto.Clone(c.written), opts...)
		after, ok := col.Get("id")
		if !ok {
			after = nil
		}
		if err != nil && c.stored == nil && ok {
			t.Fatalf("Collection.Update failed (%v) but created the item\ncase: %v", err, c)
		}
		if e := checkOutcome(c, c.stored, after, ret, err, "Collection.Update"); e != nil {
			t.Fatalf("%v\ncase: %v", e, c)
		}
		if err == nil && c.stored != nil && !proto.Equal(after, c.stored) {
			changed = true
		}
	}
	// 4. a create that lets the collection choose the id and tells the caller through the id callback: the same frame
	//    applies to the new item (nothing was there before)
	if c.stored == nil {
		var ropts []resource.Option
		if c.writable != nil {
			ropts = append(ropts, resource.WithWritableFields(lib.CloneMask(c.writable)))
		}
		col := resource.NewCollection(ropts...)
		var gotID string
		opts := append(c.writeOpts(), resource.WithGenIDIfAbsent(), resource.WithIDCallback(func(id string) { gotID = id }))
		ret, err := col.Add("", proto.Clone(c.written), opts...)
		var after proto.Message
		if a, ok := col.Get(gotID); ok {
			after = a
		}
		if err != nil && len(col.List()) != 0 {
			t.Fatalf("Collection.Add with a generated id failed (%v) but created an item\ncase: %v", err, c)
		}
		if e := checkOutcome(c, nil, after, ret, err, "Collection.Add(generated id, id callback)"); e != nil {
			t.Fatalf("%v\ncase: %v", e, c)
		}
		lib.Ev.Class("create with a generated id")
	}
	lib.Ev.Case(c.nontrivialKey(changed), func() any { return c.String() })
}

// TestMaskedWrite is the main tuple property.
func TestMaskedWrite(t *testing.T) {
	rapid.Check(t, func(t *rapid.T) {
		runCase(t, genWriteCase(t))
	})
}

// TestWriteSequence performs several writes against ONE resource so that state leaking from one write's options
// into the next (e.g. a per-write extra-writable mask becoming permanent) is visible.
func TestWriteSequence(t *testing.T) {
	rapid.Check(t, func(t *rapid.T) {
		first := genWriteCase(t)
		if first.writable == nil {
			md := first.proto.ProtoReflect().Descriptor()
			first.writable, _ = drawValidMaskNoNilEmpty(t, "seqWritable", md, first.stored, first.written)
		}
		useColl := rapid.Bool().Draw(t, "collection")
		var ropts []resource.Option
		ropts = append(ropts, resource.WithWritableFields(lib.CloneMask(first.writable)))
		var val *resource.Value
		var col *resource.Collection
		if useColl {
			if first.stored != nil {
				ropts = append(ropts, resource.WithInitialRecord("id", proto.Clone(first.stored)))
			}
			col = resource.NewCollection(ropts...)
		} else {
			if first.stored != nil {
				ropts = append(ropts, resource.WithInitialValue(proto.Clone(first.stored)))
			}
			val = resource.NewValue(ropts...)
		}
		cur := first.stored
		n := rapid.IntRange(2, 5).Draw(t, "writes")
		sawMore := false
		for i := 0; i < n; i++ {
			c := first
			if i > 0 {
				c = genWriteCase(t)
				c.proto = first.proto
				if !proto.Equal(c.written.ProtoReflect().New().Interface(), first.proto.ProtoReflect().New().Interface()) ||
					c.written.ProtoReflect().Descriptor() != first.proto.ProtoReflect().Descriptor() {
					// different type drawn: regenerate the pieces against the right type
					md := first.proto.ProtoReflect().Descriptor()
					c.written = lib.GenMessage(t, "w", first.proto, lib.GenOpts{FieldProb: -1})
					var mk lib.MaskKind
					c.update, mk = lib.DrawMask(t, "u", md, cur, c.written)
					c.updateKind = "seq:" + string(mk)
					c.more = nil
					if rapid.Bool().Draw(t, "seqMore") {
						c.more, _ = drawValidMaskNoNilEmpty(t, "m", md, c.written)
					}
					c.reset, c.resetKind = nil, "nil"
				}
			}
			c.writable = first.writable
			c.stored = cur
			if c.more != nil {
				sawMore = true
			}
			var ret, after proto.Message
			var err error
			if useColl {
				opts := c.writeOpts()
				if cur == nil {
					opts = append(opts, resource.WithCreateIfAbsent())
				}
				ret, err = col.Update("id", proto.Clone(c.written), opts...)
				if a, ok := col.Get("id"); ok {
					after = a
				}
			} else {
				ret, err = val.Set(proto.Clone(c.written), c.writeOpts()...)
				after = val.Get()
			}
			entry := fmt.Sprintf("write#%d(collection=%v)", i, useColl)
			if e := checkOutcome(c, cur, after, ret, err, entry); e != nil {
				t.Fatalf("%v\ncase: %v", e, c)
			}
			if after != nil {
				cur = proto.Clone(after)
			}
		}
		nt := ""
		if sawMore {
			nt = fmt.Sprintf("seq:%v:%d:%s", first.String(), n, txt(cur))
		}
		lib.Ev.Case(nt, func() any { return fmt.Sprintf("sequence of %d writes on one resource, first: %s", n, first.String()) })
	})
}


// TestOptionMasksAreNotKept: the masks a caller passes as write options stay the caller's: they are not modified, and a
// later write that passes one of them again gets exactly what that mask says, whatever earlier writes combined it with.
func TestOptionMasksAreNotKept(t *testing.T) {
	rapid.Check(t, func(t *rapid.T) {
		first := genWriteCase(t)
		md := first.proto.ProtoReflect().Descriptor()
		if first.writable == nil {
			first.writable, _ = drawValidMaskNoNilEmpty(t, "resWritable", md, first.stored, first.written)
		}
		// the caller's reusable mask objects (with spare capacity, as masks built by append or Union have)
		pool := make([]*fieldmaskpb.FieldMask, 3)
		snap := make([]*fieldmaskpb.FieldMask, 3)
		for i := range pool {
			m, _ := drawValidMaskNoNilEmpty(t, fmt.Sprintf("pool%d", i), md, first.stored, first.written)
			pool[i] = lib.CloneMask(m)
			snap[i] = &fieldmaskpb.FieldMask{Paths: append([]string(nil), m.Paths...)}
		}
		useColl := rapid.Bool().Draw(t, "collection")
		ropts := []resource.Option{resource.WithWritableFields(lib.CloneMask(first.writable))}
		var val *resource.Value
		var col *resource.Collection
		if useColl {
			if first.stored != nil {
				ropts = append(ropts, resource.WithInitialRecord("id", proto.Clone(first.stored)))
			}
			col = resource.NewCollection(ropts...)
		} else {
			if first.stored != nil {
				ropts = append(ropts, resource.WithInitialValue(proto.Clone(first.stored)))
			}
			val = resource.NewValue(ropts...)
		}
		cur := first.stored
		n := rapid.IntRange(2, 5).Draw(t, "writes")
		multi, moreUpdate := false, false
		for i := 0; i < n; i++ {
			c := writeCase{proto: first.proto, stored: cur, writable: first.writable, updateKind: "pooled", resetKind: "nil"}
			c.written = lib.GenMessage(t, fmt.Sprintf("w%d", i), first.proto, lib.GenOpts{FieldProb: -1})
			var opts []resource.WriteOption
			var used []int
			for k := 0; k < rapid.IntRange(0, 3).Draw(t, "nmore"); k++ {
				j := rapid.IntRange(0, len(pool)-1).Draw(t, "more")
				used = append(used, j)
				opts = append(opts, resource.WithMoreWritableFields(pool[j])) // the caller's own object, not a copy
			}
			if len(used) >= 2 {
				multi = true
			}
			if len(used) > 0 {
				c.more = &fieldmaskpb.FieldMask{}
				for _, j := range used {
					c.more.Paths = append(c.more.Paths, snap[j].Paths...)
				}
			}
			if rapid.Bool().Draw(t, "withUpdateMask") {
				j := rapid.IntRange(0, len(pool)-1).Draw(t, "update")
				opts = append(opts, resource.WithUpdateMask(pool[j]))
				c.update = &fieldmaskpb.FieldMask{Paths: append([]string(nil), snap[j].Paths...)}
				if rapid.IntRange(0, 2).Draw(t, "withMoreUpdateMask") == 0 {
					// the way a model adds the fields it derives: the caller's mask object must not grow
					k := rapid.IntRange(0, len(pool)-1).Draw(t, "moreUpdate")
					opts = append(opts, resource.WithMoreUpdateMask(pool[k]))
					c.update.Paths = append(c.update.Paths, snap[k].Paths...)
					c.union = true
					moreUpdate = true
				}
			}
			var ret, after proto.Message
			var err error
			if useColl {
				if cur == nil {
					opts = append(opts, resource.WithCreateIfAbsent())
				}
				ret, err = col.Update("id", proto.Clone(c.written), opts...)
				if a, ok := col.Get("id"); ok {
					after = a
				}
			} else {
				ret, err = val.Set(proto.Clone(c.written), opts...)
				after = val.Get()
			}
			for j := range pool {
				if !proto.Equal(pool[j], snap[j]) {
					t.Fatalf("write#%d modified a mask the caller passed as an option: %s is now %s\ncase: %v", i, lib.MaskString(snap[j]), lib.MaskString(pool[j]), c)
				}
			}
			if e := checkOutcome(c, cur, after, ret, err, fmt.Sprintf("write#%d(collection=%v, pooled masks %v)", i, useColl, used)); e != nil {
				t.Fatalf("%v\ncase: %v", e, c)
			}
			if after != nil {
				cur = proto.Clone(after)
			}
		}
		nt := ""
		if moreUpdate {
			lib.Ev.Class("pooled:a pooled mask also passed as WithMoreUpdateMask")
		}
		if multi || moreUpdate {
			nt = fmt.Sprintf("pooled:%v:%d:%s", first.String(), n, txt(cur))
		}
		lib.Ev.Case(nt, func() any { return fmt.Sprintf("%d writes passing the caller's own mask objects again and again, first: %s", n, first.String()) })
	})
}
