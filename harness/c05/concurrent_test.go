package c05

import (
	"fmt"
	"runtime"
	"sync"
	"sync/atomic"
	"testing"

	"google.golang.org/protobuf/proto"
	"pgregory.net/rapid"

	"github.com/smart-core-os/sc-golang/internal/testproto"
	"github.com/smart-core-os/sc-golang/pkg/resource"
	"github.com/smart-core-os/sc-golang/verifh/lib"
)

// TestDisjointMaskWriters: the frame condition under concurrent writers. Each writer owns one field and writes it with
// an update mask naming only that field; the writers of a round meet inside their before-interceptor (the library calls
// it with no lock held, between reading the stored value and writing), so they all act on the same stored version and
// reach the store's write step together. Whatever subset of them reports success, a successful write with mask {f}
// leaves every field outside {f} as it was - in particular it cannot bring back the old value of a field that another
// successful write of the same round has just set. So after the round, every field owned by a successful writer holds
// that writer's value and every other field holds what it held before.
func TestDisjointMaskWriters(t *testing.T) {
	fields := []string{"default_int32", "default_int64", "default_uint32", "default_sint32", "default_sfixed32", "default_sfixed64"}
	set := func(m *testproto.TestAllTypes, f string, v int64) {
		switch f {
		case "default_int32":
			m.DefaultInt32 = int32(v)
		case "default_int64":
			m.DefaultInt64 = v
		case "default_uint32":
			m.DefaultUint32 = uint32(v)
		case "default_sint32":
			m.DefaultSint32 = int32(v)
		case "default_sfixed32":
			m.DefaultSfixed32 = int32(v)
		case "default_sfixed64":
			m.DefaultSfixed64 = v
		}
	}
	get := func(m *testproto.TestAllTypes, f string) int64 {
		switch f {
		case "default_int32":
			return int64(m.DefaultInt32)
		case "default_int64":
			return m.DefaultInt64
		case "default_uint32":
			return int64(m.DefaultUint32)
		case "default_sint32":
			return int64(m.DefaultSint32)
		case "default_sfixed32":
			return int64(m.DefaultSfixed32)
		case "default_sfixed64":
			return m.DefaultSfixed64
		}
		return -1
	}
	rapid.Check(t, func(t *rapid.T) {
		isValue := rapid.Bool().Draw(t, "isValue")
		nw := rapid.IntRange(2, len(fields)).Draw(t, "writers")
		rounds := rapid.IntRange(5, 60).Draw(t, "rounds")
		rendezvous := rapid.IntRange(0, 3).Draw(t, "rendezvous") != 0
		initial := &testproto.TestAllTypes{DefaultString: "kept", DefaultBool: true}
		var val *resource.Value
		var col *resource.Collection
		if isValue {
			val = resource.NewValue(resource.WithInitialValue(initial))
		} else {
			col = resource.NewCollection(resource.WithInitialRecord("x", initial))
		}
		read := func() *testproto.TestAllTypes {
			if isValue {
				return val.Get().(*testproto.TestAllTypes)
			}
			m, _ := col.Get("x")
			return m.(*testproto.TestAllTypes)
		}
		multi := 0
		for r := 1; r <= rounds; r++ {
			before := proto.Clone(read()).(*testproto.TestAllTypes)
			var arrived atomic.Int32
			ok := make([]bool, nw)
			var wg sync.WaitGroup
			for w := 0; w < nw; w++ {
				w := w
				wg.Add(1)
				go func() {
					defer wg.Done()
					m := &testproto.TestAllTypes{DefaultString: "must not be written"}
					set(m, fields[w], int64(r*100+w))
					opts := []resource.WriteOption{resource.WithUpdatePaths(fields[w])}
					if rendezvous {
						opts = append(opts, resource.InterceptBefore(func(old, change proto.Message) {
							arrived.Add(1)
							for spins := 0; int(arrived.Load()) < nw && spins < 20000; spins++ {
								if spins%64 == 63 {
									runtime.Gosched()
								}
							}
						}))
					}
					var err error
					if isValue {
						_, err = val.Set(m, opts...)
					} else {
						_, err = col.Update("x", m, opts...)
					}
					ok[w] = err == nil
				}()
			}
			wg.Wait()
			after := read()
			nok := 0
			for w := 0; w < nw; w++ {
				want := get(before, fields[w])
				if ok[w] {
					want = int64(r*100 + w)
					nok++
				}
				if got := get(after, fields[w]); got != want {
					t.Fatalf("round %d (isValue=%v, %d writers with disjoint single-field masks, rendezvous=%v): %s is %d, want %d (its writer reported success=%v; successes this round: %v): a write changed a field outside its update mask",
						r, isValue, nw, rendezvous, fields[w], got, want, ok[w], ok)
				}
			}
			if after.DefaultString != "kept" || !after.DefaultBool {
				t.Fatalf("round %d: fields outside every mask changed: %s", r, txt(after))
			}
			if nok >= 2 {
				multi++
			}
		}
		if multi > 0 {
			lib.Ev.Class("disjoint-mask writers: >=2 writers of one round succeeded")
		}
		lib.Ev.Case(fmt.Sprintf("disjoint|%v|%d|%d|%v|%d", isValue, nw, rounds, rendezvous, multi), func() any {
			return fmt.Sprintf("isValue=%v %d writers x %d rounds rendezvous=%v: %d rounds with >=2 successful writers", isValue, nw, rounds, rendezvous, multi)
		})
	})
}
