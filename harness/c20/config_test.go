package c20

import (
	"github.com/smart-core-os/sc-golang/pkg/trait/vendingpb"
	"fmt"
	"sort"
	"strings"
	"testing"

	"google.golang.org/protobuf/proto"
	"pgregory.net/rapid"

	"github.com/smart-core-os/sc-api/go/traits"

	"github.com/smart-core-os/sc-golang/pkg/resource"
	"github.com/smart-core-os/sc-golang/pkg/trait/airqualitysensorpb"
	"github.com/smart-core-os/sc-golang/pkg/trait/airtemperaturepb"
	"github.com/smart-core-os/sc-golang/pkg/trait/bookingpb"
	"github.com/smart-core-os/sc-golang/pkg/trait/electricpb"
	"github.com/smart-core-os/sc-golang/pkg/trait/energystoragepb"
	"github.com/smart-core-os/sc-golang/pkg/trait/enterleavesensorpb"
	"github.com/smart-core-os/sc-golang/pkg/trait/lightpb"
	"github.com/smart-core-os/sc-golang/pkg/trait/occupancysensorpb"
	"github.com/smart-core-os/sc-golang/pkg/trait/onoffpb"
	"github.com/smart-core-os/sc-golang/pkg/trait/openclosepb"
	"github.com/smart-core-os/sc-golang/pkg/trait/parentpb"
	"github.com/smart-core-os/sc-golang/pkg/trait/publicationpb"
	"github.com/smart-core-os/sc-golang/verifh/lib"
)

var cgen = lib.GenOpts{FieldProb: -1, Target: 3, MaxDepth: 2, MaxElems: 2}

// cfgNote collects what was drawn for the current case (evidence key / sample); rapid runs cases one at a time.
var cfgNote []string

func gen[T proto.Message](t *rapid.T, label string, prototype T) T {
	m := lib.GenMessage(t, label, prototype, cgen).(T)
	cfgNote = append(cfgNote, fmt.Sprintf("%s=%v", m.ProtoReflect().Descriptor().Name(), m))
	return m
}

// distinctIDs draws 0..max distinct non-empty ids (some differing only in case or by a suffix).
func distinctIDs(t *rapid.T, label string, max int) []string {
	pool := []string{"a", "b", "A", "ab", "a1", "z", "m/1", "é"}
	n := rapid.IntRange(0, max).Draw(t, label+".n")
	seen := map[string]bool{}
	var out []string
	for len(out) < n {
		id := rapid.SampledFrom(pool).Draw(t, label)
		if !seen[id] {
			seen[id] = true
			out = append(out, id)
		}
	}
	cfgNote = append(cfgNote, fmt.Sprintf("%s=%q", label, out))
	return out
}

func sameList[T proto.Message](what string, got, want []T) error {
	if len(got) != len(want) {
		return fmt.Errorf("%s: model lists %d items, it was configured with %d: got %v want %v", what, len(got), len(want), got, want)
	}
	for i := range want {
		if !proto.Equal(got[i], want[i]) {
			return fmt.Errorf("%s: item %d is %v, configured %v", what, i, got[i], want[i])
		}
	}
	return nil
}

// noise surrounds a model's own options with a few plain resource options that change nothing (a clock, a source of
// randomness, an empty option), in a drawn arrangement: a deployment configures those model-wide, and however many there
// are the model-specific configuration must still be used. The list is built with append, as callers build it.
func noise(t *rapid.T, opts ...resource.Option) []resource.Option {
	harmless := func(i int) resource.Option {
		switch i % 3 {
		case 0:
			return resource.WithClock(resource.WallClock())
		case 1:
			return resource.WithRNG(strings.NewReader(strings.Repeat("0123456789abcdef", 64)))
		}
		return resource.EmptyOption{}
	}
	n := rapid.IntRange(0, 8).Draw(t, "plainOptions")
	front := rapid.IntRange(0, n).Draw(t, "plainOptionsFirst")
	var out []resource.Option
	for i := 0; i < front; i++ {
		out = append(out, harmless(i))
	}
	for _, o := range opts {
		out = append(out, o)
	}
	for i := front; i < n; i++ {
		out = append(out, harmless(i))
	}
	if n > 0 {
		lib.Ev.Class("model configured with its own options among plain resource options")
	}
	return out
}

// configCases: one model family each; build a model from drawn explicit configuration and compare what it reports.
var configCases = map[string]func(t *rapid.T) error{
	"initial value (single-value models)": func(t *rapid.T) error {
		switch rapid.IntRange(0, 8).Draw(t, "model") {
		case 0:
			v := gen(t, "v", &traits.AirQuality{})
			got, err := airqualitysensorpb.NewModel(noise(t, airqualitysensorpb.WithInitialAirQuality(proto.Clone(v).(*traits.AirQuality)))...).GetAirQuality()
			if err != nil || !proto.Equal(got, v) {
				return fmt.Errorf("airquality: configured %v, GetAirQuality = %v, %v", v, got, err)
			}
		case 1:
			v := gen(t, "v", &traits.AirTemperature{})
			got, err := airtemperaturepb.NewModel(noise(t, airtemperaturepb.WithInitialAirTemperature(proto.Clone(v).(*traits.AirTemperature)))...).GetAirTemperature()
			if err != nil || !proto.Equal(got, v) {
				return fmt.Errorf("airtemperature: configured %v, GetAirTemperature = %v, %v", v, got, err)
			}
		case 2:
			v := gen(t, "v", &traits.EnergyLevel{})
			got, err := energystoragepb.NewModel(noise(t, energystoragepb.WithInitialEnergyLevel(proto.Clone(v).(*traits.EnergyLevel)))...).GetEnergyLevel()
			if err != nil || !proto.Equal(got, v) {
				return fmt.Errorf("energystorage: configured %v, GetEnergyLevel = %v, %v", v, got, err)
			}
		case 3:
			v := gen(t, "v", &traits.EnterLeaveEvent{})
			got, err := enterleavesensorpb.NewModel(noise(t, enterleavesensorpb.WithInitialEnterLeaveEvent(proto.Clone(v).(*traits.EnterLeaveEvent)))...).GetEnterLeaveEvent()
			if err != nil || !proto.Equal(got, v) {
				return fmt.Errorf("enterleave: configured %v, GetEnterLeaveEvent = %v, %v", v, got, err)
			}
		case 4:
			v := gen(t, "v", &traits.Occupancy{})
			got, err := occupancysensorpb.NewModel(noise(t, occupancysensorpb.WithInitialOccupancy(proto.Clone(v).(*traits.Occupancy)))...).GetOccupancy()
			if err != nil || !proto.Equal(got, v) {
				return fmt.Errorf("occupancy: configured %v, GetOccupancy = %v, %v", v, got, err)
			}
		case 5:
			v := gen(t, "v", &traits.OnOff{})
			got, err := onoffpb.NewModel(noise(t, onoffpb.WithInitialOnOff(proto.Clone(v).(*traits.OnOff)))...).GetOnOff()
			if err != nil || !proto.Equal(got, v) {
				return fmt.Errorf("onoff: configured %v, GetOnOff = %v, %v", v, got, err)
			}
		case 6:
			v := gen(t, "v", &traits.Brightness{})
			got, err := lightpb.NewModel(noise(t, lightpb.WithInitialBrightness(proto.Clone(v).(*traits.Brightness)))...).GetBrightness()
			if err != nil || !proto.Equal(got, v) {
				return fmt.Errorf("light: configured %v, GetBrightness = %v, %v", v, got, err)
			}
		case 7:
			v := gen(t, "v", &traits.ElectricDemand{})
			if got := electricpb.NewModel(noise(t, electricpb.WithInitialDemand(proto.Clone(v).(*traits.ElectricDemand)))...).Demand(); !proto.Equal(got, v) {
				return fmt.Errorf("electric: configured demand %v, Demand() = %v", v, got)
			}
		case 8:
			v := gen(t, "v", &traits.ElectricMode{})
			if got := electricpb.NewModel(noise(t, electricpb.WithInitialActiveMode(proto.Clone(v).(*traits.ElectricMode)))...).ActiveMode(); !proto.Equal(got, v) {
				return fmt.Errorf("electric: configured active mode %v, ActiveMode() = %v", v, got)
			}
		}
		return nil
	},
	"initial stock and consumables (vending)": func(t *rapid.T) error {
		names := distinctIDs(t, "consumable", 4)
		sorted := append([]string(nil), names...)
		sort.Strings(sorted)
		byName := map[string]*traits.Consumable{}
		stockByName := map[string]*traits.Consumable_Stock{}
		var cons []*traits.Consumable
		var stocks []*traits.Consumable_Stock
		for _, n := range names {
			c := &traits.Consumable{Name: n, DisplayName: "the " + n}
			st := &traits.Consumable_Stock{Consumable: n, Remaining: &traits.Consumable_Quantity{Amount: float32(rapid.IntRange(0, 50).Draw(t, "remaining")), Unit: traits.Consumable_LITER},
				Used: &traits.Consumable_Quantity{Unit: traits.Consumable_LITER}}
			byName[n], stockByName[n] = c, st
			cons = append(cons, proto.Clone(c).(*traits.Consumable))
			stocks = append(stocks, proto.Clone(st).(*traits.Consumable_Stock))
		}
		var opts []resource.Option
		if rapid.Bool().Draw(t, "stockFirst") {
			opts = append(opts, vendingpb.WithInitialStock(stocks...), vendingpb.WithInitialConsumable(cons...))
		} else {
			opts = append(opts, vendingpb.WithInitialConsumable(cons...), vendingpb.WithInitialStock(stocks...))
		}
		m := vendingpb.NewModel(noise(t, opts...)...)
		var wantC []*traits.Consumable
		var wantS []*traits.Consumable_Stock
		for _, n := range sorted {
			wantC = append(wantC, byName[n])
			wantS = append(wantS, stockByName[n])
			if got, ok := m.GetStock(n); !ok || !proto.Equal(got, stockByName[n]) {
				return fmt.Errorf("vending stock %q: configured %v, GetStock = %v, %v", n, stockByName[n], got, ok)
			}
		}
		if err := sameList("vending consumables", m.ListConsumables(), wantC); err != nil {
			return err
		}
		return sameList("vending inventory", m.ListInventory(), wantS)
	},
	"initial records (parent, publication, booking, electric modes)": func(t *rapid.T) error {
		ids := distinctIDs(t, "id", 5)
		sorted := append([]string(nil), ids...)
		sort.Strings(sorted)
		// records are handed over in the drawn order, possibly split over several uses of the option ("additive")
		split := rapid.IntRange(0, len(ids)).Draw(t, "split")
		switch rapid.IntRange(0, 3).Draw(t, "model") {
		case 0:
			byID := map[string]*traits.Child{}
			var all []*traits.Child
			for _, id := range ids {
				c := &traits.Child{Name: id}
				for _, tn := range drawNames(t, "traits", 3) { // sorted, duplicate free as the option demands
					c.Traits = append(c.Traits, &traits.Trait{Name: tn})
				}
				byID[id] = c
				all = append(all, proto.Clone(c).(*traits.Child))
			}
			m := parentpb.NewModel(noise(t, parentpb.WithInitialChildren(all[:split]...), parentpb.WithInitialChildren(all[split:]...))...)
			var want []*traits.Child
			for _, id := range sorted {
				want = append(want, byID[id])
			}
			return sameList("parent children", m.ListChildren(), want)
		case 1:
			byID := map[string]*traits.Publication{}
			var all []*traits.Publication
			for _, id := range ids {
				p := gen(t, "pub", &traits.Publication{})
				p.Id = id
				byID[id] = p
				all = append(all, proto.Clone(p).(*traits.Publication))
			}
			m := publicationpb.NewModel(noise(t, publicationpb.WithInitialPublication(all[:split]...), publicationpb.WithInitialPublication(all[split:]...))...)
			var want []*traits.Publication
			for _, id := range sorted {
				want = append(want, byID[id])
				if got, ok := m.GetPublication(id); !ok || !proto.Equal(got, byID[id]) {
					return fmt.Errorf("publication %q: configured %v, GetPublication = %v, %v", id, byID[id], got, ok)
				}
			}
			return sameList("publications", m.ListPublications(), want)
		case 2:
			byID := map[string]*traits.Booking{}
			var all []*traits.Booking
			for _, id := range ids {
				b := gen(t, "booking", &traits.Booking{})
				b.Id = id
				byID[id] = b
				all = append(all, proto.Clone(b).(*traits.Booking))
			}
			m := bookingpb.NewModel(noise(t, bookingpb.WithInitialBooking(all[:split]...), bookingpb.WithInitialBooking(all[split:]...))...)
			var want []*traits.Booking
			for _, id := range sorted {
				want = append(want, byID[id])
			}
			return sameList("bookings", m.ListBookings(), want)
		default:
			byID := map[string]*traits.ElectricMode{}
			var all []*traits.ElectricMode
			normal := ""
			for i, id := range ids {
				md := gen(t, "mode", &traits.ElectricMode{})
				md.Id = id
				md.Normal = i == 0 // at most one normal mode
				if md.Normal {
					normal = id
				}
				byID[id] = md
				all = append(all, proto.Clone(md).(*traits.ElectricMode))
			}
			m := electricpb.NewModel(noise(t, electricpb.WithInitialMode(all[:split]...), electricpb.WithInitialMode(all[split:]...))...)
			var want []*traits.ElectricMode
			for _, id := range sorted {
				want = append(want, byID[id])
				if got, ok := m.FindMode(id); !ok || !proto.Equal(got, byID[id]) {
					return fmt.Errorf("electric mode %q: configured %v, FindMode = %v, %v", id, byID[id], got, ok)
				}
			}
			if err := sameList("electric modes", m.Modes(), want); err != nil {
				return err
			}
			if got, ok := m.NormalMode(); (normal != "") != ok || (ok && got.Id != normal) {
				return fmt.Errorf("electric: configured normal mode %q, NormalMode() = %v, %v", normal, got, ok)
			}
			if normal != "" {
				if got, err := m.ChangeToNormalMode(); err != nil || got.GetId() != normal {
					return fmt.Errorf("electric: ChangeToNormalMode with configured normal mode %q = %v, %v", normal, got, err)
				}
			}
			return nil
		}
	},
	"light presets": func(t *rapid.T) error {
		names := distinctIDs(t, "preset", 4)
		levels := map[string]float32{}
		var opts []resource.Option
		var want []*traits.LightPreset
		for _, n := range names {
			levels[n] = float32(rapid.IntRange(0, 100).Draw(t, "level"))
			p := &traits.LightPreset{Name: n, Title: "title of " + n}
			want = append(want, p)
			opts = append(opts, lightpb.WithPreset(levels[n], proto.Clone(p).(*traits.LightPreset)))
		}
		m := lightpb.NewModel(noise(t, opts...)...)
		if err := sameList("light presets", m.ListPresets(), want); err != nil {
			return err
		}
		for _, n := range names {
			got, err := m.UpdateBrightness(&traits.Brightness{Preset: &traits.LightPreset{Name: n}})
			if err != nil {
				return fmt.Errorf("light: selecting configured preset %q failed: %v", n, err)
			}
			if got.LevelPercent != levels[n] || got.GetPreset().GetName() != n || got.GetPreset().GetTitle() != "title of "+n {
				return fmt.Errorf("light: selecting preset %q (configured level %v) gave %v", n, levels[n], got)
			}
			if cur, _ := m.GetBrightness(); !proto.Equal(cur, got) {
				return fmt.Errorf("light: after selecting preset %q GetBrightness = %v, the update returned %v", n, cur, got)
			}
		}
		return nil
	},
	"open/close presets and initial positions": func(t *rapid.T) error {
		dirs := []traits.OpenClosePosition_Direction{traits.OpenClosePosition_UP, traits.OpenClosePosition_DOWN, traits.OpenClosePosition_LEFT, traits.OpenClosePosition_IN}
		drawPositions := func(label string) []*traits.OpenClosePosition {
			var ps []*traits.OpenClosePosition
			for _, d := range dirs {
				if rapid.Bool().Draw(t, label+".has") {
					ps = append(ps, &traits.OpenClosePosition{Direction: d, OpenPercent: float32(rapid.IntRange(0, 100).Draw(t, label+".pct"))})
				}
			}
			return ps // in direction order
		}
		clone := func(ps []*traits.OpenClosePosition, reverse bool) []*traits.OpenClosePosition {
			out := make([]*traits.OpenClosePosition, len(ps))
			for i, p := range ps {
				j := i
				if reverse {
					j = len(ps) - 1 - i
				}
				out[j] = proto.Clone(p).(*traits.OpenClosePosition)
			}
			return out
		}
		names := distinctIDs(t, "preset", 3)
		presetPos := map[string][]*traits.OpenClosePosition{}
		var opts []resource.Option
		var wantPresets []*traits.OpenClosePositions_Preset
		for _, n := range names {
			presetPos[n] = drawPositions("pp")
			d := &traits.OpenClosePositions_Preset{Name: n, Title: "title of " + n}
			wantPresets = append(wantPresets, d)
			opts = append(opts, openclosepb.WithPreset(proto.Clone(d).(*traits.OpenClosePositions_Preset), clone(presetPos[n], rapid.Bool().Draw(t, "reversed"))...))
		}
		initial := drawPositions("init")
		opts = append(opts, openclosepb.WithInitialPositions(clone(initial, false)...))
		m := openclosepb.NewModel(noise(t, opts...)...)
		if err := sameList("open/close presets", m.ListPresets(), wantPresets); err != nil {
			return err
		}
		got, err := m.GetPositions()
		if err != nil {
			return fmt.Errorf("open/close: GetPositions: %v", err)
		}
		if err := sameList("open/close initial positions", got.States, initial); err != nil {
			return err
		}
		for _, n := range names {
			if !m.HasPreset(n) {
				return fmt.Errorf("open/close: HasPreset(%q) = false for a configured preset", n)
			}
			if len(presetPos[n]) == 0 {
				continue // a preset without positions changes nothing
			}
			res, err := m.UpdatePositions(&traits.OpenClosePositions{Preset: &traits.OpenClosePositions_Preset{Name: n}})
			if err != nil {
				return fmt.Errorf("open/close: selecting configured preset %q failed: %v", n, err)
			}
			for _, want := range presetPos[n] {
				cur, err := m.GetPosition(want.Direction)
				if err != nil || !proto.Equal(cur, want) {
					return fmt.Errorf("open/close: after selecting preset %q position %v is %v (%v), the preset says %v", n, want.Direction, cur, err, want)
				}
			}
			after, _ := m.GetPositions()
			if !proto.Equal(res, after) {
				return fmt.Errorf("open/close: selecting preset %q returned %v, GetPositions gives %v", n, res, after)
			}
		}
		if m.HasPreset("no-such-preset") {
			return fmt.Errorf("open/close: HasPreset reports a preset that was never configured")
		}
		return nil
	},
}

func drawNames(t *rapid.T, label string, max int) []string {
	pool := []string{"smartcore.traits.Light", "smartcore.traits.OnOff", "smartcore.traits.Metadata", "smartcore.traits.FanSpeed"}
	picked := map[string]bool{}
	for i := 0; i < rapid.IntRange(0, max).Draw(t, label+".n"); i++ {
		picked[rapid.SampledFrom(pool).Draw(t, label)] = true
	}
	var out []string
	for n := range picked {
		out = append(out, n)
	}
	sort.Strings(out)
	return out
}

// TestExplicitConfiguration: models constructed with explicit configuration (initial values, initial records, presets)
// use it, and report it back unchanged.
func TestExplicitConfiguration(t *testing.T) {
	var names []string
	for n := range configCases {
		names = append(names, n)
	}
	sort.Strings(names)
	rapid.Check(t, func(t *rapid.T) {
		name := rapid.SampledFrom(names).Draw(t, "family")
		cfgNote = nil
		var err error
		if perr := noPanic("constructing and reading "+name, func() { err = configCases[name](t) }); perr != nil {
			t.Fatalf("%v", perr)
		}
		if err != nil {
			t.Fatalf("%v", err)
		}
		lib.Ev.Class("config:" + name)
		desc := fmt.Sprintf("explicit configuration, %s: %s", name, strings.Join(cfgNote, " "))
		nt := ""
		if len(desc) > len(name)+40 { // something beyond an empty configuration was drawn
			nt = desc
		}
		lib.Ev.Case(nt, func() any { return desc })
	})
}
