package c20

import (
	"sync"
	"strconv"
	"bytes"
	"context"
	"fmt"
	"math"
	"sort"
	"strings"
	"sync/atomic"
	"testing"
	"time"

	"google.golang.org/grpc/codes"
	"google.golang.org/grpc/status"
	"google.golang.org/protobuf/proto"
	"google.golang.org/protobuf/types/known/fieldmaskpb"
	"pgregory.net/rapid"

	"github.com/smart-core-os/sc-api/go/traits"

	"github.com/smart-core-os/sc-golang/pkg/resource"
	"github.com/smart-core-os/sc-golang/pkg/trait"
	"github.com/smart-core-os/sc-golang/pkg/trait/enterleavesensorpb"
	"github.com/smart-core-os/sc-golang/pkg/trait/fanspeedpb"
	"github.com/smart-core-os/sc-golang/pkg/trait/meterpb"
	"github.com/smart-core-os/sc-golang/pkg/trait/modepb"
	"github.com/smart-core-os/sc-golang/pkg/trait/parentpb"
	"github.com/smart-core-os/sc-golang/pkg/trait/publicationpb"
	"github.com/smart-core-os/sc-golang/pkg/trait/vendingpb"
	"github.com/smart-core-os/sc-golang/pkg/trait/vendingpb/unitpb"
	"github.com/smart-core-os/sc-golang/verifh/lib"
)

var ctx = context.Background()

// noPanic runs f and converts a panic into an error: none of these operations may panic on a well formed request.
func noPanic(what string, f func()) (err error) {
	defer func() {
		if r := recover(); r != nil {
			lib.RethrowRapid(r) // draws happen inside f
			err = fmt.Errorf("%s panicked: %v", what, r)
		}
	}()
	f()
	return nil
}

type tickClock struct{ n atomic.Int64 }

var epoch = time.Date(2023, 3, 3, 3, 3, 3, 0, time.UTC)

func (c *tickClock) Now() time.Time { return epoch.Add(time.Duration(c.n.Add(1)) * time.Second) }
func (c *tickClock) peek() int64    { return c.n.Load() }
func tickOf(t time.Time) int64      { return int64(t.Sub(epoch) / time.Second) }

// ---- parent: child trait lists are sorted duplicate-free set union / difference ------------------------------------

var traitPool = []trait.Name{trait.AirQualitySensor, trait.Electric, trait.FanSpeed, trait.Light, trait.Metadata, trait.OnOff}

// widePool: what a gateway announces in one go after discovering a device: two or three dozen names, some of them more than once
var widePool = []trait.Name{trait.Access, trait.AirQualitySensor, trait.AirTemperature, trait.Booking, trait.BrightnessSensor, trait.Channel, trait.Color, trait.Count, trait.Electric,
	trait.Emergency, trait.EnergyStorage, trait.EnterLeaveSensor, trait.ExtendRetract, trait.FanSpeed, trait.Hail, trait.InputSelect, trait.Light, trait.LockUnlock, trait.Metadata,
	trait.Meter, trait.Microphone, trait.Mode, trait.MotionSensor, trait.OccupancySensor, trait.OnOff, trait.OpenClose, trait.Parent, trait.Press, trait.Publication, trait.Ptz,
	trait.Speaker, trait.Temperature, trait.Vending, trait.Waste}

func TestParentTraits(t *testing.T) {
	rapid.Check(t, func(t *rapid.T) {
		m := parentpb.NewModel()
		spec := map[string]map[string]bool{} // child -> set of trait names
		children := []string{"c1", "c2"}
		var hist []string
		sharp := false
		n := rapid.IntRange(1, 20).Draw(t, "steps")
		for i := 0; i < n; i++ {
			child := rapid.SampledFrom(children).Draw(t, "child")
			k := rapid.IntRange(0, 4).Draw(t, "k")
			pool := traitPool
			if rapid.IntRange(0, 3).Draw(t, "batch") == 0 {
				k = rapid.IntRange(5, 48).Draw(t, "kBatch")
				pool = widePool
				if rapid.Bool().Draw(t, "narrowBatch") {
					pool = widePool[:12] // repeats within the batch are then the rule
				}
				lib.Ev.Class("parent: one call with 5-48 names")
			}
			names := make([]trait.Name, k)
			for j := range names {
				names[j] = rapid.SampledFrom(pool).Draw(t, "trait")
			}
			add := rapid.IntRange(0, 2).Draw(t, "add") > 0
			var got *traits.Child
			var created bool
			_, existed := spec[child]
			if add {
				hist = append(hist, fmt.Sprintf("add(%s,%v)", child, names))
				if err := noPanic("AddChildTrait", func() { got, created = m.AddChildTrait(child, names...) }); err != nil {
					t.Fatalf("%v\nhistory: %s", err, strings.Join(hist, " "))
				}
				if created == existed {
					t.Fatalf("AddChildTrait(%s) created=%v but the child existed=%v\nhistory: %s", child, created, existed, strings.Join(hist, " "))
				}
				if spec[child] == nil {
					spec[child] = map[string]bool{}
				}
				for _, nm := range names {
					spec[child][string(nm)] = true
				}
			} else {
				hist = append(hist, fmt.Sprintf("remove(%s,%v)", child, names))
				if err := noPanic("RemoveChildTrait", func() { got = m.RemoveChildTrait(child, names...) }); err != nil {
					t.Fatalf("%v\nhistory: %s", err, strings.Join(hist, " "))
				}
				if !existed {
					if got != nil {
						t.Fatalf("RemoveChildTrait on unknown child returned %v", got)
					}
					continue
				}
				for _, nm := range names {
					if !spec[child][string(nm)] {
						// removing an absent name: sharp when it sorts before a present one
						for present := range spec[child] {
							if string(nm) < present {
								sharp = true
							}
						}
					}
					delete(spec[child], string(nm))
				}
			}
			want := sortedKeys(spec[child])
			var have []string
			for _, tr := range got.GetTraits() {
				have = append(have, tr.Name)
			}
			if fmt.Sprint(have) != fmt.Sprint(want) {
				t.Fatalf("child %s traits are %v, set algebra says %v\nhistory: %s", child, have, want, strings.Join(hist, " "))
			}
			// ListChildren agrees
			for _, c := range m.ListChildren() {
				var l []string
				for _, tr := range c.Traits {
					l = append(l, tr.Name)
				}
				if w := sortedKeys(spec[c.Name]); fmt.Sprint(l) != fmt.Sprint(w) {
					t.Fatalf("ListChildren: child %s traits %v, want %v\nhistory: %s", c.Name, l, w, strings.Join(hist, " "))
				}
			}
		}
		nt := ""
		if sharp {
			nt = "parent|" + strings.Join(hist, " ")
		}
		lib.Ev.Class("model:parent")
		lib.Ev.Case(nt, func() any { return "parent " + strings.Join(hist, " ") })
	})
}

func sortedKeys(m map[string]bool) []string {
	var out []string
	for k := range m {
		out = append(out, k)
	}
	sort.Strings(out)
	return out
}

// ---- vending ---------------------------------------------------------------------------------------------------------

var volumeUnits = []traits.Consumable_Unit{traits.Consumable_LITER, traits.Consumable_CUBIC_METER, traits.Consumable_CUP}
var otherUnits = []traits.Consumable_Unit{traits.Consumable_METER, traits.Consumable_KILOGRAM, traits.Consumable_NO_UNIT, traits.Consumable_UNIT_UNSPECIFIED, traits.Consumable_UNIT_UNSPECIFIED}

func drawUnit(t *rapid.T, label string) traits.Consumable_Unit {
	if rapid.IntRange(0, 4).Draw(t, label+".other") == 0 {
		return rapid.SampledFrom(otherUnits).Draw(t, label)
	}
	return rapid.SampledFrom(volumeUnits).Draw(t, label)
}

func approx(a, b float64) bool {
	d := math.Abs(a - b)
	return d <= 1e-4*math.Max(math.Abs(a), math.Abs(b)) || d <= 1e-6
}

func TestVendingDispense(t *testing.T) {
	rapid.Check(t, func(t *rapid.T) {
		stock := &traits.Consumable_Stock{Consumable: "cola"}
		hasUsed := rapid.Bool().Draw(t, "hasUsed")
		hasRemaining := rapid.Bool().Draw(t, "hasRemaining")
		if hasUsed {
			stock.Used = &traits.Consumable_Quantity{Amount: float32(rapid.IntRange(0, 50).Draw(t, "used")), Unit: drawUnit(t, "usedUnit")}
		}
		if hasRemaining {
			stock.Remaining = &traits.Consumable_Quantity{Amount: float32(rapid.IntRange(0, 50).Draw(t, "remaining")), Unit: drawUnit(t, "remainingUnit")}
			if rapid.IntRange(0, 5).Draw(t, "bigStock") == 3 {
				stock.Remaining.Amount = 1 << 20 // a tank, not a shelf: amounts of very different size meet in one subtraction
			}
		}
		var m *vendingpb.Model
		if rapid.Bool().Draw(t, "viaOption") {
			m = vendingpb.NewModel(vendingpb.WithInitialStock(proto.Clone(stock).(*traits.Consumable_Stock)))
		} else {
			m = vendingpb.NewModel()
			if _, err := m.CreateStock(proto.Clone(stock).(*traits.Consumable_Stock)); err != nil {
				t.Fatalf("CreateStock: %v", err)
			}
		}
		cur := proto.Clone(stock).(*traits.Consumable_Stock)
		n := rapid.IntRange(1, 5).Draw(t, "dispenses")
		var hist []string
		for i := 0; i < n; i++ {
			q := &traits.Consumable_Quantity{Amount: float32(rapid.IntRange(0, 30).Draw(t, "qty")), Unit: drawUnit(t, "qtyUnit")}
			if cur.Remaining != nil && cur.Remaining.Amount >= 1000 && rapid.Bool().Draw(t, "nearlyEverything") {
				// all but half a unit (exact in float32): what is left is little, and it is left
				q = &traits.Consumable_Quantity{Amount: cur.Remaining.Amount - 0.5, Unit: cur.Remaining.Unit}
				lib.Ev.Class("vending: nearly everything of a large stock dispensed")
			}
			hist = append(hist, fmt.Sprintf("dispense(%v %v)", q.Amount, q.Unit))
			var res *traits.Consumable_Stock
			var err error
			if perr := noPanic("DispenseInstantly", func() { res, err = m.DispenseInstantly("cola", proto.Clone(q).(*traits.Consumable_Quantity)) }); perr != nil {
				t.Fatalf("%v\nstock: %v\nhistory: %s", perr, stock, strings.Join(hist, " "))
			}
			// can the quantity be converted to both units that are present?
			convertible := true
			var dUsed, dRem float64
			if cur.Used != nil {
				d, e := unitpb.Convert(float64(q.Amount), q.Unit, cur.Used.Unit)
				convertible = convertible && e == nil
				dUsed = d
			}
			if cur.Remaining != nil {
				d, e := unitpb.Convert(float64(q.Amount), q.Unit, cur.Remaining.Unit)
				convertible = convertible && e == nil
				dRem = d
			}
			got, ok := m.GetStock("cola")
			if !ok {
				t.Fatalf("stock disappeared\nhistory: %s", strings.Join(hist, " "))
			}
			if !convertible {
				if err == nil {
					t.Fatalf("dispensing %v %v from stock %v: the unit cannot be converted but no error was reported (res=%v)\nhistory: %s", q.Amount, q.Unit, cur, res, strings.Join(hist, " "))
				}
				if !proto.Equal(got.GetUsed(), cur.GetUsed()) || !proto.Equal(got.GetRemaining(), cur.GetRemaining()) {
					t.Fatalf("a failed dispense changed the stock: was %v now %v", cur, got)
				}
				continue
			}
			if err != nil {
				t.Fatalf("dispensing %v %v from stock %v failed: %v\nhistory: %s", q.Amount, q.Unit, cur, err, strings.Join(hist, " "))
			}
			if res == nil {
				t.Fatalf("dispense succeeded but returned no stock\nhistory: %s", strings.Join(hist, " "))
			}
			if cur.Used != nil {
				if got.Used == nil || got.Used.Unit != cur.Used.Unit || !approx(float64(got.Used.Amount), float64(cur.Used.Amount)+dUsed) {
					t.Fatalf("used: was %v, dispensed %v %v (= %v in its unit), now %v\nhistory: %s", cur.Used, q.Amount, q.Unit, dUsed, got.Used, strings.Join(hist, " "))
				}
			} else if got.Used != nil {
				t.Fatalf("used appeared although the stock had none: %v", got.Used)
			}
			if cur.Remaining != nil {
				want := math.Max(0, float64(cur.Remaining.Amount)-dRem)
				if got.Remaining == nil || got.Remaining.Unit != cur.Remaining.Unit || !approx(float64(got.Remaining.Amount), want) {
					t.Fatalf("remaining: was %v, dispensed %v %v (= %v in its unit), now %v, want %v %v\nhistory: %s", cur.Remaining, q.Amount, q.Unit, dRem, got.Remaining, want, cur.Remaining.Unit, strings.Join(hist, " "))
				}
			} else if got.Remaining != nil {
				t.Fatalf("remaining appeared although the stock had none: %v", got.Remaining)
			}
			cur = proto.Clone(got).(*traits.Consumable_Stock)
		}
		nt := ""
		if (hasRemaining && !hasUsed) || (hasUsed && hasRemaining && stock.Used.Unit != stock.Remaining.Unit) {
			nt = fmt.Sprintf("vending|%v|%s", stock, strings.Join(hist, " "))
		}
		lib.Ev.Class("model:vending")
		lib.Ev.Case(nt, func() any { return fmt.Sprintf("vending stock=%v %s", stock, strings.Join(hist, " ")) })
	})
}

func TestVendingConfigAndUnits(t *testing.T) {
	rapid.Check(t, func(t *rapid.T) {
		// explicit configuration is used
		nc := rapid.IntRange(0, 3).Draw(t, "consumables")
		ns := rapid.IntRange(0, 3).Draw(t, "stock")
		var opts []resource.Option
		for i := 0; i < nc; i++ {
			opts = append(opts, vendingpb.WithInitialConsumable(&traits.Consumable{Name: fmt.Sprintf("c%d", i)}))
		}
		for i := 0; i < ns; i++ {
			opts = append(opts, vendingpb.WithInitialStock(&traits.Consumable_Stock{Consumable: fmt.Sprintf("s%d", i)}))
		}
		var m *vendingpb.Model
		if err := noPanic("NewModel", func() { m = vendingpb.NewModel(opts...) }); err != nil {
			t.Fatal(err)
		}
		if got := len(m.ListConsumables()); got != nc {
			t.Fatalf("model built WithInitialConsumable x%d lists %d consumables (inventory has %d)", nc, got, len(m.ListInventory()))
		}
		if got := len(m.ListInventory()); got != ns {
			t.Fatalf("model built WithInitialStock x%d lists %d stock entries", ns, got)
		}
		// unit conversion round trips within a category and errs across
		a, b := drawUnit(t, "a"), drawUnit(t, "b")
		v := float64(rapid.IntRange(0, 1000).Draw(t, "v")) / 4
		ab, err := unitpb.Convert(v, a, b)
		sameCat := (isVolume(a) && isVolume(b)) || a == b || (isWeight(a) && isWeight(b))
		if sameCat {
			if err != nil {
				t.Fatalf("Convert(%v, %v, %v) failed: %v", v, a, b, err)
			}
			back, err := unitpb.Convert(ab, b, a)
			if err != nil || !approx(back, v) {
				t.Fatalf("Convert round trip %v %v -> %v %v -> %v (err %v)", v, a, ab, b, back, err)
			}
		} else if err == nil {
			t.Fatalf("Convert(%v, %v, %v) = %v: converting across categories must report an error", v, a, b, ab)
		}
		lib.Ev.Class("model:vending-config")
		lib.Ev.Case(fmt.Sprintf("vcfg|%d|%d|%v|%v|%v", nc, ns, a, b, v), func() any {
			return fmt.Sprintf("vending config consumables=%d stock=%d; Convert(%v,%v,%v)", nc, ns, v, a, b)
		})
	})
}

func isVolume(u traits.Consumable_Unit) bool {
	for _, x := range volumeUnits {
		if x == u {
			return true
		}
	}
	return false
}
func isWeight(u traits.Consumable_Unit) bool {
	return u == traits.Consumable_KILOGRAM
}

// ---- fan speed ---------------------------------------------------------------------------------------------------

func TestFanSpeedConsistency(t *testing.T) {
	rapid.Check(t, func(t *rapid.T) {
		np := rapid.IntRange(1, 6).Draw(t, "presets")
		presets := make([]fanspeedpb.Preset, np)
		for i := range presets {
			presets[i] = fanspeedpb.Preset{Name: fmt.Sprintf("p%d", i), Percentage: float32(i*20 + rapid.IntRange(0, 9).Draw(t, "pct"))}
		}
		m := fanspeedpb.NewModel(fanspeedpb.WithPresets(presets...), fanspeedpb.WithInitialFanSpeed(&traits.FanSpeed{Preset: presets[0].Name, Percentage: presets[0].Percentage}))
		srv := fanspeedpb.NewModelServer(m)
		var hist []string
		partial := false
		check := func(what string) {
			fs := m.FanSpeed()
			idx := int(fs.PresetIndex)
			switch {
			case idx >= 0 && idx < np:
				if fs.Preset != presets[idx].Name || fs.Percentage != presets[idx].Percentage {
					t.Fatalf("after %s: {preset:%q index:%d pct:%v} but preset table[%d] = %+v\npresets: %+v\nhistory: %s", what, fs.Preset, idx, fs.Percentage, idx, presets[idx], presets, strings.Join(hist, " "))
				}
			case idx == -1:
				if fs.Preset != "" {
					t.Fatalf("after %s: index -1 but preset %q\nhistory: %s", what, fs.Preset, strings.Join(hist, " "))
				}
				for _, p := range presets {
					if p.Percentage == fs.Percentage {
						t.Fatalf("after %s: index -1 / no preset although percentage %v is preset %q\nhistory: %s", what, fs.Percentage, p.Name, strings.Join(hist, " "))
					}
				}
			default:
				t.Fatalf("after %s: preset index %d out of range [−1,%d)\nhistory: %s", what, idx, np, strings.Join(hist, " "))
			}
		}
		n := rapid.IntRange(1, 12).Draw(t, "steps")
		for i := 0; i < n; i++ {
			kind := rapid.SampledFrom([]string{"preset", "index", "pct", "pct-of-preset", "unknown-preset", "masked-pct", "masked-index", "relative-pct", "relative-index", "pct-near-preset", "relative-fraction"}).Draw(t, "kind")
			var err error
			before := proto.Clone(m.FanSpeed())
			perr := noPanic("UpdateFanSpeed/"+kind, func() {
				switch kind {
				case "preset":
					_, err = m.UpdateFanSpeed(&traits.FanSpeed{Preset: presets[rapid.IntRange(0, np-1).Draw(t, "p")].Name})
				case "index":
					partial = true
					_, err = m.UpdateFanSpeed(&traits.FanSpeed{PresetIndex: int32(rapid.IntRange(0, np-1).Draw(t, "i"))})
				case "pct":
					partial = true
					_, err = m.UpdateFanSpeed(&traits.FanSpeed{Percentage: float32(rapid.IntRange(0, 120).Draw(t, "pct"))})
				case "pct-of-preset":
					partial = true
					_, err = m.UpdateFanSpeed(&traits.FanSpeed{Percentage: presets[rapid.IntRange(0, np-1).Draw(t, "pp")].Percentage})
				case "pct-near-preset":
					// a reading that is almost, but not, a preset's percentage (sensor noise, accumulated float32 steps)
					partial = true
					base := presets[rapid.IntRange(0, np-1).Draw(t, "np")].Percentage
					var near float32
					switch rapid.IntRange(0, 4).Draw(t, "nearKind") {
					case 0:
						near = math.Nextafter32(base, 1000)
					case 1:
						near = math.Nextafter32(base, -1000)
					case 2:
						near = base + 5e-5
					case 3:
						near = base - 5e-5
					default:
						near = base + 0.004
					}
					_, err = m.UpdateFanSpeed(&traits.FanSpeed{Percentage: near})
				case "relative-fraction":
					partial = true
					for k := rapid.IntRange(1, 40).Draw(t, "reps"); k > 0 && err == nil; k-- {
						_, err = srv.UpdateFanSpeed(ctx, &traits.UpdateFanSpeedRequest{Name: "n", Relative: true, FanSpeed: &traits.FanSpeed{Percentage: 0.1}})
						if err == nil {
							check("relative +0.1")
						}
					}
				case "unknown-preset":
					_, err = m.UpdateFanSpeed(&traits.FanSpeed{Preset: "nope"})
					if status.Code(err) != codes.InvalidArgument {
						t.Fatalf("unknown preset: %v, want InvalidArgument", err)
					}
					if !proto.Equal(before, m.FanSpeed()) {
						t.Fatalf("rejected update changed the fan speed")
					}
				case "masked-pct":
					_, err = m.UpdateFanSpeed(&traits.FanSpeed{Percentage: float32(rapid.IntRange(0, 120).Draw(t, "pct"))}, resource.WithUpdatePaths("percentage"))
				case "masked-index":
					_, err = m.UpdateFanSpeed(&traits.FanSpeed{PresetIndex: int32(rapid.IntRange(0, np-1).Draw(t, "i"))}, resource.WithUpdatePaths("preset_index"))
				case "relative-pct":
					partial = true
					_, err = srv.UpdateFanSpeed(ctx, &traits.UpdateFanSpeedRequest{Name: "n", Relative: true, FanSpeed: &traits.FanSpeed{Percentage: float32(rapid.IntRange(-30, 30).Draw(t, "dpct"))}})
				case "relative-index":
					partial = true
					_, err = srv.UpdateFanSpeed(ctx, &traits.UpdateFanSpeedRequest{Name: "n", Relative: true, FanSpeed: &traits.FanSpeed{PresetIndex: int32(rapid.IntRange(-2, 2).Draw(t, "di"))}})
				}
			})
			hist = append(hist, kind)
			if perr != nil {
				t.Fatalf("%v\nhistory: %s", perr, strings.Join(hist, " "))
			}
			if err == nil {
				check(kind)
			}
		}
		nt := ""
		if partial {
			nt = fmt.Sprintf("fan|%+v|%s", presets, strings.Join(hist, " "))
		}
		lib.Ev.Class("model:fanspeed")
		lib.Ev.Case(nt, func() any { return fmt.Sprintf("fanspeed presets=%+v %s", presets, strings.Join(hist, " ")) })
	})
}

// ---- mode --------------------------------------------------------------------------------------------------------------

func TestModeRelativeSteps(t *testing.T) {
	rapid.Check(t, func(t *rapid.T) {
		nm := rapid.IntRange(1, 3).Draw(t, "modes")
		modes := &traits.Modes{}
		for i := 0; i < nm; i++ {
			mode := &traits.Modes_Mode{Name: fmt.Sprintf("mode%d", i), Ordered: true}
			nv := rapid.IntRange(1, 5).Draw(t, "values")
			for j := 0; j < nv; j++ {
				mode.Values = append(mode.Values, &traits.Modes_Value{Name: fmt.Sprintf("m%dv%d", i, j)})
			}
			modes.Modes = append(modes.Modes, mode)
		}
		var m *modepb.Model
		if err := noPanic("NewModelModes", func() { m = modepb.NewModelModes(modes) }); err != nil {
			t.Fatal(err)
		}
		if !proto.Equal(m.Modes(), modes) {
			t.Fatalf("model constructed with modes %v reports modes %v", modes, m.Modes())
		}
		cur := map[string]int{}
		for _, mode := range modes.Modes {
			if got := m.ModeValues().Values[mode.Name]; got != mode.Values[0].Name {
				t.Fatalf("initial value of %s is %q, want the first given value %q", mode.Name, got, mode.Values[0].Name)
			}
			cur[mode.Name] = 0
		}
		srv := modepb.NewModelServer(m)
		var hist []string
		wrapped := false
		for i := 0; i < rapid.IntRange(1, 10).Draw(t, "steps"); i++ {
			mode := modes.Modes[rapid.IntRange(0, nm-1).Draw(t, "mode")]
			n := len(mode.Values)
			if rapid.Bool().Draw(t, "absolute") {
				j := rapid.IntRange(0, n-1).Draw(t, "abs")
				all := map[string]string{}
				for name, idx := range cur {
					for _, mm := range modes.Modes {
						if mm.Name == name {
							all[name] = mm.Values[idx].Name
						}
					}
				}
				all[mode.Name] = mode.Values[j].Name
				if _, err := srv.UpdateModeValues(ctx, &traits.UpdateModeValuesRequest{Name: "n", ModeValues: &traits.ModeValues{Values: all}}); err != nil {
					t.Fatalf("absolute update: %v", err)
				}
				cur[mode.Name] = j
				hist = append(hist, fmt.Sprintf("%s=%d", mode.Name, j))
				continue
			}
			// steps of any size an int32 can carry, its limits included: wrapping is arithmetic modulo the number of values
			k := rapid.OneOf(rapid.IntRange(-6, 6), rapid.IntRange(-1000000, 1000000),
				rapid.SampledFrom([]int{math.MinInt32, math.MinInt32 + 1, math.MaxInt32, math.MaxInt32 - 1, math.MaxInt32 / 2, math.MinInt32 / 2})).Draw(t, "k")
			var res *traits.ModeValues
			var err error
			if perr := noPanic("relative UpdateModeValues", func() {
				res, err = srv.UpdateModeValues(ctx, &traits.UpdateModeValuesRequest{Name: "n", Relative: &traits.ModeValuesRelative{Values: map[string]int32{mode.Name: int32(k)}}})
			}); perr != nil {
				t.Fatalf("%v\nhistory: %s", perr, strings.Join(hist, " "))
			}
			if err != nil {
				t.Fatalf("relative update failed: %v", err)
			}
			want := ((cur[mode.Name]+k)%n + n) % n
			if cur[mode.Name]+k >= n || cur[mode.Name]+k < 0 {
				wrapped = true
			}
			hist = append(hist, fmt.Sprintf("%s%+d", mode.Name, k))
			if got := res.Values[mode.Name]; got != mode.Values[want].Name {
				t.Fatalf("relative step %+d from %q over %d values gave %q, want %q\nhistory: %s", k, mode.Values[cur[mode.Name]].Name, n, got, mode.Values[want].Name, strings.Join(hist, " "))
			}
			// a relative request replaces the whole value: re-read what the other modes hold now
			now := m.ModeValues().Values
			for _, mm := range modes.Modes {
				idx, known := -1, false
				for vi, v := range mm.Values {
					if v.Name == now[mm.Name] {
						idx, known = vi, true
					}
				}
				if known {
					cur[mm.Name] = idx
				} else {
					cur[mm.Name] = -1
				}
			}
			for name, idx := range cur {
				if idx < 0 {
					// no current value: the next relative step picks the first value; model that as index -k... skip by resetting
					for _, mm := range modes.Modes {
						if mm.Name == name {
							all := map[string]string{}
							for k2, v2 := range now {
								all[k2] = v2
							}
							all[name] = mm.Values[0].Name
							if _, err := srv.UpdateModeValues(ctx, &traits.UpdateModeValuesRequest{Name: "n", ModeValues: &traits.ModeValues{Values: all}}); err != nil {
								t.Fatal(err)
							}
							now = all
							cur[name] = 0
						}
					}
				}
			}
		}
		nt := ""
		if wrapped || nm > 1 {
			nt = fmt.Sprintf("mode|%v|%s", modes, strings.Join(hist, " "))
		}
		lib.Ev.Class("model:mode")
		lib.Ev.Case(nt, func() any { return "mode " + strings.Join(hist, " ") })
	})
}

// ---- enter/leave -------------------------------------------------------------------------------------------------

func TestEnterLeaveTotals(t *testing.T) {
	rapid.Check(t, func(t *rapid.T) {
		m := enterleavesensorpb.NewModel()
		var enter, leave int32
		var hist []string
		for i := 0; i < rapid.IntRange(1, 20).Draw(t, "steps"); i++ {
			if rapid.IntRange(0, 6).Draw(t, "reset") == 0 {
				if err := m.ResetTotals(); err != nil {
					t.Fatalf("ResetTotals: %v", err)
				}
				enter, leave = 0, 0
				hist = append(hist, "reset")
			} else {
				ev := &traits.EnterLeaveEvent{Direction: traits.EnterLeaveEvent_Direction(rapid.IntRange(0, 2).Draw(t, "dir"))}
				if rapid.IntRange(0, 3).Draw(t, "explicit") == 0 {
					v := int32(rapid.IntRange(0, 6).Draw(t, "enterTotal"))
					ev.EnterTotal = &v
				}
				if rapid.IntRange(0, 3).Draw(t, "explicitL") == 0 {
					v := int32(rapid.IntRange(0, 6).Draw(t, "leaveTotal"))
					ev.LeaveTotal = &v
				}
				hist = append(hist, fmt.Sprintf("%v(e=%v,l=%v)", ev.Direction, ev.EnterTotal, ev.LeaveTotal))
				if err := noPanic("CreateEnterLeaveEvent", func() {
					if err := m.CreateEnterLeaveEvent(ev); err != nil {
						t.Fatalf("CreateEnterLeaveEvent: %v", err)
					}
				}); err != nil {
					t.Fatal(err)
				}
				// documented rules: a supplied total different from the current one is taken as is, otherwise the
				// matching direction increments
				next := func(cur int32, given *int32, inc bool) int32 {
					if given != nil && *given != cur {
						return *given
					}
					if inc {
						return cur + 1
					}
					return cur
				}
				enter = next(enter, ev.EnterTotal, ev.Direction == traits.EnterLeaveEvent_ENTER)
				leave = next(leave, ev.LeaveTotal, ev.Direction == traits.EnterLeaveEvent_LEAVE)
			}
			got, _ := m.GetEnterLeaveEvent()
			if got.GetEnterTotal() != enter || got.GetLeaveTotal() != leave {
				t.Fatalf("totals are enter=%d leave=%d, the documented rules give enter=%d leave=%d\nhistory: %s", got.GetEnterTotal(), got.GetLeaveTotal(), enter, leave, strings.Join(hist, " "))
			}
		}
		// Pull's seed agrees with Get
		pctx, cancel := context.WithCancel(ctx)
		ch := m.PullEnterLeaveEvents(pctx)
		select {
		case e := <-ch:
			if e.Value.GetEnterTotal() != enter || e.Value.GetLeaveTotal() != leave {
				t.Fatalf("Pull seed totals %d/%d, Get %d/%d", e.Value.GetEnterTotal(), e.Value.GetLeaveTotal(), enter, leave)
			}
		case <-time.After(5 * time.Second):
			t.Fatalf("no seed from PullEnterLeaveEvents")
		}
		cancel()
		lib.Ev.Class("model:enterleave")
		lib.Ev.Case("el|"+strings.Join(hist, " "), func() any { return "enterleave " + strings.Join(hist, " ") })
	})
}

// ---- meter -------------------------------------------------------------------------------------------------------------

func TestMeterTimes(t *testing.T) {
	rapid.Check(t, func(t *rapid.T) {
		clk := &tickClock{}
		m := meterpb.NewModel(resource.WithClock(clk))
		var hist []string
		check := func(what string) *traits.MeterReading {
			r, _ := m.GetMeterReading()
			if r.StartTime == nil || r.EndTime == nil {
				t.Fatalf("after %s: start=%v end=%v, both must be set\nhistory: %s", what, r.StartTime, r.EndTime, strings.Join(hist, " "))
			}
			if r.StartTime.AsTime().After(r.EndTime.AsTime()) {
				t.Fatalf("after %s: start %v is after end %v\nhistory: %s", what, r.StartTime.AsTime(), r.EndTime.AsTime(), strings.Join(hist, " "))
			}
			return r
		}
		check("construction")
		for i := 0; i < rapid.IntRange(1, 12).Draw(t, "steps"); i++ {
			if rapid.IntRange(0, 3).Draw(t, "reset") == 0 {
				c0 := clk.peek()
				if _, err := m.Reset(); err != nil {
					t.Fatalf("Reset: %v", err)
				}
				hist = append(hist, "reset")
				r := check("Reset")
				if r.Usage != 0 || !r.StartTime.AsTime().Equal(r.EndTime.AsTime()) || tickOf(r.StartTime.AsTime()) <= c0 || tickOf(r.StartTime.AsTime()) > clk.peek() {
					t.Fatalf("after Reset: usage=%v start=%v end=%v, want usage 0 and start=end=now (tick in (%d,%d])", r.Usage, tickOf(r.StartTime.AsTime()), tickOf(r.EndTime.AsTime()), c0, clk.peek())
				}
			} else {
				v := float32(rapid.IntRange(0, 100).Draw(t, "usage"))
				before, _ := m.GetMeterReading()
				startBefore := before.GetStartTime()
				c0 := clk.peek()
				if _, err := m.RecordReading(v); err != nil {
					t.Fatalf("RecordReading: %v", err)
				}
				hist = append(hist, fmt.Sprintf("record(%v)", v))
				r := check("RecordReading")
				if r.Usage != v {
					t.Fatalf("after RecordReading(%v): usage %v", v, r.Usage)
				}
				if tk := tickOf(r.EndTime.AsTime()); tk <= c0 || tk > clk.peek() {
					t.Fatalf("after RecordReading: end time tick %d, the clock read (%d,%d] during the call", tk, c0, clk.peek())
				}
				if startBefore != nil && !r.StartTime.AsTime().Equal(startBefore.AsTime()) {
					t.Fatalf("RecordReading moved the start time from %v to %v", startBefore.AsTime(), r.StartTime.AsTime())
				}
			}
		}
		lib.Ev.Class("model:meter")
		lib.Ev.Case("meter|"+strings.Join(hist, " "), func() any { return "meter " + strings.Join(hist, " ") })
	})
}

// ---- publication ---------------------------------------------------------------------------------------------------

// pubBodies name the publication bodies in use: two small ones (twice, so that small stays the common case) and large
// documents (a firmware image, a floor plan) of equal length that differ in a single byte at the start, in the middle
// or at the end, plus sizes around 64 KiB.
var pubBodies = []string{"b1", "b2", "b1", "b2", "L:262144:mid:a", "L:262144:mid:b", "L:262144:head:a", "L:262144:tail:a", "b3", "L:65536:mid:a", "L:65537:mid:a", "L:65537:mid:b", "L:1048576:mid:a", "L:1048576:mid:b"}

var pubBodyCache sync.Map

func pubBody(key string) []byte {
	if !strings.HasPrefix(key, "L:") {
		return []byte(key)
	}
	if b, ok := pubBodyCache.Load(key); ok {
		return append([]byte(nil), b.([]byte)...)
	}
	parts := strings.Split(key, ":")
	n, _ := strconv.Atoi(parts[1])
	b := bytes.Repeat([]byte("x"), n)
	pos := map[string]int{"head": 0, "mid": n / 2, "tail": n - 1}[parts[2]]
	b[pos] = parts[3][0]
	pubBodyCache.Store(key, b)
	return append([]byte(nil), b...)
}

func TestPublicationVersions(t *testing.T) {
	rapid.Check(t, func(t *rapid.T) {
		clk := &tickClock{}
		m := publicationpb.NewModel(resource.WithClock(clk))
		srv := publicationpb.NewModelServer(m)
		type content struct{ body, media, aud string }
		versionOf := map[content]string{}
		var cur content
		var hist []string
		gen := func() content {
			return content{rapid.SampledFrom(pubBodies[:8]).Draw(t, "body"), rapid.SampledFrom([]string{"", "text/plain"}).Draw(t, "media"), rapid.SampledFrom([]string{"", "aud"}).Draw(t, "aud")}
		}
		mk := func(c content) *traits.Publication {
			return &traits.Publication{Id: "p", Body: pubBody(c.body), MediaType: c.media, Audience: &traits.Publication_Audience{Name: c.aud}}
		}
		cur = gen()
		c0 := clk.peek()
		if rapid.IntRange(0, 3).Draw(t, "restored") == 1 {
			// a model restored from stored records that carry no version (or written through the model API, which mints
			// none): the first update through the server publishes the content - even if it is the content already there -
			// and its version is the one any server gives that content
			m = publicationpb.NewModel(resource.WithClock(clk), publicationpb.WithInitialPublication(mk(cur)))
			srv = publicationpb.NewModelServer(m)
			ref, err := publicationpb.NewModelServer(publicationpb.NewModel()).CreatePublication(ctx, &traits.CreatePublicationRequest{Name: "n", Publication: mk(cur)})
			if err != nil {
				t.Fatalf("reference CreatePublication: %v", err)
			}
			res, err := srv.UpdatePublication(ctx, &traits.UpdatePublicationRequest{Name: "n", Publication: mk(cur)})
			if err != nil {
				t.Fatalf("first UpdatePublication of a restored publication (no version precondition): %v", err)
			}
			if res.Version == "" || res.Version != ref.Version {
				t.Fatalf("a restored publication (stored without a version) rewritten through the server has version %q, a server gives this content version %q", res.Version, ref.Version)
			}
			hist = append(hist, "restored+republished")
			lib.Ev.Class("publication restored from a record without a version")
		}
		p, err := srv.CreatePublication(ctx, &traits.CreatePublicationRequest{Name: "n", Publication: mk(cur)})
		if status.Code(err) == codes.AlreadyExists {
			p, err = srv.UpdatePublication(ctx, &traits.UpdatePublicationRequest{Name: "n", Publication: mk(cur)})
		}
		if err != nil {
			t.Fatalf("CreatePublication: %v", err)
		}
		if p.Version == "" || p.PublishTime == nil || (len(hist) == 0 && tickOf(p.PublishTime.AsTime()) <= c0) {
			t.Fatalf("created publication lacks version/publish time: %v", p)
		}
		versionOf[cur] = p.Version
		acked := false
		ackCount := 0
		for i := 0; i < rapid.IntRange(1, 12).Draw(t, "steps"); i++ {
			before, _ := m.GetPublication("p")
			before = proto.Clone(before).(*traits.Publication)
			switch rapid.SampledFrom([]string{"update", "update-masked", "update-stale", "ack", "ack-stale", "ack-again-allowed"}).Draw(t, "op") {
			case "update-masked":
				// only one part is written (update_mask=["body"] or ["audience.name"]); the rest stays as it is
				c := cur
				c0 := clk.peek()
				var res *traits.Publication
				var err error
				if rapid.Bool().Draw(t, "maskedAudience") {
					c.aud = rapid.SampledFrom([]string{"", "aud", "aud2"}).Draw(t, "maskedAud")
					// the audience's name is part of the content whether the mask names it or the whole audience
					path := rapid.SampledFrom([]string{"audience.name", "audience"}).Draw(t, "audiencePath")
					if path == "audience" && c.aud == "" {
						// a message-typed mask path merges (field mask update semantics): an audience without a name names nothing
						c.aud = cur.aud
					}
					res, err = srv.UpdatePublication(ctx, &traits.UpdatePublicationRequest{Name: "n", Publication: &traits.Publication{Id: "p", Audience: &traits.Publication_Audience{Name: c.aud}},
						UpdateMask: &fieldmaskpb.FieldMask{Paths: []string{path}}, Version: before.Version})
					hist = append(hist, fmt.Sprintf("update-masked(%s, name=%s)", path, c.aud))
				} else {
					c.body = rapid.SampledFrom(pubBodies).Draw(t, "maskedBody")
					res, err = srv.UpdatePublication(ctx, &traits.UpdatePublicationRequest{Name: "n", Publication: &traits.Publication{Id: "p", Body: pubBody(c.body)},
						UpdateMask: &fieldmaskpb.FieldMask{Paths: []string{"body"}}, Version: before.Version})
					hist = append(hist, fmt.Sprintf("update-masked(body=%s)", c.body))
				}
				if err != nil {
					t.Fatalf("masked UpdatePublication with the current version failed: %v\nhistory: %s", err, strings.Join(hist, " "))
				}
				if string(res.Body) != string(pubBody(c.body)) || res.MediaType != c.media || res.GetAudience().GetName() != c.aud {
					t.Fatalf("masked update gave %v, want body %q, media type %q and audience %q (only the masked part changes)\nhistory: %s", res, c.body, c.media, c.aud, strings.Join(hist, " "))
				}
				if v, ok := versionOf[c]; ok && v != res.Version {
					t.Fatalf("same content %v got version %q before and %q now: the version must be a function of the content\nhistory: %s", c, v, res.Version, strings.Join(hist, " "))
				}
				for oc, ov := range versionOf {
					if oc != c && ov == res.Version {
						t.Fatalf("different contents %v and %v share version %q\nhistory: %s", oc, c, ov, strings.Join(hist, " "))
					}
				}
				versionOf[c] = res.Version
				if c != cur && (res.PublishTime == nil || tickOf(res.PublishTime.AsTime()) <= c0) {
					t.Fatalf("content changed but publish time %v is not from this update (clock was at %d before)", res.PublishTime, c0)
				}
				if res.GetAudience().GetReceipt() != traits.Publication_Audience_NO_SIGNAL || res.GetAudience().GetReceiptTime() != nil {
					t.Fatalf("a masked update published %q but kept the acknowledgement of the previous version: %v\nhistory: %s", res.Version, res.Audience, strings.Join(hist, " "))
				}
				cur, acked = c, false
			case "update":
				c := gen()
				c0 := clk.peek()
				res, err := srv.UpdatePublication(ctx, &traits.UpdatePublicationRequest{Name: "n", Publication: mk(c), Version: before.Version})
				hist = append(hist, fmt.Sprintf("update(%v)", c))
				if err != nil {
					t.Fatalf("UpdatePublication with the current version failed: %v\nhistory: %s", err, strings.Join(hist, " "))
				}
				if v, ok := versionOf[c]; ok && v != res.Version {
					t.Fatalf("same content %v got version %q before and %q now: the version must be a function of the content\nhistory: %s", c, v, res.Version, strings.Join(hist, " "))
				}
				for oc, ov := range versionOf {
					if oc != c && ov == res.Version {
						t.Fatalf("different contents %v and %v share version %q", oc, c, ov)
					}
				}
				versionOf[c] = res.Version
				if c != cur {
					if res.PublishTime == nil || tickOf(res.PublishTime.AsTime()) <= c0 {
						t.Fatalf("content changed but publish time %v is not from this update (clock was at %d before)", res.PublishTime, c0)
					}
				}
				if res.GetAudience().GetReceipt() != traits.Publication_Audience_NO_SIGNAL || res.GetAudience().GetReceiptTime() != nil {
					t.Fatalf("update did not reset the receipt: %v", res.Audience)
				}
				cur, acked = c, false
			case "update-stale":
				_, err := srv.UpdatePublication(ctx, &traits.UpdatePublicationRequest{Name: "n", Publication: mk(gen()), Version: "stale-version"})
				hist = append(hist, "update-stale")
				if status.Code(err) != codes.FailedPrecondition {
					t.Fatalf("update with a stale version: %v, want FailedPrecondition", err)
				}
				if after, _ := m.GetPublication("p"); !proto.Equal(after, before) {
					t.Fatalf("rejected update changed the publication")
				}
			case "ack":
				receipt := rapid.SampledFrom([]traits.Publication_Audience_Receipt{traits.Publication_Audience_ACCEPTED, traits.Publication_Audience_REJECTED}).Draw(t, "receipt")
				reason := ""
				if receipt == traits.Publication_Audience_REJECTED && rapid.Bool().Draw(t, "withReason") {
					reason = rapid.SampledFrom([]string{"unsupported media type", "too large", "r"}).Draw(t, "reason")
				}
				res, err := srv.AcknowledgePublication(ctx, &traits.AcknowledgePublicationRequest{Name: "n", Id: "p", Version: before.Version, Receipt: receipt, ReceiptRejectedReason: reason})
				hist = append(hist, fmt.Sprintf("ack(%v,%q)", receipt, reason))
				if acked {
					if status.Code(err) != codes.FailedPrecondition {
						t.Fatalf("acknowledging an already acknowledged version without allow_acknowledged: %v, want FailedPrecondition\nhistory: %s", err, strings.Join(hist, " "))
					}
					if after, _ := m.GetPublication("p"); !proto.Equal(after, before) {
						t.Fatalf("rejected acknowledge changed the publication")
					}
				} else {
					if err != nil {
						t.Fatalf("first acknowledge failed: %v\nhistory: %s", err, strings.Join(hist, " "))
					}
					if res.GetAudience().GetReceipt() != receipt || res.GetAudience().GetReceiptTime() == nil {
						t.Fatalf("acknowledge did not record the receipt: %v", res.Audience)
					}
					if res.Version != before.Version {
						t.Fatalf("acknowledge changed the version")
					}
					// the acknowledgement state reflects the acknowledgement, in the response and in what is stored
					stored, _ := m.GetPublication("p")
					for _, p := range []*traits.Publication{res, stored} {
						if got := p.GetAudience().GetReceiptRejectedReason(); got != reason || p.GetAudience().GetReceipt() != receipt {
							t.Fatalf("acknowledged with %v and reason %q; the publication now says %v\nhistory: %s", receipt, reason, p.GetAudience(), strings.Join(hist, " "))
						}
					}
					acked = true
					ackCount++
				}
			case "ack-stale":
				_, err := srv.AcknowledgePublication(ctx, &traits.AcknowledgePublicationRequest{Name: "n", Id: "p", Version: "stale", Receipt: traits.Publication_Audience_ACCEPTED})
				hist = append(hist, "ack-stale")
				if err == nil {
					t.Fatalf("acknowledge with a stale version succeeded")
				}
				if after, _ := m.GetPublication("p"); !proto.Equal(after, before) {
					t.Fatalf("rejected acknowledge changed the publication")
				}
			case "ack-again-allowed":
				if !acked {
					continue
				}
				res, err := srv.AcknowledgePublication(ctx, &traits.AcknowledgePublicationRequest{Name: "n", Id: "p", Version: before.Version, Receipt: traits.Publication_Audience_ACCEPTED, AllowAcknowledged: true})
				hist = append(hist, "ack-again-allowed")
				if err != nil {
					t.Fatalf("acknowledging an already acknowledged version with allow_acknowledged failed: %v\nhistory: %s", err, strings.Join(hist, " "))
				}
				if !proto.Equal(res, before) {
					t.Fatalf("allow_acknowledged re-acknowledge returned %v, want the already acknowledged publication %v", res, before)
				}
			}
		}
		nt := ""
		if ackCount > 0 {
			nt = "pub|" + strings.Join(hist, " ")
		}
		lib.Ev.Class("model:publication")
		lib.Ev.Case(nt, func() any { return "publication " + strings.Join(hist, " ") })
	})
}
