package rlib

import (
	"context"
	"errors"
	"fmt"
	"sort"
	"strings"
	"sync"
	"time"

	"google.golang.org/grpc/codes"
	"google.golang.org/grpc/status"
	"google.golang.org/protobuf/proto"
	"google.golang.org/protobuf/types/known/fieldmaskpb"

	"github.com/smart-core-os/sc-api/go/types"

	"github.com/smart-core-os/sc-golang/pkg/resource"
	"github.com/smart-core-os/sc-golang/verifh/lib"
)

func statusCode(err error) codes.Code { return status.Code(err) }

// ErrStop is returned by Do when the contract does not fix the outcome of the op: the case ends without a verdict.
var ErrStop = errors.New("unspecified outcome, stop comparing")

// SentinelTick is the write time of the sentinel write that marks quiescence.
const SentinelTick = 4000000000

// SentinelID is the collection id of the sentinel item.
const SentinelID = "~sentinel~"

// WaitBound bounds every wait for an event a consumer must receive.
var WaitBound = 15 * time.Second

// Config describes the resource under test.
type Config struct {
	IsValue      bool
	Proto        proto.Message
	InitialValue proto.Message            // Value
	Initial      map[string]proto.Message // Collection
	Writable     *fieldmaskpb.FieldMask
	Interceptor  string // "", "lower", "trim", "fold"
	StaticRNG    bool
	Equivalence  string // "", "nodup"
	// ReuseOptions: write options with the same content are built once per resource and the same option value is
	// passed again on later calls (a caller keeping its options in a variable).
	ReuseOptions bool
}

func (c Config) String() string {
	var ini []string
	ids := make([]string, 0, len(c.Initial))
	for id := range c.Initial {
		ids = append(ids, id)
	}
	sort.Strings(ids)
	for _, id := range ids {
		ini = append(ini, fmt.Sprintf("%q:%s", id, Txt(c.Initial[id])))
	}
	kind := "Collection"
	if c.IsValue {
		kind = "Value"
		ini = []string{Txt(c.InitialValue)}
	}
	return fmt.Sprintf("%s<%s> initial=[%s] writable=%s idInterceptor=%q staticRNG=%v equivalence=%q reuseOptions=%v", kind,
		c.Proto.ProtoReflect().Descriptor().Name(), strings.Join(ini, " "), lib.MaskString(c.Writable), c.Interceptor, c.StaticRNG, c.Equivalence, c.ReuseOptions)
}

// InterceptorFn returns the id interceptor by name.
func InterceptorFn(name string) func(string) string {
	switch name {
	case "lower":
		return strings.ToLower
	case "trim":
		return strings.TrimSpace
	case "fold":
		return func(id string) string {
			if id == "b" {
				return "a"
			}
			return id
		}
	}
	return nil
}

// SubSpec describes one subscription.
type SubSpec struct {
	UpdatesOnly  bool
	Backpressure bool
	ReadMask     *fieldmaskpb.FieldMask
	Include      func(id string, m proto.Message) bool
	IncludeName  string
}

func (s SubSpec) String() string {
	return fmt.Sprintf("Pull(updatesOnly=%v backpressure=%v readMask=%s include=%s)", s.UpdatesOnly, s.Backpressure, lib.MaskString(s.ReadMask), s.IncludeName)
}

// GotEvent is a received event in a common shape.
type GotEvent struct {
	ID       string
	Kind     types.ChangeType
	Old, New proto.Message
	Tick     int64
	Seed     bool
	LastSeed bool
}

func (e GotEvent) String() string {
	flags := ""
	if e.Seed {
		flags += " seed"
	}
	if e.LastSeed {
		flags += " last-seed"
	}
	return fmt.Sprintf("%q %v old=%s new=%s T%d%s", e.ID, e.Kind, Txt(e.Old), Txt(e.New), e.Tick, flags)
}

// ExpEvent is an expected event.
type ExpEvent struct {
	GotEvent
	TickLo, TickHi int64
	Exact          bool
}

type subRun struct {
	spec     SubSpec
	cancel   context.CancelFunc
	mu       sync.Mutex
	got      []GotEvent
	done     chan struct{} // closed when the consumer saw the sentinel, the stream closed or it gave up
	sawEnd   bool
	timedOut bool
	closed   bool
	want     []ExpEvent
	held     map[string]proto.Message // what the subscriber holds per id (projected), for equivalence
	// undetermined: the contract stopped fixing what this subscriber receives (see expect); its log is not compared.
	undetermined bool
	cancelled    bool // cancelled mid-history by CancelSub: nothing more is expected of it
}

// Runner executes ops against the real resource and the model side by side.
type Runner struct {
	Cfg   Config
	Clock *TickClock
	Val   *resource.Value
	Col   *resource.Collection
	Model *Store
	subs  []*subRun
	// History of executed ops with their outcome, for reporting.
	History []string
	// Writes counts successful / failed writes.
	OKWrites, FailedWrites int
	// SameObjectWrites counts writes that were handed the object a Get had returned.
	SameObjectWrites int
	OutcomeKey             []string
	stopped                bool
	optCache               *OptCache
	prevValue              proto.Message // Value: the stored message before the write being processed
	// Observe, when set, is told about every message that crosses the API boundary: "input" (the message handed to a
	// write, right after the call returned), "result", "read", "event-new", "event-old". It may be called from consumer goroutines.
	Observe func(kind string, m proto.Message)
}

func (r *Runner) observe(kind string, m proto.Message) {
	if r.Observe != nil && m != nil {
		r.Observe(kind, m)
	}
}

// OpenSub opens another subscription now (its seed is the current contents).
func (r *Runner) OpenSub(spec SubSpec) { r.open(spec) }

// NumSubs returns the number of subscriptions opened so far.
func (r *Runner) NumSubs() int { return len(r.subs) }

// CancelSub cancels subscription i mid-history and waits until its stream has closed (a subscriber that leaves must not
// change what the remaining ones are sent). Returns false if it was cancelled before.
func (r *Runner) CancelSub(i int) bool {
	sr := r.subs[i]
	if sr.cancelled {
		return false
	}
	sr.cancelled = true
	sr.cancel()
	<-sr.done
	return true
}

// NewRunner builds the resource, the model and opens the subscriptions (so their seeds are the initial contents).
func NewRunner(cfg Config, subs ...SubSpec) *Runner {
	r := newRunner(cfg, subs...)
	if cfg.ReuseOptions {
		r.optCache = &OptCache{}
	}
	return r
}

// OptionsReused reports how many option values were passed a second (or later) time.
func (r *Runner) OptionsReused() int {
	if r.optCache == nil {
		return 0
	}
	return r.optCache.Reused
}

func newRunner(cfg Config, subs ...SubSpec) *Runner {
	r := &Runner{Cfg: cfg, Clock: &TickClock{}}
	opts := []resource.Option{resource.WithClock(r.Clock)}
	m := &Store{IsValue: cfg.IsValue, Proto: cfg.Proto, Writable: lib.CloneMask(cfg.Writable), Interceptor: InterceptorFn(cfg.Interceptor), Items: map[string]*Entry{}}
	if cfg.Writable != nil {
		opts = append(opts, resource.WithWritableFields(lib.CloneMask(cfg.Writable)))
	}
	if fn := InterceptorFn(cfg.Interceptor); fn != nil {
		opts = append(opts, resource.WithIDInterceptor(fn))
	}
	if cfg.StaticRNG {
		rng := StaticRNG{B: 7}
		opts = append(opts, resource.WithRNG(rng))
		m.StaticRNG = &rng
	} else {
		opts = append(opts, resource.WithRNG(NewSeqRNG(12345)))
	}
	if cfg.Equivalence == "nodup" {
		opts = append(opts, resource.WithNoDuplicates())
	}
	if cfg.IsValue {
		if cfg.InitialValue != nil {
			opts = append(opts, resource.WithInitialValue(proto.Clone(cfg.InitialValue)))
		}
		c0 := r.Clock.Peek()
		r.Val = resource.NewValue(opts...)
		if cfg.InitialValue != nil {
			m.Items[ValueKey] = &Entry{Msg: proto.Clone(cfg.InitialValue), TickLo: c0, TickHi: r.Clock.Peek()}
		}
	} else {
		ids := make([]string, 0, len(cfg.Initial))
		for id := range cfg.Initial {
			ids = append(ids, id)
		}
		sort.Strings(ids)
		for _, id := range ids {
			opts = append(opts, resource.WithInitialRecord(id, proto.Clone(cfg.Initial[id])))
		}
		c0 := r.Clock.Peek()
		r.Col = resource.NewCollection(opts...)
		c1 := r.Clock.Peek()
		for _, id := range ids {
			m.Items[id] = &Entry{Msg: proto.Clone(cfg.Initial[id]), TickLo: c0, TickHi: c1}
		}
	}
	r.Model = m
	for _, s := range subs {
		r.open(s)
	}
	return r
}

func (r *Runner) open(spec SubSpec) {
	ctx, cancel := context.WithCancel(context.Background())
	sr := &subRun{spec: spec, cancel: cancel, done: make(chan struct{}), held: map[string]proto.Message{}}
	ropts := []resource.ReadOption{resource.WithUpdatesOnly(spec.UpdatesOnly), resource.WithBackpressure(spec.Backpressure)}
	if spec.ReadMask != nil {
		ropts = append(ropts, resource.WithReadMask(lib.CloneMask(spec.ReadMask)))
	}
	// expected seeds
	if !spec.UpdatesOnly {
		if r.Cfg.IsValue {
			if e := r.Model.Items[ValueKey]; e != nil && e.Msg != nil {
				nv := lib.RefProject(e.Msg, spec.ReadMask)
				sr.want = append(sr.want, ExpEvent{GotEvent: GotEvent{New: nv, Seed: true, LastSeed: true}, TickLo: e.TickLo, TickHi: e.TickHi, Exact: e.Exact})
				sr.held[ValueKey] = nv
			}
		} else {
			for _, id := range r.Model.IDs() {
				e := r.Model.Items[id]
				if spec.Include != nil && !spec.Include(id, e.Msg) {
					continue
				}
				nv := lib.RefProject(e.Msg, spec.ReadMask)
				sr.want = append(sr.want, ExpEvent{GotEvent: GotEvent{ID: id, Kind: types.ChangeType_ADD, New: nv, Seed: true}, TickLo: e.TickLo, TickHi: e.TickHi, Exact: e.Exact})
				sr.held[id] = nv
			}
			if n := len(sr.want); n > 0 {
				sr.want[n-1].LastSeed = true
			}
		}
	}
	if r.Cfg.IsValue {
		ch := r.Val.Pull(ctx, ropts...)
		go func() {
			defer close(sr.done)
			for {
				select {
				case e, ok := <-ch:
					if !ok {
						sr.mu.Lock()
						sr.closed = true
						sr.mu.Unlock()
						return
					}
					g := GotEvent{New: e.Value, Tick: TickOf(e.ChangeTime), Seed: e.SeedValue, LastSeed: e.LastSeedValue}
					if g.Tick != SentinelTick {
						r.observe("event-new", e.Value)
					}
					sr.mu.Lock()
					if g.Tick == SentinelTick {
						sr.sawEnd = true
						sr.mu.Unlock()
						return
					}
					sr.got = append(sr.got, g)
					sr.mu.Unlock()
				case <-time.After(WaitBound):
					sr.mu.Lock()
					sr.timedOut = true
					sr.mu.Unlock()
					return
				}
			}
		}()
	} else {
		if spec.Include != nil {
			inc := spec.Include
			ropts = append(ropts, resource.WithInclude(func(id string, m proto.Message) bool {
				return id == SentinelID || inc(id, m)
			}))
		}
		ch := r.Col.Pull(ctx, ropts...)
		go func() {
			defer close(sr.done)
			for {
				select {
				case e, ok := <-ch:
					if !ok {
						sr.mu.Lock()
						sr.closed = true
						sr.mu.Unlock()
						return
					}
					g := GotEvent{ID: e.Id, Kind: e.ChangeType, Old: e.OldValue, New: e.NewValue, Tick: TickOf(e.ChangeTime), Seed: e.SeedValue, LastSeed: e.LastSeedValue}
					if g.ID != SentinelID {
						r.observe("event-new", e.NewValue)
						r.observe("event-old", e.OldValue)
					}
					sr.mu.Lock()
					if g.ID == SentinelID {
						sr.sawEnd = true
						sr.mu.Unlock()
						return
					}
					sr.got = append(sr.got, g)
					sr.mu.Unlock()
				case <-time.After(WaitBound):
					sr.mu.Lock()
					sr.timedOut = true
					sr.mu.Unlock()
					return
				}
			}
		}()
	}
	r.subs = append(r.subs, sr)
}

// expect routes a successful write's base event to every subscription model.
func (r *Runner) expect(be BaseEvent) {
	for _, sr := range r.subs {
		spec := sr.spec
		kind, old, nw := be.Kind, be.Old, be.New
		key := be.ID
		if r.Cfg.IsValue {
			key = ValueKey
		}
		if spec.Include != nil && !r.Cfg.IsValue {
			// "matches" means: exists and satisfies the predicate
			mo := old != nil && spec.Include(be.ID, old)
			mn := nw != nil && spec.Include(be.ID, nw)
			switch {
			case mo && mn:
			case !mo && mn:
				kind, old = types.ChangeType_ADD, nil
			case mo && !mn:
				kind, nw = types.ChangeType_REMOVE, nil
			default:
				continue
			}
		}
		po, pn := lib.RefProject(old, spec.ReadMask), lib.RefProject(nw, spec.ReadMask)
		if r.Cfg.Equivalence == "nodup" {
			// exact equality is transitive, so "what the subscriber holds" and "the previous value" agree
			if h, ok := sr.held[key]; ok && pn != nil && proto.Equal(h, pn) {
				continue
			}
			if _, ok := sr.held[key]; !ok && po != nil && pn != nil && proto.Equal(po, pn) {
				// an updates-only subscriber holds nothing for this item yet: whether a write that leaves the (masked)
				// value unchanged reaches it is not fixed by the contract
				sr.undetermined = true
			}
			if r.Cfg.IsValue && len(sr.held) == 0 && sr.spec.UpdatesOnly && be.Old == nil {
				if prev := r.prevValue; prev != nil && proto.Equal(lib.RefProject(prev, spec.ReadMask), pn) {
					sr.undetermined = true
				}
			}
		}
		if pn == nil {
			delete(sr.held, key)
		} else {
			sr.held[key] = pn
		}
		ev := ExpEvent{GotEvent: GotEvent{ID: be.ID, Kind: kind, Old: po, New: pn}, TickLo: be.TickLo, TickHi: be.TickHi, Exact: be.Exact}
		if r.Cfg.IsValue {
			ev.ID, ev.Kind, ev.Old = "", 0, nil
		}
		sr.want = append(sr.want, ev)
	}
}

func codeOf(err error) codes.Code {
	if err == nil {
		return codes.OK
	}
	return status.Code(err)
}

// Do executes one op on both sides and compares. A non-nil error other than ErrStop describes a divergence.
func (r *Runner) Do(op Op) error {
	if r.stopped {
		return ErrStop
	}
	log := &CallLog{}
	c0 := r.Clock.Peek()
	var ret proto.Message
	var err error
	var found bool
	var list []proto.Message
	var panicked any
	var opts []resource.WriteOption
	var canary func() error
	var in proto.Message
	sameObject := false
	func() {
		defer func() { panicked = recover() }()
		switch op.Kind {
		case OpGet:
			var ropts []resource.ReadOption
			if op.ReadMask != nil {
				ropts = append(ropts, resource.WithReadMask(lib.CloneMask(op.ReadMask)))
			}
			if r.Cfg.IsValue {
				ret = r.Val.Get(ropts...)
				found = ret != nil
			} else {
				ret, found = r.Col.Get(op.ID, ropts...)
			}
		case OpList:
			var ropts []resource.ReadOption
			if op.ReadMask != nil {
				ropts = append(ropts, resource.WithReadMask(lib.CloneMask(op.ReadMask)))
			}
			if fn := IncludeFn(op.Include); fn != nil {
				ropts = append(ropts, resource.WithInclude(resource.FilterFunc(fn)))
			}
			list = r.Col.List(ropts...)
		case OpSet:
			in = r.inputFor(op, &sameObject)
			opts, canary = withCanaries(op.WriteOptionsReusing(r.optCache, log))
			ret, err = r.Val.Set(in, opts...)
		case OpAdd:
			in = proto.Clone(op.Val)
			opts, canary = withCanaries(op.WriteOptionsReusing(r.optCache, log))
			ret, err = r.Col.Add(op.ID, in, opts...)
		case OpUpdate:
			in = r.inputFor(op, &sameObject)
			opts, canary = withCanaries(op.WriteOptionsReusing(r.optCache, log))
			ret, err = r.Col.Update(op.ID, in, opts...)
		case OpDelete:
			opts, canary = withCanaries(op.WriteOptionsReusing(r.optCache, log))
			ret, err = r.Col.Delete(op.ID, opts...)
		}
	}()
	if canary != nil && panicked == nil {
		if cerr := canary(); cerr != nil {
			return fmt.Errorf("%v: %v", op, cerr)
		}
	}
	// the caller may do what it likes with the message it handed in once the call is over
	if in != nil && r.Observe == nil && !sameObject {
		lib.Scribble(in)
	}
	if sameObject {
		r.SameObjectWrites++
		in = nil // the caller got it from a read: it is not the caller's to change, and it is observed as a read result
	}
	c1 := r.Clock.Peek()
	if panicked != nil {
		return fmt.Errorf("%v panicked: %v", op, panicked)
	}
	if r.Observe != nil {
		r.observe("input", in)
		if err == nil {
			r.observe("result", ret)
		}
		if op.Kind == OpGet {
			r.observe("read", ret)
		}
		for _, m := range list {
			r.observe("read", m)
		}
	}
	var out Outcome
	r.prevValue = nil
	if e := r.Model.Items[ValueKey]; r.Cfg.IsValue && e != nil && e.Msg != nil {
		r.prevValue = proto.Clone(e.Msg)
	}
	switch op.Kind {
	case OpGet:
		out = r.Model.Get(op.ID, op.ReadMask)
	case OpList:
		out = r.Model.List(op.ReadMask, IncludeFn(op.Include))
	case OpDelete:
		out = r.Model.Delete(op)
	default:
		out = r.Model.Write(op, log)
	}
	if out.Unspecified {
		r.stopped = true
		r.History = append(r.History, fmt.Sprintf("%v => unspecified (%s), stopped comparing", op, out.Why))
		return ErrStop
	}
	result := "ok"
	if err != nil {
		result = codeOf(err).String()
	}
	r.History = append(r.History, fmt.Sprintf("%v => %s", op, result))
	r.OutcomeKey = append(r.OutcomeKey, op.OptionKey()+"="+result)
	switch op.Kind {
	case OpGet:
		if found != out.Found {
			return fmt.Errorf("%v: found=%v, model says %v", op, found, out.Found)
		}
		if found {
			if e := sameMsg(ret, out.Ret, op.ReadMask); e != nil {
				return fmt.Errorf("%v: %v", op, e)
			}
		}
		return nil
	case OpList:
		return r.compareList(op, list, out)
	}
	// writes
	switch {
	case out.AnyError:
		if err == nil {
			return fmt.Errorf("%v: succeeded, model requires an error (%s)", op, out.Why)
		}
	case out.Code != codes.OK:
		if err == nil {
			return fmt.Errorf("%v: succeeded, model requires %v (%s)", op, out.Code, out.Why)
		}
		if codeOf(err) != out.Code {
			return fmt.Errorf("%v: failed with %v (%v), model requires %v (%s)", op, codeOf(err), err, out.Code, out.Why)
		}
	default:
		if err != nil {
			return fmt.Errorf("%v: failed with %v, model says it succeeds", op, err)
		}
		if out.RetNil {
			if ret != nil {
				return fmt.Errorf("%v: returned %s, model says nothing is returned", op, Txt(ret))
			}
		} else if !proto.Equal(ret, out.Ret) || ret == nil {
			return fmt.Errorf("%v: returned %s, model returns %s (differs at %q)", op, Txt(ret), Txt(out.Ret), diffOrNil(ret, out.Ret))
		}
	}
	if err != nil {
		r.FailedWrites++
	} else {
		r.OKWrites++
	}
	// callbacks
	if err == nil {
		if out.Generated {
			if len(log.IDs) != 1 {
				return fmt.Errorf("%v: id callback invoked %d times (%q), want exactly once", op, len(log.IDs), log.IDs)
			}
			if log.IDs[0] == "" {
				return fmt.Errorf("%v: generated id is empty", op)
			}
			if log.IDs[0] != out.ID {
				return fmt.Errorf("%v: id callback reported %q but the model resolves the id to %q", op, log.IDs[0], out.ID)
			}
		} else if len(log.IDs) != 0 {
			return fmt.Errorf("%v: id callback invoked (%q) although no id was generated", op, log.IDs)
		}
		if op.CreatedCB {
			want := 0
			if out.Created {
				want = 1
			}
			if log.Created != want {
				return fmt.Errorf("%v: created callback invoked %d times, want %d", op, log.Created, want)
			}
		}
	}
	// record times and expected events
	if out.Event != nil {
		be := *out.Event
		if op.WriteTick != 0 {
			be.TickLo, be.TickHi, be.Exact = op.WriteTick, op.WriteTick, true
		} else {
			be.TickLo, be.TickHi = c0, c1
		}
		key := be.ID
		if r.Cfg.IsValue {
			key = ValueKey
		}
		if e := r.Model.Items[key]; e != nil {
			e.TickLo, e.TickHi, e.Exact = be.TickLo, be.TickHi, be.Exact
		}
		r.expect(be)
	}
	return r.compareState(op)
}

// inputFor returns the message handed to the write: a private copy of op.Val or, for SameObject ops, the object an
// unmasked Get returns right now (when it still equals op.Val).
func (r *Runner) inputFor(op Op, same *bool) proto.Message {
	if op.SameObject && op.UpdateMask == nil && r.Cfg.Writable == nil && op.Before != "delta" {
		var got proto.Message
		if r.Cfg.IsValue {
			got = r.Val.Get()
		} else {
			got, _ = r.Col.Get(op.ID)
		}
		if got != nil && proto.Equal(got, op.Val) {
			*same = true
			return got
		}
	}
	return proto.Clone(op.Val)
}

// withCanaries hands the options over the way a caller with a longer option list does: as a sub-slice whose backing
// array goes on with two more options of the caller's. A callee that appends to the slice it was given writes over them;
// the returned check finds out by using them.
func withCanaries(opts []resource.WriteOption) ([]resource.WriteOption, func() error) {
	full := make([]resource.WriteOption, len(opts), len(opts)+2)
	copy(full, opts)
	full = append(full, resource.WithAllowMissing(true), resource.WithAllowMissing(true))
	return full[:len(opts)], func() error {
		for i := len(opts); i < len(full); i++ {
			probe := resource.NewCollection()
			if _, err := probe.Delete("not-there", full[i]); err != nil {
				return fmt.Errorf("the call wrote into the caller's option slice beyond the options it was given (the caller's next option, allow-missing, now makes a delete of an absent id fail with %v)", err)
			}
		}
		return nil
	}
}

func diffOrNil(a, b proto.Message) []string {
	if a == nil || b == nil || !a.ProtoReflect().IsValid() || !b.ProtoReflect().IsValid() || a.ProtoReflect().Descriptor() != b.ProtoReflect().Descriptor() {
		return nil
	}
	return lib.LeafDiff(a, b, 4)
}

func sameMsg(got, want proto.Message, mask *fieldmaskpb.FieldMask) error {
	if (got == nil) != (want == nil) {
		return fmt.Errorf("got %s, model has %s", Txt(got), Txt(want))
	}
	if got == nil {
		return nil
	}
	g, w := got, want
	if mask != nil {
		g = lib.DropEmptyOnPaths(proto.Clone(got), mask)
		w = lib.DropEmptyOnPaths(proto.Clone(want), mask)
	}
	if !proto.Equal(g, w) {
		return fmt.Errorf("got %s, model has %s (differs at %q)", Txt(got), Txt(want), diffOrNil(g, w))
	}
	return nil
}

func (r *Runner) compareList(op Op, list []proto.Message, out Outcome) error {
	if len(list) != len(out.List) {
		return fmt.Errorf("%v: %d items, model has %d (%q)", op, len(list), len(out.List), out.ListIDs)
	}
	for i := range list {
		if e := sameMsg(list[i], out.List[i], op.ReadMask); e != nil {
			return fmt.Errorf("%v: item %d (model id %q): %v (List must be sorted by id)", op, i, out.ListIDs[i], e)
		}
	}
	return nil
}

// IDAlphabet is the id alphabet the state comparison probes besides the model's own ids.
var IDAlphabet = []string{"", "a", "b", "A", "ab", " a"}

// compareState compares the full contents after an op.
func (r *Runner) compareState(after Op) error {
	if r.Cfg.IsValue {
		got := r.Val.Get()
		r.observe("read", got)
		out := r.Model.Get("", nil)
		if (got != nil) != out.Found {
			return fmt.Errorf("after %v: Value.Get()=%s, model found=%v", after, Txt(got), out.Found)
		}
		if out.Found {
			if e := sameMsg(got, out.Ret, nil); e != nil {
				return fmt.Errorf("after %v: contents differ: %v", after, e)
			}
		}
		return nil
	}
	probe := map[string]bool{}
	for _, id := range IDAlphabet {
		probe[id] = true
	}
	for _, id := range r.Model.IDs() {
		probe[id] = true
	}
	ids := make([]string, 0, len(probe))
	for id := range probe {
		ids = append(ids, id)
	}
	sort.Strings(ids)
	for _, id := range ids {
		got, found := r.Col.Get(id)
		r.observe("read", got)
		out := r.Model.Get(id, nil)
		if found != out.Found {
			return fmt.Errorf("after %v: Get(%q) found=%v, model says %v", after, id, found, out.Found)
		}
		if found {
			if e := sameMsg(got, out.Ret, nil); e != nil {
				return fmt.Errorf("after %v: Get(%q): %v", after, id, e)
			}
		}
	}
	return r.compareList(Op{Kind: OpList}, r.Col.List(), r.Model.List(nil, nil))
}

// Finish issues the sentinel write, waits for every consumer and compares the logs with the model's expectations.
func (r *Runner) Finish() error {
	defer func() {
		for _, sr := range r.subs {
			sr.cancel()
		}
	}()
	if len(r.subs) == 0 {
		return nil
	}
	if !r.Cfg.IsValue {
		for i, sr := range r.subs {
			if err := r.compareFilteredList(sr.spec); err != nil {
				return fmt.Errorf("subscription %d %v: %v", i, sr.spec, err)
			}
		}
	}
	st := Epoch.Add(SentinelTick * time.Second)
	if r.Cfg.IsValue {
		s := r.Cfg.Proto.ProtoReflect().New().Interface()
		if cur := r.Val.Get(); cur != nil {
			s = proto.Clone(cur)
		}
		lib.Scribble(s)
		if _, err := r.Val.Set(s, resource.WithWriteTime(st), resource.WithAllFieldsWritable()); err != nil {
			return fmt.Errorf("sentinel write failed: %v", err)
		}
	} else {
		s := r.Cfg.Proto.ProtoReflect().New().Interface()
		lib.Scribble(s)
		if _, err := r.Col.Update(SentinelID, s, resource.WithCreateIfAbsent(), resource.WithWriteTime(st), resource.WithAllFieldsWritable()); err != nil {
			return fmt.Errorf("sentinel write failed: %v", err)
		}
	}
	for i, sr := range r.subs {
		if sr.cancelled {
			continue
		}
		<-sr.done
		sr.mu.Lock()
		got, timedOut, closed := sr.got, sr.timedOut, sr.closed
		sr.mu.Unlock()
		if closed {
			return fmt.Errorf("subscription %d %v: stream closed although its context is live", i, sr.spec)
		}
		if timedOut {
			return fmt.Errorf("subscription %d %v: the sentinel write was not delivered within %v (an event was lost or the stream stalled); received %d events, expected %d", i, sr.spec, WaitBound, len(got), len(sr.want))
		}
		if sr.undetermined {
			continue
		}
		if !r.Cfg.IsValue {
			if err := r.compareFold(got, sr.spec); err != nil {
				return fmt.Errorf("subscription %d %v: %v", i, sr.spec, err)
			}
		}
		if !sr.spec.Backpressure {
			continue // lossy delivery: only the folded view is fixed
		}
		if err := compareEvents(got, sr.want, sr.spec, r.Cfg.IsValue); err != nil {
			return fmt.Errorf("subscription %d %v: %v", i, sr.spec, err)
		}
	}
	return nil
}

func compareEvents(got []GotEvent, want []ExpEvent, spec SubSpec, isValue bool) error {
	render := func() string {
		var sb strings.Builder
		sb.WriteString("\n  received:")
		for _, g := range got {
			sb.WriteString("\n    " + g.String())
		}
		sb.WriteString("\n  expected:")
		for _, w := range want {
			sb.WriteString("\n    " + w.GotEvent.String())
		}
		return sb.String()
	}
	if len(got) != len(want) {
		return fmt.Errorf("received %d events, expected %d%s", len(got), len(want), render())
	}
	for i := range got {
		g, w := got[i], want[i]
		if g.ID != w.ID || g.Kind != w.Kind || g.Seed != w.Seed || g.LastSeed != w.LastSeed {
			return fmt.Errorf("event %d is [%v], expected [%v]%s", i, g, w.GotEvent, render())
		}
		if e := sameMsg(g.New, w.New, spec.ReadMask); e != nil {
			return fmt.Errorf("event %d new value: %v%s", i, e, render())
		}
		if !isValue {
			if e := sameMsg(g.Old, w.Old, spec.ReadMask); e != nil {
				return fmt.Errorf("event %d old value: %v%s", i, e, render())
			}
		}
		if w.Exact {
			if g.Tick != w.TickHi {
				return fmt.Errorf("event %d change time T%d, expected exactly T%d%s", i, g.Tick, w.TickHi, render())
			}
		} else if g.Tick <= w.TickLo || g.Tick > w.TickHi {
			// REMOVE events read the clock inside the call as well
			return fmt.Errorf("event %d change time T%d, expected within (T%d,T%d]%s", i, g.Tick, w.TickLo, w.TickHi, render())
		}
	}
	return nil
}

// compareFold folds the received events (seed first) into a view and compares it with List under the same
// predicate and read mask, both as the real collection and as the model report it. For updates-only subscriptions
// the view only knows the items that changed since subscribing, so only those ids are compared.
func (r *Runner) compareFold(got []GotEvent, spec SubSpec) error {
	view := map[string]proto.Message{}
	touched := map[string]bool{}
	for i, g := range got {
		touched[g.ID] = true
		switch g.Kind {
		case types.ChangeType_ADD, types.ChangeType_UPDATE, types.ChangeType_REPLACE:
			if g.New == nil {
				return fmt.Errorf("event %d [%v] has no new value", i, g)
			}
			view[g.ID] = g.New
		case types.ChangeType_REMOVE:
			delete(view, g.ID)
		default:
			return fmt.Errorf("event %d [%v] has an unexpected change type", i, g)
		}
	}
	want := r.Model.List(spec.ReadMask, spec.Include)
	var ropts []resource.ReadOption
	if spec.ReadMask != nil {
		ropts = append(ropts, resource.WithReadMask(lib.CloneMask(spec.ReadMask)))
	}
	if spec.Include != nil {
		ropts = append(ropts, resource.WithInclude(resource.FilterFunc(spec.Include)))
	}
	_ = ropts
	wantByID := map[string]proto.Message{}
	for i, id := range want.ListIDs {
		wantByID[id] = want.List[i]
	}
	ids := map[string]bool{}
	for id := range view {
		ids[id] = true
	}
	for id := range wantByID {
		if !spec.UpdatesOnly || touched[id] {
			ids[id] = true
		}
	}
	var diffs []string
	for id := range ids {
		v, inView := view[id]
		w, inWant := wantByID[id]
		switch {
		case inView && !inWant:
			diffs = append(diffs, fmt.Sprintf("view has %q=%s but List does not", id, Txt(v)))
		case !inView && inWant:
			diffs = append(diffs, fmt.Sprintf("List has %q=%s but the view does not", id, Txt(w)))
		case inView && inWant:
			if e := sameMsg(v, w, spec.ReadMask); e != nil {
				diffs = append(diffs, fmt.Sprintf("item %q: view %v", id, e))
			}
		}
	}
	if len(diffs) > 0 {
		sort.Strings(diffs)
		var sb strings.Builder
		for _, g := range got {
			sb.WriteString("\n    " + g.String())
		}
		return fmt.Errorf("folding the received events does not give List: %s\n  received:%s", strings.Join(diffs, "; "), sb.String())
	}
	return nil
}

// compareFilteredList compares List under the subscription's predicate and mask with the model (before the sentinel exists).
func (r *Runner) compareFilteredList(spec SubSpec) error {
	want := r.Model.List(spec.ReadMask, spec.Include)
	var ropts []resource.ReadOption
	if spec.ReadMask != nil {
		ropts = append(ropts, resource.WithReadMask(lib.CloneMask(spec.ReadMask)))
	}
	if spec.Include != nil {
		ropts = append(ropts, resource.WithInclude(resource.FilterFunc(spec.Include)))
	}
	got := r.Col.List(ropts...)
	if len(got) != len(want.List) {
		return fmt.Errorf("List(include=%s) has %d items, model has %d (%q)", spec.IncludeName, len(got), len(want.List), want.ListIDs)
	}
	for i := range got {
		if e := sameMsg(got[i], want.List[i], spec.ReadMask); e != nil {
			return fmt.Errorf("List(include=%s) item %q: %v", spec.IncludeName, want.ListIDs[i], e)
		}
	}
	return nil
}
