package rlib

import (
	"encoding/base64"
	"sort"

	"google.golang.org/grpc/codes"
	"google.golang.org/protobuf/proto"
	"google.golang.org/protobuf/types/known/fieldmaskpb"

	"github.com/smart-core-os/sc-api/go/types"

	"github.com/smart-core-os/sc-golang/verifh/lib"
)

// Entry is a stored item of the reference store.
type Entry struct {
	Msg proto.Message
	// the stored change time lies in (TickLo, TickHi] (ticks of the fake clock), or equals TickHi when Exact.
	TickLo, TickHi int64
	Exact          bool
}

// Store is the plain sequential reference model: a register (IsValue) or an id->message map.
type Store struct {
	IsValue     bool
	Proto       proto.Message
	Writable    *fieldmaskpb.FieldMask
	Interceptor func(string) string
	StaticRNG   *StaticRNG // when set, generated ids are predicted exactly
	Items       map[string]*Entry
}

// ValueKey is the key under which a Value's message is kept in Items.
const ValueKey = "\x00value"

// BaseEvent is the change a successful write produces, before any per-subscription transformation.
type BaseEvent struct {
	ID             string
	Kind           types.ChangeType
	Old, New       proto.Message
	TickLo, TickHi int64
	Exact          bool
}

// Outcome is what the reference model says about one call.
type Outcome struct {
	Code        codes.Code // codes.OK on success
	AnyError    bool       // some error of any code is required
	Unspecified bool       // the contract does not fix the outcome: the runner stops comparing
	Why         string
	Ret         proto.Message // message returned by a successful call (nil: nothing / not compared)
	RetNil      bool          // a successful call returns (nil, nil) (Delete with allow-missing)
	Event       *BaseEvent
	Created     bool
	ID          string // resolved id
	Generated   bool
	Found       bool            // Get
	List        []proto.Message // List
	ListIDs     []string
}

func (s *Store) intercept(id string) string {
	if s.Interceptor != nil {
		return s.Interceptor(id)
	}
	return id
}

// IDs returns the stored ids in ascending byte order.
func (s *Store) IDs() []string {
	ids := make([]string, 0, len(s.Items))
	for id := range s.Items {
		ids = append(ids, id)
	}
	sort.Strings(ids)
	return ids
}

// Clone deep copies the store (messages are cloned).
func (s *Store) Clone() *Store {
	c := *s
	c.Items = make(map[string]*Entry, len(s.Items))
	for k, v := range s.Items {
		e := *v
		if e.Msg != nil {
			e.Msg = proto.Clone(e.Msg)
		}
		c.Items[k] = &e
	}
	return &c
}

// Get models Value.Get / Collection.Get.
func (s *Store) Get(id string, readMask *fieldmaskpb.FieldMask) Outcome {
	if s.IsValue {
		e := s.Items[ValueKey]
		if e == nil || e.Msg == nil {
			return Outcome{Found: false}
		}
		return Outcome{Found: true, Ret: lib.RefProject(e.Msg, readMask)}
	}
	id = s.intercept(id)
	e, ok := s.Items[id]
	if !ok {
		return Outcome{Found: false, ID: id}
	}
	return Outcome{Found: true, ID: id, Ret: lib.RefProject(e.Msg, readMask)}
}

// List models Collection.List.
func (s *Store) List(readMask *fieldmaskpb.FieldMask, include func(id string, m proto.Message) bool) Outcome {
	var o Outcome
	for _, id := range s.IDs() {
		e := s.Items[id]
		if include != nil && !include(id, e.Msg) {
			continue
		}
		o.List = append(o.List, lib.RefProject(e.Msg, readMask))
		o.ListIDs = append(o.ListIDs, id)
	}
	return o
}

func unionMask(a, b *fieldmaskpb.FieldMask) *fieldmaskpb.FieldMask {
	if a == nil {
		return nil
	}
	out := &fieldmaskpb.FieldMask{Paths: append([]string(nil), a.Paths...)}
	if b != nil {
		out.Paths = append(out.Paths, b.Paths...)
	}
	return out
}

// Spec computes the effective mask configuration of a write.
func (s *Store) Spec(op Op) lib.UpdateSpec {
	var w *fieldmaskpb.FieldMask
	if !op.AllWritable && s.Writable != nil {
		w = &fieldmaskpb.FieldMask{Paths: append([]string(nil), s.Writable.Paths...)}
		if op.MoreWritable != nil {
			w.Paths = append(w.Paths, op.MoreWritable.Paths...)
		}
		if op.MoreWritable2 != nil {
			w.Paths = append(w.Paths, op.MoreWritable2.Paths...)
		}
	}
	return lib.UpdateSpec{UpdateMask: unionMask(op.UpdateMask, op.MoreUpdateMask), Writable: w, ResetMask: op.ResetMask, PathByPath: op.MoreUpdateMask == nil}
}

// staticCandidates lists the ids GenerateUniqueId tries with a StaticRNG.
func staticCandidates(b byte) []string {
	var out []string
	for i := 0; i < 10; i++ {
		r := make([]byte, 6+i)
		for j := range r {
			r[j] = b
		}
		out = append(out, base64.RawURLEncoding.EncodeToString(r))
	}
	return out
}

// Write models Value.Set, Collection.Add/Update. log is what the real call's callbacks recorded (used to adopt a
// generated id when it cannot be predicted). val is the message as passed by the caller (before interceptors ran).
func (s *Store) Write(op Op, log *CallLog) Outcome {
	md := op.Val.ProtoReflect().Descriptor()
	spec := s.Spec(op)
	switch v, why := spec.Classify(md); v {
	case lib.MustRejectInvalidArgument:
		return Outcome{Code: codes.InvalidArgument, Why: why}
	case lib.MustRejectAny:
		return Outcome{AnyError: true, Why: why}
	case lib.Unspecified:
		return Outcome{Unspecified: true, Why: why}
	}
	var o Outcome
	var old proto.Message // nil: nothing stored
	key := ValueKey
	expectAbsent, createIfAbsent := op.ExpectAbsent, op.CreateIfAbsent
	if op.Kind == OpAdd {
		expectAbsent, createIfAbsent = true, true
	}
	if !s.IsValue {
		id := s.intercept(op.ID)
		if id == "" && op.GenID {
			o.Generated = true
			if s.StaticRNG != nil {
				found := false
				for _, c := range staticCandidates(s.StaticRNG.B) {
					if _, exists := s.Items[s.intercept(c)]; !exists {
						id, found = s.intercept(c), true
						break
					}
				}
				if !found {
					return Outcome{Code: codes.Aborted, Why: "id generation exhausted", Generated: true}
				}
			} else {
				if log == nil || len(log.IDs) == 0 {
					return Outcome{Unspecified: true, Why: "generated id not reported"}
				}
				id = log.IDs[0]
			}
		}
		key = id
		o.ID = id
		e, exists := s.Items[id]
		switch {
		case exists && expectAbsent:
			o.Code, o.Why = codes.AlreadyExists, "expect absent but exists"
			return o
		case exists:
			old = e.Msg
		case !createIfAbsent:
			o.Code, o.Why = codes.NotFound, "absent and not create-if-absent"
			return o
		default:
			o.Created = true
		}
	} else if e := s.Items[ValueKey]; e != nil {
		old = e.Msg
	}
	// what the preconditions and interceptors see as "old": on create an empty message; for an unset Value nil
	seenOld := old
	if o.Created {
		seenOld = op.Val.ProtoReflect().New().Interface()
	}
	if op.Expected != nil && !proto.Equal(seenOld, op.Expected) {
		o.Code, o.Why = codes.FailedPrecondition, "expected value differs"
		o.Created = false
		return o
	}
	if op.Check != "" {
		if err := checkFn(op.Check)(seenOld); err != nil {
			o.Code, o.Why = statusCode(err), "expected check refused"
			o.Created = false
			return o
		}
	}
	written := proto.Clone(op.Val)
	if op.Before == "delta" {
		beforeDelta(seenOld, written)
	}
	base := seenOld
	newMsg := lib.RefUpdate(base, written, spec)
	if op.After == "derive" {
		afterDerive(seenOld, newMsg)
	}
	kind := types.ChangeType_UPDATE
	var evOld proto.Message
	if !s.IsValue {
		if old == nil {
			kind = types.ChangeType_ADD
		} else {
			evOld = proto.Clone(old)
		}
	}
	s.Items[key] = &Entry{Msg: newMsg}
	o.Ret = proto.Clone(newMsg)
	o.Event = &BaseEvent{ID: o.ID, Kind: kind, Old: evOld, New: proto.Clone(newMsg)}
	return o
}

// Delete models Collection.Delete.
func (s *Store) Delete(op Op) Outcome {
	id := s.intercept(op.ID)
	o := Outcome{ID: id}
	e, exists := s.Items[id]
	if !exists {
		if op.AllowMissing {
			o.RetNil = true
			return o
		}
		o.Code = codes.NotFound
		return o
	}
	if op.Check != "" {
		if err := checkFn(op.Check)(e.Msg); err != nil {
			o.Code, o.Why = statusCode(err), "expected check refused"
			return o
		}
	}
	if op.Expected != nil && !proto.Equal(e.Msg, op.Expected) {
		o.Code, o.Why = codes.FailedPrecondition, "expected value differs"
		return o
	}
	delete(s.Items, id)
	o.Ret = proto.Clone(e.Msg)
	o.Event = &BaseEvent{ID: id, Kind: types.ChangeType_REMOVE, Old: proto.Clone(e.Msg)}
	return o
}
