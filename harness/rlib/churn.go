package rlib

import (
	"context"
	"fmt"
	"sync"
	"sync/atomic"
	"time"

	"google.golang.org/protobuf/proto"

	"github.com/smart-core-os/sc-golang/internal/testproto"
	"github.com/smart-core-os/sc-golang/pkg/resource"
)

// ChurnConfig describes one subscriber-churn run: a single writer writes the numbers 0..Writes-1 (as field c of a
// ForeignMessage) to a Value or to one item of a Collection while Churners subscribers keep joining and leaving.
type ChurnConfig struct {
	IsValue      bool
	Backpressure bool
	Writes       int
	Churners     int
	Lifetimes    []int // how long (in writes) a subscriber stays, cycled through
	// Writers > 1: that many concurrent writers (backpressure only): writer w writes the numbers w*writerBase+j. A write
	// that loses a race (Aborted) produces no event. Order between different writers' events is not judged (it is the
	// subject of a recorded C03 finding); that nothing is dropped or duplicated is.
	Writers int
}

const writerBase = 1_000_000

// RunChurn returns a description of the first violation, or "".
//
// A subscriber whose Pull call returned before write number b began, and which cancels only after write number e-1 has
// returned, is subscribed for the whole of every write in [b, e). With backpressure it must have received exactly one
// event for each of them, in order; without, it must (be able to) receive the most recent one, e-1, before it leaves.
func RunChurn(c ChurnConfig) (problem string, joins int64) {
	var val *resource.Value
	var col *resource.Collection
	if c.IsValue {
		val = resource.NewValue(resource.WithInitialValue(&testproto.ForeignMessage{C: -1}))
	} else {
		col = resource.NewCollection(resource.WithInitialRecord("x", &testproto.ForeignMessage{C: -1}))
	}
	var begun, ended atomic.Int64
	stop := make(chan struct{})
	var mu sync.Mutex
	report := func(format string, a ...any) {
		mu.Lock()
		if problem == "" {
			problem = fmt.Sprintf(format, a...)
		}
		mu.Unlock()
	}
	var nj atomic.Int64
	var wg sync.WaitGroup
	for ci := 0; ci < c.Churners; ci++ {
		ci := ci
		wg.Add(1)
		go func() {
			defer wg.Done()
			for round := 0; ; round++ {
				select {
				case <-stop:
					return
				default:
				}
				ctx, cancel := context.WithCancel(context.Background())
				// events as (number, seed?) pairs
				recv := make(chan [2]int64, 4096)
				recvDone := make(chan struct{})
				opts := []resource.ReadOption{resource.WithBackpressure(c.Backpressure)}
				if c.IsValue {
					ch := val.Pull(ctx, opts...)
					go func() {
						defer close(recvDone)
						for e := range ch {
							seed := int64(0)
							if e.SeedValue {
								seed = 1
							}
							recv <- [2]int64{int64(e.Value.(*testproto.ForeignMessage).C), seed}
						}
					}()
				} else {
					ch := col.Pull(ctx, opts...)
					go func() {
						defer close(recvDone)
						for e := range ch {
							seed := int64(0)
							if e.SeedValue {
								seed = 1
							}
							var nv proto.Message = e.NewValue
							if nv == nil {
								continue
							}
							recv <- [2]int64{int64(nv.(*testproto.ForeignMessage).C), seed}
						}
					}()
				}
				b := begun.Load() // writes numbered >= b begin after Pull has returned
				nj.Add(1)
				var got []int64
				drain := func() {
					for {
						select {
						case p := <-recv:
							if p[1] == 0 {
								got = append(got, p[0])
							}
						default:
							return
						}
					}
				}
				stay := int64(c.Lifetimes[(ci+round)%len(c.Lifetimes)])
			waiting:
				for ended.Load() < b+stay {
					select {
					case <-stop:
						break waiting
					default:
						time.Sleep(5 * time.Microsecond)
						drain()
					}
				}
				e := ended.Load() // writes numbered < e returned before the cancel below
				if e > b {
					// the most recent value must (be able to) arrive while we keep receiving; cancelling earlier would
					// forfeit what is still on its way through the forwarding goroutines
					deadline := time.Now().Add(5 * time.Second)
					for {
						drain()
						if len(got) > 0 && got[len(got)-1] >= e-1 {
							break
						}
						if time.Now().After(deadline) {
							report("churner %d round %d (backpressure=%v): subscribed before write %d began, write %d has returned, but after 5s of receiving the latest value it has is %v (events: %d)", ci, round, c.Backpressure, b, e-1, lastOf(got), len(got))
							break
						}
						time.Sleep(20 * time.Microsecond)
					}
				}
				cancel()
				select {
				case <-recvDone:
				case <-time.After(10 * time.Second):
					report("churner %d round %d: channel not closed within 10s of its cancel", ci, round)
					return
				}
				drain()
				for i := 1; i < len(got); i++ {
					if got[i] < got[i-1] {
						report("churner %d round %d: write %d delivered after write %d", ci, round, got[i], got[i-1])
					}
				}
				if c.Backpressure {
					idx := map[int64]int{}
					for i, s := range got {
						if j, dup := idx[s]; dup && s >= b {
							report("churner %d round %d: write %d delivered twice (positions %d and %d)", ci, round, s, j, i)
						}
						idx[s] = i
					}
					for s := b; s < e; s++ {
						if _, ok := idx[s]; !ok {
							report("churner %d round %d (backpressure): subscribed before write %d began and left after write %d had returned, but the event of write %d never reached it (%d events received)", ci, round, b, e-1, s, len(got))
							break
						}
					}
				}
			}
		}()
	}
	for k := 0; k < c.Writes; k++ {
		begun.Add(1)
		var err error
		if c.IsValue {
			_, err = val.Set(&testproto.ForeignMessage{C: int32(k)})
		} else {
			_, err = col.Update("x", &testproto.ForeignMessage{C: int32(k)})
		}
		ended.Add(1)
		if err != nil {
			report("write %d failed: %v", k, err)
			break
		}
		mu.Lock()
		failed := problem != ""
		mu.Unlock()
		if failed {
			break
		}
	}
	close(stop)
	wg.Wait()
	return problem, nj.Load()
}

func lastOf(s []int64) any {
	if len(s) == 0 {
		return "none"
	}
	return s[len(s)-1]
}

// RunChurnWriters is RunChurn for several concurrent writers and backpressured subscribers: every successful write that
// began after a subscriber's Pull call returned and returned before the subscriber cancelled must have reached that
// subscriber exactly once; each writer's own events arrive in that writer's order.
func RunChurnWriters(c ChurnConfig) (problem string, joins int64) {
	if c.Writers < 2 {
		return RunChurn(c)
	}
	var val *resource.Value
	var col *resource.Collection
	if c.IsValue {
		val = resource.NewValue(resource.WithInitialValue(&testproto.ForeignMessage{C: -1}))
	} else {
		col = resource.NewCollection(resource.WithInitialRecord("x", &testproto.ForeignMessage{C: -1}))
	}
	begun := make([]atomic.Int64, c.Writers)
	ended := make([]atomic.Int64, c.Writers)
	var total atomic.Int64
	// ok[w][j]: did write j of writer w succeed (written before ended[w] moves past j)
	ok := make([][]atomic.Bool, c.Writers)
	for w := range ok {
		ok[w] = make([]atomic.Bool, c.Writes)
	}
	stop := make(chan struct{})
	var mu sync.Mutex
	report := func(format string, a ...any) {
		mu.Lock()
		if problem == "" {
			problem = fmt.Sprintf(format, a...)
		}
		mu.Unlock()
	}
	failed := func() bool { mu.Lock(); defer mu.Unlock(); return problem != "" }
	var nj atomic.Int64
	var subsWG, writersWG sync.WaitGroup
	for ci := 0; ci < c.Churners; ci++ {
		ci := ci
		subsWG.Add(1)
		go func() {
			defer subsWG.Done()
			for round := 0; ; round++ {
				select {
				case <-stop:
					return
				default:
				}
				ctx, cancel := context.WithCancel(context.Background())
				recv := make(chan int64, 8192)
				recvDone := make(chan struct{})
				if c.IsValue {
					ch := val.Pull(ctx, resource.WithBackpressure(true), resource.WithUpdatesOnly(true))
					go func() {
						defer close(recvDone)
						for e := range ch {
							recv <- int64(e.Value.(*testproto.ForeignMessage).C)
						}
					}()
				} else {
					ch := col.Pull(ctx, resource.WithBackpressure(true), resource.WithUpdatesOnly(true))
					go func() {
						defer close(recvDone)
						for e := range ch {
							if e.NewValue != nil {
								recv <- int64(e.NewValue.(*testproto.ForeignMessage).C)
							}
						}
					}()
				}
				b := make([]int64, c.Writers)
				for w := range b {
					b[w] = begun[w].Load()
				}
				t0 := total.Load()
				nj.Add(1)
				seen := map[int64]int{}
				var order []int64
				drain := func() {
					for {
						select {
						case v := <-recv:
							seen[v]++
							order = append(order, v)
						default:
							return
						}
					}
				}
				stay := int64(c.Lifetimes[(ci+round)%len(c.Lifetimes)])
			waiting:
				for total.Load() < t0+stay {
					select {
					case <-stop:
						break waiting
					default:
						time.Sleep(5 * time.Microsecond)
						drain()
					}
				}
				e := make([]int64, c.Writers)
				for w := range e {
					e[w] = ended[w].Load()
				}
				// wait (bounded) until everything owed has arrived, then leave
				owed := func() (int, int64) {
					missing, example := 0, int64(-1)
					for w := 0; w < c.Writers; w++ {
						for j := b[w]; j < e[w]; j++ {
							if ok[w][j].Load() && seen[int64(w)*writerBase+j] == 0 {
								missing++
								example = int64(w)*writerBase + j
							}
						}
					}
					return missing, example
				}
				deadline := time.Now().Add(5 * time.Second)
				for {
					drain()
					missing, example := owed()
					if missing == 0 {
						break
					}
					if time.Now().After(deadline) {
						report("churner %d round %d (backpressure, %d writers): %d successful write(s) that began after it subscribed and returned before it left never reached it, e.g. writer %d's write %d (%d events received)", ci, round, c.Writers, missing, example/writerBase, example%writerBase, len(order))
						break
					}
					time.Sleep(20 * time.Microsecond)
				}
				cancel()
				select {
				case <-recvDone:
				case <-time.After(10 * time.Second):
					report("churner %d round %d: channel not closed within 10s of its cancel", ci, round)
					return
				}
				drain()
				lastOfWriter := map[int64]int64{}
				for _, v := range order {
					w, j := v/writerBase, v%writerBase
					if v < 0 {
						continue
					}
					if seen[v] > 1 && j >= b[w] {
						report("churner %d round %d: writer %d's write %d delivered %d times", ci, round, w, j, seen[v])
					}
					if prev, okp := lastOfWriter[w]; okp && j < prev {
						report("churner %d round %d: writer %d's write %d delivered after its write %d", ci, round, w, j, prev)
					}
					lastOfWriter[w] = j
				}
				if failed() {
					return
				}
			}
		}()
	}
	for w := 0; w < c.Writers; w++ {
		w := w
		writersWG.Add(1)
		go func() {
			defer writersWG.Done()
			for j := 0; j < c.Writes && !failed(); j++ {
				begun[w].Add(1)
				var err error
				msg := &testproto.ForeignMessage{C: int32(int64(w)*writerBase + int64(j))}
				if c.IsValue {
					_, err = val.Set(msg)
				} else {
					_, err = col.Update("x", msg)
				}
				ok[w][j].Store(err == nil)
				ended[w].Add(1)
				total.Add(1)
			}
		}()
	}
	writersWG.Wait()
	close(stop)
	subsWG.Wait()
	return problem, nj.Load()
}
