package rlib

import (
	"fmt"
	"strings"
	"time"

	"google.golang.org/grpc/codes"
	"google.golang.org/grpc/status"
	"google.golang.org/protobuf/encoding/prototext"
	"google.golang.org/protobuf/proto"
	"google.golang.org/protobuf/reflect/protoreflect"
	"google.golang.org/protobuf/types/known/fieldmaskpb"

	"github.com/smart-core-os/sc-golang/pkg/resource"
	"github.com/smart-core-os/sc-golang/verifh/lib"
)

// Txt renders a message on one line.
func Txt(m proto.Message) string {
	if m == nil {
		return "<nil>"
	}
	if !m.ProtoReflect().IsValid() {
		return "<typed nil>"
	}
	s := prototext.MarshalOptions{Multiline: false}.Format(m)
	if len(s) > 400 {
		s = s[:400] + "...(+" + fmt.Sprint(len(s)-400) + " chars)"
	}
	return "{" + s + "}"
}

// OpKind names an API call.
type OpKind string

const (
	OpGet    OpKind = "Get"
	OpList   OpKind = "List"
	OpSet    OpKind = "Set" // Value.Set
	OpAdd    OpKind = "Add"
	OpUpdate OpKind = "Update"
	OpDelete OpKind = "Delete"
)

// Op is one call with its options. Masks are nil when the option is not given.
type Op struct {
	Kind OpKind
	ID   string
	Val  proto.Message

	UpdateMask     *fieldmaskpb.FieldMask
	MoreUpdateMask *fieldmaskpb.FieldMask
	ResetMask      *fieldmaskpb.FieldMask
	MoreWritable   *fieldmaskpb.FieldMask
	AllWritable    bool

	Expected      proto.Message // WithExpectedValue
	ExpectedLabel string        // how it was chosen (log only)
	Check         string        // "", "accept", "reject:<code>", "counter=<n>"
	ExpectAbsent  bool
	CreateIfAbsent bool
	AllowMissing  bool
	GenID         bool // WithGenIDIfAbsent + WithIDCallback
	CreatedCB     bool
	Before        string // "", "delta", "noop"
	After         string // "", "derive", "noop"
	WriteTick     int64 // >0: WithWriteTime(Epoch+tick)

	ReadMask *fieldmaskpb.FieldMask
	Include  string // List only: "", "id<b", "counter-odd", "has-derived" (see IncludeFn)
}

// IncludeFn returns the named List predicate over (id, stored message); the predicates look at the id, at the counter
// field and at the derived string field so that a read mask can hide what they inspect.
func IncludeFn(name string) func(id string, m proto.Message) bool {
	switch name {
	case "id<b":
		return func(id string, _ proto.Message) bool { return id < "b" }
	case "counter-odd":
		return func(_ string, m proto.Message) bool { return GetCounter(m)%2 != 0 }
	case "has-derived":
		return func(_ string, m proto.Message) bool {
			if m == nil || !m.ProtoReflect().IsValid() {
				return false
			}
			fd := DerivedField(m.ProtoReflect().Descriptor())
			return fd != nil && m.ProtoReflect().Get(fd).String() != ""
		}
	}
	return nil
}

func (o Op) String() string {
	var sb strings.Builder
	fmt.Fprintf(&sb, "%s", o.Kind)
	if o.Kind != OpSet && o.Kind != OpList {
		fmt.Fprintf(&sb, "(%q)", o.ID)
	}
	if o.Val != nil {
		fmt.Fprintf(&sb, " val=%s", Txt(o.Val))
	}
	opt := func(name string, m *fieldmaskpb.FieldMask) {
		if m != nil {
			fmt.Fprintf(&sb, " %s=%s", name, lib.MaskString(m))
		}
	}
	opt("updateMask", o.UpdateMask)
	opt("moreUpdateMask", o.MoreUpdateMask)
	opt("resetMask", o.ResetMask)
	opt("moreWritable", o.MoreWritable)
	opt("readMask", o.ReadMask)
	if o.Include != "" {
		fmt.Fprintf(&sb, " include=%s", o.Include)
	}
	if o.AllWritable {
		sb.WriteString(" allWritable")
	}
	if o.Expected != nil {
		fmt.Fprintf(&sb, " expected(%s)=%s", o.ExpectedLabel, Txt(o.Expected))
	}
	if o.Check != "" {
		fmt.Fprintf(&sb, " check=%s", o.Check)
	}
	for _, f := range []struct {
		b bool
		n string
	}{{o.ExpectAbsent, "expectAbsent"}, {o.CreateIfAbsent, "createIfAbsent"}, {o.AllowMissing, "allowMissing"}, {o.GenID, "genID+idCallback"}, {o.CreatedCB, "createdCallback"}} {
		if f.b {
			sb.WriteString(" " + f.n)
		}
	}
	if o.Before != "" {
		fmt.Fprintf(&sb, " before=%s", o.Before)
	}
	if o.After != "" {
		fmt.Fprintf(&sb, " after=%s", o.After)
	}
	if o.WriteTick > 0 {
		fmt.Fprintf(&sb, " writeTime=T%d", o.WriteTick)
	}
	return sb.String()
}

// OptionKey summarises which options are used (for classification).
func (o Op) OptionKey() string {
	var k []string
	add := func(b bool, s string) {
		if b {
			k = append(k, s)
		}
	}
	add(o.UpdateMask != nil, "um")
	add(o.MoreUpdateMask != nil, "mum")
	add(o.ResetMask != nil, "rm")
	add(o.MoreWritable != nil, "mw")
	add(o.AllWritable, "aw")
	add(o.Expected != nil, "ev")
	add(o.Check != "", "ec")
	add(o.ExpectAbsent, "ea")
	add(o.CreateIfAbsent, "cia")
	add(o.AllowMissing, "am")
	add(o.GenID, "gen")
	add(o.CreatedCB, "ccb")
	add(o.Before != "", "ib")
	add(o.After != "", "ia")
	add(o.WriteTick > 0, "wt")
	add(o.Include != "", "inc")
	return string(o.Kind) + "[" + strings.Join(k, ",") + "]"
}

// NumOptions counts the options in use.
func (o Op) NumOptions() int {
	k := o.OptionKey()
	i := strings.Index(k, "[")
	if k[i:] == "[]" {
		return 0
	}
	return strings.Count(k, ",") + 1
}

// ---------------------------------------------------------------------------------------------------------------------
// counter field helpers: interceptors and checks act on the first singular numeric top level field of the type.

// CounterField returns that field or nil.
func CounterField(md protoreflect.MessageDescriptor) protoreflect.FieldDescriptor {
	fields := md.Fields()
	for i := 0; i < fields.Len(); i++ {
		fd := fields.Get(i)
		if fd.IsList() || fd.IsMap() || fd.ContainingOneof() != nil {
			continue
		}
		switch fd.Kind() {
		case protoreflect.Int32Kind, protoreflect.Int64Kind, protoreflect.FloatKind, protoreflect.DoubleKind:
			return fd
		}
	}
	return nil
}

// DerivedField returns a singular string field used by the "derive" after-interceptor, or nil.
func DerivedField(md protoreflect.MessageDescriptor) protoreflect.FieldDescriptor {
	fields := md.Fields()
	for i := 0; i < fields.Len(); i++ {
		fd := fields.Get(i)
		if fd.IsList() || fd.IsMap() || fd.ContainingOneof() != nil {
			continue
		}
		if fd.Kind() == protoreflect.StringKind {
			return fd
		}
	}
	return nil
}

// GetCounter reads the counter field (0 for nil/invalid messages or types without one).
func GetCounter(m proto.Message) int64 {
	if m == nil || !m.ProtoReflect().IsValid() {
		return 0
	}
	fd := CounterField(m.ProtoReflect().Descriptor())
	if fd == nil {
		return 0
	}
	v := m.ProtoReflect().Get(fd)
	switch fd.Kind() {
	case protoreflect.FloatKind, protoreflect.DoubleKind:
		return int64(v.Float())
	}
	return v.Int()
}

// SetCounter writes the counter field.
func SetCounter(m proto.Message, n int64) {
	fd := CounterField(m.ProtoReflect().Descriptor())
	if fd == nil {
		return
	}
	switch fd.Kind() {
	case protoreflect.Int32Kind:
		m.ProtoReflect().Set(fd, protoreflect.ValueOfInt32(int32(n)))
	case protoreflect.Int64Kind:
		m.ProtoReflect().Set(fd, protoreflect.ValueOfInt64(n))
	case protoreflect.FloatKind:
		m.ProtoReflect().Set(fd, protoreflect.ValueOfFloat32(float32(n)))
	case protoreflect.DoubleKind:
		m.ProtoReflect().Set(fd, protoreflect.ValueOfFloat64(float64(n)))
	}
}

// beforeDelta is the documented delta pattern: change.counter += old.counter.
func beforeDelta(old, change proto.Message) {
	SetCounter(change, GetCounter(change)+GetCounter(old))
}

// afterDerive sets a derived string field from the counter of the new value (like an update time / summary).
func afterDerive(old, new proto.Message) {
	fd := DerivedField(new.ProtoReflect().Descriptor())
	if fd == nil {
		return
	}
	new.ProtoReflect().Set(fd, protoreflect.ValueOfString(fmt.Sprintf("derived:%d<-%d", GetCounter(new), GetCounter(old))))
}

// checkFn builds the expected-check function for a spec; it only reads old.
func checkFn(spec string) func(old proto.Message) error {
	switch {
	case spec == "accept":
		return func(proto.Message) error { return nil }
	case strings.HasPrefix(spec, "reject:"):
		var code codes.Code
		_ = code.UnmarshalJSON([]byte(`"` + strings.TrimPrefix(spec, "reject:") + `"`))
		return func(proto.Message) error { return status.Error(code, "check refused") }
	case strings.HasPrefix(spec, "counter="):
		var n int64
		fmt.Sscanf(spec, "counter=%d", &n)
		return func(old proto.Message) error {
			if GetCounter(old) != n {
				return status.Errorf(codes.OutOfRange, "counter is %d not %d", GetCounter(old), n)
			}
			return nil
		}
	}
	return nil
}

// CallLog records what the callbacks of one call observed.
type CallLog struct {
	IDs       []string
	Created   int
	BeforeOld []proto.Message
}

// WriteOptions translates the op into resource write options; callbacks record into log.
func (o Op) WriteOptions(log *CallLog) []resource.WriteOption {
	var opts []resource.WriteOption
	if o.UpdateMask != nil {
		opts = append(opts, resource.WithUpdateMask(lib.CloneMask(o.UpdateMask)))
	}
	if o.MoreUpdateMask != nil {
		opts = append(opts, resource.WithMoreUpdateMask(lib.CloneMask(o.MoreUpdateMask)))
	}
	if o.ResetMask != nil {
		opts = append(opts, resource.WithResetMask(lib.CloneMask(o.ResetMask)))
	}
	if o.MoreWritable != nil {
		opts = append(opts, resource.WithMoreWritableFields(lib.CloneMask(o.MoreWritable)))
	}
	if o.AllWritable {
		opts = append(opts, resource.WithAllFieldsWritable())
	}
	if o.Expected != nil {
		opts = append(opts, resource.WithExpectedValue(proto.Clone(o.Expected)))
	}
	if o.Check != "" {
		opts = append(opts, resource.WithExpectedCheck(checkFn(o.Check)))
	}
	if o.ExpectAbsent {
		opts = append(opts, resource.WithExpectAbsent())
	}
	if o.CreateIfAbsent {
		opts = append(opts, resource.WithCreateIfAbsent())
	}
	if o.AllowMissing {
		opts = append(opts, resource.WithAllowMissing(true))
	}
	if o.GenID {
		opts = append(opts, resource.WithGenIDIfAbsent(), resource.WithIDCallback(func(id string) { log.IDs = append(log.IDs, id) }))
	}
	if o.CreatedCB {
		opts = append(opts, resource.WithCreatedCallback(func() { log.Created++ }))
	}
	switch o.Before {
	case "delta":
		opts = append(opts, resource.InterceptBefore(func(old, change proto.Message) {
			// read the old message the way a callback would
			_ = proto.Size(old)
			beforeDelta(old, change)
		}))
	case "noop":
		opts = append(opts, resource.InterceptBefore(func(old, change proto.Message) { _ = proto.Size(old) }))
	}
	switch o.After {
	case "derive":
		opts = append(opts, resource.InterceptAfter(func(old, new proto.Message) { _ = proto.Size(old); afterDerive(old, new) }))
	case "noop":
		opts = append(opts, resource.InterceptAfter(func(old, new proto.Message) { _ = proto.Size(old) }))
	}
	if o.WriteTick > 0 {
		opts = append(opts, resource.WithWriteTime(Epoch.Add(time.Duration(o.WriteTick)*time.Second)))
	}
	return opts
}
