package rlib

import (
	"fmt"
	"strings"

	"google.golang.org/grpc/codes"
	"google.golang.org/grpc/status"
	"google.golang.org/protobuf/encoding/prototext"
	"google.golang.org/protobuf/proto"
	"google.golang.org/protobuf/reflect/protoreflect"
	"google.golang.org/protobuf/types/known/fieldmaskpb"

	"github.com/smart-core-os/sc-golang/pkg/resource"
	"github.com/smart-core-os/sc-golang/verifh/lib"
)

// Txt renders a message on one line.
func Txt(m proto.Message) string {
	if m == nil {
		return "<nil>"
	}
	if !m.ProtoReflect().IsValid() {
		return "<typed nil>"
	}
	s := prototext.MarshalOptions{Multiline: false}.Format(m)
	if len(s) > 400 {
		s = s[:400] + "...(+" + fmt.Sprint(len(s)-400) + " chars)"
	}
	return "{" + s + "}"
}

// OpKind names an API call.
type OpKind string

const (
	OpGet    OpKind = "Get"
	OpList   OpKind = "List"
	OpSet    OpKind = "Set" // Value.Set
	OpAdd    OpKind = "Add"
	OpUpdate OpKind = "Update"
	OpDelete OpKind = "Delete"
)

// Op is one call with its options. Masks are nil when the option is not given.
type Op struct {
	Kind OpKind
	ID   string
	Val  proto.Message

	UpdateMask     *fieldmaskpb.FieldMask
	MoreUpdateMask *fieldmaskpb.FieldMask
	ResetMask      *fieldmaskpb.FieldMask
	MoreWritable   *fieldmaskpb.FieldMask
	MoreWritable2  *fieldmaskpb.FieldMask // a second extra-writable option in the same call
	AllWritable    bool

	Expected      proto.Message // WithExpectedValue
	ExpectedLabel string        // how it was chosen (log only)
	Check         string        // "", "accept", "reject:<code>", "counter=<n>"
	ExpectAbsent  bool
	CreateIfAbsent bool
	AllowMissing  bool
	GenID         bool // WithGenIDIfAbsent + WithIDCallback
	CreatedCB     bool
	Before        string // "", "delta", "noop"
	After         string // "", "derive", "noop"
	WriteTick     int64 // != 0: WithWriteTime(TimeOfTick(tick)): Epoch+tick seconds (negative: before the epoch), ZeroTimeTick: time.Time{}

	// SameObject: the message handed to the write is the very object an unmasked Get of that item returned just before
	// (Val is a copy of it for the model). Only drawn where the library does not filter its input in place.
	SameObject bool

	ReadMask *fieldmaskpb.FieldMask
	Include  string // List only: "", "id<b", "counter-odd", "has-derived" (see IncludeFn)
}

// IncludeFn returns the named List predicate over (id, stored message); the predicates look at the id, at the counter
// field and at the derived string field so that a read mask can hide what they inspect.
func IncludeFn(name string) func(id string, m proto.Message) bool {
	switch name {
	case "id<b":
		return func(id string, _ proto.Message) bool { return id < "b" }
	case "counter-odd":
		return func(_ string, m proto.Message) bool { return GetCounter(m)%2 != 0 }
	case "has-derived":
		return func(_ string, m proto.Message) bool {
			if m == nil || !m.ProtoReflect().IsValid() {
				return false
			}
			fd := DerivedField(m.ProtoReflect().Descriptor())
			return fd != nil && m.ProtoReflect().Get(fd).String() != ""
		}
	}
	return nil
}

func (o Op) String() string {
	var sb strings.Builder
	fmt.Fprintf(&sb, "%s", o.Kind)
	if o.Kind != OpSet && o.Kind != OpList {
		fmt.Fprintf(&sb, "(%q)", o.ID)
	}
	if o.Val != nil {
		fmt.Fprintf(&sb, " val=%s", Txt(o.Val))
	}
	opt := func(name string, m *fieldmaskpb.FieldMask) {
		if m != nil {
			fmt.Fprintf(&sb, " %s=%s", name, lib.MaskString(m))
		}
	}
	opt("updateMask", o.UpdateMask)
	opt("moreUpdateMask", o.MoreUpdateMask)
	opt("resetMask", o.ResetMask)
	opt("moreWritable", o.MoreWritable)
	opt("moreWritable2", o.MoreWritable2)
	opt("readMask", o.ReadMask)
	if o.Include != "" {
		fmt.Fprintf(&sb, " include=%s", o.Include)
	}
	if o.AllWritable {
		sb.WriteString(" allWritable")
	}
	if o.Expected != nil {
		fmt.Fprintf(&sb, " expected(%s)=%s", o.ExpectedLabel, Txt(o.Expected))
	}
	if o.Check != "" {
		fmt.Fprintf(&sb, " check=%s", o.Check)
	}
	for _, f := range []struct {
		b bool
		n string
	}{{o.ExpectAbsent, "expectAbsent"}, {o.CreateIfAbsent, "createIfAbsent"}, {o.AllowMissing, "allowMissing"}, {o.GenID, "genID+idCallback"}, {o.CreatedCB, "createdCallback"}} {
		if f.b {
			sb.WriteString(" " + f.n)
		}
	}
	if o.Before != "" {
		fmt.Fprintf(&sb, " before=%s", o.Before)
	}
	if o.After != "" {
		fmt.Fprintf(&sb, " after=%s", o.After)
	}
	if o.WriteTick == ZeroTimeTick {
		sb.WriteString(" writeTime=time.Time{}")
	} else if o.WriteTick != 0 {
		fmt.Fprintf(&sb, " writeTime=T%d", o.WriteTick)
	}
	return sb.String()
}

// OptionKey summarises which options are used (for classification).
func (o Op) OptionKey() string {
	var k []string
	add := func(b bool, s string) {
		if b {
			k = append(k, s)
		}
	}
	add(o.UpdateMask != nil, "um")
	add(o.MoreUpdateMask != nil, "mum")
	add(o.ResetMask != nil, "rm")
	add(o.MoreWritable != nil, "mw")
	add(o.MoreWritable2 != nil, "mw2")
	add(o.AllWritable, "aw")
	add(o.Expected != nil, "ev")
	add(o.Check != "", "ec")
	add(o.ExpectAbsent, "ea")
	add(o.CreateIfAbsent, "cia")
	add(o.AllowMissing, "am")
	add(o.GenID, "gen")
	add(o.CreatedCB, "ccb")
	add(o.Before != "", "ib")
	add(o.After != "", "ia")
	add(o.WriteTick != 0, "wt")
	add(o.Include != "", "inc")
	add(o.SameObject, "same")
	return string(o.Kind) + "[" + strings.Join(k, ",") + "]"
}

// NumOptions counts the options in use.
func (o Op) NumOptions() int {
	k := o.OptionKey()
	i := strings.Index(k, "[")
	if k[i:] == "[]" {
		return 0
	}
	return strings.Count(k, ",") + 1
}

// ---------------------------------------------------------------------------------------------------------------------
// counter field helpers: interceptors and checks act on the first singular numeric top level field of the type.

// CounterField returns that field or nil.
func CounterField(md protoreflect.MessageDescriptor) protoreflect.FieldDescriptor {
	fields := md.Fields()
	for i := 0; i < fields.Len(); i++ {
		fd := fields.Get(i)
		if fd.IsList() || fd.IsMap() || fd.ContainingOneof() != nil {
			continue
		}
		switch fd.Kind() {
		case protoreflect.Int32Kind, protoreflect.Int64Kind, protoreflect.FloatKind, protoreflect.DoubleKind:
			return fd
		}
	}
	return nil
}

// DerivedField returns a singular string field used by the "derive" after-interceptor, or nil.
func DerivedField(md protoreflect.MessageDescriptor) protoreflect.FieldDescriptor {
	fields := md.Fields()
	for i := 0; i < fields.Len(); i++ {
		fd := fields.Get(i)
		if fd.IsList() || fd.IsMap() || fd.ContainingOneof() != nil {
			continue
		}
		if fd.Kind() == protoreflect.StringKind {
			return fd
		}
	}
	return nil
}

// GetCounter reads the counter field (0 for nil/invalid messages or types without one).
func GetCounter(m proto.Message) int64 {
	if m == nil || !m.ProtoReflect().IsValid() {
		return 0
	}
	fd := CounterField(m.ProtoReflect().Descriptor())
	if fd == nil {
		return 0
	}
	v := m.ProtoReflect().Get(fd)
	switch fd.Kind() {
	case protoreflect.FloatKind, protoreflect.DoubleKind:
		return int64(v.Float())
	}
	return v.Int()
}

// SetCounter writes the counter field.
func SetCounter(m proto.Message, n int64) {
	fd := CounterField(m.ProtoReflect().Descriptor())
	if fd == nil {
		return
	}
	switch fd.Kind() {
	case protoreflect.Int32Kind:
		m.ProtoReflect().Set(fd, protoreflect.ValueOfInt32(int32(n)))
	case protoreflect.Int64Kind:
		m.ProtoReflect().Set(fd, protoreflect.ValueOfInt64(n))
	case protoreflect.FloatKind:
		m.ProtoReflect().Set(fd, protoreflect.ValueOfFloat32(float32(n)))
	case protoreflect.DoubleKind:
		m.ProtoReflect().Set(fd, protoreflect.ValueOfFloat64(float64(n)))
	}
}

// beforeDelta is the documented delta pattern: change.counter += old.counter.
func beforeDelta(old, change proto.Message) {
	SetCounter(change, GetCounter(change)+GetCounter(old))
}

// afterDerive sets a derived string field from the counter of the new value (like an update time / summary).
func afterDerive(old, new proto.Message) {
	fd := DerivedField(new.ProtoReflect().Descriptor())
	if fd == nil {
		return
	}
	new.ProtoReflect().Set(fd, protoreflect.ValueOfString(fmt.Sprintf("derived:%d<-%d", GetCounter(new), GetCounter(old))))
}

// checkFn builds the expected-check function for a spec; it only reads old.
func checkFn(spec string) func(old proto.Message) error {
	switch {
	case spec == "accept":
		return func(proto.Message) error { return nil }
	case strings.HasPrefix(spec, "reject:"):
		var code codes.Code
		_ = code.UnmarshalJSON([]byte(`"` + strings.TrimPrefix(spec, "reject:") + `"`))
		return func(proto.Message) error { return status.Error(code, "check refused") }
	case strings.HasPrefix(spec, "counter<="):
		var n int64
		fmt.Sscanf(spec, "counter<=%d", &n)
		return func(old proto.Message) error {
			if GetCounter(old) > n {
				return status.Errorf(codes.OutOfRange, "counter is %d, more than %d", GetCounter(old), n)
			}
			return nil
		}
	case strings.HasPrefix(spec, "counter="):
		var n int64
		fmt.Sscanf(spec, "counter=%d", &n)
		return func(old proto.Message) error {
			if GetCounter(old) != n {
				return status.Errorf(codes.OutOfRange, "counter is %d not %d", GetCounter(old), n)
			}
			return nil
		}
	}
	return nil
}

// CallLog records what the callbacks of one call observed.
type CallLog struct {
	IDs       []string
	Created   int
	BeforeOld []proto.Message
}

// OptCache keeps the option values of earlier calls so that a later call with the same option content passes the very
// same option value again, the way a caller does who builds `opts := []resource.WriteOption{...}` once and uses it for
// every write. Callbacks record into Cur, which the runner points at the log of the call in progress.
type OptCache struct {
	Cur    *CallLog
	opts   map[string]resource.WriteOption
	Reused int
}

func (c *OptCache) get(key string, mk func() resource.WriteOption) resource.WriteOption {
	if c == nil {
		return mk()
	}
	if c.opts == nil {
		c.opts = map[string]resource.WriteOption{}
	}
	if o, ok := c.opts[key]; ok {
		c.Reused++
		return o
	}
	o := mk()
	c.opts[key] = o
	return o
}

func msgKey(m proto.Message) string {
	b, _ := proto.MarshalOptions{Deterministic: true}.Marshal(m)
	return string(m.ProtoReflect().Descriptor().FullName()) + ":" + string(b)
}

// WriteOptions translates the op into resource write options; callbacks record into log.
func (o Op) WriteOptions(log *CallLog) []resource.WriteOption { return o.WriteOptionsReusing(nil, log) }

// WriteOptionsReusing is WriteOptions drawing equal options from the cache (nil cache: every option is built afresh).
func (o Op) WriteOptionsReusing(c *OptCache, log *CallLog) []resource.WriteOption {
	if c != nil {
		c.Cur = log
	}
	cur := func() *CallLog {
		if c != nil {
			return c.Cur
		}
		return log
	}
	mk := func(key string, f func() resource.WriteOption) resource.WriteOption { return c.get(key, f) }
	mkMask := func(kind string, m *fieldmaskpb.FieldMask, f func(*fieldmaskpb.FieldMask) resource.WriteOption) resource.WriteOption {
		return mk(kind+":"+lib.MaskString(m), func() resource.WriteOption { return f(lib.CloneMask(m)) })
	}
	var opts []resource.WriteOption
	if o.UpdateMask != nil {
		opts = append(opts, mkMask("um", o.UpdateMask, resource.WithUpdateMask))
	}
	if o.MoreUpdateMask != nil {
		opts = append(opts, mkMask("mum", o.MoreUpdateMask, resource.WithMoreUpdateMask))
	}
	if o.ResetMask != nil {
		opts = append(opts, mkMask("rm", o.ResetMask, resource.WithResetMask))
	}
	if o.MoreWritable != nil {
		opts = append(opts, mkMask("mw", o.MoreWritable, resource.WithMoreWritableFields))
	}
	if o.MoreWritable2 != nil {
		opts = append(opts, mkMask("mw", o.MoreWritable2, resource.WithMoreWritableFields))
	}
	if o.AllWritable {
		opts = append(opts, mk("aw", resource.WithAllFieldsWritable))
	}
	if o.Expected != nil {
		opts = append(opts, mk("ev:"+msgKey(o.Expected), func() resource.WriteOption { return resource.WithExpectedValue(proto.Clone(o.Expected)) }))
	}
	if o.Check != "" {
		opts = append(opts, mk("ec:"+o.Check, func() resource.WriteOption { return resource.WithExpectedCheck(checkFn(o.Check)) }))
	}
	if o.ExpectAbsent {
		opts = append(opts, mk("ea", resource.WithExpectAbsent))
	}
	if o.CreateIfAbsent {
		opts = append(opts, mk("cia", resource.WithCreateIfAbsent))
	}
	if o.AllowMissing {
		opts = append(opts, mk("am", func() resource.WriteOption { return resource.WithAllowMissing(true) }))
	}
	if o.GenID {
		opts = append(opts, mk("gen", resource.WithGenIDIfAbsent), mk("idcb", func() resource.WriteOption {
			return resource.WithIDCallback(func(id string) { l := cur(); l.IDs = append(l.IDs, id) })
		}))
	}
	if o.CreatedCB {
		opts = append(opts, mk("ccb", func() resource.WriteOption { return resource.WithCreatedCallback(func() { cur().Created++ }) }))
	}
	switch o.Before {
	case "delta":
		opts = append(opts, mk("ib:delta", func() resource.WriteOption {
			return resource.InterceptBefore(func(old, change proto.Message) {
				// read the old message the way a callback would
				_ = proto.Size(old)
				beforeDelta(old, change)
			})
		}))
	case "noop":
		opts = append(opts, mk("ib:noop", func() resource.WriteOption {
			return resource.InterceptBefore(func(old, change proto.Message) { _ = proto.Size(old) })
		}))
	}
	switch o.After {
	case "derive":
		opts = append(opts, mk("ia:derive", func() resource.WriteOption {
			return resource.InterceptAfter(func(old, new proto.Message) { _ = proto.Size(old); afterDerive(old, new) })
		}))
	case "noop":
		opts = append(opts, mk("ia:noop", func() resource.WriteOption {
			return resource.InterceptAfter(func(old, new proto.Message) { _ = proto.Size(old) })
		}))
	}
	if o.WriteTick != 0 {
		opts = append(opts, mk(fmt.Sprintf("wt:%d", o.WriteTick), func() resource.WriteOption {
			return resource.WithWriteTime(TimeOfTick(o.WriteTick))
		}))
	}
	return opts
}
