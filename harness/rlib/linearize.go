package rlib

import (
	"fmt"
	"sort"
	"strings"

	"google.golang.org/grpc/codes"
	"google.golang.org/protobuf/proto"
)

// HistOp is one completed call of a concurrent history.
type HistOp struct {
	Op       Op
	Inv, Res int64 // invocation / response stamps from one monotonic counter
	Ret      proto.Message
	Err      error
	Who      string
}

func (h HistOp) String() string {
	r := "ok " + Txt(h.Ret)
	if h.Err != nil {
		r = codeOf(h.Err).String()
	}
	return fmt.Sprintf("[%s %d-%d] %v => %s", h.Who, h.Inv, h.Res, h.Op, r)
}

// raceCodes may be reported by a call that lost a race; such a call must have no effect.
var raceCodes = map[codes.Code]bool{codes.Aborted: true, codes.Unavailable: true}

func storeKey(s *Store) string {
	var sb strings.Builder
	for _, id := range s.IDs() {
		sb.WriteString(id)
		sb.WriteString("=")
		b, _ := proto.MarshalOptions{Deterministic: true}.Marshal(s.Items[id].Msg)
		sb.Write(b)
		sb.WriteString(";")
	}
	return sb.String()
}

// Linearizable searches for a sequential order of the history, consistent with real time, that the reference store
// explains: every successful call returns what the model returns at its place in the order; every failed call is either
// explained by the model at its place (same code, no effect) or reports a race code (Aborted/Unavailable) and has no
// effect; and the final contents equal finalState. It returns the witness order or an error.
func Linearizable(initial *Store, hist []HistOp, final map[string]proto.Message) ([]int, error) {
	n := len(hist)
	if n > 20 {
		return nil, fmt.Errorf("history too long for the search (%d)", n)
	}
	idx := make([]int, n)
	for i := range idx {
		idx[i] = i
	}
	sort.Slice(idx, func(a, b int) bool { return hist[idx[a]].Inv < hist[idx[b]].Inv })
	type memoKey struct {
		done uint32
		st   string
	}
	seen := map[memoKey]bool{}
	var order []int
	var dfs func(done uint32, st *Store) bool
	dfs = func(done uint32, st *Store) bool {
		if done == (1<<n)-1 {
			// final state
			if len(final) != len(st.Items) {
				return false
			}
			for id, m := range final {
				e, ok := st.Items[id]
				if !ok || !proto.Equal(e.Msg, m) {
					return false
				}
			}
			return true
		}
		k := memoKey{done, storeKey(st)}
		if seen[k] {
			return false
		}
		seen[k] = true
		// minimal response among not-done ops: an op may go next only if it was invoked before that response
		minRes := int64(1 << 62)
		for i := 0; i < n; i++ {
			if done&(1<<i) == 0 && hist[i].Res < minRes {
				minRes = hist[i].Res
			}
		}
		for _, i := range idx {
			if done&(1<<i) != 0 || hist[i].Inv > minRes {
				continue
			}
			h := hist[i]
			next := st.Clone()
			var out Outcome
			if h.Op.Kind == OpDelete {
				out = next.Delete(h.Op)
			} else {
				out = next.Write(h.Op, nil)
			}
			ok := false
			switch {
			case out.Unspecified:
				ok = false
			case h.Err == nil:
				if out.Code == codes.OK && !out.AnyError {
					if out.RetNil {
						ok = h.Ret == nil
					} else {
						ok = h.Ret != nil && proto.Equal(h.Ret, out.Ret)
					}
				}
			default:
				c := codeOf(h.Err)
				if (out.Code != codes.OK && out.Code == c) || (out.AnyError) {
					ok = true
					next = st // no effect
				} else if raceCodes[c] {
					ok = true
					next = st // lost a race: no effect
				}
			}
			if !ok {
				continue
			}
			order = append(order, i)
			if dfs(done|(1<<i), next) {
				return true
			}
			order = order[:len(order)-1]
		}
		return false
	}
	if dfs(0, initial.Clone()) {
		return order, nil
	}
	var sb strings.Builder
	for _, i := range idx {
		sb.WriteString("\n  " + hist[i].String())
	}
	var fin []string
	for id, m := range final {
		fin = append(fin, fmt.Sprintf("%q=%s", id, Txt(m)))
	}
	sort.Strings(fin)
	return nil, fmt.Errorf("no one-at-a-time order consistent with real time explains the results and the final state %v:%s", fin, sb.String())
}
