// Package rlib holds the parts of the harness that depend on pkg/resource: the reference store, the operation
// grammar shared by the stateful checks, and the history runner.
package rlib

import (
	"sync"
	"time"
)

// TickClock is a deterministic resource.Clock: every call to Now returns a strictly later instant.
type TickClock struct {
	mu sync.Mutex
	n  int64
}

// Epoch is tick zero.
var Epoch = time.Date(2020, 1, 1, 0, 0, 0, 0, time.UTC)

// Now advances the clock by one tick (a second) and returns the new reading.
func (c *TickClock) Now() time.Time {
	c.mu.Lock()
	defer c.mu.Unlock()
	c.n++
	return Epoch.Add(time.Duration(c.n) * time.Second)
}

// Peek returns the number of ticks so far without advancing.
func (c *TickClock) Peek() int64 {
	c.mu.Lock()
	defer c.mu.Unlock()
	return c.n
}

// TickOf converts a time back to its tick number.
func TickOf(t time.Time) int64 { return int64(t.Sub(Epoch) / time.Second) }

// ZeroTimeTick stands for Go's zero time (year 1), which is too far from the epoch for a Duration: TickOf saturates there.
var ZeroTimeTick = TickOf(time.Time{})

// TimeOfTick is the inverse of TickOf.
func TimeOfTick(tick int64) time.Time {
	if tick == ZeroTimeTick {
		return time.Time{}
	}
	return Epoch.Add(time.Duration(tick) * time.Second)
}

// StaticRNG is an io.Reader producing a fixed byte: ids generated from it are predictable, so a collection can be
// pre-filled with exactly the candidates GenerateUniqueId will try.
type StaticRNG struct{ B byte }

func (r StaticRNG) Read(p []byte) (int, error) {
	for i := range p {
		p[i] = r.B
	}
	return len(p), nil
}

// SeqRNG produces a deterministic, non-repeating byte stream (safe for concurrent use).
type SeqRNG struct {
	mu sync.Mutex
	s  uint64
}

func NewSeqRNG(seed uint64) *SeqRNG { return &SeqRNG{s: seed*2654435761 + 1} }

func (r *SeqRNG) Read(p []byte) (int, error) {
	r.mu.Lock()
	defer r.mu.Unlock()
	for i := range p {
		r.s ^= r.s << 13
		r.s ^= r.s >> 7
		r.s ^= r.s << 17
		p[i] = byte(r.s >> 24)
	}
	return len(p), nil
}
