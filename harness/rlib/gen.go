package rlib

import (
	"fmt"
	"time"

	"google.golang.org/protobuf/proto"
	"google.golang.org/protobuf/types/known/fieldmaskpb"
	"pgregory.net/rapid"

	"github.com/smart-core-os/sc-golang/verifh/lib"
)

var genO = lib.GenOpts{FieldProb: -1, Target: 3, MaxDepth: 2, MaxElems: 2}

// GenConfig draws a resource configuration.
func GenConfig(t *rapid.T, isValue bool, simple bool) (Config, []proto.Message) {
	cfg := Config{IsValue: isValue, Proto: lib.DrawType(t, "type")}
	md := cfg.Proto.ProtoReflect().Descriptor()
	alphabet := make([]proto.Message, 4)
	for i := range alphabet {
		alphabet[i] = lib.GenMessage(t, fmt.Sprintf("alpha%d", i), cfg.Proto, genO)
	}
	if !simple && rapid.IntRange(0, 2).Draw(t, "hasWritable") == 0 {
		for i := 0; i < 8 && (cfg.Writable == nil || len(cfg.Writable.Paths) == 0); i++ {
			cfg.Writable, _ = lib.DrawMask(t, fmt.Sprintf("writable%d", i), md, alphabet...)
		}
		if cfg.Writable != nil && len(cfg.Writable.Paths) == 0 {
			cfg.Writable = nil
		}
	}
	cfg.ReuseOptions = rapid.Bool().Draw(t, "reuseOptions")
	if isValue {
		if rapid.IntRange(0, 3).Draw(t, "hasInitial") > 0 {
			cfg.InitialValue = proto.Clone(alphabet[rapid.IntRange(0, 3).Draw(t, "initial")])
		}
		return cfg, alphabet
	}
	if !simple {
		cfg.Interceptor = rapid.SampledFrom([]string{"", "", "", "lower", "trim", "fold"}).Draw(t, "interceptor")
		cfg.StaticRNG = rapid.IntRange(0, 3).Draw(t, "staticRNG") == 0
	}
	n := rapid.IntRange(0, 4).Draw(t, "ninitial")
	cfg.Initial = map[string]proto.Message{}
	fn := InterceptorFn(cfg.Interceptor)
	for i := 0; i < n; i++ {
		id := rapid.SampledFrom([]string{"a", "b", "A", "ab", "c"}).Draw(t, "initId")
		if fn != nil {
			id = fn(id) // initial records are stored under the key as given: keep them reachable
		}
		if _, dup := cfg.Initial[id]; dup {
			continue
		}
		cfg.Initial[id] = proto.Clone(alphabet[rapid.IntRange(0, 3).Draw(t, "initVal")])
	}
	if rapid.IntRange(0, 9).Draw(t, "populous") == 4 {
		// a collection that is not tiny: a few dozen further records nobody writes to. Listing, seeding and id generation
		// do not depend on how many items there are
		extra := rapid.IntRange(14, 40).Draw(t, "populousN")
		for i := 0; i < extra; i++ {
			id := fmt.Sprintf("p%02d", i)
			if fn != nil {
				id = fn(id)
			}
			cfg.Initial[id] = proto.Clone(alphabet[i%4])
		}
		lib.Ev.Class("config:collection with more than 16 records")
	}
	if cfg.StaticRNG && rapid.Bool().Draw(t, "prefill") {
		// occupy the first k ids the static RNG will produce (all 10 => exhaustion)
		k := rapid.SampledFrom([]int{1, 3, 9, 10}).Draw(t, "prefillN")
		for _, c := range staticCandidates(7)[:k] {
			if fn != nil {
				c = fn(c)
			}
			cfg.Initial[c] = proto.Clone(alphabet[0])
		}
	}
	return cfg, alphabet
}

// GenOp draws the next call given the current model state.
func GenOp(t *rapid.T, r *Runner, alphabet []proto.Message, readsToo bool) Op {
	var op Op
	md := r.Cfg.Proto.ProtoReflect().Descriptor()
	if r.Cfg.IsValue {
		if readsToo && rapid.IntRange(0, 5).Draw(t, "isGet") == 0 {
			op.Kind = OpGet
			op.ReadMask, _ = lib.DrawMask(t, "readMask", md, alphabet...)
			return op
		}
		op.Kind = OpSet
	} else {
		kinds := []OpKind{OpAdd, OpUpdate, OpUpdate, OpUpdate, OpDelete}
		if readsToo {
			kinds = append(kinds, OpGet, OpList)
		}
		op.Kind = rapid.SampledFrom(kinds).Draw(t, "kind")
		ids := append([]string(nil), IDAlphabet...)
		ids = append(ids, r.Model.IDs()...)
		op.ID = rapid.SampledFrom(ids).Draw(t, "id")
		switch op.Kind {
		case OpGet, OpList:
			op.ReadMask, _ = lib.DrawMask(t, "readMask", md, alphabet...)
			if op.Kind == OpList && rapid.IntRange(0, 2).Draw(t, "listInclude") == 0 {
				op.Include = rapid.SampledFrom([]string{"id<b", "counter-odd", "has-derived"}).Draw(t, "include")
			}
			return op
		}
	}
	// current value for this id (as the model sees it)
	var cur proto.Message
	if r.Cfg.IsValue {
		if e := r.Model.Items[ValueKey]; e != nil {
			cur = e.Msg
		}
	} else if e := r.Model.Items[r.Model.intercept(op.ID)]; e != nil {
		cur = e.Msg
	}
	if op.Kind != OpDelete {
		switch k := rapid.IntRange(0, 9).Draw(t, "valKind"); {
		case k <= 4:
			op.Val = proto.Clone(alphabet[rapid.IntRange(0, len(alphabet)-1).Draw(t, "alpha")])
		case k <= 7 && cur != nil:
			if op.Kind != OpAdd && r.Cfg.Writable == nil && rapid.IntRange(0, 3).Draw(t, "sameObject") == 0 {
				// hand back the very object a Get returns (with a reset mask or an interceptor the write still changes it)
				op.Val, op.SameObject = proto.Clone(cur), true
				break
			}
			op.Val, _ = lib.Mutate(t, "valMut", cur, 3, genO)
		default:
			op.Val = lib.GenMessage(t, "valNew", r.Cfg.Proto, genO)
		}
		// masks
		switch k := rapid.IntRange(0, 11).Draw(t, "umKind"); {
		case k <= 5 || op.SameObject:
		case k == 6:
			op.UpdateMask = &fieldmaskpb.FieldMask{}
		case k == 7:
			op.UpdateMask, _, _ = lib.DrawCorruptMask(t, "umCorrupt", md, op.Val)
		default:
			op.UpdateMask, _ = lib.DrawMask(t, "um", md, op.Val, cur)
			if op.UpdateMask != nil && rapid.IntRange(0, 3).Draw(t, "mum") == 0 {
				op.MoreUpdateMask, _ = lib.DrawMask(t, "mumMask", md, op.Val)
			}
		}
		if rapid.IntRange(0, 7).Draw(t, "hasReset") == 0 || (op.SameObject && rapid.Bool().Draw(t, "sameReset")) {
			op.ResetMask, _ = lib.DrawMask(t, "reset", md, op.Val, cur)
			if rapid.IntRange(0, 5).Draw(t, "resetCorrupt") == 0 {
				op.ResetMask, _, _ = lib.DrawCorruptMask(t, "resetC", md, op.Val)
			}
		}
		if r.Cfg.Writable != nil {
			if rapid.IntRange(0, 5).Draw(t, "moreWritable") == 0 {
				op.MoreWritable, _ = lib.DrawMask(t, "mw", md, op.Val)
				if rapid.IntRange(0, 2).Draw(t, "mw2") == 1 {
					op.MoreWritable2, _ = lib.DrawMask(t, "mw2mask", md, op.Val)
				}
			}
			op.AllWritable = rapid.IntRange(0, 7).Draw(t, "allWritable") == 0
		}
		// keep out of the zone the contract leaves open (update mask broader than the writable fields)
		for i := 0; i < 4; i++ {
			if v, _ := r.Model.Spec(op).Classify(md); v != lib.Unspecified {
				break
			}
			if i == 3 {
				op.UpdateMask, op.MoreUpdateMask = nil, nil
			} else {
				op.UpdateMask, _ = lib.DrawMask(t, fmt.Sprintf("um-redo%d", i), md, op.Val, cur)
				op.MoreUpdateMask = nil
			}
		}
		if rapid.IntRange(0, 4).Draw(t, "before") == 0 {
			op.Before = rapid.SampledFrom([]string{"delta", "delta", "noop"}).Draw(t, "beforeKind")
			if op.SameObject {
				op.Before = "noop" // the delta interceptor writes into the message it is given
			}
		}
		if rapid.IntRange(0, 4).Draw(t, "after") == 0 {
			op.After = rapid.SampledFrom([]string{"derive", "derive", "noop"}).Draw(t, "afterKind")
		}
		if rapid.IntRange(0, 5).Draw(t, "writeTime") == 0 {
			op.WriteTick = drawTick(t, "tick")
		}
	}
	if op.Kind == OpDelete && rapid.IntRange(0, 5).Draw(t, "deleteWriteTime") == 0 {
		op.WriteTick = drawTick(t, "deleteTick")
	}
	// preconditions
	switch k := rapid.IntRange(0, 9).Draw(t, "expKind"); {
	case k <= 5:
	case k == 6 && cur != nil:
		op.Expected, op.ExpectedLabel = proto.Clone(cur), "current"
	case k == 7 && cur != nil:
		op.Expected, _ = lib.Mutate(t, "expMut", cur, 1, genO)
		op.ExpectedLabel = "near"
	case k == 8:
		op.Expected, op.ExpectedLabel = proto.Clone(alphabet[rapid.IntRange(0, len(alphabet)-1).Draw(t, "expAlpha")]), "alphabet"
	case k == 9:
		op.Expected, op.ExpectedLabel = r.Cfg.Proto.ProtoReflect().New().Interface(), "empty"
	}
	switch k := rapid.IntRange(0, 9).Draw(t, "checkKind"); {
	case k <= 6:
	case k == 7:
		op.Check = "accept"
	case k == 8:
		op.Check = "reject:" + rapid.SampledFrom([]string{"DATA_LOSS", "PERMISSION_DENIED", "ABORTED", "NOT_FOUND"}).Draw(t, "rejectCode")
	default:
		op.Check = fmt.Sprintf("counter=%d", GetCounter(cur)+int64(rapid.IntRange(0, 1).Draw(t, "counterOff")))
	}
	if r.Cfg.IsValue {
		// collection-only options are ignored by a Value: pass them now and then to show that
		if rapid.IntRange(0, 9).Draw(t, "valueExtra") == 0 {
			op.ExpectAbsent = rapid.Bool().Draw(t, "ea")
			op.CreateIfAbsent = rapid.Bool().Draw(t, "cia")
		}
		return op
	}
	switch op.Kind {
	case OpUpdate:
		op.ExpectAbsent = rapid.IntRange(0, 5).Draw(t, "ea") == 0
		op.CreateIfAbsent = rapid.IntRange(0, 2).Draw(t, "cia") == 0
		fallthrough
	case OpAdd:
		op.CreatedCB = rapid.IntRange(0, 2).Draw(t, "ccb") == 0
		if op.ID == "" || rapid.IntRange(0, 9).Draw(t, "genAnyway") == 0 {
			op.GenID = rapid.IntRange(0, 4).Draw(t, "gen") > 0
		}
	case OpDelete:
		op.AllowMissing = rapid.IntRange(0, 2).Draw(t, "am") == 0
	}
	return op
}

// drawTick draws an explicit write time: mostly after the epoch (ahead of or behind the resource's clock), sometimes
// before it, the unix epoch, or Go's zero time.
func drawTick(t *rapid.T, label string) int64 {
	switch rapid.IntRange(0, 9).Draw(t, label+"Kind") {
	case 0:
		return ZeroTimeTick
	case 1:
		return TickOf(time.Unix(0, 0))
	case 2:
		return -int64(rapid.IntRange(1, 1000000).Draw(t, label+"Neg"))
	case 3:
		return int64(rapid.IntRange(1, 30).Draw(t, label+"Small")) // around the fake clock's own readings
	}
	return int64(rapid.IntRange(1, 1000000).Draw(t, label))
}
