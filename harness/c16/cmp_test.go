package c16

import (
	"google.golang.org/protobuf/types/dynamicpb"
	"math/big"
	"fmt"
	"math"
	"strings"
	"testing"
	"time"

	"google.golang.org/protobuf/encoding/prototext"
	"google.golang.org/protobuf/encoding/protowire"
	"google.golang.org/protobuf/proto"
	pref "google.golang.org/protobuf/reflect/protoreflect"
	"pgregory.net/rapid"

	"github.com/smart-core-os/sc-api/go/traits"

	"github.com/smart-core-os/sc-golang/internal/testproto"
	"github.com/smart-core-os/sc-golang/pkg/cmp"
	"github.com/smart-core-os/sc-golang/verifh/lib"
)

func txt(m proto.Message) string {
	if m == nil {
		return "<nil>"
	}
	if !m.ProtoReflect().IsValid() {
		return "<typed nil>"
	}
	s := prototext.MarshalOptions{Multiline: false}.Format(m)
	if u := m.ProtoReflect().GetUnknown(); len(u) > 0 {
		s += fmt.Sprintf(" unknown=%x", []byte(u))
	}
	return s
}

var genO = lib.GenOpts{FieldProb: -1, SpecialFloats: true}

var cmpTypes = []proto.Message{
	&testproto.TestAllTypes{}, &testproto.TestAllTypes{}, &testproto.TestAllTypes{},
	&testproto.WellKnown{}, &testproto.ForeignMessage{},
	&traits.PullOnOffResponse_Change{}, &traits.PullBrightnessResponse_Change{}, &traits.PullAirTemperatureResponse{},
	&traits.AirTemperature{}, &traits.EnergyLevel{}, &traits.FanSpeed{}, &traits.ElectricDemand{},
}

func drawUnknown(t *rapid.T, label string) []byte {
	n := rapid.IntRange(0, 3).Draw(t, label+".n")
	if rapid.IntRange(0, 3).Draw(t, label+".many") == 0 {
		// a repeated field of a newer schema seen through an older one: dozens of unknown fields, numbers repeating
		n = rapid.IntRange(4, 40).Draw(t, label+".nmany")
	}
	var b []byte
	for i := 0; i < n; i++ {
		num := protowire.Number(rapid.SampledFrom([]int{1000, 1001, 1002}).Draw(t, label+".num"))
		switch rapid.IntRange(0, 3).Draw(t, label+".wt") {
		case 0:
			b = protowire.AppendTag(b, num, protowire.BytesType)
			b = protowire.AppendBytes(b, []byte(rapid.SampledFrom([]string{"", "a", "ab"}).Draw(t, label+".bytes")))
		case 1:
			b = protowire.AppendTag(b, num, protowire.Fixed32Type)
			b = protowire.AppendFixed32(b, uint32(rapid.IntRange(0, 2).Draw(t, label+".f32")))
		default:
			b = protowire.AppendTag(b, num, protowire.VarintType)
			b = protowire.AppendVarint(b, uint64(rapid.IntRange(0, 2).Draw(t, label+".v")))
		}
	}
	return b
}

// reinterleaveUnknown changes how fields of different numbers are interleaved and keeps the order of the fields of each
// number: protobuf equality does not see the difference.
func reinterleaveUnknown(t *rapid.T, label string, b []byte) []byte {
	groups := map[protowire.Number][][]byte{}
	var nums []protowire.Number
	total := 0
	for len(b) > 0 {
		num, _, n := protowire.ConsumeField(b)
		if _, ok := groups[num]; !ok {
			nums = append(nums, num)
		}
		groups[num] = append(groups[num], b[:n])
		b = b[n:]
		total++
	}
	var out []byte
	for i := 0; i < total; i++ {
		var live []protowire.Number
		for _, n := range nums {
			if len(groups[n]) > 0 {
				live = append(live, n)
			}
		}
		pick := live[rapid.IntRange(0, len(live)-1).Draw(t, label)]
		out = append(out, groups[pick][0]...)
		groups[pick] = groups[pick][1:]
	}
	return out
}

// permuteUnknown reorders whole fields.
func permuteUnknown(t *rapid.T, label string, b []byte) []byte {
	var fields [][]byte
	for len(b) > 0 {
		_, _, n := protowire.ConsumeField(b)
		fields = append(fields, b[:n])
		b = b[n:]
	}
	if len(fields) < 2 {
		return joinBytes(fields)
	}
	perm := rapid.Permutation(fields).Draw(t, label)
	return joinBytes(perm)
}

func joinBytes(bs [][]byte) []byte {
	var out []byte
	for _, b := range bs {
		out = append(out, b...)
	}
	return out
}

// drawPair returns two messages derived from a common ancestor by 0-3 mutations each side (often of the same type, sometimes not).
func drawPair(t *rapid.T) (x, y proto.Message, desc string) {
	pt := cmpTypes[rapid.IntRange(0, len(cmpTypes)-1).Draw(t, "type")]
	anc := lib.GenMessage(t, "anc", pt, genO)
	x, dx := lib.Mutate(t, "x", anc, 2, genO)
	y, dy := lib.Mutate(t, "y", anc, 2, genO)
	desc = fmt.Sprintf("x-mut=%v y-mut=%v", dx, dy)
	switch rapid.IntRange(0, 19).Draw(t, "special") {
	case 0:
		y = nil
		desc += " y=nil"
	case 1:
		x, y = nil, nil
		desc += " both nil"
	case 2:
		y = pt.ProtoReflect().Type().Zero().Interface() // typed nil
		desc += " y=typed-nil"
	case 3:
		other := cmpTypes[rapid.IntRange(0, len(cmpTypes)-1).Draw(t, "otherType")]
		y = lib.GenMessage(t, "other", other, genO)
		desc += " y=other type"
	case 4, 5:
		u := drawUnknown(t, "unk")
		x.ProtoReflect().SetUnknown(u)
		if rapid.Bool().Draw(t, "reinterleave") {
			y.ProtoReflect().SetUnknown(reinterleaveUnknown(t, "unkmix", u))
			desc += " unknown fields (same per number, interleaved differently)"
		} else {
			y.ProtoReflect().SetUnknown(permuteUnknown(t, "unkperm", u))
			desc += " unknown fields (permuted)"
		}
	case 6:
		x.ProtoReflect().SetUnknown(drawUnknown(t, "unkx"))
		y.ProtoReflect().SetUnknown(drawUnknown(t, "unky"))
		desc += " unknown fields (independent)"
	case 7, 8:
		// the same float field holds a NaN on both sides, only not the same NaN (the quiet NaN, the x86 0/0 result, a NaN
		// with a payload): protobuf equality says NaN equals NaN
		fields := x.ProtoReflect().Descriptor().Fields()
		for i := 0; i < fields.Len(); i++ {
			fd := fields.Get(i)
			if fd.IsList() || fd.IsMap() || fd.ContainingOneof() != nil {
				continue
			}
			nans := []uint64{0x7FF8000000000001, 0xFFF8000000000000, 0x7FF8000000000123}
			a := rapid.IntRange(0, 2).Draw(t, "nanX")
			b := rapid.IntRange(0, 2).Draw(t, "nanY")
			switch fd.Kind() {
			case pref.DoubleKind:
				x.ProtoReflect().Set(fd, pref.ValueOfFloat64(math.Float64frombits(nans[a])))
				y.ProtoReflect().Set(fd, pref.ValueOfFloat64(math.Float64frombits(nans[b])))
			case pref.FloatKind:
				x.ProtoReflect().Set(fd, pref.ValueOfFloat32(math.Float32frombits([]uint32{0x7FC00000, 0xFFC00000, 0x7FC00123}[a])))
				y.ProtoReflect().Set(fd, pref.ValueOfFloat32(math.Float32frombits([]uint32{0x7FC00000, 0xFFC00000, 0x7FC00123}[b])))
			default:
				continue
			}
			desc += fmt.Sprintf(" NaN bit patterns %d / %d in %s", a, b, fd.Name())
			break
		}
	}
	return x, y, desc
}

// stripChangeTime clears change_time of every message named Change (when present), recursively.
func stripChangeTime(m proto.Message) proto.Message {
	if m == nil || !m.ProtoReflect().IsValid() {
		return m
	}
	c := proto.Clone(m)
	var walk func(m pref.Message)
	walk = func(m pref.Message) {
		if m.Descriptor().Name() == "Change" {
			if fd := m.Descriptor().Fields().ByName("change_time"); fd != nil {
				m.Clear(fd)
			}
		}
		m.Range(func(fd pref.FieldDescriptor, v pref.Value) bool {
			switch {
			case fd.IsList() && fd.Message() != nil:
				for i := 0; i < v.List().Len(); i++ {
					walk(v.List().Get(i).Message())
				}
			case fd.IsMap() && fd.MapValue().Message() != nil:
				v.Map().Range(func(_ pref.MapKey, mv pref.Value) bool { walk(mv.Message()); return true })
			case fd.Message() != nil && !fd.IsList() && !fd.IsMap():
				walk(v.Message())
			}
			return true
		})
	}
	walk(c.ProtoReflect())
	return c
}

// changeTimePresenceDiffers reports whether some Change message has change_time on one side only.
func changeTimePresenceDiffers(x, y proto.Message) bool {
	if x == nil || y == nil || !x.ProtoReflect().IsValid() || !y.ProtoReflect().IsValid() {
		return false
	}
	if x.ProtoReflect().Descriptor() != y.ProtoReflect().Descriptor() {
		return false
	}
	differs := false
	var walk func(a, b pref.Message)
	walk = func(a, b pref.Message) {
		if a.Descriptor().Name() == "Change" {
			if fd := a.Descriptor().Fields().ByName("change_time"); fd != nil && a.Has(fd) != b.Has(fd) {
				differs = true
			}
		}
		a.Range(func(fd pref.FieldDescriptor, v pref.Value) bool {
			if fd.Message() != nil && !fd.IsList() && !fd.IsMap() && b.Has(fd) {
				walk(v.Message(), b.Get(fd).Message())
			}
			if fd.IsList() && fd.Message() != nil && b.Has(fd) {
				bl := b.Get(fd).List()
				for i := 0; i < v.List().Len() && i < bl.Len(); i++ {
					walk(v.List().Get(i).Message(), bl.Get(i).Message())
				}
			}
			return true
		})
	}
	walk(x.ProtoReflect(), y.ProtoReflect())
	return differs
}

func callCmp(c cmp.Message, x, y proto.Message) (res bool, err error) {
	defer func() {
		if r := recover(); r != nil {
			err = fmt.Errorf("comparer panicked: %v", r)
		}
	}()
	return c(x, y), nil
}

// TestDefaultEqual: cmp.Equal() agrees with proto.Equal modulo change_time inside Change messages.
func TestDefaultEqual(t *testing.T) {
	rapid.Check(t, func(t *rapid.T) {
		x, y, desc := drawPair(t)
		if changeTimePresenceDiffers(x, y) {
			lib.Ev.Class("default:change_time present on one side only (not asserted)")
			lib.Ev.Case("", nil)
			return
		}
		if y != nil && y.ProtoReflect().IsValid() && rapid.IntRange(0, 3).Draw(t, "heldAsDynamic") == 1 {
			// the same message held by descriptor (what a recorder, gateway or proxy holds) instead of as the generated type:
			// protobuf equality is defined on descriptor and field values, not on the Go type
			if b, err := (proto.MarshalOptions{}).Marshal(y); err == nil {
				d := dynamicpb.NewMessage(y.ProtoReflect().Descriptor())
				if proto.Unmarshal(b, d) == nil && proto.Equal(d, y) {
					y = d
					desc += " y held as dynamicpb"
					lib.Ev.Class("default:generated type against dynamicpb of the same descriptor")
				}
			}
		}
		want := proto.Equal(stripChangeTime(x), stripChangeTime(y))
		got, err := callCmp(cmp.Equal(), x, y)
		if err != nil {
			t.Fatalf("%v\n x={%s}\n y={%s}", err, txt(x), txt(y))
		}
		got2, err := callCmp(cmp.Equal(), y, x)
		if err != nil {
			t.Fatalf("%v\n x={%s}\n y={%s}", err, txt(y), txt(x))
		}
		if got != want || got2 != want {
			t.Fatalf("cmp.Equal()(x,y)=%v (y,x)=%v, proto.Equal (change_time stripped)=%v  [%s]\n x={%s}\n y={%s}", got, got2, want, desc, txt(x), txt(y))
		}
		for _, m := range []proto.Message{x, y} {
			if r, _ := callCmp(cmp.Equal(), m, m); !r {
				t.Fatalf("cmp.Equal() not reflexive on {%s}", txt(m))
			}
		}
		nt := ""
		if want || strings.Contains(desc, "nil") || strings.Contains(desc, "unknown") || strings.Contains(txt(x), "nan") || strings.Contains(txt(x), "inf") {
			nt = desc + "|" + txt(x) + "|" + txt(y)
		}
		if want {
			lib.Ev.Class("default:equal pair")
		} else {
			lib.Ev.Class("default:unequal pair")
		}
		lib.Ev.Case(nt, func() any { return fmt.Sprintf("cmp.Equal()=%v [%s] x={%s} y={%s}", got, desc, txt(x), txt(y)) })
	})
}

// ---------------------------------------------------------------------------------------------------------------------
// tolerance comparers

type tolSpec struct {
	Kind     string // float | time | duration
	Fraction float64
	Margin   float64
	D        time.Duration
}

func (s tolSpec) String() string {
	switch s.Kind {
	case "float":
		return fmt.Sprintf("FloatValueApprox(%v,%v)", s.Fraction, s.Margin)
	case "time":
		return fmt.Sprintf("TimeValueWithin(%v)", s.D)
	}
	return fmt.Sprintf("DurationValueWithin(%v)", s.D)
}

func (s tolSpec) value() cmp.Value {
	switch s.Kind {
	case "float":
		return cmp.FloatValueApprox(s.Fraction, s.Margin)
	case "time":
		return cmp.TimeValueWithin(s.D)
	}
	return cmp.DurationValueWithin(s.D)
}

// applies: is fd/x of the spec's own kind. pred: the arithmetic predicate.
func (s tolSpec) ref(fd pref.FieldDescriptor, x, y pref.Value) (equal, applicable bool) {
	switch s.Kind {
	case "float":
		if fd.Kind() != pref.FloatKind && fd.Kind() != pref.DoubleKind {
			return false, false
		}
		fx, fy := x.Float(), y.Float()
		if fx == fy || (math.IsNaN(fx) && math.IsNaN(fy)) {
			return true, true // reflexivity: a value is within any tolerance of itself
		}
		if math.IsNaN(fx) || math.IsNaN(fy) {
			return false, true
		}
		return math.Abs(fx-fy) <= math.Max(s.Margin, s.Fraction*math.Min(math.Abs(fx), math.Abs(fy))), true
	case "time":
		if fd.Kind() != pref.MessageKind || fd.Message().FullName() != "google.protobuf.Timestamp" {
			return false, false
		}
		return absNanos(x.Message(), y.Message()) <= int64(s.D), true
	default:
		if fd.Kind() != pref.MessageKind || fd.Message().FullName() != "google.protobuf.Duration" {
			return false, false
		}
		return absNanos(x.Message(), y.Message()) <= int64(s.D), true
	}
}

func absNanos(a, b pref.Message) int64 {
	fs := a.Descriptor().Fields()
	d := (a.Get(fs.ByName("seconds")).Int()-b.Get(fs.ByName("seconds")).Int())*1e9 + (a.Get(fs.ByName("nanos")).Int() - b.Get(fs.ByName("nanos")).Int())
	if d < 0 {
		d = -d
	}
	return d
}

// refEqual is an independent structural equality with a pluggable singular-value rule.
// valueRule returns (verdict, applicable); when not applicable default equality is used.
func refEqual(x, y pref.Message, valueRule func(fd pref.FieldDescriptor, x, y pref.Value) (bool, bool)) bool {
	if x.Descriptor() != y.Descriptor() {
		return false
	}
	fields := x.Descriptor().Fields()
	for i := 0; i < fields.Len(); i++ {
		fd := fields.Get(i)
		if x.Has(fd) != y.Has(fd) {
			return false
		}
		if !x.Has(fd) {
			continue
		}
		if fd.Name() == "change_time" && fd.ContainingMessage().Name() == "Change" {
			continue
		}
		vx, vy := x.Get(fd), y.Get(fd)
		switch {
		case fd.IsList():
			if vx.List().Len() != vy.List().Len() {
				return false
			}
			for j := 0; j < vx.List().Len(); j++ {
				if !refSingle(fd, vx.List().Get(j), vy.List().Get(j), valueRule) {
					return false
				}
			}
		case fd.IsMap():
			if vx.Map().Len() != vy.Map().Len() {
				return false
			}
			ok := true
			vx.Map().Range(func(k pref.MapKey, v pref.Value) bool {
				if !vy.Map().Has(k) || !refSingle(fd.MapValue(), v, vy.Map().Get(k), valueRule) {
					ok = false
				}
				return ok
			})
			if !ok {
				return false
			}
		default:
			if !refSingle(fd, vx, vy, valueRule) {
				return false
			}
		}
	}
	return string(x.GetUnknown()) == string(y.GetUnknown())
}

func refSingle(fd pref.FieldDescriptor, x, y pref.Value, valueRule func(fd pref.FieldDescriptor, x, y pref.Value) (bool, bool)) bool {
	if valueRule != nil {
		if eq, ok := valueRule(fd, x, y); ok {
			return eq
		}
	}
	switch fd.Kind() {
	case pref.MessageKind, pref.GroupKind:
		return refEqual(x.Message(), y.Message(), valueRule)
	case pref.FloatKind, pref.DoubleKind:
		fx, fy := x.Float(), y.Float()
		return fx == fy || (math.IsNaN(fx) && math.IsNaN(fy))
	case pref.BytesKind:
		return string(x.Bytes()) == string(y.Bytes())
	}
	return x.Interface() == y.Interface()
}

// collectDiffs lists the differences of the compared kinds between x and y (same type, same shape where they match).
type diffs struct {
	floats []float64 // |dx|
	fmins  []float64 // min(|x|,|y|) alongside
	times  []int64
	durs   []int64
	other  bool // some difference outside the three kinds (or a shape difference)
}

func collectDiffs(x, y pref.Message, d *diffs) {
	fields := x.Descriptor().Fields()
	for i := 0; i < fields.Len(); i++ {
		fd := fields.Get(i)
		if x.Has(fd) != y.Has(fd) {
			d.other = true
			continue
		}
		if !x.Has(fd) {
			continue
		}
		single := func(fd pref.FieldDescriptor, a, b pref.Value) {
			switch {
			case fd.Kind() == pref.FloatKind || fd.Kind() == pref.DoubleKind:
				fa, fb := a.Float(), b.Float()
				if fa != fb && !(math.IsNaN(fa) && math.IsNaN(fb)) {
					d.floats = append(d.floats, math.Abs(fa-fb))
					d.fmins = append(d.fmins, math.Min(math.Abs(fa), math.Abs(fb)))
				}
			case fd.Message() != nil && fd.Message().FullName() == "google.protobuf.Timestamp":
				if n := absNanos(a.Message(), b.Message()); n != 0 {
					d.times = append(d.times, n)
				}
			case fd.Message() != nil && fd.Message().FullName() == "google.protobuf.Duration":
				if n := absNanos(a.Message(), b.Message()); n != 0 {
					d.durs = append(d.durs, n)
				}
			case fd.Message() != nil:
				collectDiffs(a.Message(), b.Message(), d)
			default:
				if !refSingle(fd, a, b, nil) {
					d.other = true
				}
			}
		}
		vx, vy := x.Get(fd), y.Get(fd)
		switch {
		case fd.IsList():
			if vx.List().Len() != vy.List().Len() {
				d.other = true
				continue
			}
			for j := 0; j < vx.List().Len(); j++ {
				single(fd, vx.List().Get(j), vy.List().Get(j))
			}
		case fd.IsMap():
			if vx.Map().Len() != vy.Map().Len() {
				d.other = true
				continue
			}
			vx.Map().Range(func(k pref.MapKey, v pref.Value) bool {
				if !vy.Map().Has(k) {
					d.other = true
				} else {
					single(fd.MapValue(), v, vy.Map().Get(k))
				}
				return true
			})
		default:
			single(fd, vx, vy)
		}
	}
	if string(x.GetUnknown()) != string(y.GetUnknown()) {
		d.other = true
	}
}

func around64(t *rapid.T, label string, v float64) float64 {
	switch rapid.IntRange(0, 4).Draw(t, label) {
	case 0:
		return math.Nextafter(v, math.Inf(-1))
	case 1:
		return math.Nextafter(v, math.Inf(1))
	case 2:
		return v * 0.995
	case 3:
		return v * 1.005
	}
	return v
}

func aroundDur(t *rapid.T, label string, n int64) time.Duration {
	return time.Duration(n + int64(rapid.SampledFrom([]int{-1, 0, 0, 1, -1000, 1000}).Draw(t, label)))
}

func drawSpec(t *rapid.T, label string, d diffs) tolSpec {
	kinds := []string{"float", "time", "duration"}
	k := kinds[rapid.IntRange(0, 2).Draw(t, label+".kind")]
	// bias to a kind that actually differs
	if rapid.Bool().Draw(t, label+".bias") {
		switch {
		case len(d.floats) > 0:
			k = "float"
		case len(d.times) > 0:
			k = "time"
		case len(d.durs) > 0:
			k = "duration"
		}
	}
	s := tolSpec{Kind: k}
	switch k {
	case "float":
		if len(d.floats) > 0 && rapid.IntRange(0, 4).Draw(t, label+".near") > 0 {
			i := rapid.IntRange(0, len(d.floats)-1).Draw(t, label+".i")
			if rapid.Bool().Draw(t, label+".useFraction") && d.fmins[i] > 0 && !math.IsInf(d.floats[i], 0) {
				s.Fraction = around64(t, label+".fr", d.floats[i]/d.fmins[i])
			} else {
				s.Margin = around64(t, label+".mg", d.floats[i])
			}
		} else {
			s.Margin = rapid.SampledFrom([]float64{0, 0.001, 0.01, 0.125, 0.5, 1, 10}).Draw(t, label+".margin")
			s.Fraction = rapid.SampledFrom([]float64{0, 0, 0.01, 0.1}).Draw(t, label+".fraction")
		}
	case "time":
		if len(d.times) > 0 && rapid.IntRange(0, 4).Draw(t, label+".near") > 0 {
			s.D = aroundDur(t, label+".d", d.times[rapid.IntRange(0, len(d.times)-1).Draw(t, label+".i")])
		} else {
			s.D = rapid.SampledFrom([]time.Duration{0, 1, time.Millisecond, time.Second, time.Hour}).Draw(t, label+".dd")
		}
	default:
		if len(d.durs) > 0 && rapid.IntRange(0, 4).Draw(t, label+".near") > 0 {
			s.D = aroundDur(t, label+".d", d.durs[rapid.IntRange(0, len(d.durs)-1).Draw(t, label+".i")])
		} else {
			s.D = rapid.SampledFrom([]time.Duration{0, 1, time.Millisecond, time.Second, time.Hour}).Draw(t, label+".dd")
		}
	}
	if s.D < 0 {
		s.D = 0
	}
	return s
}

// TestTolerance: tolerance comparers alone and combined, against the arithmetic predicates.
func TestTolerance(t *testing.T) {
	rapid.Check(t, func(t *rapid.T) {
		pt := cmpTypes[rapid.IntRange(0, len(cmpTypes)-1).Draw(t, "type")]
		anc := lib.GenMessage(t, "anc", pt, genO)
		x, dx := lib.Mutate(t, "x", anc, 2, genO)
		y, dy := lib.Mutate(t, "y", anc, 2, genO)
		if changeTimePresenceDiffers(x, y) {
			lib.Ev.Case("", nil)
			return
		}
		var d diffs
		collectDiffs(x.ProtoReflect(), y.ProtoReflect(), &d)
		n := rapid.IntRange(1, 3).Draw(t, "nspec")
		specs := make([]tolSpec, n)
		for i := range specs {
			specs[i] = drawSpec(t, fmt.Sprintf("spec%d", i), d)
		}
		mode := rapid.SampledFrom([]string{"Equal(values...)", "Equal(ValueAnd)", "Equal(ValueOr)", "And(Equal...)", "Or(Equal...)"}).Draw(t, "mode")
		var c cmp.Message
		var want bool
		mx, my := x.ProtoReflect(), y.ProtoReflect()
		values := make([]cmp.Value, n)
		for i, s := range specs {
			values[i] = s.value()
		}
		andRule := func(fd pref.FieldDescriptor, a, b pref.Value) (bool, bool) {
			res, any := true, false
			for _, s := range specs {
				if eq, ok := s.ref(fd, a, b); ok {
					any = true
					res = res && eq
				}
			}
			return res, any
		}
		orRule := func(fd pref.FieldDescriptor, a, b pref.Value) (bool, bool) {
			res, any := false, false
			for _, s := range specs {
				if eq, ok := s.ref(fd, a, b); ok {
					any = true
					res = res || eq
				}
			}
			return res, any
		}
		switch mode {
		case "Equal(values...)":
			c, want = cmp.Equal(values...), refEqual(mx, my, andRule)
		case "Equal(ValueAnd)":
			c, want = cmp.Equal(cmp.ValueAnd(values...)), refEqual(mx, my, andRule)
		case "Equal(ValueOr)":
			c, want = cmp.Equal(cmp.ValueOr(values...)), refEqual(mx, my, orRule)
		case "And(Equal...)":
			var ms []cmp.Message
			want = true
			for i, s := range specs {
				ms = append(ms, cmp.Equal(values[i]))
				want = want && refEqual(mx, my, s.ref)
			}
			c = cmp.And(ms...)
		case "Or(Equal...)":
			var ms []cmp.Message
			want = false
			for i, s := range specs {
				ms = append(ms, cmp.Equal(values[i]))
				want = want || refEqual(mx, my, s.ref)
			}
			c = cmp.Or(ms...)
		}
		desc := fmt.Sprintf("%s %v x-mut=%v y-mut=%v", mode, specs, dx, dy)
		got, err := callCmp(c, x, y)
		if err != nil {
			t.Fatalf("%s: %v\n x={%s}\n y={%s}", desc, err, txt(x), txt(y))
		}
		rev, err := callCmp(c, y, x)
		if err != nil {
			t.Fatalf("%s: %v", desc, err)
		}
		if got != rev {
			t.Fatalf("%s: not symmetric: (x,y)=%v (y,x)=%v\n x={%s}\n y={%s}", desc, got, rev, txt(x), txt(y))
		}
		for _, m := range []proto.Message{x, y} {
			if r, _ := callCmp(c, m, m); !r {
				t.Fatalf("%s: not reflexive on {%s}", desc, txt(m))
			}
		}
		if got != want {
			t.Fatalf("%s: comparer says %v, arithmetic predicate says %v (diffs: floats=%v times=%v durations=%v other=%v)\n x={%s}\n y={%s}",
				desc, got, want, d.floats, d.times, d.durs, d.other, txt(x), txt(y))
		}
		// inert on other kinds
		if len(d.floats)+len(d.times)+len(d.durs) == 0 {
			// (a duration or timestamp written in two ways - {nanos:-1} and {seconds:-1 nanos:999999999} - is a difference of
			// zero inside a compared kind, not a difference outside: compare canonical forms)
			// Whether such a pair counts as equal depends on whether that kind is one the comparer in hand looks into (then
			// it is a difference of zero) or not (then the fields differ), and in And / Or compositions on each part
			// separately: the arithmetic predicate above has judged that. The inert check is for pairs on which both readings agree.
			pe, peCanon := proto.Equal(stripChangeTime(x), stripChangeTime(y)), proto.Equal(canonTimes(stripChangeTime(x)), canonTimes(stripChangeTime(y)))
			if pe != peCanon {
				lib.Ev.Class("tolerance:same instant or span written in two ways (inert check not applied)")
			} else {
				if got != pe {
					t.Fatalf("%s: pair differs only outside the compared kinds but verdict %v != proto.Equal %v\n x={%s}\n y={%s}", desc, got, pe, txt(x), txt(y))
				}
				lib.Ev.Class("tolerance:no diff of compared kinds (inert check)")
			}
		}
		nt := ""
		if nd := len(d.floats) + len(d.times) + len(d.durs); nd == 1 && !d.other {
			nt = desc + "|" + txt(x) + "|" + txt(y)
			lib.Ev.Class("tolerance:single differing field of a compared kind")
		} else if nd > 1 {
			lib.Ev.Class("tolerance:several differing fields")
		}
		lib.Ev.Class("tolerance:mode " + mode)
		lib.Ev.Case(nt, func() any { return fmt.Sprintf("%s => %v x={%s} y={%s}", desc, got, txt(x), txt(y)) })
	})
}

// TestDurationWithinP: only reflexivity and symmetry are asserted (the meaning of "p percent" is not pinned down
// precisely enough to demand exact verdicts).
func TestDurationWithinP(t *testing.T) {
	rapid.Check(t, func(t *rapid.T) {
		anc := lib.GenMessage(t, "anc", &testproto.WellKnown{}, lib.GenOpts{FieldProb: 90})
		x, _ := lib.Mutate(t, "x", anc, 2, genO)
		y, _ := lib.Mutate(t, "y", anc, 2, genO)
		p := rapid.SampledFrom([]float32{0.001, 0.1, 0.5, 1, 5, 50, 100, 150}).Draw(t, "p")
		c := cmp.Equal(cmp.DurationValueWithinP(p))
		a, err := callCmp(c, x, y)
		if err != nil {
			t.Fatal(err)
		}
		b, _ := callCmp(c, y, x)
		if a != b {
			t.Fatalf("DurationValueWithinP(%v) not symmetric: %v vs %v\n x={%s}\n y={%s}", p, a, b, txt(x), txt(y))
		}
		for _, m := range []proto.Message{x, y} {
			if r, _ := callCmp(c, m, m); !r {
				t.Fatalf("DurationValueWithinP(%v) not reflexive on {%s}", p, txt(m))
			}
		}
		lib.Ev.Case("", nil)
	})
}

// canonTimes returns a copy of m in which every Duration and Timestamp is rewritten in its canonical form (seconds and
// nanos of one sign, nanos within a second).
func canonTimes(m proto.Message) proto.Message {
	if m == nil || !m.ProtoReflect().IsValid() {
		return m
	}
	c := proto.Clone(m)
	canonTimesIn(c.ProtoReflect())
	return c
}

func canonTimesIn(m pref.Message) {
	switch m.Descriptor().FullName() {
	case "google.protobuf.Duration", "google.protobuf.Timestamp":
		fs := m.Descriptor().Fields()
		sec, ns := m.Get(fs.ByName("seconds")).Int(), m.Get(fs.ByName("nanos")).Int()
		total := new(big.Int).Add(new(big.Int).Mul(big.NewInt(sec), big.NewInt(1e9)), big.NewInt(ns))
		q, r := new(big.Int).QuoRem(total, big.NewInt(1e9), new(big.Int)) // truncated: remainder has the sign of the total
		if m.Descriptor().FullName() == "google.protobuf.Timestamp" && r.Sign() < 0 {
			q.Sub(q, big.NewInt(1))
			r.Add(r, big.NewInt(1e9))
		}
		if q.IsInt64() {
			m.Set(fs.ByName("seconds"), pref.ValueOfInt64(q.Int64()))
			m.Set(fs.ByName("nanos"), pref.ValueOfInt32(int32(r.Int64())))
		}
		return
	}
	m.Range(func(fd pref.FieldDescriptor, v pref.Value) bool {
		switch {
		case fd.IsMap():
			if fd.MapValue().Message() != nil {
				v.Map().Range(func(_ pref.MapKey, mv pref.Value) bool { canonTimesIn(mv.Message()); return true })
			}
		case fd.IsList():
			if fd.Message() != nil {
				for i := 0; i < v.List().Len(); i++ {
					canonTimesIn(v.List().Get(i).Message())
				}
			}
		case fd.Message() != nil:
			canonTimesIn(v.Message())
		}
		return true
	})
}
