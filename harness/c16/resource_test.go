package c16

import (
	"context"
	"fmt"
	"testing"
	"time"

	"google.golang.org/protobuf/proto"
	pref "google.golang.org/protobuf/reflect/protoreflect"
	"google.golang.org/protobuf/types/known/fieldmaskpb"
	"pgregory.net/rapid"

	"github.com/smart-core-os/sc-api/go/types"

	"github.com/smart-core-os/sc-golang/internal/testproto"
	"github.com/smart-core-os/sc-golang/pkg/cmp"
	"github.com/smart-core-os/sc-golang/pkg/resource"
	"github.com/smart-core-os/sc-golang/verifh/lib"
)

type equivSpec struct {
	name string
	opt  resource.Option
	eq   func(x, y proto.Message) bool // reference
}

func drawEquiv(t *rapid.T) equivSpec {
	switch rapid.IntRange(0, 2).Draw(t, "equiv") {
	case 0:
		return equivSpec{"WithNoDuplicates", resource.WithNoDuplicates(), func(x, y proto.Message) bool { return proto.Equal(x, y) }}
	default:
		tol := rapid.SampledFrom([]float64{0.25, 0.5, 1}).Draw(t, "tol")
		s := tolSpec{Kind: "float", Margin: tol}
		return equivSpec{fmt.Sprintf("Equal(FloatValueApprox(0,%v))", tol),
			resource.WithMessageEquivalence(cmp.Equal(cmp.FloatValueApprox(0, tol))),
			func(x, y proto.Message) bool {
				return refEqual(x.ProtoReflect(), y.ProtoReflect(), func(fd pref.FieldDescriptor, a, b pref.Value) (bool, bool) { return s.ref(fd, a, b) })
			}}
	}
}

func drawVal(t *rapid.T, label string) *testproto.TestAllTypes {
	return &testproto.TestAllTypes{
		DefaultFloat:  rapid.SampledFrom([]float32{1, 1.25, 1.5, 1.75, 2, 2.25, 3}).Draw(t, label+".f"),
		DefaultString: rapid.SampledFrom([]string{"a", "a", "b"}).Draw(t, label+".s"),
	}
}

func drawReadMask(t *rapid.T) *fieldmaskpb.FieldMask {
	switch rapid.IntRange(0, 3).Draw(t, "mask") {
	case 0:
		return &fieldmaskpb.FieldMask{Paths: []string{"default_float"}}
	case 1:
		return &fieldmaskpb.FieldMask{Paths: []string{"default_string"}}
	}
	return nil
}

func sentinel() *testproto.TestAllTypes {
	return &testproto.TestAllTypes{DefaultFloat: 1e6, DefaultString: "sentinel"}
}

func isSentinel(m proto.Message) bool {
	v, ok := m.(*testproto.TestAllTypes)
	return ok && (v.GetDefaultFloat() == 1e6 || v.GetDefaultString() == "sentinel")
}

// TestValueEquivalence: the delivered sequence is exactly the subsequence of writes not equivalent to what the
// subscriber last received (under its read mask).
func TestValueEquivalence(t *testing.T) {
	rapid.Check(t, func(t *rapid.T) {
		eq := drawEquiv(t)
		mask := drawReadMask(t)
		updatesOnly := rapid.Bool().Draw(t, "updatesOnly")
		var initial *testproto.TestAllTypes
		opts := []resource.Option{eq.opt}
		if rapid.IntRange(0, 3).Draw(t, "hasInitial") > 0 {
			initial = drawVal(t, "initial")
			opts = append(opts, resource.WithInitialValue(initial))
		}
		v := resource.NewValue(opts...)
		ctx, cancel := context.WithCancel(context.Background())
		defer cancel()
		ropts := []resource.ReadOption{resource.WithBackpressure(true), resource.WithUpdatesOnly(updatesOnly)}
		if mask != nil {
			ropts = append(ropts, resource.WithReadMask(mask))
		}
		ch := v.Pull(ctx, ropts...)
		got := make(chan []*resource.ValueChange, 1)
		go func() {
			var evs []*resource.ValueChange
			for {
				select {
				case e, ok := <-ch:
					if !ok {
						got <- evs
						return
					}
					if isSentinel(e.Value) {
						got <- evs
						return
					}
					evs = append(evs, e)
				case <-time.After(30 * time.Second):
					got <- nil
					return
				}
			}
		}()
		var held proto.Message
		var want []proto.Message
		if initial != nil && !updatesOnly {
			held = lib.RefProject(initial, mask)
			want = append(want, held)
		}
		n := rapid.IntRange(1, 8).Draw(t, "writes")
		var hist []string
		suppressed := 0
		unspecified := false
		for i := 0; i < n && !unspecified; i++ {
			w := drawVal(t, fmt.Sprintf("w%d", i))
			var wopts []resource.WriteOption
			at := ""
			switch rapid.IntRange(0, 5).Draw(t, fmt.Sprintf("writeTime%d", i)) {
			case 1:
				// the writer says when the change happened: a day ago, a day ahead - suppression is about values, not times
				d := time.Duration(rapid.SampledFrom([]int{-24, -1, 1, 24}).Draw(t, fmt.Sprintf("hours%d", i))) * time.Hour
				wopts = append(wopts, resource.WithWriteTime(time.Now().Add(d)))
				at = fmt.Sprintf(" @now%+v", d)
			case 2:
				wopts = append(wopts, resource.WithWriteTime(time.Time{}))
				at = " @zero time"
			case 3:
				wopts = append(wopts, resource.WithWriteTime(time.Unix(0, 0)))
				at = " @epoch"
			}
			if _, err := v.Set(w, wopts...); err != nil {
				t.Fatalf("Set: %v", err)
			}
			nv := lib.RefProject(w, mask)
			if at != "" {
				hist = append(hist, "(next written"+at+")")
				lib.Ev.Class("resource:value written with a caller-chosen time")
			}
			if held == nil && updatesOnly && initial != nil && eq.eq(lib.RefProject(initial, mask), nv) {
				// an updates-only subscriber holds nothing yet; whether a write equivalent to the current value
				// reaches it is not fixed by the statement: stop comparing here
				unspecified = true
				lib.Ev.Class("resource:updates-only first write equivalent to current (unspecified)")
				continue
			}
			if held != nil && eq.eq(held, nv) {
				suppressed++
				hist = append(hist, txt(w)+" (suppressed)")
				continue
			}
			held = nv
			want = append(want, nv)
			hist = append(hist, txt(w))
		}
		if _, err := v.Set(sentinel()); err != nil {
			t.Fatalf("Set sentinel: %v", err)
		}
		evs := <-got
		if evs == nil && len(want) > 0 {
			t.Skip("VERIF-UNDECIDED timeout waiting for events")
		}
		desc := fmt.Sprintf("Value %s mask=%s updatesOnly=%v initial={%s} writes=%v", eq.name, lib.MaskString(mask), updatesOnly, txt(initial), hist)
		if unspecified && len(evs) >= len(want) {
			evs = evs[:len(want)]
		}
		if len(evs) != len(want) {
			var g []string
			for _, e := range evs {
				g = append(g, txt(e.Value))
			}
			var w []string
			for _, m := range want {
				w = append(w, txt(m))
			}
			t.Fatalf("%s\n delivered %v\n want      %v", desc, g, w)
		}
		for i := range evs {
			if !proto.Equal(evs[i].Value, want[i]) {
				t.Fatalf("%s\n event %d = {%s}, want {%s}", desc, i, txt(evs[i].Value), txt(want[i]))
			}
		}
		nt := ""
		if suppressed > 0 && len(want) > 1 {
			nt = desc
		}
		lib.Ev.Case(nt, func() any { return desc })
	})
}

const knownDrift = "C16:collection-equivalence-compares-previous-not-held"

// TestCollectionEquivalence: same for a Collection, per id.
func TestCollectionEquivalence(t *testing.T) {
	rapid.Check(t, func(t *rapid.T) {
		eq := drawEquiv(t)
		mask := drawReadMask(t)
		updatesOnly := rapid.Bool().Draw(t, "updatesOnly")
		opts := []resource.Option{eq.opt}
		store := map[string]proto.Message{}
		for _, id := range []string{"a", "b"} {
			if rapid.Bool().Draw(t, "init-"+id) {
				m := drawVal(t, "init."+id)
				store[id] = m
				opts = append(opts, resource.WithInitialRecord(id, m))
			}
		}
		c := resource.NewCollection(opts...)
		ctx, cancel := context.WithCancel(context.Background())
		defer cancel()
		ropts := []resource.ReadOption{resource.WithBackpressure(true), resource.WithUpdatesOnly(updatesOnly)}
		if mask != nil {
			ropts = append(ropts, resource.WithReadMask(mask))
		}
		ch := c.Pull(ctx, ropts...)
		got := make(chan []*resource.CollectionChange, 1)
		go func() {
			var evs []*resource.CollectionChange
			for {
				select {
				case e, ok := <-ch:
					if !ok || e.Id == "zz-sentinel" {
						got <- evs
						return
					}
					evs = append(evs, e)
				case <-time.After(30 * time.Second):
					got <- nil
					return
				}
			}
		}()
		type exp struct {
			id   string
			kind types.ChangeType
			nv   proto.Message
		}
		held := map[string]proto.Message{}
		var want []exp
		if !updatesOnly {
			for _, id := range []string{"a", "b"} {
				if m, ok := store[id]; ok {
					held[id] = lib.RefProject(m, mask)
					want = append(want, exp{id, types.ChangeType_ADD, held[id]})
				}
			}
		}
		n := rapid.IntRange(1, 8).Draw(t, "writes")
		var hist []string
		suppressed := 0
		drift := false
		for i := 0; i < n && !drift; i++ {
			id := rapid.SampledFrom([]string{"a", "b"}).Draw(t, "id")
			_, exists := store[id]
			op := rapid.IntRange(0, 4).Draw(t, "op")
			switch {
			case exists && op == 0:
				if _, err := c.Delete(id); err != nil {
					t.Fatalf("Delete: %v", err)
				}
				delete(store, id)
				delete(held, id)
				want = append(want, exp{id, types.ChangeType_REMOVE, nil})
				hist = append(hist, "delete "+id)
			default:
				w := drawVal(t, fmt.Sprintf("w%d", i))
				if _, err := c.Update(id, w, resource.WithCreateIfAbsent()); err != nil {
					t.Fatalf("Update: %v", err)
				}
				nv := lib.RefProject(w, mask)
				var prev proto.Message
				if exists {
					prev = lib.RefProject(store[id], mask)
				}
				store[id] = w
				h, hasHeld := held[id]
				byHeld := hasHeld && eq.eq(h, nv)
				byPrev := exists && eq.eq(prev, nv)
				if exists && !hasHeld && byPrev {
					// updates-only subscriber that has not seen this id yet: unspecified, stop comparing here
					drift = true
					lib.Ev.Class("resource:updates-only first write equivalent to current (unspecified)")
					hist = append(hist, fmt.Sprintf("update %s %s (unspecified: subscriber holds nothing)", id, txt(w)))
					continue
				}
				if exists && hasHeld && byHeld != byPrev {
					// the statement compares with what the subscriber holds; the code compares with the previous stored value
					if lib.IsKnown(knownDrift) {
						drift = true
						hist = append(hist, fmt.Sprintf("update %s %s (known drift: held {%s}, previous {%s})", id, txt(w), txt(h), txt(prev)))
						continue
					}
				}
				if byHeld {
					suppressed++
					hist = append(hist, fmt.Sprintf("update %s %s (suppressed)", id, txt(w)))
					continue
				}
				kind := types.ChangeType_UPDATE
				if !exists {
					kind = types.ChangeType_ADD
				}
				held[id] = nv
				want = append(want, exp{id, kind, nv})
				hist = append(hist, fmt.Sprintf("update %s %s", id, txt(w)))
			}
		}
		if _, err := c.Add("zz-sentinel", sentinel()); err != nil {
			t.Fatalf("sentinel: %v", err)
		}
		evs := <-got
		if evs == nil && len(want) > 0 {
			t.Skip("VERIF-UNDECIDED timeout waiting for events")
		}
		desc := fmt.Sprintf("Collection %s mask=%s updatesOnly=%v history=%v", eq.name, lib.MaskString(mask), updatesOnly, hist)
		if drift {
			// compare only the prefix before the divergence
			if len(evs) < len(want) {
				t.Fatalf("%s\n delivered %d events before the known divergence, want at least %d", desc, len(evs), len(want))
			}
			evs = evs[:len(want)]
		}
		if len(evs) != len(want) {
			var g []string
			for _, e := range evs {
				g = append(g, fmt.Sprintf("%s %v {%s}", e.Id, e.ChangeType, txt(e.NewValue)))
			}
			var w []string
			for _, e := range want {
				w = append(w, fmt.Sprintf("%s %v {%s}", e.id, e.kind, txt(e.nv)))
			}
			t.Fatalf("%s\n delivered %v\n want      %v", desc, g, w)
		}
		for i := range evs {
			if evs[i].Id != want[i].id || evs[i].ChangeType != want[i].kind || (want[i].nv != nil && !proto.Equal(evs[i].NewValue, want[i].nv)) {
				t.Fatalf("%s\n event %d = %s %v {%s}, want %s %v {%s}", desc, i, evs[i].Id, evs[i].ChangeType, txt(evs[i].NewValue), want[i].id, want[i].kind, txt(want[i].nv))
			}
		}
		nt := ""
		if suppressed > 0 && len(want) > 1 {
			nt = desc
		}
		lib.Ev.Case(nt, func() any { return desc })
	})
}
