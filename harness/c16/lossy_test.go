package c16

import (
	"context"
	"fmt"
	"sort"
	"strings"
	"testing"
	"time"

	"github.com/smart-core-os/sc-api/go/types"
	"google.golang.org/protobuf/proto"
	"pgregory.net/rapid"

	"github.com/smart-core-os/sc-golang/internal/testproto"
	"github.com/smart-core-os/sc-golang/pkg/resource"
	"github.com/smart-core-os/sc-golang/verifh/lib"
)

// TestLaggingSubscriberEquivalence: a resource configured with exact-duplicate suppression, read by a subscriber
// WITHOUT backpressure that falls behind (it receives its seed, then nothing while the writes are made, then drains).
// The events it gets are merged ones (several updates folded into one, a remove and a re-add folded into a replace);
// the equivalence clause holds for them all the same: no delivered change carries a value equal to the one the
// subscriber already holds for that id (under its read mask), and none that differs is withheld (the folded view ends
// equal to the store). Exact equality only, so "holds" and "previous value" cannot drift apart (the listed tolerance
// finding is not in play).
func TestLaggingSubscriberEquivalence(t *testing.T) {
	rapid.Check(t, func(t *rapid.T) {
		mask := drawReadMask(t)
		isValue := rapid.IntRange(0, 3).Draw(t, "isValue") == 0
		ids := []string{"a", "b"}
		store := map[string]proto.Message{}
		var hist []string
		var val *resource.Value
		var col *resource.Collection
		if isValue {
			m := drawVal(t, "init")
			store["value"] = m
			val = resource.NewValue(resource.WithNoDuplicates(), resource.WithInitialValue(m))
			ids = []string{"value"}
		} else {
			opts := []resource.Option{resource.WithNoDuplicates()}
			for _, id := range ids {
				if rapid.Bool().Draw(t, "init-"+id) {
					m := drawVal(t, "init."+id)
					store[id] = m
					opts = append(opts, resource.WithInitialRecord(id, m))
					hist = append(hist, fmt.Sprintf("initial %s {%s}", id, txt(m)))
				}
			}
			col = resource.NewCollection(opts...)
		}
		ctx, cancel := context.WithCancel(context.Background())
		defer cancel()
		ropts := []resource.ReadOption{resource.WithBackpressure(false)}
		if mask != nil {
			ropts = append(ropts, resource.WithReadMask(mask))
		}
		type ev struct {
			id   string
			kind types.ChangeType
			nv   proto.Message
			seed bool
		}
		evs := make(chan ev, 4096)
		// the consumer receives the seed, then only receives when told to drain a burst (up to its marker): while a burst
		// is being written it is not receiving
		nseed := len(store)
		gate := make(chan int)
		consume := func(next func() (ev, bool)) {
			go func() {
				for i := 0; i < nseed; i++ {
					e, ok := next()
					if !ok {
						return
					}
					evs <- e
				}
				for b := range gate {
					for {
						e, ok := next()
						if !ok {
							return
						}
						evs <- e
						if isBurstMarker(e.nv, b) {
							break
						}
					}
				}
			}()
		}
		if isValue {
			ch := val.Pull(ctx, ropts...)
			consume(func() (ev, bool) {
				e, ok := <-ch
				if !ok {
					return ev{}, false
				}
				return ev{"value", types.ChangeType_UPDATE, e.Value, e.SeedValue}, true
			})
		} else {
			ch := col.Pull(ctx, ropts...)
			consume(func() (ev, bool) {
				e, ok := <-ch
				if !ok {
					return ev{}, false
				}
				return ev{e.Id, e.ChangeType, e.NewValue, e.SeedValue}, true
			})
		}
		defer close(gate)
		// the consumer side is the channel above: "not receiving" is modelled by writing in bursts the forwarding
		// goroutines cannot hand over one by one (bursts are made with no pause, then everything is drained)
		held := map[string]proto.Message{}
		fold := func(e ev, when string) {
			if e.kind == types.ChangeType_REMOVE {
				delete(held, e.id)
				return
			}
			if h, ok := held[e.id]; ok && !e.seed && proto.Equal(h, e.nv) {
				t.Fatalf("%s: delivered %v %s {%s} although the subscriber already holds exactly that value for it (mask %s)\nhistory: %s",
					when, e.kind, e.id, txt(e.nv), lib.MaskString(mask), strings.Join(hist, " ; "))
			}
			held[e.id] = e.nv
		}
		for i := 0; i < nseed; i++ {
			select {
			case e := <-evs:
				fold(e, "seed")
			case <-time.After(15 * time.Second):
				t.Fatalf("seed event %d of %d did not arrive", i+1, nseed)
			}
		}
		bursts := rapid.IntRange(1, 3).Draw(t, "bursts")
		merged := false
		for b := 0; b < bursts; b++ {
			n := rapid.IntRange(1, 8).Draw(t, "writes")
			for i := 0; i < n; i++ {
				id := rapid.SampledFrom(ids).Draw(t, "id")
				_, exists := store[id]
				if !isValue && exists && rapid.IntRange(0, 3).Draw(t, "delete") == 0 {
					if _, err := col.Delete(id); err != nil {
						t.Fatalf("Delete: %v", err)
					}
					delete(store, id)
					hist = append(hist, "delete "+id)
					continue
				}
				w := drawVal(t, fmt.Sprintf("w%d.%d", b, i))
				if exists && rapid.IntRange(0, 2).Draw(t, "same") == 0 {
					w = proto.Clone(store[id]).(*testproto.TestAllTypes) // write back what is there
				}
				var err error
				if isValue {
					_, err = val.Set(w)
				} else {
					_, err = col.Update(id, w, resource.WithCreateIfAbsent())
				}
				if err != nil {
					t.Fatalf("write: %v", err)
				}
				store[id] = w
				hist = append(hist, fmt.Sprintf("write %s {%s}", id, txt(w)))
			}
			// a marker write ends the burst; drain up to it
			marker := burstMarker(b + 1)
			if isValue {
				if _, err := val.Set(marker); err != nil {
					t.Fatalf("marker: %v", err)
				}
				store["value"] = marker
			} else if _, err := col.Update("zz-sentinel", marker, resource.WithCreateIfAbsent()); err != nil {
				t.Fatalf("marker: %v", err)
			}
			hist = append(hist, fmt.Sprintf("marker %d", b+1))
			gate <- b + 1
			got := 0
			for done := false; !done; {
				select {
				case e := <-evs:
					got++
					if isBurstMarker(e.nv, b+1) {
						done = true
					}
					fold(e, fmt.Sprintf("burst %d", b+1))
				case <-time.After(15 * time.Second):
					t.Fatalf("burst %d: the marker write did not arrive within 15s\nhistory: %s", b+1, strings.Join(hist, " ; "))
				}
			}
			if got < n {
				merged = true
			}
		}
		// nothing that differs was withheld: the folded view is the store
		var diffs []string
		for id, m := range store {
			h, ok := held[id]
			if !ok || !proto.Equal(h, lib.RefProject(m, mask)) {
				diffs = append(diffs, fmt.Sprintf("%s: store {%s}, view {%s}", id, txt(lib.RefProject(m, mask)), txt(h)))
			}
		}
		for id := range held {
			if _, ok := store[id]; !ok && id != "zz-sentinel" {
				diffs = append(diffs, fmt.Sprintf("%s: removed from the store, still in the view", id))
			}
		}
		if len(diffs) > 0 {
			sort.Strings(diffs)
			t.Fatalf("the lagging subscriber's view differs from the store: %v (mask %s)\nhistory: %s", diffs, lib.MaskString(mask), strings.Join(hist, " ; "))
		}
		nt := ""
		if merged {
			nt = fmt.Sprintf("%v|%s|%s", isValue, lib.MaskString(mask), strings.Join(hist, ";"))
			lib.Ev.Class("lagging subscriber: fewer events than writes (merged)")
		}
		lib.Ev.Case(nt, func() any { return strings.Join(hist, " ; ") })
	})
}

// burstMarker is distinct from every drawn value and from every other marker under each of the read masks in use.
func burstMarker(k int) *testproto.TestAllTypes {
	return &testproto.TestAllTypes{DefaultFloat: float32(1000000 + k), DefaultString: fmt.Sprintf("marker-%d", k)}
}

func isBurstMarker(m proto.Message, k int) bool {
	v, ok := m.(*testproto.TestAllTypes)
	return ok && (v.GetDefaultFloat() == float32(1000000+k) || v.GetDefaultString() == fmt.Sprintf("marker-%d", k))
}
