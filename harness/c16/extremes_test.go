package c16

import (
	"fmt"
	"math"
	"math/big"
	"testing"
	"time"

	"google.golang.org/protobuf/types/known/durationpb"
	"google.golang.org/protobuf/types/known/timestamppb"
	"pgregory.net/rapid"

	"github.com/smart-core-os/sc-golang/internal/testproto"
	"github.com/smart-core-os/sc-golang/pkg/cmp"
	"github.com/smart-core-os/sc-golang/verifh/lib"
)

// exactNanos is |a-b| in nanoseconds computed without overflow.
func exactNanos(as, an, bs, bn int64) *big.Int {
	d := new(big.Int).Sub(big.NewInt(as), big.NewInt(bs))
	d.Mul(d, big.NewInt(1e9))
	d.Add(d, big.NewInt(an-bn))
	return d.Abs(d)
}

// TestToleranceExtremes: time and duration tolerances on values that are far apart (centuries for timestamps, the whole
// valid range for durations) and on tolerances up to the largest time.Duration: the verdict is still "within the stated
// tolerance", computed here with big integers, and the comparer stays symmetric.
func TestToleranceExtremes(t *testing.T) {
	// valid Timestamp range: 0001-01-01 .. 9999-12-31; valid Duration range: +-10000 years
	tsSeconds := []int64{-62135596800, -62135596799, -11644473600, -1, 0, 1, 1700000000, 4102444800, 253402300799}
	durSeconds := []int64{-315576000000, -9223372037, -9223372036, -5000000000, -1, 0, 1, 5000000000, 9223372036, 9223372037, 315576000000}
	tols := []time.Duration{0, 1, time.Second, time.Hour, 100 * 365 * 24 * time.Hour, math.MaxInt64 - 1, math.MaxInt64}
	rapid.Check(t, func(t *rapid.T) {
		tol := rapid.SampledFrom(tols).Draw(t, "tolerance")
		nearby := rapid.Bool().Draw(t, "nearby") // second value close to the first (around the tolerance) or anywhere
		if rapid.Bool().Draw(t, "timestamp") {
			as := rapid.SampledFrom(tsSeconds).Draw(t, "a.seconds")
			an := int64(rapid.SampledFrom([]int32{0, 1, 999999999}).Draw(t, "a.nanos"))
			bs := rapid.SampledFrom(tsSeconds).Draw(t, "b.seconds")
			bn := int64(rapid.SampledFrom([]int32{0, 1, 999999999}).Draw(t, "b.nanos"))
			if nearby && tol < 200*365*24*time.Hour {
				bs = as + int64(tol/time.Second) + int64(rapid.IntRange(-1, 1).Draw(t, "off"))
				if bs < tsSeconds[0] || bs > tsSeconds[len(tsSeconds)-1] {
					bs = as
				}
			}
			x := &testproto.WellKnown{DefaultTimestamp: &timestamppb.Timestamp{Seconds: as, Nanos: int32(an)}}
			y := &testproto.WellKnown{DefaultTimestamp: &timestamppb.Timestamp{Seconds: bs, Nanos: int32(bn)}}
			want := exactNanos(as, an, bs, bn).Cmp(big.NewInt(int64(tol))) <= 0
			c := cmp.Equal(cmp.TimeValueWithin(tol))
			got, err := callCmp(c, x, y)
			if err != nil {
				t.Fatal(err)
			}
			rev, _ := callCmp(c, y, x)
			desc := fmt.Sprintf("TimeValueWithin(%v) on %v vs %v", tol, x.DefaultTimestamp.AsTime().Format(time.RFC3339Nano), y.DefaultTimestamp.AsTime().Format(time.RFC3339Nano))
			if got != rev {
				t.Fatalf("%s is not symmetric: %v one way, %v the other", desc, got, rev)
			}
			if got != want {
				t.Fatalf("%s = %v, the timestamps are %v ns apart so it must be %v", desc, got, exactNanos(as, an, bs, bn), want)
			}
			lib.Ev.Class("extremes:timestamp")
			nt := ""
			if exactNanos(as, an, bs, bn).Cmp(big.NewInt(math.MaxInt64)) > 0 {
				nt = desc
				lib.Ev.Class("extremes:timestamps further apart than a time.Duration can express")
			}
			lib.Ev.Case(nt, func() any { return fmt.Sprintf("%s => %v", desc, got) })
			return
		}
		as := rapid.SampledFrom(durSeconds).Draw(t, "a.seconds")
		bs := rapid.SampledFrom(durSeconds).Draw(t, "b.seconds")
		sign := func(s int64) int64 {
			if s < 0 {
				return -1
			}
			return 1
		}
		an := sign(as) * int64(rapid.SampledFrom([]int32{0, 1, 999999999}).Draw(t, "a.nanos"))
		bn := sign(bs) * int64(rapid.SampledFrom([]int32{0, 1, 999999999}).Draw(t, "b.nanos"))
		x := &testproto.WellKnown{DefaultDuration: &durationpb.Duration{Seconds: as, Nanos: int32(an)}}
		y := &testproto.WellKnown{DefaultDuration: &durationpb.Duration{Seconds: bs, Nanos: int32(bn)}}
		want := exactNanos(as, an, bs, bn).Cmp(big.NewInt(int64(tol))) <= 0
		c := cmp.Equal(cmp.DurationValueWithin(tol))
		got, err := callCmp(c, x, y)
		if err != nil {
			t.Fatal(err)
		}
		rev, _ := callCmp(c, y, x)
		desc := fmt.Sprintf("DurationValueWithin(%v) on {%ds %dns} vs {%ds %dns}", tol, as, an, bs, bn)
		if got != rev {
			t.Fatalf("%s is not symmetric: %v one way, %v the other", desc, got, rev)
		}
		// durations beyond what time.Duration can hold (about 292 years) have no exact counterpart in Go: only demand the
		// verdict when both values are representable
		representable := func(s int64) bool { return s > -9223372036 && s < 9223372036 }
		if representable(as) && representable(bs) {
			if got != want {
				t.Fatalf("%s = %v, the durations are %v ns apart so it must be %v", desc, got, exactNanos(as, an, bs, bn), want)
			}
		} else {
			lib.Ev.Class("extremes:duration beyond time.Duration (symmetry only)")
		}
		lib.Ev.Class("extremes:duration")
		lib.Ev.Case("", func() any { return desc })
	})
}
