package c16

import (
	"errors"
	"fmt"
	"strings"
	"testing"

	"google.golang.org/protobuf/proto"
	"google.golang.org/protobuf/types/known/fieldmaskpb"
	"pgregory.net/rapid"

	"github.com/smart-core-os/sc-golang/internal/testproto"
	"github.com/smart-core-os/sc-golang/verifh/lib"
	"github.com/smart-core-os/sc-golang/verifh/rlib"
)

// TestEquivalenceWithFilteredView: a collection with an equivalence (WithNoDuplicates) pulled through an include
// predicate and a read mask. What the subscriber "already holds" is what its filtered, masked view holds: an update that
// leaves the masked value as it was but makes the item enter or leave the view is not a duplicate and must arrive (as
// ADD / REMOVE); an update the subscriber cannot tell from what it holds must not. Oracle: the reference event model
// (rlib) with exact, hence transitive, equality.
func TestEquivalenceWithFilteredView(t *testing.T) {
	rapid.Check(t, func(t *rapid.T) {
		cfg := rlib.Config{Proto: &testproto.ForeignMessage{}, Initial: map[string]proto.Message{}, Equivalence: "nodup"}
		for _, id := range []string{"a", "b"} {
			if v := rapid.IntRange(0, 3).Draw(t, "init-"+id); v > 0 {
				cfg.Initial[id] = &testproto.ForeignMessage{C: int32(v), D: int32(rapid.IntRange(0, 1).Draw(t, "initD-"+id))}
			}
		}
		// predicates over field c (and the id); masks that keep c, hide c, or keep nothing
		threshold := int32(rapid.IntRange(1, 3).Draw(t, "threshold"))
		onlyA := rapid.Bool().Draw(t, "onlyA")
		include := func(id string, m proto.Message) bool {
			fm, ok := m.(*testproto.ForeignMessage)
			return ok && fm.GetC() >= threshold && (!onlyA || id == "a")
		}
		sub := rlib.SubSpec{Backpressure: rapid.Bool().Draw(t, "backpressure"), Include: include, IncludeName: fmt.Sprintf("c>=%d onlyA=%v", threshold, onlyA)}
		if paths := rapid.SampledFrom([][]string{nil, {"d"}, {"d"}, {"c"}, {}}).Draw(t, "mask"); paths != nil {
			sub.ReadMask = &fieldmaskpb.FieldMask{Paths: paths}
		}
		r := rlib.NewRunner(cfg, sub, rlib.SubSpec{Backpressure: true})
		n := rapid.IntRange(1, 12).Draw(t, "steps")
		flips, sameMasked := 0, 0
		for i := 0; i < n; i++ {
			id := rapid.SampledFrom([]string{"a", "b"}).Draw(t, "id")
			var op rlib.Op
			if rapid.IntRange(0, 4).Draw(t, "delete") == 0 {
				op = rlib.Op{Kind: rlib.OpDelete, ID: id, AllowMissing: true}
			} else {
				op = rlib.Op{Kind: rlib.OpUpdate, ID: id, CreateIfAbsent: true, Val: &testproto.ForeignMessage{C: int32(rapid.IntRange(1, 3).Draw(t, "c")), D: int32(rapid.IntRange(0, 1).Draw(t, "d"))}}
			}
			before := r.Model.Get(id, nil)
			if err := r.Do(op); err != nil {
				if errors.Is(err, rlib.ErrStop) {
					break
				}
				t.Fatalf("%v\nsubscription: %v\nhistory:\n  %s", err, sub, strings.Join(r.History, "\n  "))
			}
			after := r.Model.Get(id, nil)
			if before.Found && after.Found {
				if include(id, before.Ret) != include(id, after.Ret) {
					flips++
					if proto.Equal(lib.RefProject(before.Ret, sub.ReadMask), lib.RefProject(after.Ret, sub.ReadMask)) {
						sameMasked++
					}
				}
			}
		}
		if err := r.Finish(); err != nil {
			t.Fatalf("%v\nsubscription: %v\nhistory:\n  %s", err, sub, strings.Join(r.History, "\n  "))
		}
		nt := ""
		if flips > 0 {
			nt = fmt.Sprintf("filtered|%v|%s", sub, strings.Join(r.OutcomeKey, ";"))
			lib.Ev.Class("resource:update that flips the include verdict under an equivalence")
		}
		if sameMasked > 0 {
			lib.Ev.Class("resource:... while leaving the masked value unchanged")
		}
		lib.Ev.Case(nt, func() any {
			return map[string]any{"subscription": sub.String(), "history": r.History}
		})
	})
}
