package c16

import (
	"context"
	"fmt"
	"sort"
	"strings"
	"testing"
	"time"

	"github.com/smart-core-os/sc-api/go/types"
	"google.golang.org/protobuf/proto"
	"pgregory.net/rapid"

	"github.com/smart-core-os/sc-golang/internal/testproto"
	"github.com/smart-core-os/sc-golang/pkg/cmp"
	"github.com/smart-core-os/sc-golang/pkg/resource"
	"github.com/smart-core-os/sc-golang/verifh/lib"
)

// TestToleranceWithFilteredView: a collection with a float tolerance, pulled through an include predicate whose
// threshold lies inside that tolerance. An item entering or leaving the filtered view is an ADD or a REMOVE - one side
// is nil - and nil is equivalent to no value: the equivalence may suppress an update between two matching, equivalent
// versions, never an entry or an exit. Oracle: after a sentinel, the ids in the folded filtered stream are the ids
// List returns with the same predicate.
func TestToleranceWithFilteredView(t *testing.T) {
	rapid.Check(t, func(t *rapid.T) {
		tol := rapid.SampledFrom([]float64{0.25, 0.5, 1}).Draw(t, "tolerance")
		threshold := float32(rapid.SampledFrom([]int{2, 3}).Draw(t, "threshold"))
		include := func(id string, m proto.Message) bool {
			return id == "zz" || m.(*testproto.TestAllTypes).GetDefaultFloat() >= threshold
		}
		col := resource.NewCollection(resource.WithMessageEquivalence(cmp.Equal(cmp.FloatValueApprox(0, tol))))
		ctx, cancel := context.WithCancel(context.Background())
		defer cancel()
		backpressure := rapid.Bool().Draw(t, "backpressure")
		ch := col.Pull(ctx, resource.WithBackpressure(backpressure), resource.WithInclude(resource.FilterFunc(include)))
		view := map[string]bool{}
		var events []string
		done := make(chan string, 1)
		go func() {
			for {
				select {
				case e, ok := <-ch:
					if !ok {
						done <- "stream closed"
						return
					}
					events = append(events, fmt.Sprintf("%v %s", e.ChangeType, e.Id))
					if e.ChangeType == types.ChangeType_REMOVE {
						delete(view, e.Id)
					} else {
						view[e.Id] = true
					}
					if e.Id == "zz" {
						done <- ""
						return
					}
				case <-time.After(15 * time.Second):
					done <- "the sentinel did not arrive within 15s"
					return
				}
			}
		}()
		vals := []float32{1.75, 1.9, 2, 2.1, 2.25, 2.75, 2.9, 3, 3.1, 3.25, 5}
		var hist []string
		crossings := 0
		for i := 0; i < rapid.IntRange(1, 12).Draw(t, "steps"); i++ {
			id := rapid.SampledFrom([]string{"a", "b"}).Draw(t, "id")
			old, had := col.Get(id)
			if had && rapid.IntRange(0, 5).Draw(t, "delete") == 0 {
				if _, err := col.Delete(id); err != nil {
					t.Fatalf("delete: %v", err)
				}
				hist = append(hist, "delete "+id)
				continue
			}
			v := rapid.SampledFrom(vals).Draw(t, "v")
			m := &testproto.TestAllTypes{DefaultFloat: v, DefaultString: "x"}
			if had && include(id, old) != include(id, m) {
				crossings++
			}
			if _, err := col.Update(id, m, resource.WithCreateIfAbsent()); err != nil {
				t.Fatalf("update: %v", err)
			}
			hist = append(hist, fmt.Sprintf("%s=%v", id, v))
		}
		if _, err := col.Add("zz", &testproto.TestAllTypes{DefaultFloat: 100}); err != nil {
			t.Fatalf("sentinel: %v", err)
		}
		if msg := <-done; msg != "" {
			t.Fatalf("%s\nhistory: %s", msg, strings.Join(hist, " "))
		}
		var want, got []string
		for _, id := range []string{"a", "b", "zz"} {
			if m, ok := col.Get(id); ok && include(id, m) {
				want = append(want, id)
			}
		}
		for id := range view {
			got = append(got, id)
		}
		sort.Strings(got)
		desc := fmt.Sprintf("FloatValueApprox(0,%v) include default_float>=%v backpressure=%v: %s", tol, threshold, backpressure, strings.Join(hist, " "))
		if fmt.Sprint(got) != fmt.Sprint(want) {
			t.Fatalf("the folded filtered stream has %v, List with the same predicate has %v: an entry or exit was withheld as equivalent\nevents: %v\n%s", got, want, events, desc)
		}
		nt := ""
		if crossings > 0 {
			nt = desc
			lib.Ev.Class("tolerance + include: an update crossed the predicate")
		}
		lib.Ev.Case(nt, func() any { return desc })
	})
}
