package c03

import (
	"context"
	"fmt"
	"sort"
	"strings"
	"sync"
	"testing"
	"time"

	"google.golang.org/protobuf/proto"
	"google.golang.org/protobuf/types/known/fieldmaskpb"

	"github.com/smart-core-os/sc-api/go/types"

	"github.com/smart-core-os/sc-golang/internal/testproto"
	"github.com/smart-core-os/sc-golang/pkg/resource"
	"github.com/smart-core-os/sc-golang/verifh/lib"
)

// pausedCase: one collection, one writer, a reader that keeps receiving and a backpressured peer subscription whose
// consumer goes quiet for longer than any send budget in the tree (5 s) without cancelling, then comes back.
type pausedCase struct {
	PeerFirst bool   // the peer subscribed before (true) or after the observed reader
	Reader    string // lossy | backpressure | masked
	Second    string // the write made while the peer is away: update | add | delete
}

func (c pausedCase) String() string {
	return fmt.Sprintf("peerFirst=%v reader=%s writeWhileAway=%s", c.PeerFirst, c.Reader, c.Second)
}

const peerPause = 5600 * time.Millisecond

func runPausedCase(c pausedCase) error {
	col := resource.NewCollection(resource.WithInitialRecord("a", fm(0)), resource.WithInitialRecord("b", fm(0)))
	ctx, cancel := context.WithCancel(context.Background())
	defer cancel()
	resume := make(chan struct{})
	peerSeeded := make(chan struct{})
	openPeer := func() {
		ch := col.Pull(ctx, resource.WithBackpressure(true))
		go func() {
			for i := 0; i < 2; i++ {
				<-ch
			}
			close(peerSeeded)
			<-resume // busy elsewhere, its context stays live
			for range ch {
			}
		}()
	}
	var mu sync.Mutex
	view := map[string]int32{}
	sentinel := make(chan struct{})
	readerSeeded := make(chan struct{})
	var foldErr error
	openReader := func() {
		var ropts []resource.ReadOption
		switch c.Reader {
		case "backpressure":
			ropts = append(ropts, resource.WithBackpressure(true))
		case "masked":
			ropts = append(ropts, resource.WithBackpressure(true), resource.WithReadMask(&fieldmaskpb.FieldMask{Paths: []string{"c"}}))
		}
		ch := col.Pull(ctx, ropts...)
		go func() {
			n := 0
			for e := range ch {
				mu.Lock()
				switch e.ChangeType {
				case types.ChangeType_REMOVE:
					delete(view, e.Id)
				default:
					if e.NewValue == nil {
						foldErr = fmt.Errorf("event %v of %q without a new value", e.ChangeType, e.Id)
					} else {
						view[e.Id] = e.NewValue.(*testproto.ForeignMessage).C
					}
				}
				mu.Unlock()
				n++
				if n == 2 {
					close(readerSeeded)
				}
				if e.Id == "zz" {
					close(sentinel)
					for range ch {
					}
					return
				}
			}
		}()
	}
	if c.PeerFirst {
		openPeer()
		openReader()
	} else {
		openReader()
		openPeer()
	}
	for _, ch := range []chan struct{}{peerSeeded, readerSeeded} {
		select {
		case <-ch:
		case <-time.After(10 * time.Second):
			return fmt.Errorf("the seeds of an idle collection did not arrive within 10s")
		}
	}
	time.AfterFunc(peerPause, func() { close(resume) })
	var hist []string
	write := func(desc string, f func() error) error {
		t0 := time.Now()
		err := f()
		hist = append(hist, fmt.Sprintf("%s (returned after %v, err=%v)", desc, time.Since(t0).Round(100*time.Millisecond), err))
		return err
	}
	upd := func(id string, v int32, o ...resource.WriteOption) func() error {
		return func() error { _, err := col.Update(id, fm(v), o...); return err }
	}
	// the first write is absorbed by the peer's forwarding goroutine, the next one waits for the peer
	steps := []struct {
		desc string
		f    func() error
	}{{"Update(a,1)", upd("a", 1)}}
	switch c.Second {
	case "update":
		steps = append(steps, struct {
			desc string
			f    func() error
		}{"Update(b,2)", upd("b", 2)})
	case "add":
		steps = append(steps, struct {
			desc string
			f    func() error
		}{"Add(c,2)", func() error { _, err := col.Add("c", fm(2)); return err }})
	case "delete":
		steps = append(steps, struct {
			desc string
			f    func() error
		}{"Delete(b)", func() error { _, err := col.Delete("b"); return err }})
	}
	steps = append(steps, struct {
		desc string
		f    func() error
	}{"Update(a,3)", upd("a", 3)}, struct {
		desc string
		f    func() error
	}{"Add(zz,-1) [sentinel]", func() error { _, err := col.Add("zz", fm(-1)); return err }})
	done := make(chan error, 1)
	go func() {
		for _, s := range steps {
			if err := write(s.desc, s.f); err != nil {
				done <- fmt.Errorf("%s failed: %v", s.desc, err)
				return
			}
		}
		done <- nil
	}()
	select {
	case err := <-done:
		if err != nil {
			return fmt.Errorf("%v\nhistory: %s", err, strings.Join(hist, "; "))
		}
	case <-time.After(peerPause + 20*time.Second):
		return fmt.Errorf("the writer was still stuck 20s after the peer had resumed receiving")
	}
	select {
	case <-sentinel:
	case <-time.After(20 * time.Second):
		return fmt.Errorf("the reader (which keeps receiving) never got the sentinel\nhistory: %s", strings.Join(hist, "; "))
	}
	want := map[string]int32{}
	for _, m := range col.List() {
		_ = m
	}
	for _, id := range []string{"a", "b", "c", "zz"} {
		if m, ok := col.Get(id); ok {
			want[id] = m.(*testproto.ForeignMessage).C
		}
	}
	mu.Lock()
	defer mu.Unlock()
	if foldErr != nil {
		return foldErr
	}
	if fmt.Sprint(sortedView(view)) != fmt.Sprint(sortedView(want)) {
		return fmt.Errorf("the reader's folded view is %v, the collection holds %v (a peer subscription stopped receiving for %v and then resumed; the reader never stopped)\nhistory: %s",
			sortedView(view), sortedView(want), peerPause, strings.Join(hist, "; "))
	}
	return nil
}

func sortedView(m map[string]int32) []string {
	var out []string
	for k, v := range m {
		out = append(out, fmt.Sprintf("%s=%d", k, v))
	}
	sort.Strings(out)
	return out
}

var _ = proto.Equal

// TestPausedBackpressuredPeer: "a reader that keeps receiving" converges whatever the other subscribers of the
// collection do - here a backpressured peer goes quiet for 5.6 s of real time (longer than any send budget in the
// tree) and then resumes. All scenarios run side by side, the test takes about as long as one pause.
func TestPausedBackpressuredPeer(t *testing.T) {
	var cases []pausedCase
	for _, pf := range []bool{true, false} {
		for _, r := range []string{"lossy", "backpressure", "masked"} {
			for _, s := range []string{"update", "add", "delete"} {
				cases = append(cases, pausedCase{pf, r, s})
			}
		}
	}
	errs := make([]error, len(cases))
	var wg sync.WaitGroup
	for i, c := range cases {
		wg.Add(1)
		go func(i int, c pausedCase) {
			defer wg.Done()
			errs[i] = runPausedCase(c)
		}(i, c)
	}
	wg.Wait()
	for i, c := range cases {
		if errs[i] != nil {
			t.Errorf("%v: %v", c, errs[i])
			continue
		}
		c := c
		nt := ""
		if c.PeerFirst {
			nt = "paused|" + c.String()
		}
		lib.Ev.Class("paused-peer:" + c.Second)
		lib.Ev.Case(nt, func() any { return "backpressured peer quiet for 5.6s then resumes: " + c.String() })
	}
	lib.Ev.Exhaustive("peer subscribed before/after the reader x reader {lossy, backpressure, masked} x write made while the peer is away {update, add, delete}", !t.Failed())
}
