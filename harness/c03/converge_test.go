package c03

import (
	"context"
	"fmt"
	"sort"
	"strings"
	"sync"
	"sync/atomic"
	"testing"
	"time"

	"google.golang.org/protobuf/proto"
	"google.golang.org/protobuf/types/known/fieldmaskpb"
	"pgregory.net/rapid"

	"github.com/smart-core-os/sc-api/go/types"

	"github.com/smart-core-os/sc-golang/internal/testproto"
	"github.com/smart-core-os/sc-golang/internal/verifhook"
	"github.com/smart-core-os/sc-golang/pkg/resource"
	"github.com/smart-core-os/sc-golang/verifh/lib"
)

const (
	sentinelID  = "~sentinel~"
	sentinelVal = int32(1 << 30)
	waitBound   = 10 * time.Second
)

func fm(c int32) proto.Message { return &testproto.ForeignMessage{C: c, D: c * 10} }
func cOf(m proto.Message) int32 {
	if m == nil {
		return -1
	}
	return m.(*testproto.ForeignMessage).GetC()
}

type wop struct {
	kind string // set | update | delete | add
	id   string
	val  int32
	at   int64 // != 0: the write carries an explicit write time, writeTimeBase + at seconds (years before the wall clock's now, and not increasing from write to write)
}

var writeTimeBase = time.Unix(1000000000, 0)

func (w wop) String() string {
	at := ""
	if w.at != 0 {
		at = fmt.Sprintf("@%+d", w.at)
	}
	if w.kind == "delete" {
		return fmt.Sprintf("delete(%s)%s", w.id, at)
	}
	return fmt.Sprintf("%s(%s,%d)%s", w.kind, w.id, w.val, at)
}

func (w wop) opts(more ...resource.WriteOption) []resource.WriteOption {
	if w.at != 0 {
		more = append(more, resource.WithWriteTime(writeTimeBase.Add(time.Duration(w.at)*time.Second)))
	}
	return more
}

func drawAt(t *rapid.T, label string) int64 {
	if rapid.IntRange(0, 2).Draw(t, label+"hasAt") != 0 {
		return 0
	}
	return int64(rapid.SampledFrom([]int{-5, -2, -1, 1, 2, 5, 3600}).Draw(t, label+"at"))
}

type subSpec struct {
	pullID       string // "" = Pull
	updatesOnly  bool
	backpressure bool
	masked       bool
	include      bool   // Pull only: a filtered view (items whose d/10 is odd); the fold must then be the filtered store
	when         string // before | inject | after
}

// includeOdd is the predicate of filtered views: it reads field d, which the read mask of masked subscriptions leaves out.
func includeOdd(id string, m proto.Message) bool {
	if id == sentinelID {
		return true
	}
	fmv, ok := m.(*testproto.ForeignMessage)
	return ok && fmv != nil && (fmv.GetD()/10)%2 != 0
}

func (s subSpec) String() string {
	k := "Pull"
	if s.pullID != "" {
		k = "PullID(" + s.pullID + ")"
	}
	return fmt.Sprintf("%s{updatesOnly=%v backpressure=%v masked=%v filtered=%v opened=%s}", k, s.updatesOnly, s.backpressure, s.masked, s.include, s.when)
}

type inj struct {
	point  string
	nth    int
	action string // subscribe | cancel | write | yield
	sub    int
	w      wop
	fired  bool
}

func (i inj) String() string {
	switch i.action {
	case "subscribe", "cancel":
		return fmt.Sprintf("%s#%d: %s sub%d", i.point, i.nth, i.action, i.sub)
	case "write":
		return fmt.Sprintf("%s#%d: %v", i.point, i.nth, i.w)
	}
	return fmt.Sprintf("%s#%d: yield", i.point, i.nth)
}

// lockedPoints are reached while the resource's read lock may be held: only non-blocking actions run inline there.
var lockedPoints = map[string]bool{"value.sub.afterSnapshot": true, "coll.sub.afterSnapshot": true, "bus.listen.beforeRegister": true}

var writerPointsValue = []string{"gau.afterRead", "gau.beforeLock", "value.set.afterCommit", "bus.send.afterSnapshot", "bus.send.beforeListener"}
var writerPointsColl = []string{"gau.afterRead", "gau.beforeLock", "coll.update.afterCommit", "coll.delete.afterRead", "coll.delete.beforeLock", "bus.send.afterSnapshot", "bus.send.beforeListener"}
var subPointsValue = []string{"value.sub.afterSnapshot", "bus.listen.beforeRegister"}
var subPointsColl = []string{"coll.sub.afterSnapshot", "bus.listen.beforeRegister"}

type subRun struct {
	spec      subSpec
	cancel    context.CancelFunc
	cancelled atomic.Bool
	opened    atomic.Bool
	openedAt  int64 // write stamp when the subscribe call returned
	openT0    int64 // world tick when the subscribe call started / returned
	openT1    int64
	mu        sync.Mutex
	view      map[string]proto.Message
	touched   map[string]bool
	lastVal   proto.Message
	nEvents   int
	sawEnd    bool
	closed    bool
	problem   string
	done      chan struct{}
}

type world struct {
	isValue bool
	val     *resource.Value
	col     *resource.Collection
	subs    []*subRun
	stamp   atomic.Int64 // advances with every write attempt
	tick    atomic.Int64 // advances at the start and end of every write and every subscribe call
	spans   []writeSpan  // successful creating/updating writes with their tick interval (guarded by mu)
	// lastWriteStart[id] = stamp at which the last successful write to id started
	mu             sync.Mutex
	lastWriteStart map[string]int64
	writersOf      map[string]map[int]bool
	deleteDepth    atomic.Int64
	opStack        []*stackOp // ops executing on the driver goroutine, innermost last
	helpers        sync.WaitGroup
	helperSeq      atomic.Int64
	deleteHelpers  sync.WaitGroup // helper writes launched inside a Delete's publication, joined before the driver's next op
	log            []string
}

func (w *world) logf(format string, a ...any) {
	w.mu.Lock()
	w.log = append(w.log, fmt.Sprintf(format, a...))
	w.mu.Unlock()
}

// writeSpan: a successful non-delete write to id ran during ticks [t0,t1].
type writeSpan struct {
	id     string
	t0, t1 int64
}

// subscribedDuringWrite: a successful creating/updating write of id overlapped the subscribe call of sr, so the
// subscription may have been registered between that write's commit and its publication.
func (w *world) subscribedDuringWrite(sr *subRun, id string) bool {
	w.mu.Lock()
	defer w.mu.Unlock()
	for _, sp := range w.spans {
		if sp.id == id && sp.t0 < sr.openT1 && sp.t1 > sr.openT0 {
			return true
		}
	}
	return false
}

func (w *world) write(op wop, who int) error {
	st := w.stamp.Add(1)
	t0 := w.tick.Add(1)
	var err error
	if who == 0 || who == 8 {
		w.opStack = append(w.opStack, &stackOp{op: op})
		defer func() { w.opStack = w.opStack[:len(w.opStack)-1] }()
	}
	switch {
	case w.isValue:
		_, err = w.val.Set(fm(op.val), op.opts()...)
	case op.kind == "delete":
		// deletes running on the driver goroutine (top level or injected inline) publish while holding the write lock
		if who == 0 || who == 8 {
			w.deleteDepth.Add(1)
		}
		_, err = w.col.Delete(op.id, op.opts(resource.WithAllowMissing(true))...)
		if who == 0 || who == 8 {
			w.deleteDepth.Add(-1)
		}
	case op.kind == "add":
		_, err = w.col.Add(op.id, fm(op.val), op.opts()...)
	default:
		_, err = w.col.Update(op.id, fm(op.val), op.opts(resource.WithCreateIfAbsent())...)
	}
	id := op.id
	if w.isValue {
		id = "value"
	}
	t1 := w.tick.Add(1)
	w.mu.Lock()
	if err == nil {
		w.lastWriteStart[id] = st
		if op.kind != "delete" {
			w.spans = append(w.spans, writeSpan{id, t0, t1})
		}
	}
	if w.writersOf[id] == nil {
		w.writersOf[id] = map[int]bool{}
	}
	w.writersOf[id][who] = true
	w.log = append(w.log, fmt.Sprintf("w%d %v err=%v", who, op, err))
	w.mu.Unlock()
	return err
}

func mask(s subSpec) *fieldmaskpb.FieldMask {
	if s.masked {
		return &fieldmaskpb.FieldMask{Paths: []string{"c"}}
	}
	return nil
}

func (w *world) open(i int) {
	sr := w.subs[i]
	if sr.opened.Swap(true) {
		return
	}
	ctx, cancel := context.WithCancel(context.Background())
	sr.cancel = cancel
	sr.openT0 = w.tick.Add(1)
	opts := []resource.ReadOption{resource.WithUpdatesOnly(sr.spec.updatesOnly), resource.WithBackpressure(sr.spec.backpressure)}
	if m := mask(sr.spec); m != nil {
		opts = append(opts, resource.WithReadMask(m))
	}
	if sr.spec.include && sr.spec.pullID == "" && !w.isValue {
		opts = append(opts, resource.WithInclude(resource.FilterFunc(includeOdd)))
	}
	consumeV := func(ch <-chan *resource.ValueChange, key string, stopAtSentinel bool) {
		defer close(sr.done)
		for {
			var bound <-chan time.Time
			if stopAtSentinel {
				bound = time.After(waitBound)
			}
			select {
			case e, ok := <-ch:
				sr.mu.Lock()
				if !ok {
					sr.closed = true
					sr.mu.Unlock()
					return
				}
				sr.nEvents++
				if e.Value == nil {
					sr.problem = "event without a value"
				}
				if stopAtSentinel && cOf(e.Value) == sentinelVal {
					sr.sawEnd = true
					sr.mu.Unlock()
					return
				}
				sr.view[key] = e.Value
				sr.touched[key] = true
				sr.lastVal = e.Value
				sr.mu.Unlock()
			case <-bound:
				return
			}
		}
	}
	switch {
	case w.isValue:
		ch := w.val.Pull(ctx, opts...)
		go consumeV(ch, "value", true)
	case sr.spec.pullID != "":
		ch := w.col.PullID(ctx, sr.spec.pullID, opts...)
		go consumeV(ch, sr.spec.pullID, false)
	default:
		ch := w.col.Pull(ctx, opts...)
		go func() {
			defer close(sr.done)
			for {
				select {
				case e, ok := <-ch:
					sr.mu.Lock()
					if !ok {
						sr.closed = true
						sr.mu.Unlock()
						return
					}
					sr.nEvents++
					if e.Id == sentinelID {
						sr.sawEnd = true
						sr.mu.Unlock()
						return
					}
					sr.touched[e.Id] = true
					switch e.ChangeType {
					case types.ChangeType_REMOVE:
						delete(sr.view, e.Id)
					case types.ChangeType_ADD, types.ChangeType_UPDATE, types.ChangeType_REPLACE:
						if e.NewValue == nil {
							sr.problem = fmt.Sprintf("event %v for %q without a new value", e.ChangeType, e.Id)
						}
						sr.view[e.Id] = e.NewValue
					default:
						sr.problem = fmt.Sprintf("unexpected change type %v", e.ChangeType)
					}
					sr.mu.Unlock()
				case <-time.After(waitBound):
					return
				}
			}
		}()
	}
	sr.openedAt = w.stamp.Load()
	sr.openT1 = w.tick.Add(1)
	w.logf("sub%d opened %v", i, sr.spec)
}

func (w *world) cancelSub(i int) {
	sr := w.subs[i]
	if !sr.opened.Load() || sr.cancelled.Swap(true) {
		return
	}
	sr.cancel()
	w.logf("sub%d cancelled", i)
}

type stackOp struct {
	op        wop
	inPublish bool // the op has committed and is publishing (or about to)
}

type scenario struct {
	isValue    bool
	initial    map[string]int32
	subs       []subSpec
	writers    [][]wop
	order      []int // which writer moves next
	injs       []*inj
	parallel   bool
	lateCancel []int
}

func (s scenario) describe() string {
	var sb strings.Builder
	fmt.Fprintf(&sb, "isValue=%v parallel=%v initial=%v\n", s.isValue, s.parallel, s.initial)
	for i, sp := range s.subs {
		fmt.Fprintf(&sb, "  sub%d: %v\n", i, sp)
	}
	for i, w := range s.writers {
		fmt.Fprintf(&sb, "  writer%d: %v\n", i+1, w)
	}
	fmt.Fprintf(&sb, "  order: %v\n", s.order)
	for _, in := range s.injs {
		fmt.Fprintf(&sb, "  inject %v (fired=%v)\n", in, in.fired)
	}
	return sb.String()
}

func genScenario(t *rapid.T, parallel bool) scenario {
	s := scenario{isValue: rapid.IntRange(0, 2).Draw(t, "isValue") == 0, parallel: parallel, initial: map[string]int32{}}
	ids := []string{"a", "b", "c"}
	if s.isValue {
		if rapid.Bool().Draw(t, "hasInitial") {
			s.initial["value"] = 0
		}
	} else {
		for _, id := range ids {
			if rapid.Bool().Draw(t, "init-"+id) {
				s.initial[id] = 0
			}
		}
	}
	nsubs := rapid.IntRange(1, 3).Draw(t, "nsubs")
	for i := 0; i < nsubs; i++ {
		sp := subSpec{
			updatesOnly:  rapid.IntRange(0, 3).Draw(t, "updatesOnly") == 0,
			backpressure: rapid.Bool().Draw(t, "backpressure"),
			masked:       rapid.IntRange(0, 3).Draw(t, "masked") == 0,
			when:         rapid.SampledFrom([]string{"before", "inject", "inject", "inject", "after"}).Draw(t, "when"),
		}
		if !s.isValue && rapid.IntRange(0, 4).Draw(t, "pullID") == 0 {
			sp.pullID = rapid.SampledFrom(ids).Draw(t, "pullIDid")
		} else if !s.isValue && rapid.IntRange(0, 4).Draw(t, "filtered") == 2 {
			sp.include = true
		}
		if parallel && sp.when == "inject" {
			sp.when = "during"
		}
		s.subs = append(s.subs, sp)
	}
	nw := rapid.IntRange(1, 3).Draw(t, "nwriters")
	val := int32(1)
	for i := 0; i < nw; i++ {
		n := rapid.IntRange(1, 5).Draw(t, "nwrites")
		var ws []wop
		for j := 0; j < n; j++ {
			w := wop{kind: "update", val: val, at: drawAt(t, "w")}
			val++
			if rapid.IntRange(0, 6).Draw(t, "zeroBody") == 3 {
				w.val = 0 // the all-default (empty) message is a value like any other: creating an item with it is a change
			}
			if s.isValue {
				w.kind, w.id = "set", "value"
			} else {
				w.id = rapid.SampledFrom(ids).Draw(t, "wid")
				w.kind = rapid.SampledFrom([]string{"update", "update", "update", "delete", "add"}).Draw(t, "wkind")
			}
			ws = append(ws, w)
			s.order = append(s.order, i)
		}
		s.writers = append(s.writers, ws)
	}
	s.order = rapid.Permutation(s.order).Draw(t, "order")
	if parallel {
		return s
	}
	// injections
	wpts, spts := writerPointsColl, subPointsColl
	if s.isValue {
		wpts, spts = writerPointsValue, subPointsValue
	}
	for i, sp := range s.subs {
		if sp.when == "inject" {
			s.injs = append(s.injs, &inj{point: rapid.SampledFrom(wpts).Draw(t, "subPoint"), nth: rapid.IntRange(1, 4).Draw(t, "subNth"), action: "subscribe", sub: i})
		}
	}
	extra := rapid.IntRange(0, 3).Draw(t, "nextra")
	for k := 0; k < extra; k++ {
		in := &inj{nth: rapid.IntRange(1, 4).Draw(t, "nth")}
		switch rapid.IntRange(0, 3).Draw(t, "injKind") {
		case 0: // a write inside a subscribe window
			in.point = rapid.SampledFrom(spts).Draw(t, "spoint")
			in.action = "write"
		case 1: // a second writer's complete write inside a writer's window
			in.point = rapid.SampledFrom(wpts).Draw(t, "wpoint")
			in.action = "write"
		case 2:
			in.point = rapid.SampledFrom(append(append([]string(nil), wpts...), spts...)).Draw(t, "cpoint")
			in.action = "cancel"
			in.sub = rapid.IntRange(0, len(s.subs)-1).Draw(t, "csub")
		default:
			in.point = rapid.SampledFrom(wpts).Draw(t, "ypoint")
			in.action = "yield"
		}
		if in.action == "write" {
			in.w = wop{kind: "update", val: val, at: drawAt(t, "iw")}
			val++
			if s.isValue {
				in.w.kind, in.w.id = "set", "value"
			} else {
				in.w.id = rapid.SampledFrom(ids).Draw(t, "iwid")
				in.w.kind = rapid.SampledFrom([]string{"update", "update", "delete"}).Draw(t, "iwkind")
			}
		}
		s.injs = append(s.injs, in)
	}
	return s
}

const (
	knownReorderValue  = "C03:publish-reorder:value.set.afterCommit"
	knownReorderColl   = "C03:publish-reorder:coll.update.afterCommit"
	knownReorderStress = "C03:publish-reorder:concurrent-writers"
)

func runScenario(t *rapid.T, s scenario) {
	w := &world{isValue: s.isValue, lastWriteStart: map[string]int64{}, writersOf: map[string]map[int]bool{}}
	if s.isValue {
		var opts []resource.Option
		if v, ok := s.initial["value"]; ok {
			opts = append(opts, resource.WithInitialValue(fm(v)))
		}
		w.val = resource.NewValue(opts...)
	} else {
		var opts []resource.Option
		for id, v := range s.initial {
			opts = append(opts, resource.WithInitialRecord(id, fm(v)))
		}
		w.col = resource.NewCollection(opts...)
	}
	for _, sp := range s.subs {
		w.subs = append(w.subs, &subRun{spec: sp, view: map[string]proto.Message{}, touched: map[string]bool{}, done: make(chan struct{})})
	}
	for i, sp := range s.subs {
		if sp.when == "before" {
			w.open(i)
		}
	}
	hits := map[string]int{}
	var hitMu sync.Mutex
	var helperActive atomic.Int64
	reorderRisk := map[string]string{} // id -> known signature, when a same-id write ran inside a commit->publish window
	depth := 0
	if !s.parallel {
		driver := lib.GoID()
		verifhook.Set(func(point string) {
			if lib.GoID() != driver {
				// points are also passed by helper goroutines and by listeners' stop goroutines; only the driving
				// goroutine's own progress is steered
				return
			}
			// book-keeping first: the driver's innermost write has committed and is about to publish
			if (point == "value.set.afterCommit" || point == "coll.update.afterCommit") && len(w.opStack) > 0 {
				w.opStack[len(w.opStack)-1].inPublish = true
			}
			if helperActive.Load() > 0 {
				// a helper goroutine is running a write or subscribe concurrently (possibly holding the resource's
				// lock): nothing is injected until it is done
				return
			}
			hitMu.Lock()
			hits[point]++
			n := hits[point]
			hitMu.Unlock()
			// markRisk: anything done now to id (or a subscription opened now) can be overtaken by / duplicated with the
			// pending publication of an enclosing write that has committed but not finished publishing
			markRisk := func(id string, subscribe bool) {
				for _, so := range w.opStack {
					if !so.inPublish {
						continue
					}
					sig := knownReorderColl
					key := so.op.id
					if s.isValue {
						sig, key = knownReorderValue, "value"
					}
					if subscribe || s.isValue || so.op.id == id {
						reorderRisk[key] = sig
					}
				}
			}
			for _, in := range s.injs {
				if in.fired || in.point != point || in.nth != n {
					continue
				}
				in.fired = true
				helper := lockedPoints[point] || ((w.deleteDepth.Load() > 0) && strings.HasPrefix(point, "bus.send"))
				switch in.action {
				case "yield":
					time.Sleep(50 * time.Microsecond)
				case "cancel":
					w.cancelSub(in.sub)
				case "subscribe":
					if helper {
						// taking the read lock here could deadlock with the lock already held
						w.helpers.Add(1)
						helperActive.Add(1)
						go func(i int) { defer w.helpers.Done(); defer helperActive.Add(-1); w.open(i) }(in.sub)
						continue
					}
					if depth >= 2 {
						continue
					}
					markRisk("", true)
					depth++
					w.open(in.sub)
					depth--
				case "write":
					if helper {
						w.helpers.Add(1)
						helperActive.Add(1)
						done := make(chan struct{})
						who := 100 + int(w.helperSeq.Add(1)) // every helper is a writer of its own: two of them can race each other
						if n := len(w.opStack); n > 0 && w.opStack[n-1].op.kind == "delete" && !w.isValue && strings.HasPrefix(point, "bus.send") && !lockedPoints[point] {
							// launched from inside a Delete's publication. Delete publishes while it holds the write
							// lock, so this write can only take effect once the Delete is over; the driver waits for it
							// before it moves on, which makes it an ordinary later write: nothing it does can be blamed
							// on the known publication window of Update/Set
							who = 7
							w.deleteHelpers.Add(1)
							// ... except when the Delete itself was injected into the publication window of an enclosing
							// Update of the same id: that Update is still publishing when the Delete is over, and this
							// write then races it exactly like a write forced into coll.update.afterCommit
							markRisk(in.w.id, false)
						}
						go func(op wop) {
							defer w.helpers.Done()
							defer close(done)
							defer helperActive.Add(-1)
							if who == 7 {
								defer w.deleteHelpers.Done()
							}
							_ = w.write(op, who)
						}(in.w)
						select {
						case <-done:
						case <-time.After(20 * time.Millisecond):
						}
						continue
					}
					if depth >= 2 {
						continue
					}
					markRisk(in.w.id, false)
					depth++
					_ = w.write(in.w, 8)
					depth--
				}
			}
		})
	} else {
		var yi atomic.Int64
		verifhook.Set(func(point string) {
			if yi.Add(1)%3 == 0 {
				time.Sleep(time.Duration(yi.Load()%5) * 10 * time.Microsecond)
			}
		})
	}
	// run the writers
	func() {
		defer verifhook.Set(nil)
		if !s.parallel {
			pos := make([]int, len(s.writers))
			for _, wi := range s.order {
				op := s.writers[wi][pos[wi]]
				pos[wi]++
				_ = w.write(op, 0)
				w.deleteHelpers.Wait()
			}
			return
		}
		var wg sync.WaitGroup
		for wi := range s.writers {
			wi := wi
			wg.Add(1)
			go func() {
				defer wg.Done()
				for _, op := range s.writers[wi] {
					_ = w.write(op, wi+1)
				}
			}()
		}
		// subscriptions opened while the writers run
		for i, sp := range s.subs {
			if sp.when == "during" {
				i := i
				wg.Add(1)
				go func() {
					defer wg.Done()
					time.Sleep(time.Duration(i*30) * time.Microsecond)
					w.open(i)
				}()
			}
		}
		wg.Wait()
	}()
	w.helpers.Wait()
	for i, sp := range s.subs {
		if sp.when == "after" || !w.subs[i].opened.Load() {
			w.open(i) // also those whose injection point was never reached
		}
	}
	// final state
	store := map[string]proto.Message{}
	if s.isValue {
		if v := w.val.Get(); v != nil {
			store["value"] = v
		}
	} else {
		for _, id := range []string{"a", "b", "c"} {
			if m, ok := w.col.Get(id); ok {
				store[id] = m
			}
		}
	}
	// per-id sentinels for PullID streams that are still open
	// (the item gets one more unique value and the stream must deliver it)
	finalStamp := w.stamp.Load()
	_ = finalStamp
	if s.isValue {
		if _, err := w.val.Set(fm(sentinelVal)); err != nil {
			t.Fatalf("sentinel write failed: %v\n%s", err, s.describe())
		}
	} else {
		if _, err := w.col.Add(sentinelID, fm(sentinelVal)); err != nil {
			t.Fatalf("sentinel write failed: %v\n%s", err, s.describe())
		}
	}
	fail := func(format string, a ...any) {
		t.Fatalf("%s\n%s  log: %s", fmt.Sprintf(format, a...), s.describe(), strings.Join(w.log, " | "))
	}
	nontrivial := false
	for _, in := range s.injs {
		if in.fired && in.action != "yield" {
			nontrivial = true
		}
	}
	for i, sr := range w.subs {
		if sr.cancelled.Load() {
			continue // shutdown behaviour is C10's
		}
		itemRemoved := false
		if sr.spec.pullID != "" {
			if _, ok := store[sr.spec.pullID]; !ok {
				itemRemoved = true
			}
		}
		if itemRemoved {
			// nothing to converge to; whether the stream must have closed depends on when the item went away (C10)
			sr.cancel()
			continue
		}
		if sr.spec.pullID != "" {
			// single item stream: poll until its view matches the store (bounded), it has no sentinel of its own
			id := sr.spec.pullID
			want := lib.RefProject(store[id], mask(sr.spec))
			w.mu.Lock()
			lw := w.lastWriteStart[id]
			w.mu.Unlock()
			deadline := time.Now().Add(waitBound)
			w.mu.Lock()
			multiWriter := len(w.writersOf[id]) >= 2
			w.mu.Unlock()
			if _, risky := reorderRisk[id]; risky || multiWriter {
				deadline = time.Now().Add(300 * time.Millisecond) // a known finding may keep this view stale: do not wait long
			}
			for {
				sr.mu.Lock()
				got, touched, closed, problem := sr.view[id], sr.touched[id], sr.closed, sr.problem
				sr.mu.Unlock()
				if problem != "" {
					fail("sub%d %v: %s", i, sr.spec, problem)
				}
				if closed {
					break // the item was removed at some point after subscribing: the stream rightly ended
				}
				if sr.spec.updatesOnly && !touched && lw <= sr.openedAt {
					break // nothing was written after subscribing
				}
				if touched && proto.Equal(got, want) {
					break
				}
				if time.Now().After(deadline) {
					w.mu.Lock()
					multi := len(w.writersOf[id]) >= 2
					w.mu.Unlock()
					if sig, risky := reorderRisk[id]; (risky && lib.IsKnown(sig)) || (multi && lib.IsKnown(knownReorderStress)) {
						break
					}
					fail("sub%d %v: the single item view did not converge within %v: store has %d, view has %d (touched=%v)", i, sr.spec, waitBound, cOf(store[id]), cOf(got), touched)
				}
				time.Sleep(200 * time.Microsecond)
			}
			sr.cancel()
			continue
		}
		<-sr.done
		sr.mu.Lock()
		view, touched, sawEnd, closed, problem, n := sr.view, sr.touched, sr.sawEnd, sr.closed, sr.problem, sr.nEvents
		last := sr.lastVal
		sr.mu.Unlock()
		sr.cancel()
		if problem != "" {
			fail("sub%d %v: %s", i, sr.spec, problem)
		}
		if closed && sr.spec.pullID == "" {
			fail("sub%d %v: stream closed although it was not cancelled", i, sr.spec)
		}
		if closed && sr.spec.pullID != "" {
			// the item exists at the end: was it removed (and re-added) after the subscription? then closing is right
			continue
		}
		if !sawEnd {
			fail("sub%d %v: the sentinel write was not delivered within %v after all writers stopped (%d events received): a commit was lost for this subscriber", i, sr.spec, waitBound, n)
		}
		if !sr.spec.backpressure && s.isValue {
			// lossy single-item streams may legitimately skip every value but the latest: the sentinel (the latest
			// value) arrived, that is the convergence the property asks for
			continue
		}
		// compare the folded view with the store
		m := mask(sr.spec)
		var diffs []string
		ids := []string{"value"}
		if !s.isValue {
			ids = []string{"a", "b", "c"}
		}
		if sr.spec.pullID != "" {
			ids = []string{sr.spec.pullID}
		}
		for _, id := range ids {
			want, exists := store[id]
			if sr.spec.include && exists && !includeOdd(id, want) {
				exists = false // not part of this filtered view
			}
			got, inView := view[id]
			if sr.spec.updatesOnly && !touched[id] {
				// the view knows nothing about this id: fine unless it was written after the subscription was opened
				w.mu.Lock()
				lw := w.lastWriteStart[id]
				w.mu.Unlock()
				if lw > sr.openedAt && exists {
					diffs = append(diffs, fmt.Sprintf("%s: written after the subscription was opened but no event arrived (store has %d)", id, cOf(want)))
				}
				continue
			}
			switch {
			case exists && !inView:
				diffs = append(diffs, fmt.Sprintf("%s: store has %d, view has nothing", id, cOf(want)))
			case !exists && inView:
				diffs = append(diffs, fmt.Sprintf("%s: store has nothing, view has %d", id, cOf(got)))
			case exists && !proto.Equal(lib.RefProject(want, m), got):
				diffs = append(diffs, fmt.Sprintf("%s: store has %d, view has %d (stale or wrong)", id, cOf(want), cOf(got)))
			}
		}
		if s.isValue && len(diffs) == 0 && last != nil {
			if want, ok := store["value"]; ok && !proto.Equal(lib.RefProject(want, m), last) {
				diffs = append(diffs, fmt.Sprintf("value: the last event before quiescence carried %d, the final value is %d", cOf(last), cOf(want)))
			}
		}
		if len(diffs) > 0 {
			sort.Strings(diffs)
			// is every difference explained by a listed known finding?
			allKnown := true
			for _, d := range diffs {
				id := strings.SplitN(d, ":", 2)[0]
				sig, risky := reorderRisk[id]
				if !s.parallel && !risky {
					// a write launched on a helper goroutine (inside a locked window) runs concurrently with the driver's writes
					w.mu.Lock()
					helperWrote := false
					for who := range w.writersOf[id] {
						if who >= 100 {
							helperWrote = len(w.writersOf[id]) >= 2
						}
					}
					w.mu.Unlock()
					if helperWrote {
						sig, risky = knownReorderStress, true
					}
				}
				if s.parallel {
					w.mu.Lock()
					multi := len(w.writersOf[id]) >= 2
					w.mu.Unlock()
					sig, risky = knownReorderStress, multi
					if !risky && !sr.spec.backpressure && !sr.spec.updatesOnly && strings.Contains(d, "store has nothing, view has") && w.subscribedDuringWrite(sr, id) {
						// the subscribe call overlapped a write that created/updated this id: registered between that write's
						// commit and its publication the subscriber gets the item in its seed and again as an event, and a lossy
						// stream then cancels that duplicate ADD against the later REMOVE (same root cause, same listed finding
						// as the forced mode's subscribe-inside-the-window case)
						sig, risky = knownReorderColl, true
					}
				}
				if !risky || !lib.IsKnown(sig) {
					allKnown = false
				}
			}
			if allKnown {
				continue
			}
			fail("sub%d %v: folding the received events does not give the store's state: %s", i, sr.spec, strings.Join(diffs, "; "))
		}
	}
	label := "forced"
	if s.parallel {
		label = "stress"
		nontrivial = len(s.writers) >= 2
	}
	lib.Ev.Class("mode:" + label)
	for _, in := range s.injs {
		if in.fired {
			lib.Ev.Class("fired:" + in.action + "@" + in.point)
		}
	}
	nt := ""
	if nontrivial {
		var parts []string
		for _, in := range s.injs {
			if in.fired {
				parts = append(parts, in.String())
			}
		}
		for _, sp := range s.subs {
			parts = append(parts, sp.String())
		}
		nt = fmt.Sprintf("%v|%v|%s", s.isValue, s.parallel, strings.Join(parts, ";")) + fmt.Sprint(s.writers)
	}
	lib.Ev.Case(nt, func() any { return s.describe() })
}

func TestForcedSubscribe(t *testing.T) {
	if !verifhook.Enabled {
		t.Fatal("hooks are not compiled in (build with -tags verif)")
	}
	rapid.Check(t, func(t *rapid.T) { runScenario(t, genScenario(t, false)) })
}

// genDeleteWindowScenario: a Delete whose publication is interfered with - a complete write to the same id, or a
// subscribe, launched at the publication's yield points. A Delete's commit and publication are one step (it publishes
// while holding the write lock), so whatever is launched there takes effect afterwards and every view must end up with it.
func genDeleteWindowScenario(t *rapid.T) scenario {
	s := scenario{initial: map[string]int32{}}
	ids := []string{"a", "b"}
	for _, id := range ids {
		if id == "a" || rapid.Bool().Draw(t, "init-"+id) {
			s.initial[id] = 0
		}
	}
	nsubs := rapid.IntRange(1, 3).Draw(t, "nsubs")
	for i := 0; i < nsubs; i++ {
		s.subs = append(s.subs, subSpec{
			updatesOnly:  rapid.IntRange(0, 3).Draw(t, "updatesOnly") == 0,
			backpressure: rapid.Bool().Draw(t, "backpressure"),
			masked:       rapid.IntRange(0, 3).Draw(t, "masked") == 0,
			when:         rapid.SampledFrom([]string{"before", "before", "inject"}).Draw(t, "when"),
		})
	}
	val := int32(1)
	var ws []wop
	if rapid.Bool().Draw(t, "updateFirst") {
		ws = append(ws, wop{kind: "update", id: "a", val: val})
		val++
	}
	ws = append(ws, wop{kind: "delete", id: "a"})
	for k := 0; k < rapid.IntRange(0, 2).Draw(t, "after"); k++ {
		ws = append(ws, wop{kind: rapid.SampledFrom([]string{"update", "delete"}).Draw(t, "afterKind"), id: rapid.SampledFrom(ids).Draw(t, "afterID"), val: val})
		val++
	}
	s.writers = [][]wop{ws}
	for range ws {
		s.order = append(s.order, 0)
	}
	points := []string{"bus.send.afterSnapshot", "bus.send.beforeListener"}
	// which hit of the point falls into the Delete's publication depends on the listeners registered by then: drawn
	for i, sp := range s.subs {
		if sp.when == "inject" {
			s.injs = append(s.injs, &inj{point: rapid.SampledFrom(points).Draw(t, "subPoint"), nth: rapid.IntRange(1, 4).Draw(t, "subNth"), action: "subscribe", sub: i})
		}
	}
	s.injs = append(s.injs, &inj{point: rapid.SampledFrom(points).Draw(t, "wpoint"), nth: rapid.IntRange(1, 5).Draw(t, "wNth"), action: "write",
		w: wop{kind: rapid.SampledFrom([]string{"update", "add"}).Draw(t, "wkind"), id: "a", val: val}})
	return s
}

// TestForcedDeleteWindow: see genDeleteWindowScenario.
func TestForcedDeleteWindow(t *testing.T) {
	if !verifhook.Enabled {
		t.Fatal("hooks are not compiled in (build with -tags verif)")
	}
	rapid.Check(t, func(t *rapid.T) { runScenario(t, genDeleteWindowScenario(t)) })
}

func TestStressSubscribe(t *testing.T) {
	rapid.Check(t, func(t *rapid.T) { runScenario(t, genScenario(t, true)) })
}
