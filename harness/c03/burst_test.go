package c03

import (
	"sync/atomic"
	"sync"
	"context"
	"fmt"
	"sort"
	"testing"
	"time"

	"google.golang.org/protobuf/proto"
	"pgregory.net/rapid"

	"github.com/smart-core-os/sc-golang/internal/testproto"
	"github.com/smart-core-os/sc-golang/pkg/resource"
	"github.com/smart-core-os/sc-api/go/types"
	"github.com/smart-core-os/sc-golang/verifh/lib"
)

// TestBurstConvergence: ONE writer writes a long burst (hundreds to thousands of writes over many distinct ids, or a
// long run of Sets) as fast as it can while every subscriber keeps receiving, only slower than the writer writes; some
// writes carry explicit write times that jump backwards. Convergence does not depend on how far a reader lags: after
// the sentinel write each view, folded in order, is List / Get. One writer only, so the listed multi-writer publication
// finding cannot be involved.
func TestBurstConvergence(t *testing.T) {
	rapid.Check(t, func(t *rapid.T) {
		isValue := rapid.IntRange(0, 3).Draw(t, "isValue") == 0
		n := rapid.SampledFrom([]int{200, 1000, 1500, 2500, 4000}).Draw(t, "writes")
		nids := rapid.SampledFrom([]int{3, 50, 1100, 3000}).Draw(t, "distinctIDs")
		if nids > n {
			nids = n
		}
		backdate := rapid.IntRange(0, 2).Draw(t, "backdate") // 0: never, 1: every 7th write, 2: every write, decreasing
		// further writers write ids of their own (every id has ONE writer, so the order of its changes is never in
		// question and the listed multi-writer finding cannot be involved), and short-lived subscribers come and go
		// meanwhile: neither may cost a long-lived subscriber an event
		nwriters := 1
		churners := 0
		if !isValue {
			nwriters = rapid.SampledFrom([]int{1, 1, 2, 3}).Draw(t, "writers")
			churners = rapid.SampledFrom([]int{0, 0, 2, 4}).Draw(t, "churners")
		}
		deletes := rapid.Bool().Draw(t, "deletes")
		type sub struct {
			updatesOnly, backpressure, masked bool
			work                                time.Duration
		}
		nsubs := rapid.IntRange(1, 3).Draw(t, "nsubs")
		subs := make([]sub, nsubs)
		for i := range subs {
			subs[i] = sub{
				updatesOnly:  rapid.IntRange(0, 3).Draw(t, "updatesOnly") == 0,
				backpressure: rapid.IntRange(0, 3).Draw(t, "backpressure") == 0,
				masked:       rapid.IntRange(0, 3).Draw(t, "masked") == 0,
				work:         time.Duration(rapid.SampledFrom([]int{0, 0, 2, 20}).Draw(t, "workMicros")) * time.Microsecond,
			}
		}
		var val *resource.Value
		var col *resource.Collection
		if isValue {
			val = resource.NewValue(resource.WithInitialValue(&testproto.ForeignMessage{C: -5, D: 7}))
		} else {
			col = resource.NewCollection(resource.WithInitialRecord("id-00000", &testproto.ForeignMessage{C: -5, D: 7}))
		}
		type view struct {
			m    map[string]*testproto.ForeignMessage
			last *testproto.ForeignMessage
			n    int
			err  string
		}
		ctx, cancel := context.WithCancel(context.Background())
		defer cancel()
		// subscribers that were there before everybody else and leave somewhere in the middle of the burst
		type leaver struct {
			at     int
			cancel context.CancelFunc
		}
		var leavers []leaver
		if !isValue {
			for i := 0; i < rapid.IntRange(0, 3).Draw(t, "earlyLeavers"); i++ {
				lctx, lcancel := context.WithCancel(ctx)
				ch := col.Pull(lctx, resource.WithBackpressure(i%2 == 0))
				go func() {
					for range ch {
					}
				}()
				leavers = append(leavers, leaver{at: rapid.IntRange(0, n-1).Draw(t, "leavesAt"), cancel: lcancel})
			}
		}
		views := make([]*view, nsubs)
		done := make([]chan struct{}, nsubs)
		const sentinel = int32(-77)
		for i, sp := range subs {
			i, sp := i, sp
			v := &view{m: map[string]*testproto.ForeignMessage{}}
			views[i] = v
			done[i] = make(chan struct{})
			opts := []resource.ReadOption{resource.WithUpdatesOnly(sp.updatesOnly), resource.WithBackpressure(sp.backpressure)}
			if sp.masked {
				opts = append(opts, resource.WithReadPaths(&testproto.ForeignMessage{}, "c"))
			}
			busy := func() {
				if sp.work > 0 {
					for t0 := time.Now(); time.Since(t0) < sp.work; {
					}
				}
			}
			if isValue {
				ch := val.Pull(ctx, opts...)
				go func() {
					defer close(done[i])
					for e := range ch {
						v.n++
						v.last = e.Value.(*testproto.ForeignMessage)
						if v.last.C == sentinel {
							return
						}
						busy()
					}
					v.err = "stream closed"
				}()
			} else {
				ch := col.Pull(ctx, opts...)
				go func() {
					defer close(done[i])
					for e := range ch {
						v.n++
						switch e.ChangeType {
						case types.ChangeType_REMOVE:
							delete(v.m, e.Id)
						default:
							v.m[e.Id] = e.NewValue.(*testproto.ForeignMessage)
						}
						if e.Id == "zz-sentinel" {
							return
						}
						busy()
					}
					v.err = "stream closed"
				}()
			}
		}
		// the burst
		var wmu sync.Mutex
		written := map[string]bool{}
		var werr atomic.Value
		writer := func(w int) {
			at := int64(1 << 20)
			for k := 0; k < n; k++ {
				if w == 0 {
					for _, l := range leavers {
						if l.at == k {
							l.cancel()
						}
					}
				}
				var wopts []resource.WriteOption
				if backdate == 2 || (backdate == 1 && k%7 == 3) {
					at -= 3
					wopts = append(wopts, resource.WithWriteTime(writeTimeBase.Add(time.Duration(at)*time.Second)))
				}
				m := &testproto.ForeignMessage{C: int32(k + 1), D: 7}
				if k%11 == 5 {
					m = &testproto.ForeignMessage{} // the empty message is a value like any other
				}
				var err error
				if isValue {
					_, err = val.Set(m, wopts...)
				} else {
					id := fmt.Sprintf("id-%05d", (k*7919)%nids)
					if w > 0 {
						id = fmt.Sprintf("w%d-%s", w, id)
					}
					if deletes && k%5 == 4 {
						_, err = col.Delete(id, append(wopts, resource.WithAllowMissing(true))...)
					} else {
						_, err = col.Update(id, m, append(wopts, resource.WithCreateIfAbsent())...)
						wmu.Lock()
						written[id] = true
						wmu.Unlock()
					}
				}
				if err != nil {
					werr.CompareAndSwap(nil, fmt.Sprintf("writer %d write %d failed: %v", w, k, err))
					return
				}
			}
		}
		stopChurn := make(chan struct{})
		var churnWG sync.WaitGroup
		for c := 0; c < churners; c++ {
			c := c
			churnWG.Add(1)
			go func() {
				defer churnWG.Done()
				for round := 0; ; round++ {
					select {
					case <-stopChurn:
						return
					default:
					}
					cctx, ccancel := context.WithCancel(ctx)
					ch := col.Pull(cctx, resource.WithBackpressure((c+round)%2 == 0), resource.WithUpdatesOnly(round%3 == 0))
					for i := 0; i < (c+round)%7; i++ {
						select {
						case <-ch:
						case <-time.After(time.Millisecond):
						}
					}
					ccancel()
					for range ch { // until closed
					}
				}
			}()
		}
		var writersWG sync.WaitGroup
		for w := 0; w < nwriters; w++ {
			w := w
			writersWG.Add(1)
			go func() { defer writersWG.Done(); writer(w) }()
		}
		writersWG.Wait()
		close(stopChurn)
		churnWG.Wait()
		if e := werr.Load(); e != nil {
			t.Fatalf("%v", e)
		}
		var want map[string]*testproto.ForeignMessage
		if isValue {
			if _, err := val.Set(&testproto.ForeignMessage{C: sentinel, D: 7}); err != nil {
				t.Fatalf("sentinel: %v", err)
			}
		} else {
			want = map[string]*testproto.ForeignMessage{}
			if _, err := col.Add("zz-sentinel", &testproto.ForeignMessage{C: sentinel, D: 7}); err != nil {
				t.Fatalf("sentinel: %v", err)
			}
			for _, m := range col.List() {
				_ = m
			}
			for id := range written {
				if m, ok := col.Get(id); ok {
					want[id] = m.(*testproto.ForeignMessage)
				}
			}
			if m, ok := col.Get("id-00000"); ok {
				want["id-00000"] = m.(*testproto.ForeignMessage)
			}
			want["zz-sentinel"] = &testproto.ForeignMessage{C: sentinel, D: 7}
		}
		desc := fmt.Sprintf("isValue=%v writers=%d (disjoint ids) x writes=%d distinctIDs=%d backdate=%d deletes=%v churningSubscribers=%d earlyLeavers=%d subs=%+v", isValue, nwriters, n, nids, backdate, deletes, churners, len(leavers), subs)
		for i, sp := range subs {
			select {
			case <-done[i]:
			case <-time.After(waitBound):
				t.Fatalf("sub%d %+v: the sentinel write was not delivered within %v after the writer stopped (%d events received): a commit was lost for this subscriber\n%s", i, sp, waitBound, views[i].n, desc)
			}
			v := views[i]
			if v.err != "" {
				t.Fatalf("sub%d %+v: %s\n%s", i, sp, v.err, desc)
			}
			if isValue {
				continue // the sentinel (the final value) was the last event delivered
			}
			var diffs []string
			for id, w := range want {
				g, ok := v.m[id]
				if sp.updatesOnly && !ok && id == "id-00000" && !written[id] {
					continue
				}
				wantM := proto.Clone(w).(*testproto.ForeignMessage)
				if sp.masked {
					wantM.D = 0
				}
				if !ok {
					diffs = append(diffs, fmt.Sprintf("%s: store has %d, view has nothing", id, w.C))
				} else if !proto.Equal(g, wantM) {
					diffs = append(diffs, fmt.Sprintf("%s: store has %d, view has %v", id, w.C, g))
				}
			}
			for id, g := range v.m {
				if _, ok := want[id]; !ok {
					diffs = append(diffs, fmt.Sprintf("%s: store has nothing, view has %d", id, g.C))
				}
			}
			if len(diffs) > 0 {
				sort.Strings(diffs)
				if len(diffs) > 6 {
					diffs = append(diffs[:6], fmt.Sprintf("... and %d more", len(diffs)-6))
				}
				t.Fatalf("sub%d %+v: folding the %d received events does not give the store's %d items: %v\n%s", i, sp, v.n, len(want), diffs, desc)
			}
		}
		lib.Ev.Class("burst: fast writer(s), readers that keep receiving but lag")
		if nwriters > 1 {
			lib.Ev.Class("burst with 2-3 writers on disjoint ids")
		}
		if churners > 0 {
			lib.Ev.Class("burst while other subscribers come and go")
		}
		if nids >= 1100 {
			lib.Ev.Class("burst over >1000 distinct ids")
		}
		if backdate > 0 {
			lib.Ev.Class("burst with write times that step backwards")
		}
		lib.Ev.Case(desc, func() any { return desc })
	})
}
