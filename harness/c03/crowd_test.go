package c03

import (
	"context"
	"fmt"
	"strings"
	"testing"
	"time"

	"pgregory.net/rapid"

	"github.com/smart-core-os/sc-api/go/types"

	"github.com/smart-core-os/sc-golang/internal/testproto"
	"github.com/smart-core-os/sc-golang/pkg/resource"
	"github.com/smart-core-os/sc-golang/verifh/lib"
)

// crowdSub is one subscriber of a popular resource folding what it receives.
type crowdSub struct {
	name   string
	cancel context.CancelFunc
	view   chan map[string]int32 // the folded view, handed over each time the sentinel of a round arrives
}

// TestCrowdedResource: ONE writer, and a resource with many subscribers that come and go between writes (a popular
// device on a dashboard): after every round - a few writes, some subscribers leaving, some new ones joining, one more
// write - every subscriber that is open, old or new, seeded or updates-only, folds to Get / List. How many subscribers
// there are or have been makes no difference. Sequential, so the listed publication findings cannot be involved.
func TestCrowdedResource(t *testing.T) {
	rapid.Check(t, func(t *rapid.T) {
		isValue := rapid.IntRange(0, 2).Draw(t, "isValue") == 0
		var val *resource.Value
		var col *resource.Collection
		if isValue {
			val = resource.NewValue(resource.WithInitialValue(fm(0)))
		} else {
			col = resource.NewCollection(resource.WithInitialRecord("a", fm(0)), resource.WithInitialRecord("b", fm(0)))
		}
		store := map[string]int32{"a": 0, "b": 0}
		if isValue {
			store = map[string]int32{"": 0}
		}
		var hist []string
		var subs []*crowdSub
		seq := 0
		open := func(t *rapid.T) {
			seq++
			ctx, cancel := context.WithCancel(context.Background())
			updatesOnly := rapid.IntRange(0, 3).Draw(t, "updatesOnly") == 0
			ropts := []resource.ReadOption{resource.WithBackpressure(true), resource.WithUpdatesOnly(updatesOnly)}
			s := &crowdSub{name: fmt.Sprintf("s%d(updatesOnly=%v)", seq, updatesOnly), cancel: cancel, view: make(chan map[string]int32, 64)}
			view := map[string]int32{}
			if updatesOnly {
				// an updates-only subscriber starts from what it read before subscribing (nothing is written in between)
				for k, v := range store {
					view[k] = v
				}
			}
			snapshot := func() {
				c := map[string]int32{}
				for k, v := range view {
					c[k] = v
				}
				s.view <- c
			}
			if isValue {
				ch := val.Pull(ctx, ropts...)
				go func() {
					for e := range ch {
						c := e.Value.(*testproto.ForeignMessage).C
						view[""] = c
						if c < 0 {
							snapshot()
						}
					}
				}()
			} else {
				ch := col.Pull(ctx, ropts...)
				go func() {
					for e := range ch {
						if e.ChangeType == types.ChangeType_REMOVE {
							delete(view, e.Id)
						} else if e.NewValue != nil {
							view[e.Id] = e.NewValue.(*testproto.ForeignMessage).C
						}
						if e.Id == "zz" && e.NewValue != nil {
							snapshot()
						}
					}
				}()
			}
			subs = append(subs, s)
			hist = append(hist, "open "+s.name)
		}
		n0 := rapid.SampledFrom([]int{2, 5, 15, 16, 17, 20, 33, 64}).Draw(t, "initialSubscribers")
		for i := 0; i < n0; i++ {
			open(t)
		}
		next := int32(1)
		write := func(id string) {
			var err error
			if isValue {
				_, err = val.Set(fm(next))
				store[""] = next
			} else {
				_, err = col.Update(id, fm(next), resource.WithCreateIfAbsent())
				store[id] = next
			}
			if err != nil {
				t.Fatalf("write failed: %v", err)
			}
			hist = append(hist, fmt.Sprintf("write(%s,%d)", id, next))
			next++
		}
		rounds := rapid.IntRange(1, 5).Draw(t, "rounds")
		maxSubs := len(subs)
		for r := 0; r < rounds; r++ {
			for i := 0; i < rapid.IntRange(0, 2).Draw(t, "writesBefore"); i++ {
				write(rapid.SampledFrom([]string{"a", "b", "c"}).Draw(t, "id"))
			}
			for i := 0; i < rapid.IntRange(0, 3).Draw(t, "leave") && len(subs) > 1; i++ {
				k := rapid.IntRange(0, len(subs)-1).Draw(t, "who")
				subs[k].cancel()
				hist = append(hist, "cancel "+subs[k].name)
				subs = append(subs[:k], subs[k+1:]...)
				if rapid.Bool().Draw(t, "settle") {
					time.Sleep(time.Millisecond) // let the bus notice (or not) that the listener is gone
				}
			}
			for i := 0; i < rapid.IntRange(0, 3).Draw(t, "join"); i++ {
				open(t)
			}
			if len(subs) > maxSubs {
				maxSubs = len(subs)
			}
			for i := 0; i < rapid.IntRange(0, 1).Draw(t, "writesAfter"); i++ {
				write(rapid.SampledFrom([]string{"a", "b", "c"}).Draw(t, "id2"))
			}
			// the round's sentinel: every open subscriber receives it and has by then folded everything before it
			sentinel := -int32(r + 1)
			if isValue {
				if _, err := val.Set(fm(sentinel)); err != nil {
					t.Fatalf("sentinel: %v", err)
				}
				store[""] = sentinel
			} else {
				if _, err := col.Update("zz", fm(sentinel), resource.WithCreateIfAbsent()); err != nil {
					t.Fatalf("sentinel: %v", err)
				}
				store["zz"] = sentinel
			}
			hist = append(hist, fmt.Sprintf("sentinel(%d)", sentinel))
			key := "zz"
			if isValue {
				key = ""
			}
			for _, s := range subs {
				deadline := time.After(10 * time.Second)
			waiting:
				for {
					select {
					case view := <-s.view:
						if view[key] != sentinel {
							continue // an earlier round's sentinel (a new subscriber's seed carries it)
						}
						if fmt.Sprint(sortedView(view)) != fmt.Sprint(sortedView(store)) {
							t.Fatalf("round %d: %s folds to %v, the resource holds %v\nhistory: %s", r, s.name, sortedView(view), sortedView(store), strings.Join(hist, " "))
						}
						break waiting
					case <-deadline:
						t.Fatalf("round %d: %s is open and receiving but the round's last write never reached it\nhistory: %s", r, s.name, strings.Join(hist, " "))
					}
				}
			}
		}
		for _, s := range subs {
			s.cancel()
		}
		nt := ""
		if maxSubs >= 16 && rounds >= 2 {
			nt = fmt.Sprintf("%v|%d|%s", isValue, n0, strings.Join(hist, " "))
			lib.Ev.Class("crowd: 16 or more subscribers at some point, subscribers leaving and joining between writes")
		}
		lib.Ev.Case(nt, func() any { return fmt.Sprintf("isValue=%v: %s", isValue, strings.Join(hist, " ")) })
	})
}
