package c19

import (
	"context"
	"fmt"
	"strings"
	"sync"
	"sync/atomic"
	"testing"
	"time"

	"google.golang.org/grpc/codes"
	"google.golang.org/grpc/status"
	"google.golang.org/protobuf/proto"
	"google.golang.org/protobuf/types/known/fieldmaskpb"
	"pgregory.net/rapid"

	"github.com/smart-core-os/sc-api/go/traits"

	"github.com/smart-core-os/sc-golang/pkg/resource"
	"github.com/smart-core-os/sc-golang/pkg/time/clock"
	"github.com/smart-core-os/sc-golang/pkg/trait/electricpb"
	"github.com/smart-core-os/sc-golang/verifh/lib"
)

var ctx = context.Background()

// fakeClock: every Now() is one second later than the previous one.
type fakeClock struct {
	clock.Clock
	n         atomic.Int64
	backwards bool
}

var epoch = time.Date(2022, 2, 2, 2, 2, 2, 0, time.UTC)

func (c *fakeClock) Now() time.Time {
	k := c.n.Add(1)
	if c.backwards {
		// a clock being stepped back (time synchronisation, a simulation running in reverse): every reading is a second
		// EARLIER than the one before. "The clock's current time" is still what the clock reads now.
		k = -k
	}
	return epoch.Add(time.Duration(k) * time.Second)
}

// whether a world's clock runs backwards is a function of the case (so a saved case replays the same way)
func stepsParity(steps []step) bool {
	k := len(steps)
	for _, s := range steps {
		k += s.Op + s.Mode + s.Via
	}
	return k%2 == 1
}
func (c *fakeClock) peek() int64    { return c.n.Load() }

// step is one operation; Via selects the Model API (0) or the gRPC servers (1).
type step struct {
	Op     int // index into opNames
	Mode   int // index into the known-ids list (or beyond for an unknown id)
	Normal bool
	Masked bool // UpdateMode: update mask ["normal","title"] instead of nil
	Allow  bool // DeleteMode: allow missing
	Via    int
	// Extra: a further, harmless-looking caller option on Model API calls: DeleteMode gets an expected-check that accepts
	// everything (a conditional delete), UpdateMode gets create-if-absent (an upsert)
	Extra bool
}

var opNames = []string{"CreateMode", "AddMode", "UpdateMode", "DeleteMode", "SetActiveMode", "ChangeActiveMode", "ChangeToNormalMode"}

func (s step) String() string {
	return fmt.Sprintf("%s(mode#%d normal=%v masked=%v allowMissing=%v extraOption=%v via=%s)", opNames[s.Op], s.Mode, s.Normal, s.Masked, s.Allow, s.Extra, []string{"model", "server"}[s.Via])
}

type world struct {
	clk    *fakeClock
	m      *electricpb.Model
	srv    *electricpb.ModelServer
	ids    []string // ids handed out so far (created or added), in creation order
	addSeq int
	// activeChanged: the active mode has been changed at least once (before that a dummy mode may be active)
	activeChanged bool
	// respErr: a call's own response contradicted what the call is documented to do (set from any goroutine)
	respErr atomic.Value
}

// clearedTo checks the response of a successful clear: it selects THE normal mode, in one step, so whatever else is
// going on the mode it reports is marked normal.
func (w *world) clearedTo(call string, m *traits.ElectricMode) {
	if m != nil && !m.Normal {
		w.respErr.CompareAndSwap(nil, fmt.Sprintf("%s succeeded and reports mode %q as the new active mode, which is not marked normal (normal=%v): clearing selects the normal mode", call, m.Id, m.Normal))
	}
}

func newWorld() *world { return newWorldClock(false) }

func newWorldClock(backwards bool) *world {
	w := &world{clk: &fakeClock{Clock: clock.Real(), backwards: backwards}}
	w.m = electricpb.NewModel(electricpb.WithClock(w.clk))
	w.srv = electricpb.NewModelServer(w.m)
	return w
}

func (w *world) id(i int) string {
	if i < len(w.ids) {
		return w.ids[i]
	}
	return "unknown-id"
}

// idOrEmpty is id for the calls that take a bare id: the last index stands for the empty id while fewer modes are known
// (a fresh model's placeholder active mode has the empty id too, which no mode has).
func (w *world) idOrEmpty(i int) string {
	if i == 4 && i >= len(w.ids) {
		return ""
	}
	return w.id(i)
}

// apply runs one step and checks the step-local clauses; it returns a short outcome string.
func (w *world) apply(s step) (string, error) {
	modesBefore := map[string]bool{}
	for _, m := range w.m.Modes() {
		modesBefore[m.Id] = true
	}
	activeBefore := w.m.ActiveMode()
	var err error
	outcome := "ok"
	switch opNames[s.Op] {
	case "CreateMode":
		mode := &traits.ElectricMode{Title: "created", Normal: s.Normal}
		var res *traits.ElectricMode
		if s.Via == 0 {
			res, err = w.m.CreateMode(mode)
		} else {
			res, err = w.srv.CreateMode(ctx, &electricpb.CreateModeRequest{Name: "n", Mode: mode})
		}
		if err == nil {
			if res.GetId() == "" {
				return "", fmt.Errorf("CreateMode returned a mode without id")
			}
			w.ids = append(w.ids, res.Id)
		}
	case "AddMode":
		w.addSeq++
		id := fmt.Sprintf("added-%d", w.addSeq)
		err = w.m.AddMode(&traits.ElectricMode{Id: id, Title: "added", Normal: s.Normal})
		if err == nil {
			w.ids = append(w.ids, id)
		}
	case "UpdateMode":
		mode := &traits.ElectricMode{Id: w.id(s.Mode), Title: "updated", Normal: s.Normal}
		var mask *fieldmaskpb.FieldMask
		if s.Masked {
			mask = &fieldmaskpb.FieldMask{Paths: []string{"normal", "title"}}
			if s.Extra {
				// a mask as split from its textual form "title, normal": if such a path is honoured at all it is the normal
				// flag that is written
				mask = &fieldmaskpb.FieldMask{Paths: []string{"title", " normal"}}
			}
		}
		if s.Via == 0 {
			var opts []resource.WriteOption
			if mask != nil {
				opts = append(opts, resource.WithUpdateMask(mask))
			}
			if s.Extra && mask == nil {
				// (with a mask that leaves the id out an upsert would create a mode without an id: not a case the
				// statement speaks about)
				opts = append(opts, resource.WithCreateIfAbsent())
			}
			_, err = w.m.UpdateMode(mode, opts...)
		} else {
			_, err = w.srv.UpdateMode(ctx, &electricpb.UpdateModeRequest{Name: "n", Mode: mode, UpdateMask: mask})
		}
	case "DeleteMode":
		id := w.id(s.Mode)
		if s.Via == 0 {
			dopts := []resource.WriteOption{resource.WithAllowMissing(s.Allow)}
			if s.Extra && s.Masked {
				// a conditional delete whose condition does not hold: nothing comes of it, now or later
				dopts = append(dopts, resource.WithExpectedCheck(func(proto.Message) error {
					return status.Error(codes.FailedPrecondition, "not while I am looking")
				}))
				err = w.m.DeleteMode(id, dopts...)
				if modesBefore[id] {
					if err == nil {
						return "", fmt.Errorf("a delete of %q whose precondition check refuses succeeded", id)
					}
					if _, ok := w.m.FindMode(id); !ok {
						return "", fmt.Errorf("a delete of %q whose precondition check refuses (%v) removed the mode", id, err)
					}
				}
				break
			}
			if s.Extra && !modesBefore[id] {
				// a retried conditional delete: the first attempt already removed the mode, the retry still says what it expects
				dopts = append(dopts, resource.WithExpectedValue(&traits.ElectricMode{Id: id, Title: "what I saw"}))
			} else if s.Extra {
				dopts = append(dopts, resource.WithExpectedCheck(func(proto.Message) error { return nil }))
			}
			err = w.m.DeleteMode(id, dopts...)
		} else {
			_, err = w.srv.DeleteMode(ctx, &electricpb.DeleteModeRequest{Name: "n", Id: id, AllowMissing: s.Allow})
		}
		switch {
		case id == activeBefore.GetId():
			if err == nil {
				return "", fmt.Errorf("deleting the active mode %q succeeded", id)
			}
			if _, ok := w.m.FindMode(id); modesBefore[id] && !ok {
				return "", fmt.Errorf("deleting the active mode %q failed (%v) but the mode is gone", id, err)
			}
		case !modesBefore[id] && s.Allow:
			if err != nil {
				return "", fmt.Errorf("deleting absent mode %q with allow-missing failed: %v", id, err)
			}
		case !modesBefore[id]:
			if status.Code(err) != codes.NotFound {
				return "", fmt.Errorf("deleting absent mode %q without allow-missing returned %v, want NotFound", id, err)
			}
		default:
			if err != nil {
				return "", fmt.Errorf("deleting existing inactive mode %q failed: %v", id, err)
			}
			if _, ok := w.m.FindMode(id); ok {
				return "", fmt.Errorf("mode %q still exists after a successful delete", id)
			}
		}
	case "SetActiveMode":
		id := w.idOrEmpty(s.Mode)
		err = w.m.SetActiveMode(&traits.ElectricMode{Id: id, Title: "set-active"})
		if err == nil {
			w.activeChanged = true
		}
	case "ChangeActiveMode", "ChangeToNormalMode":
		id := w.idOrEmpty(s.Mode)
		c0 := w.clk.peek()
		var res *traits.ElectricMode
		if opNames[s.Op] == "ChangeToNormalMode" {
			normal, has := w.m.NormalMode()
			if s.Via == 0 {
				res, err = w.m.ChangeToNormalMode()
			} else {
				res, err = w.srv.ClearActiveMode(ctx, &traits.ClearActiveModeRequest{Name: "n"})
			}
			if !has {
				if status.Code(err) != codes.NotFound {
					return "", fmt.Errorf("clearing the active mode without a normal mode returned %v, want NotFound", err)
				}
				if got := w.m.ActiveMode(); got.GetId() != activeBefore.GetId() {
					return "", fmt.Errorf("failed clear changed the active mode from %q to %q", activeBefore.GetId(), got.GetId())
				}
				break
			}
			if err != nil {
				return "", fmt.Errorf("clearing the active mode failed although normal mode %q exists: %v", normal.Id, err)
			}
			id = normal.Id
		} else if s.Via == 0 {
			res, err = w.m.ChangeActiveMode(id)
		} else {
			res, err = w.srv.UpdateActiveMode(ctx, &traits.UpdateActiveModeRequest{Name: "n", ActiveMode: &traits.ElectricMode{Id: id}})
		}
		if err == nil {
			w.activeChanged = true
			c1 := w.clk.peek()
			got := w.m.ActiveMode()
			if got.GetId() != id || res.GetId() != id {
				return "", fmt.Errorf("%s to %q: active mode is %q, returned %q", opNames[s.Op], id, got.GetId(), res.GetId())
			}
			if id != activeBefore.GetId() {
				// a different mode: start time = the clock's current reading (some tick of this call)
				if got.StartTime == nil {
					return "", fmt.Errorf("switching from %q to %q did not stamp a start time", activeBefore.GetId(), id)
				}
				tick := int64(got.StartTime.AsTime().Sub(epoch) / time.Second)
				if w.clk.backwards {
					tick = -tick // which reading of the clock the stamp is
				}
				if tick <= c0 || tick > c1 {
					return "", fmt.Errorf("switching to %q stamped start time tick %d, the clock read (%d,%d] during the call", id, tick, c0, c1)
				}
			} else if !protoTimeEqual(got, activeBefore) {
				// re-selecting the mode that is already active: the statement only fixes the start time when switching to
				// a different mode, so this is counted, not asserted
				lib.Ev.Class("reselect changed start time (not asserted)")
			}
		} else if opNames[s.Op] == "ChangeActiveMode" && modesBefore[id] {
			return "", fmt.Errorf("changing to existing mode %q failed: %v", id, err)
		}
	}
	if err != nil {
		outcome = status.Code(err).String()
	}
	return outcome, w.invariants()
}

func protoTimeEqual(a, b *traits.ElectricMode) bool {
	if (a.GetStartTime() == nil) != (b.GetStartTime() == nil) {
		return false
	}
	return a.GetStartTime() == nil || a.StartTime.AsTime().Equal(b.StartTime.AsTime())
}

// invariants are checked after every step (and at quiescence in the concurrent variant).
func (w *world) invariants() error {
	modes := w.m.Modes()
	var normals []string
	for _, m := range modes {
		if m.Normal {
			normals = append(normals, m.Id)
		}
	}
	if len(normals) > 1 {
		return fmt.Errorf("%d modes are marked normal: %v", len(normals), normals)
	}
	active := w.m.ActiveMode()
	if w.activeChanged {
		if _, ok := w.m.FindMode(active.GetId()); !ok {
			return fmt.Errorf("the active mode %q does not exist (modes: %v)", active.GetId(), modeIDs(modes))
		}
	}
	// list through the server agrees with the model
	resp, err := w.srv.ListModes(ctx, &traits.ListModesRequest{Name: "n", PageSize: 1000})
	if err != nil {
		return fmt.Errorf("ListModes: %v", err)
	}
	if len(resp.Modes) != len(modes) {
		return fmt.Errorf("ListModes returned %d modes, Modes() %d", len(resp.Modes), len(modes))
	}
	return nil
}

func modeIDs(modes []*traits.ElectricMode) []string {
	var ids []string
	for _, m := range modes {
		ids = append(ids, m.Id)
	}
	return ids
}

func runSteps(steps []step) (nt bool, hist []string, err error) {
	return runStepsOn(newWorldClock(stepsParity(steps)), steps)
}

// newConfiguredWorld builds the model from explicit configuration: initial modes (at most one of them normal).
func newConfiguredWorld(normal []bool) *world {
	w := &world{clk: &fakeClock{Clock: clock.Real(), backwards: len(normal)%2 == 1}}
	var modes []*traits.ElectricMode
	for i, n := range normal {
		id := fmt.Sprintf("init-%d", i+1)
		modes = append(modes, &traits.ElectricMode{Id: id, Title: "configured", Normal: n})
		w.ids = append(w.ids, id)
	}
	w.m = electricpb.NewModel(electricpb.WithClock(w.clk), electricpb.WithInitialMode(modes...))
	w.srv = electricpb.NewModelServer(w.m)
	return w
}

func runStepsOn(w *world, steps []step) (nt bool, hist []string, err error) {
	for _, s := range steps {
		if s.Mode > 4 {
			s.Mode = 4
		}
		normalBefore, hadNormal := w.m.NormalMode()
		activeBefore := w.m.ActiveMode().GetId()
		out, e := w.apply(s)
		hist = append(hist, fmt.Sprintf("%v=>%s", s, out))
		if e != nil {
			return nt, hist, e
		}
		switch opNames[s.Op] {
		case "UpdateMode":
			if s.Normal && hadNormal && normalBefore.Id != w.id(s.Mode) && s.Mode < len(w.ids) {
				nt = true // tried to make a second mode normal
			}
		case "DeleteMode":
			if w.id(s.Mode) == activeBefore {
				nt = true
			}
		case "ChangeActiveMode", "ChangeToNormalMode":
			if out == "ok" {
				nt = true
			}
		}
	}
	return nt, hist, nil
}

func drawStep(t *rapid.T) step {
	return step{
		Op:     rapid.IntRange(0, len(opNames)-1).Draw(t, "op"),
		Mode:   rapid.IntRange(0, 4).Draw(t, "mode"),
		Normal: rapid.IntRange(0, 2).Draw(t, "normal") == 0,
		Masked: rapid.Bool().Draw(t, "masked"),
		Allow:  rapid.Bool().Draw(t, "allow"),
		Via:    rapid.IntRange(0, 1).Draw(t, "via"),
		Extra:  rapid.IntRange(0, 3).Draw(t, "extra") == 0,
	}
}

// TestElectricSequences: random operation sequences through the Model API and both servers.
func TestElectricSequences(t *testing.T) {
	rapid.Check(t, func(t *rapid.T) {
		n := rapid.IntRange(1, 25).Draw(t, "n")
		steps := make([]step, n)
		for i := range steps {
			steps[i] = drawStep(t)
		}
		nt, hist, err := runSteps(steps)
		if err != nil {
			t.Fatalf("%v\nhistory:\n  %s", err, strings.Join(hist, "\n  "))
		}
		key := ""
		if nt {
			key = strings.Join(hist, ";")
		}
		lib.Ev.Case(key, func() any { return hist })
	})
}

// TestElectricConfigured: the same random sequences on a model constructed with initial modes.
func TestElectricConfigured(t *testing.T) {
	rapid.Check(t, func(t *rapid.T) {
		k := rapid.IntRange(1, 3).Draw(t, "initialModes")
		normal := make([]bool, k)
		if n := rapid.IntRange(-1, k-1).Draw(t, "normalOne"); n >= 0 {
			normal[n] = true
		}
		w := newConfiguredWorld(normal)
		if got := len(w.m.Modes()); got != k {
			t.Fatalf("model configured with %d initial modes lists %d", k, got)
		}
		n := rapid.IntRange(1, 20).Draw(t, "n")
		steps := make([]step, n)
		for i := range steps {
			steps[i] = drawStep(t)
		}
		nt, hist, err := runStepsOn(w, steps)
		if err != nil {
			t.Fatalf("%v\ninitial modes (normal flags): %v\nhistory:\n  %s", err, normal, strings.Join(hist, "\n  "))
		}
		key := ""
		if nt {
			key = fmt.Sprintf("configured%v;%s", normal, strings.Join(hist, ";"))
		}
		lib.Ev.Class("configured model")
		lib.Ev.Case(key, func() any { return map[string]any{"initial modes (normal flags)": normal, "history": hist} })
	})
}

type exhCase struct{ Steps []step }

// TestElectricExhaustive: every sequence of length <= 3 over a compact step alphabet on up to 2 modes.
func TestElectricExhaustive(t *testing.T) {
	var alphabet []step
	for op := range opNames {
		for mode := 0; mode <= 2; mode++ { // two real modes (once created) and an unknown id
			for _, normal := range []bool{false, true} {
				s := step{Op: op, Mode: mode, Normal: normal}
				switch opNames[op] {
				case "CreateMode", "AddMode":
					if mode != 0 {
						continue
					}
				case "DeleteMode":
					s.Allow = normal
					s.Normal = false
				case "SetActiveMode", "ChangeActiveMode":
					if normal {
						continue
					}
				case "ChangeToNormalMode":
					if normal || mode != 0 {
						continue
					}
				}
				alphabet = append(alphabet, s)
				if opNames[op] == "UpdateMode" {
					s.Masked = true
					alphabet = append(alphabet, s)
				}
			}
		}
	}
	maxLen := lib.Scale(4, 5)
	shard, nshards := lib.Shard()
	done := false
	n := 0
	lib.Enumerate(t, "TestElectricExhaustive", func(yield func(exhCase) bool) {
		var rec func(prefix []step) bool
		rec = func(prefix []step) bool {
			if len(prefix) > 0 {
				n++
				if n%nshards == shard && !yield(exhCase{append([]step(nil), prefix...)}) {
					return false
				}
			}
			if len(prefix) == maxLen {
				return true
			}
			for _, s := range alphabet {
				// via alternates so both API surfaces are enumerated without doubling the alphabet
				s.Via = len(prefix) % 2
				if !rec(append(prefix, s)) {
					return false
				}
			}
			return true
		}
		rec(nil)
		done = true
	}, func(c exhCase) error {
		nt, hist, err := runSteps(c.Steps)
		key := ""
		if nt {
			key = strings.Join(hist, ";")
		}
		lib.Ev.Case(key, func() any { return hist })
		if err != nil {
			return fmt.Errorf("%v\nhistory:\n  %s", err, strings.Join(hist, "\n  "))
		}
		return nil
	})
	lib.Ev.Exhaustive(fmt.Sprintf("electric op sequences up to length %d over %d-step alphabet", maxLen, len(alphabet)), done)
}

// TestElectricConcurrent: 2-4 goroutines issue the same operations concurrently; invariants at quiescence.
func TestElectricConcurrent(t *testing.T) {
	rapid.Check(t, func(t *rapid.T) {
		w := newWorld()
		// a few modes to fight over
		for i := 0; i < rapid.IntRange(1, 4).Draw(t, "initial"); i++ {
			if _, err := w.apply(step{Op: 0, Normal: i == 0}); err != nil {
				t.Fatal(err)
			}
		}
		ids := append([]string(nil), w.ids...)
		ng := rapid.IntRange(2, 4).Draw(t, "goroutines")
		scripts := make([][]step, ng)
		for g := range scripts {
			n := rapid.IntRange(1, 12).Draw(t, "n")
			for i := 0; i < n; i++ {
				scripts[g] = append(scripts[g], drawStep(t))
			}
		}
		var wg sync.WaitGroup
		var changed atomic.Bool
		for g := range scripts {
			g := g
			wg.Add(1)
			go func() {
				defer wg.Done()
				for _, s := range scripts[g] {
					id := "unknown-id"
					if s.Mode < len(ids) {
						id = ids[s.Mode]
					}
					switch opNames[s.Op] {
					case "CreateMode":
						_, _ = w.m.CreateMode(&traits.ElectricMode{Normal: s.Normal})
					case "AddMode":
						_ = w.m.AddMode(&traits.ElectricMode{Id: fmt.Sprintf("g%d-%p", g, &s), Normal: s.Normal})
					case "UpdateMode":
						_, _ = w.m.UpdateMode(&traits.ElectricMode{Id: id, Normal: s.Normal})
					case "DeleteMode":
						_ = w.m.DeleteMode(id, resource.WithAllowMissing(s.Allow))
					case "SetActiveMode":
						if w.m.SetActiveMode(&traits.ElectricMode{Id: id}) == nil {
							changed.Store(true)
						}
					case "ChangeActiveMode":
						if _, err := w.m.ChangeActiveMode(id); err == nil {
							changed.Store(true)
						}
					case "ChangeToNormalMode":
						if _, err := w.srv.ClearActiveMode(ctx, &traits.ClearActiveModeRequest{}); err == nil {
							changed.Store(true)
						}
					}
				}
			}()
		}
		wg.Wait()
		w.activeChanged = w.activeChanged || changed.Load()
		if err := w.invariants(); err != nil {
			t.Fatalf("at quiescence after concurrent operations: %v\nscripts: %v", err, scripts)
		}
		lib.Ev.Class("concurrent")
		lib.Ev.Case(fmt.Sprintf("conc|%v", scripts), func() any { return fmt.Sprintf("concurrent scripts %v", scripts) })
	})
}

// duelOps are the calls whose interplay the invariants depend on; x and y are two existing modes.
var duelOps = []struct {
	name string
	run  func(w *world, x, y string) (activated bool)
}{
	{"DeleteMode(x)", func(w *world, x, y string) bool { _ = w.m.DeleteMode(x); return false }},
	{"DeleteMode(y)", func(w *world, x, y string) bool { _ = w.m.DeleteMode(y); return false }},
	{"server.DeleteMode(x,allowMissing)", func(w *world, x, y string) bool {
		_, err := w.srv.DeleteMode(ctx, &electricpb.DeleteModeRequest{Name: "n", Id: x, AllowMissing: true})
		if status.Code(err) == codes.NotFound {
			// whoever else removes the mode meanwhile: with allow-missing an absent mode is a success
			w.respErr.CompareAndSwap(nil, fmt.Sprintf("server.DeleteMode(%s, allow_missing=true) answered NotFound: %v", x, err))
		}
		return false
	}},
	{"server.DeleteMode(y,allowMissing)", func(w *world, x, y string) bool {
		_, err := w.srv.DeleteMode(ctx, &electricpb.DeleteModeRequest{Name: "n", Id: y, AllowMissing: true})
		if status.Code(err) == codes.NotFound {
			w.respErr.CompareAndSwap(nil, fmt.Sprintf("server.DeleteMode(%s, allow_missing=true) answered NotFound: %v", y, err))
		}
		return false
	}},
	{"DeleteMode(x,allowMissing)", func(w *world, x, y string) bool {
		if err := w.m.DeleteMode(x, resource.WithAllowMissing(true)); status.Code(err) == codes.NotFound {
			w.respErr.CompareAndSwap(nil, fmt.Sprintf("DeleteMode(%s, allow-missing) answered NotFound: %v", x, err))
		}
		return false
	}},
	{"ChangeActiveMode(x)", func(w *world, x, y string) bool { _, err := w.m.ChangeActiveMode(x); return err == nil }},
	{"SetActiveMode(x)", func(w *world, x, y string) bool { return w.m.SetActiveMode(&traits.ElectricMode{Id: x}) == nil }},
	{"server.UpdateActiveMode(x)", func(w *world, x, y string) bool {
		_, err := w.srv.UpdateActiveMode(ctx, &traits.UpdateActiveModeRequest{Name: "n", ActiveMode: &traits.ElectricMode{Id: x}})
		return err == nil
	}},
	{"ClearActiveMode", func(w *world, x, y string) bool {
		m, err := w.srv.ClearActiveMode(ctx, &traits.ClearActiveModeRequest{Name: "n"})
		if err == nil {
			w.clearedTo("ClearActiveMode", m)
		}
		return err == nil
	}},
	{"ChangeToNormalMode", func(w *world, x, y string) bool {
		m, err := w.m.ChangeToNormalMode()
		if err == nil {
			w.clearedTo("ChangeToNormalMode", m)
		}
		return err == nil
	}},
	{"UpdateMode(x,not normal)", func(w *world, x, y string) bool {
		_, _ = w.m.UpdateMode(&traits.ElectricMode{Id: x, Normal: false})
		return false
	}},
	{"UpdateMode(y,not normal)", func(w *world, x, y string) bool {
		_, _ = w.m.UpdateMode(&traits.ElectricMode{Id: y, Normal: false})
		return false
	}},
	{"server.UpdateMode(x,not normal)", func(w *world, x, y string) bool {
		_, _ = w.srv.UpdateMode(ctx, &electricpb.UpdateModeRequest{Name: "n", Mode: &traits.ElectricMode{Id: x, Normal: false}})
		return false
	}},
	{"UpdateMode(x,normal)", func(w *world, x, y string) bool {
		_, _ = w.m.UpdateMode(&traits.ElectricMode{Id: x, Normal: true})
		return false
	}},
	{"UpdateMode(y,normal)", func(w *world, x, y string) bool {
		_, _ = w.m.UpdateMode(&traits.ElectricMode{Id: y, Normal: true})
		return false
	}},
	{"CreateMode(normal)", func(w *world, x, y string) bool { _, _ = w.m.CreateMode(&traits.ElectricMode{Normal: true}); return false }},
	{"AddMode(z,normal)", func(w *world, x, y string) bool { _ = w.m.AddMode(&traits.ElectricMode{Id: "z", Normal: true}); return false }},
}

var spinSink atomic.Int64

func spin(n int) {
	for i := 0; i < n; i++ {
		spinSink.Add(1)
	}
}

// TestElectricDuels: two (or three) calls released at the same instant on a fresh model, many rounds per drawn pair
// with a sweep of start skews, invariants checked at quiescence after every round. It aims at check-then-act windows
// between the calls that the random scripts of TestElectricConcurrent only hit by luck.
// runDuel plays rounds of one duel; it returns a description of the first problem.
func runDuel(xNormal, yNormal bool, startActive string, ops []int, rounds int) (desc string, err error) {
	var names []string
	for _, o := range ops {
		names = append(names, duelOps[o].name)
	}
	desc = fmt.Sprintf("x(normal=%v) y(normal=%v) active=%q duel %s", xNormal, yNormal, startActive, strings.Join(names, " || "))
	for r := 0; r < rounds; r++ {
		w := newWorld()
		if err := w.m.AddMode(&traits.ElectricMode{Id: "x", Normal: xNormal}); err != nil {
			return desc, err
		}
		if err := w.m.AddMode(&traits.ElectricMode{Id: "y", Normal: yNormal}); err != nil {
			return desc, err
		}
		if startActive != "" {
			if _, err := w.m.ChangeActiveMode(startActive); err != nil {
				return desc, err
			}
			w.activeChanged = true
		}
		var ready sync.WaitGroup
		var done sync.WaitGroup
		var start atomic.Bool
		var activated atomic.Bool
		for i, o := range ops {
			i, o := i, o
			ready.Add(1)
			done.Add(1)
			go func() {
				defer done.Done()
				ready.Done()
				for !start.Load() {
				}
				// sweep the relative start of the calls over the rounds
				spin(((r * (i + 1)) % 40) * 8)
				if duelOps[o].run(w, "x", "y") {
					activated.Store(true)
				}
			}()
		}
		ready.Wait()
		start.Store(true)
		done.Wait()
		w.activeChanged = w.activeChanged || activated.Load()
		if err := w.invariants(); err != nil {
			return desc, fmt.Errorf("at quiescence after round %d of %s: %v", r, desc, err)
		}
		if e := w.respErr.Load(); e != nil {
			return desc, fmt.Errorf("round %d of %s: %v", r, desc, e)
		}
	}
	return desc, nil
}

type duelCase struct {
	XNormal, YNormal bool
	StartActive      string
	Ops              []int
}

// TestElectricDuelPairs enumerates EVERY unordered pair of the conflict-prone calls on every starting configuration
// (which of x, y is normal, which is active), a few dozen rounds each: no pair is left to the luck of the draw.
func TestElectricDuelPairs(t *testing.T) {
	rounds := lib.Scale(30, 150)
	shard, nshards := lib.Shard()
	done := false
	idx := 0
	lib.Enumerate(t, "TestElectricDuelPairs", func(yield func(duelCase) bool) {
		for _, cfg := range [][2]bool{{false, false}, {true, false}, {false, true}} {
			for _, act := range []string{"", "x", "y"} {
				for a := 0; a < len(duelOps); a++ {
					for b := a; b < len(duelOps); b++ {
						idx++
						if idx%nshards != shard {
							continue
						}
						if !yield(duelCase{cfg[0], cfg[1], act, []int{a, b}}) {
							return
						}
					}
				}
			}
		}
		done = true
	}, func(c duelCase) error {
		desc, err := runDuel(c.XNormal, c.YNormal, c.StartActive, c.Ops, rounds)
		if err != nil {
			return err
		}
		lib.Ev.ClassN("duel rounds", int64(rounds))
		lib.Ev.Case("duelpair|"+desc, func() any { return fmt.Sprintf("%d rounds of %s", rounds, desc) })
		return nil
	})
	lib.Ev.Exhaustive(fmt.Sprintf("every unordered pair of the %d conflict-prone calls x {nobody, x, y normal} x {nothing, x, y active}, %d rounds each", len(duelOps), rounds), done)
}

func TestElectricDuels(t *testing.T) {
	rounds := lib.Scale(150, 600)
	rapid.Check(t, func(t *rapid.T) {
		xNormal := rapid.Bool().Draw(t, "xNormal")
		yNormal := !xNormal && rapid.Bool().Draw(t, "yNormal")
		startActive := rapid.SampledFrom([]string{"", "x", "y"}).Draw(t, "startActive")
		n := rapid.IntRange(2, 3).Draw(t, "n")
		var ops []int
		for i := 0; i < n; i++ {
			ops = append(ops, rapid.IntRange(0, len(duelOps)-1).Draw(t, "op"))
		}
		desc, err := runDuel(xNormal, yNormal, startActive, ops, rounds)
		if err != nil {
			t.Fatalf("%v", err)
		}
		lib.Ev.Class("duel")
		lib.Ev.ClassN("duel rounds", int64(rounds))
		lib.Ev.Case("duel|"+desc, func() any { return fmt.Sprintf("%d rounds of %s", rounds, desc) })
	})
}
