package lib

import (
	"fmt"
	"sort"
	"strings"

	"google.golang.org/protobuf/proto"
	"google.golang.org/protobuf/reflect/protoreflect"
	"google.golang.org/protobuf/types/known/fieldmaskpb"
	"pgregory.net/rapid"
)

// AllPaths enumerates every valid field mask path of md up to depth segments: a segment names a field and a
// path may only continue through a singular message field (the fieldmaskpb.IsValid notion).
func AllPaths(md protoreflect.MessageDescriptor, depth int) []string {
	var out []string
	var walk func(md protoreflect.MessageDescriptor, prefix string, d int, seen map[protoreflect.FullName]int)
	walk = func(md protoreflect.MessageDescriptor, prefix string, d int, seen map[protoreflect.FullName]int) {
		if d > depth {
			return
		}
		fields := md.Fields()
		for i := 0; i < fields.Len(); i++ {
			fd := fields.Get(i)
			p := prefix + string(fd.Name())
			out = append(out, p)
			if fd.Message() != nil && !fd.IsList() && !fd.IsMap() && seen[fd.Message().FullName()] < 2 {
				seen[fd.Message().FullName()]++
				walk(fd.Message(), p+".", d+1, seen)
				seen[fd.Message().FullName()]--
			}
		}
	}
	walk(md, "", 1, map[protoreflect.FullName]int{md.FullName(): 1})
	return out
}

var pathCache = map[protoreflect.FullName][]string{}

// CachedPaths returns AllPaths(md, 3), cached.
func CachedPaths(md protoreflect.MessageDescriptor) []string {
	if p, ok := pathCache[md.FullName()]; ok {
		return p
	}
	p := AllPaths(md, 3)
	pathCache[md.FullName()] = p
	return p
}

// PopulatedPaths returns the valid mask paths that name something present in m (depth bounded).
func PopulatedPaths(m proto.Message, depth int) []string {
	var out []string
	var walk func(m protoreflect.Message, prefix string, d int)
	walk = func(m protoreflect.Message, prefix string, d int) {
		var fds []protoreflect.FieldDescriptor
		m.Range(func(fd protoreflect.FieldDescriptor, _ protoreflect.Value) bool { fds = append(fds, fd); return true })
		sort.Slice(fds, func(i, j int) bool { return fds[i].Number() < fds[j].Number() })
		for _, fd := range fds {
			p := prefix + string(fd.Name())
			out = append(out, p)
			if d < depth && fd.Message() != nil && !fd.IsList() && !fd.IsMap() {
				walk(m.Get(fd).Message(), p+".", d+1)
			}
		}
	}
	walk(m.ProtoReflect(), "", 1)
	return out
}

// MaskKind labels how a mask was drawn.
type MaskKind string

// DrawMask draws a valid (for m's type) field mask: nil, empty, or 1-4 paths biased to paths populated in one of
// the given messages; may contain duplicates and parent+child pairs (reported through the returned kind).
func DrawMask(t *rapid.T, label string, md protoreflect.MessageDescriptor, bias ...proto.Message) (*fieldmaskpb.FieldMask, MaskKind) {
	k := rapid.IntRange(0, 13).Draw(t, label+".kind")
	switch {
	case k == 0:
		return nil, "nil"
	case k == 1:
		return &fieldmaskpb.FieldMask{}, "empty"
	case k >= 12:
		// a mask that names whole top level fields: every field of the type, or exactly the ones populated in one of the
		// bias messages (so nothing is left out by the projection although a mask is given)
		var paths []string
		kind := MaskKind("all-fields")
		if k == 13 {
			for _, b := range bias {
				if b != nil && b.ProtoReflect().IsValid() {
					paths = PopulatedPaths(b, 1)
					kind = "all-populated-fields"
					break
				}
			}
		}
		if len(paths) == 0 {
			fields := md.Fields()
			for i := 0; i < fields.Len(); i++ {
				paths = append(paths, string(fields.Get(i).Name()))
			}
			kind = "all-fields"
		}
		if len(paths) > 1 && rapid.Bool().Draw(t, label+".reversed") {
			for i, j := 0, len(paths)-1; i < j; i, j = i+1, j-1 {
				paths[i], paths[j] = paths[j], paths[i]
			}
		}
		return &fieldmaskpb.FieldMask{Paths: paths}, kind
	}
	all := CachedPaths(md)
	var pop []string
	for _, b := range bias {
		if b != nil {
			pop = append(pop, PopulatedPaths(b, 3)...)
		}
	}
	n := rapid.IntRange(1, 4).Draw(t, label+".n")
	var paths []string
	kind := MaskKind("paths")
	for i := 0; i < n; i++ {
		var p string
		if len(pop) > 0 && rapid.IntRange(0, 3).Draw(t, label+".pop") > 0 {
			p = rapid.SampledFrom(pop).Draw(t, label+".pp")
		} else {
			p = rapid.SampledFrom(all).Draw(t, label+".ap")
		}
		paths = append(paths, p)
	}
	switch k {
	case 2: // duplicate
		paths = append(paths, paths[0])
		kind = "dup"
	case 3: // parent + child
		if i := strings.LastIndex(paths[0], "."); i > 0 {
			paths = append(paths, paths[0][:i])
			kind = "parent+child"
		} else {
			// add a child of a message field if there is one
			for _, p := range all {
				if strings.HasPrefix(p, paths[0]+".") {
					paths = append(paths, p)
					kind = "parent+child"
					break
				}
			}
		}
	}
	if kind == "paths" {
		// detect accidental overlap
		for i := range paths {
			for j := range paths {
				if i != j && (paths[i] == paths[j]) {
					kind = "dup"
				} else if i != j && strings.HasPrefix(paths[j], paths[i]+".") && kind == "paths" {
					kind = "parent+child"
				}
			}
		}
	}
	return &fieldmaskpb.FieldMask{Paths: paths}, kind
}

// CorruptKind labels a corrupted mask.
type CorruptKind string

// DrawCorruptMask draws a mask that fieldmaskpb.IsValid rejects for md, preferring to corrupt a path whose field is
// populated in m. Returns the mask, what was done and whether the corrupted field is populated.
func DrawCorruptMask(t *rapid.T, label string, md protoreflect.MessageDescriptor, m proto.Message) (*fieldmaskpb.FieldMask, CorruptKind, bool) {
	type cand struct {
		path string
		kind CorruptKind
		pop  bool
	}
	var cands []cand
	fields := md.Fields()
	mr := m.ProtoReflect()
	for i := 0; i < fields.Len(); i++ {
		fd := fields.Get(i)
		pop := mr.Has(fd)
		name := string(fd.Name())
		switch {
		case fd.IsMap():
			cands = append(cands, cand{name + ".k", "through-map", pop}, cand{name + ".key", "through-map-key", pop}, cand{name + ".value", "through-map-value", pop})
		case fd.IsList() && fd.Message() == nil:
			cands = append(cands, cand{name + ".x", "through-repeated-scalar", pop})
		case fd.IsList():
			sub := fd.Message().Fields()
			if sub.Len() > 0 {
				cands = append(cands, cand{name + "." + string(sub.Get(0).Name()), "through-repeated-message", pop})
			}
			cands = append(cands, cand{name + ".nope", "through-repeated-message-unknown", pop})
		case fd.Message() != nil:
			cands = append(cands, cand{name + ".nope", "unknown-nested", pop})
			// one level deeper: through a scalar inside the nested message
			sub := fd.Message().Fields()
			for j := 0; j < sub.Len(); j++ {
				if sub.Get(j).Message() == nil && !sub.Get(j).IsList() && !sub.Get(j).IsMap() {
					cands = append(cands, cand{name + "." + string(sub.Get(j).Name()) + ".x", "through-nested-scalar", pop && mr.Get(fd).Message().Has(sub.Get(j))})
					break
				}
			}
		default:
			cands = append(cands, cand{name + ".x", "through-scalar", pop})
		}
	}
	cands = append(cands, cand{"nope", "unknown", false}, cand{"", "empty-path", false}, cand{"nope.deeper", "unknown", false})
	// the wildcard some APIs read as "every field": not a path of any message type here
	anyPop := false
	mr.Range(func(protoreflect.FieldDescriptor, protoreflect.Value) bool { anyPop = true; return false })
	cands = append(cands, cand{"*", "wildcard", anyPop})
	// one "path" that is really two valid paths glued together with the separator of the textual form, and other near
	// misses of valid paths
	if fields.Len() >= 2 {
		a, b := fields.Get(0), fields.Get(fields.Len()-1)
		cands = append(cands,
			cand{string(a.Name()) + "," + string(b.Name()), "comma-joined", mr.Has(a) || mr.Has(b)},
			cand{string(a.Name()) + " ", "trailing-space", mr.Has(a)},
			cand{" " + string(a.Name()), "leading-space", mr.Has(a)},
			cand{"." + string(a.Name()), "leading-dot", mr.Has(a)},
			cand{string(a.Name()) + ".", "trailing-dot", mr.Has(a)},
			cand{strings.ToUpper(string(a.Name())), "upper-case", mr.Has(a)})
	}
	var popCands []cand
	for _, c := range cands {
		if c.pop {
			popCands = append(popCands, c)
		}
	}
	var c cand
	if len(popCands) > 0 && rapid.IntRange(0, 3).Draw(t, label+".usepop") > 0 {
		c = popCands[rapid.IntRange(0, len(popCands)-1).Draw(t, label+".pc")]
	} else {
		c = cands[rapid.IntRange(0, len(cands)-1).Draw(t, label+".c")]
	}
	paths := []string{c.path}
	// a corrupt path next to its own (valid) parent: as a set of fields the parent covers it, as a path it is as wrong
	// as it is alone
	if i := strings.LastIndex(c.path, "."); i > 0 && rapid.IntRange(0, 3).Draw(t, label+".withParent") == 1 {
		if parent := c.path[:i]; ValidMask(md, &fieldmaskpb.FieldMask{Paths: []string{parent}}) {
			if rapid.Bool().Draw(t, label+".parentFirst") {
				paths = []string{parent, c.path}
			} else {
				paths = []string{c.path, parent}
			}
		}
	}
	// optionally surround with valid paths
	if rapid.Bool().Draw(t, label+".more") {
		all := CachedPaths(md)
		extra := rapid.SampledFrom(all).Draw(t, label+".extra")
		if rapid.Bool().Draw(t, label+".first") {
			paths = append([]string{extra}, paths...)
		} else {
			paths = append(paths, extra)
		}
	}
	return &fieldmaskpb.FieldMask{Paths: paths}, c.kind, c.pop
}

// Covers reports whether some path of w equals p or is a prefix of p.
func Covers(w []string, p string) bool {
	for _, x := range w {
		if x == p || strings.HasPrefix(p, x+".") {
			return true
		}
	}
	return false
}

// StrictlyUnder reports whether p is a strict prefix of some path in w (p is broader than w there).
func StrictlyUnder(w []string, p string) []string {
	var out []string
	for _, x := range w {
		if strings.HasPrefix(x, p+".") {
			out = append(out, x)
		}
	}
	return out
}

// MaskString renders a mask for logs.
func MaskString(m *fieldmaskpb.FieldMask) string {
	if m == nil {
		return "<nil>"
	}
	return fmt.Sprintf("%q", m.Paths)
}

// CloneMask deep copies a mask (nil stays nil).
// The copy's Paths slice deliberately has spare capacity: a callee that appends to a mask it was handed (instead of
// building a new one) then writes into storage it shares with whoever else holds that mask.
func CloneMask(m *fieldmaskpb.FieldMask) *fieldmaskpb.FieldMask {
	if m == nil {
		return nil
	}
	paths := make([]string, len(m.Paths), len(m.Paths)+4)
	copy(paths, m.Paths)
	return &fieldmaskpb.FieldMask{Paths: paths}
}
