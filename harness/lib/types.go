package lib

import (
	"google.golang.org/protobuf/proto"
	"pgregory.net/rapid"

	"github.com/smart-core-os/sc-api/go/traits"

	"github.com/smart-core-os/sc-golang/internal/testproto"
)

// MessageTypes are the prototypes the mask/resource checks draw from: the all-field-kinds test message
// (weighted) and a set of trait messages.
var MessageTypes = []proto.Message{
	&testproto.TestAllTypes{},
	&testproto.TestAllTypes{},
	&testproto.TestAllTypes{},
	&testproto.TestAllTypes{},
	&traits.OnOff{},
	&traits.Brightness{},
	&traits.AirTemperature{},
	&traits.ElectricMode{},
	&traits.Child{},
	&traits.Hail{},
	&traits.Consumable_Stock{},
	&traits.Metadata{},
	&traits.FanSpeed{},
	&traits.Publication{},
}

// DrawType picks a message prototype.
func DrawType(t *rapid.T, label string) proto.Message {
	return MessageTypes[rapid.IntRange(0, len(MessageTypes)-1).Draw(t, label)]
}
