package lib

import (
	"fmt"
	"math"
	"sort"

	"google.golang.org/protobuf/proto"
	"google.golang.org/protobuf/reflect/protoreflect"
	"pgregory.net/rapid"
)

// GenOpts tunes the descriptor driven message generator.
type GenOpts struct {
	// FieldProb is the probability (in percent) that a top level field is populated. Default 30;
	// negative = automatic (about four populated fields per message). Nested messages are always automatic.
	FieldProb int
	// MaxDepth bounds message nesting. Default 3.
	MaxDepth int
	// MaxElems bounds list and map sizes. Default 3.
	MaxElems int
	// SpecialFloats allows NaN, +-Inf and -0.
	SpecialFloats bool
	// Target is the aimed number of populated fields per message in automatic mode. Default 4.
	Target int
	// KnownEnumsOnly keeps enum fields to the numbers the schema names (by default proto3 enums now and then get a
	// number without a name, which open enums allow).
	KnownEnumsOnly bool
	// OddTimes lets timestamps carry nanos outside [0, 1s) now and then: the same instant written in a non-canonical
	// form, which messages filled in by hand or by field arithmetic have and which stores keep verbatim.
	OddTimes bool
	// Skip names fields (by full name) that must be left unset.
	Skip map[protoreflect.FullName]bool
	// Only, when non-nil, limits top level population to these field names.
	Only map[protoreflect.Name]bool
}

func (o GenOpts) norm() GenOpts {
	if o.FieldProb == 0 {
		o.FieldProb = 30
	}
	if o.MaxDepth == 0 {
		o.MaxDepth = 3
	}
	if o.MaxElems == 0 {
		o.MaxElems = 3
	}
	return o
}

// GenMessage draws a message of the same type as proto.
func GenMessage(t *rapid.T, label string, prototype proto.Message, o GenOpts) proto.Message {
	o = o.norm()
	m := prototype.ProtoReflect().New()
	fillMessage(t, label, m, o, 0)
	return m.Interface()
}

func fillMessage(t *rapid.T, label string, m protoreflect.Message, o GenOpts, depth int) {
	md := m.Descriptor()
	switch md.FullName() {
	case "google.protobuf.Timestamp":
		m.Set(md.Fields().ByName("seconds"), protoreflect.ValueOfInt64(rapid.Int64Range(0, 4000000000).Draw(t, label+".ts.s")))
		nanos := []int32{0, 0, 1, 500000000, 999999999}
		if o.OddTimes {
			nanos = []int32{0, 1, 500000000, 999999999, 1500000000, -250000000, 1000000000, -1}
		}
		m.Set(md.Fields().ByName("nanos"), protoreflect.ValueOfInt32(rapid.SampledFrom(nanos).Draw(t, label+".ts.n")))
		return
	case "google.protobuf.Duration":
		s := rapid.Int64Range(-100000, 100000).Draw(t, label+".d.s")
		n := rapid.SampledFrom([]int32{0, 0, 1, 500000000, 999999999}).Draw(t, label+".d.n")
		if s < 0 {
			n = -n
		}
		m.Set(md.Fields().ByName("seconds"), protoreflect.ValueOfInt64(s))
		m.Set(md.Fields().ByName("nanos"), protoreflect.ValueOfInt32(n))
		return
	case "google.protobuf.FieldMask":
		return
	}
	fields := md.Fields()
	doneOneof := map[protoreflect.Name]bool{}
	for i := 0; i < fields.Len(); i++ {
		fd := fields.Get(i)
		if o.Skip[fd.FullName()] {
			continue
		}
		if depth == 0 && o.Only != nil && !o.Only[fd.Name()] {
			continue
		}
		if od := fd.ContainingOneof(); od != nil && !od.IsSynthetic() {
			if doneOneof[od.Name()] {
				continue
			}
			doneOneof[od.Name()] = true
			// pick none or exactly one member
			k := rapid.IntRange(-2, od.Fields().Len()-1).Draw(t, fmt.Sprintf("%s.%s?", label, od.Name()))
			if k < 0 {
				continue
			}
			fd = od.Fields().Get(k)
			if o.Skip[fd.FullName()] {
				continue
			}
			setField(t, label, m, fd, o, depth)
			continue
		}
		prob := o.FieldProb
		if depth > 0 || o.FieldProb < 0 {
			// aim at ~4 (or o.Target) populated fields per message whatever its size
			target := o.Target
			if target == 0 {
				target = 4
			}
			prob = 100 * target / fields.Len()
			if prob < 4 {
				prob = 4
			}
			if prob > 60 {
				prob = 60
			}
		}
		if rapid.IntRange(0, 99).Draw(t, fmt.Sprintf("%s.%s?", label, fd.Name())) >= prob {
			continue
		}
		setField(t, label, m, fd, o, depth)
	}
}

func setField(t *rapid.T, label string, m protoreflect.Message, fd protoreflect.FieldDescriptor, o GenOpts, depth int) {
	l := fmt.Sprintf("%s.%s", label, fd.Name())
	switch {
	case fd.IsMap():
		n := rapid.IntRange(1, o.MaxElems).Draw(t, l+"#")
		mp := m.Mutable(fd).Map()
		for i := 0; i < n; i++ {
			k := genScalar(t, l+".k", fd.MapKey(), o).MapKey()
			if fd.MapValue().Message() != nil {
				if depth >= o.MaxDepth {
					continue
				}
				v := mp.NewValue()
				fillMessage(t, l+".v", v.Message(), o, depth+1)
				mp.Set(k, v)
			} else {
				mp.Set(k, genScalar(t, l+".v", fd.MapValue(), o))
			}
		}
		if mp.Len() == 0 {
			m.Clear(fd)
		}
	case fd.IsList():
		n := rapid.IntRange(1, o.MaxElems).Draw(t, l+"#")
		ls := m.Mutable(fd).List()
		for i := 0; i < n; i++ {
			if fd.Message() != nil {
				if depth >= o.MaxDepth {
					continue
				}
				v := ls.NewElement()
				fillMessage(t, l+"[]", v.Message(), o, depth+1)
				ls.Append(v)
			} else {
				ls.Append(genScalar(t, l+"[]", fd, o))
			}
		}
		if ls.Len() == 0 {
			m.Clear(fd)
		}
	case fd.Message() != nil:
		if depth >= o.MaxDepth {
			return
		}
		sub := m.Mutable(fd).Message()
		fillMessage(t, l, sub, o, depth+1)
	default:
		v := genScalar(t, l, fd, o)
		m.Set(fd, v)
	}
}

var stringAlphabet = []string{"", "a", "b", "ab", "A", "x y", "é", "日本", "a.b", "0"}

func genScalar(t *rapid.T, l string, fd protoreflect.FieldDescriptor, o GenOpts) protoreflect.Value {
	switch fd.Kind() {
	case protoreflect.BoolKind:
		return protoreflect.ValueOfBool(rapid.Bool().Draw(t, l))
	case protoreflect.EnumKind:
		vals := fd.Enum().Values()
		if fd.ParentFile().Syntax() == protoreflect.Proto3 && !o.KnownEnumsOnly && rapid.IntRange(0, 9).Draw(t, l+"openEnum") == 0 {
			// proto3 enums are open: a peer built against a newer schema sends numbers this one has no name for
			return protoreflect.ValueOfEnum(protoreflect.EnumNumber(rapid.SampledFrom([]int32{100, -1, 99, 1000, int32(vals.Len())}).Draw(t, l+"num")))
		}
		return protoreflect.ValueOfEnum(vals.Get(rapid.IntRange(0, vals.Len()-1).Draw(t, l)).Number())
	case protoreflect.Int32Kind, protoreflect.Sint32Kind, protoreflect.Sfixed32Kind:
		return protoreflect.ValueOfInt32(rapid.OneOf(rapid.Int32Range(-3, 3), rapid.SampledFrom([]int32{math.MinInt32, math.MaxInt32, 100, -100})).Draw(t, l))
	case protoreflect.Int64Kind, protoreflect.Sint64Kind, protoreflect.Sfixed64Kind:
		return protoreflect.ValueOfInt64(rapid.OneOf(rapid.Int64Range(-3, 3), rapid.SampledFrom([]int64{math.MinInt64, math.MaxInt64, 100, -100})).Draw(t, l))
	case protoreflect.Uint32Kind, protoreflect.Fixed32Kind:
		return protoreflect.ValueOfUint32(rapid.OneOf(rapid.Uint32Range(0, 5), rapid.SampledFrom([]uint32{math.MaxUint32, 100})).Draw(t, l))
	case protoreflect.Uint64Kind, protoreflect.Fixed64Kind:
		return protoreflect.ValueOfUint64(rapid.OneOf(rapid.Uint64Range(0, 5), rapid.SampledFrom([]uint64{math.MaxUint64, 100})).Draw(t, l))
	case protoreflect.FloatKind:
		return protoreflect.ValueOfFloat32(float32(genFloat(t, l, o, true)))
	case protoreflect.DoubleKind:
		return protoreflect.ValueOfFloat64(genFloat(t, l, o, false))
	case protoreflect.StringKind:
		return protoreflect.ValueOfString(rapid.SampledFrom(stringAlphabet).Draw(t, l))
	case protoreflect.BytesKind:
		return protoreflect.ValueOfBytes(rapid.SliceOfN(rapid.Byte(), 0, 3).Draw(t, l))
	}
	panic("genScalar: unexpected kind " + fd.Kind().String())
}

func genFloat(t *rapid.T, l string, o GenOpts, f32 bool) float64 {
	f := genFloat0(t, l, o, f32)
	if f == 0 {
		// protobuf-go's fast-path Clone/Merge drops a negative zero while Has/Equal see it: keep -0 out of
		// checks that are not about float corner cases
		return 0
	}
	return f
}

func genFloat0(t *rapid.T, l string, o GenOpts, f32 bool) float64 {
	k := rapid.IntRange(0, 9).Draw(t, l+"k")
	switch {
	case k <= 4:
		return float64(rapid.IntRange(-4, 100).Draw(t, l))
	case k <= 6:
		return float64(rapid.IntRange(-1000, 1000).Draw(t, l)) / 8 // exactly representable fractions
	case k == 7:
		if f32 {
			return float64(rapid.Float32Range(-1e6, 1e6).Draw(t, l))
		}
		return rapid.Float64Range(-1e9, 1e9).Draw(t, l)
	default:
		if o.SpecialFloats {
			return rapid.SampledFrom([]float64{math.NaN(), math.Float64frombits(0xFFF8000000000000), math.Float64frombits(0x7FF8000000000123), math.Inf(1), math.Inf(-1), math.MaxFloat32, math.SmallestNonzeroFloat32}).Draw(t, l) // NaNs of several bit patterns (the quiet NaN, the x86 0/0 result, one with a payload): all NaN
		}
		return float64(rapid.IntRange(0, 3).Draw(t, l))
	}
}

// Mutate returns a clone of m changed in n places (n drawn from 0..maxChanges). The description of the
// changes is returned for logging.
func Mutate(t *rapid.T, label string, m proto.Message, maxChanges int, o GenOpts) (proto.Message, []string) {
	o = o.norm()
	out := proto.Clone(m)
	n := rapid.IntRange(0, maxChanges).Draw(t, label+".nmut")
	var desc []string
	for i := 0; i < n; i++ {
		d := mutateOnce(t, fmt.Sprintf("%s.mut%d", label, i), out.ProtoReflect(), o, 0)
		if d != "" {
			desc = append(desc, d)
		}
	}
	return out, desc
}

func mutateOnce(t *rapid.T, l string, m protoreflect.Message, o GenOpts, depth int) string {
	md := m.Descriptor()
	if md.FullName() == "google.protobuf.Timestamp" || md.FullName() == "google.protobuf.Duration" {
		fd := md.Fields().ByName("seconds")
		if rapid.Bool().Draw(t, l+".nanos") {
			fd = md.Fields().ByName("nanos")
			cur := m.Get(fd).Int()
			nv := (cur + int64(rapid.SampledFrom([]int32{1, 1000, 500000000}).Draw(t, l+".dn"))) % 1000000000
			m.Set(fd, protoreflect.ValueOfInt32(int32(nv)))
			return string(md.Name()) + ".nanos"
		}
		m.Set(fd, protoreflect.ValueOfInt64(m.Get(fd).Int()+rapid.Int64Range(-2, 2).Draw(t, l+".ds")))
		return string(md.Name()) + ".seconds"
	}
	fields := md.Fields()
	if fields.Len() == 0 {
		return ""
	}
	// prefer populated fields half of the time so nested structures get touched
	var populated []protoreflect.FieldDescriptor
	m.Range(func(fd protoreflect.FieldDescriptor, _ protoreflect.Value) bool {
		if !o.Skip[fd.FullName()] {
			populated = append(populated, fd)
		}
		return true
	})
	sort.Slice(populated, func(i, j int) bool { return populated[i].Number() < populated[j].Number() })
	var fd protoreflect.FieldDescriptor
	if len(populated) > 0 && rapid.IntRange(0, 2).Draw(t, l+".pop") > 0 {
		fd = populated[rapid.IntRange(0, len(populated)-1).Draw(t, l+".pi")]
	} else {
		fd = fields.Get(rapid.IntRange(0, fields.Len()-1).Draw(t, l+".fi"))
		if o.Skip[fd.FullName()] {
			return ""
		}
	}
	name := string(fd.Name())
	has := m.Has(fd)
	switch {
	case fd.IsMap():
		if has && rapid.Bool().Draw(t, l+".clr") {
			mp := m.Mutable(fd).Map()
			var keys []protoreflect.MapKey
			mp.Range(func(k protoreflect.MapKey, _ protoreflect.Value) bool { keys = append(keys, k); return true })
			sort.Slice(keys, func(i, j int) bool { return keys[i].String() < keys[j].String() })
			mp.Clear(keys[rapid.IntRange(0, len(keys)-1).Draw(t, l+".ki")])
			if mp.Len() == 0 {
				m.Clear(fd)
			}
			return name + ":delkey"
		}
		mp := m.Mutable(fd).Map()
		k := genScalar(t, l+".k", fd.MapKey(), o).MapKey()
		if fd.MapValue().Message() != nil {
			v := mp.NewValue()
			if depth < o.MaxDepth {
				fillMessage(t, l+".v", v.Message(), o, depth+1)
			}
			mp.Set(k, v)
		} else {
			mp.Set(k, genScalar(t, l+".v", fd.MapValue(), o))
		}
		return name + ":setkey"
	case fd.IsList():
		ls := m.Mutable(fd).List()
		if has && rapid.Bool().Draw(t, l+".trunc") {
			ls.Truncate(ls.Len() - 1)
			if ls.Len() == 0 {
				m.Clear(fd)
			}
			return name + ":truncate"
		}
		if fd.Message() != nil {
			v := ls.NewElement()
			if depth < o.MaxDepth {
				fillMessage(t, l+"[]", v.Message(), o, depth+1)
			}
			ls.Append(v)
		} else {
			ls.Append(genScalar(t, l+"[]", fd, o))
		}
		return name + ":append"
	case fd.Message() != nil:
		if has {
			switch rapid.IntRange(0, 3).Draw(t, l+".msgop") {
			case 0:
				m.Clear(fd)
				return name + ":clear"
			default:
				return name + "." + mutateOnce(t, l+"."+name, m.Mutable(fd).Message(), o, depth+1)
			}
		}
		if depth >= o.MaxDepth {
			return ""
		}
		sub := m.Mutable(fd).Message() // present but maybe empty
		if rapid.Bool().Draw(t, l+".fill") {
			fillMessage(t, l+"."+name, sub, o, depth+1)
		}
		return name + ":set"
	default:
		if has && fd.HasPresence() && rapid.IntRange(0, 3).Draw(t, l+".unset") == 0 {
			m.Clear(fd)
			return name + ":unset"
		}
		if has && (fd.Kind() == protoreflect.FloatKind || fd.Kind() == protoreflect.DoubleKind) && rapid.Bool().Draw(t, l+".nudge") {
			cur := m.Get(fd).Float()
			d := rapid.SampledFrom([]float64{1e-9, 0.001, 0.01, 0.125, 0.5, 1, -0.001, -0.125, -1}).Draw(t, l+".df")
			if fd.Kind() == protoreflect.FloatKind {
				m.Set(fd, protoreflect.ValueOfFloat32(float32(cur+d)))
			} else {
				m.Set(fd, protoreflect.ValueOfFloat64(cur+d))
			}
			return name + ":nudge"
		}
		m.Set(fd, genScalar(t, l+".nv", fd, o))
		return name + ":set"
	}
}

// Scribble changes every populated field of m in place (and sets a few unpopulated scalars) so that any
// alias of m elsewhere becomes visibly different.
func Scribble(m proto.Message) {
	if m == nil || !m.ProtoReflect().IsValid() {
		return
	}
	scribble(m.ProtoReflect(), 0)
}

func scribble(m protoreflect.Message, depth int) {
	if depth > 6 {
		return
	}
	fields := m.Descriptor().Fields()
	for i := 0; i < fields.Len(); i++ {
		fd := fields.Get(i)
		if od := fd.ContainingOneof(); od != nil && !od.IsSynthetic() && !m.Has(fd) {
			continue
		}
		switch {
		case fd.IsMap():
			mp := m.Mutable(fd).Map()
			mp.Range(func(k protoreflect.MapKey, v protoreflect.Value) bool {
				if fd.MapValue().Message() != nil {
					scribble(v.Message(), depth+1)
				} else {
					mp.Set(k, bump(fd.MapValue(), v))
				}
				return true
			})
		case fd.IsList():
			ls := m.Mutable(fd).List()
			for j := 0; j < ls.Len(); j++ {
				if fd.Message() != nil {
					scribble(ls.Get(j).Message(), depth+1)
				} else {
					ls.Set(j, bump(fd, ls.Get(j)))
				}
			}
			if fd.Message() == nil {
				ls.Append(bump(fd, ls.NewElement()))
			}
		case fd.Message() != nil:
			if m.Has(fd) {
				scribble(m.Mutable(fd).Message(), depth+1)
			}
		default:
			m.Set(fd, bump(fd, m.Get(fd)))
		}
	}
}

func bump(fd protoreflect.FieldDescriptor, v protoreflect.Value) protoreflect.Value {
	switch fd.Kind() {
	case protoreflect.BoolKind:
		return protoreflect.ValueOfBool(!v.Bool())
	case protoreflect.EnumKind:
		vals := fd.Enum().Values()
		cur := v.Enum()
		for i := 0; i < vals.Len(); i++ {
			if vals.Get(i).Number() != cur {
				return protoreflect.ValueOfEnum(vals.Get(i).Number())
			}
		}
		return protoreflect.ValueOfEnum(cur + 1)
	case protoreflect.Int32Kind, protoreflect.Sint32Kind, protoreflect.Sfixed32Kind:
		return protoreflect.ValueOfInt32(int32(v.Int()) + 7777)
	case protoreflect.Int64Kind, protoreflect.Sint64Kind, protoreflect.Sfixed64Kind:
		return protoreflect.ValueOfInt64(v.Int() + 7777)
	case protoreflect.Uint32Kind, protoreflect.Fixed32Kind:
		return protoreflect.ValueOfUint32(uint32(v.Uint()) + 7777)
	case protoreflect.Uint64Kind, protoreflect.Fixed64Kind:
		return protoreflect.ValueOfUint64(v.Uint() + 7777)
	case protoreflect.FloatKind:
		f := v.Float()
		if math.IsNaN(f) || math.IsInf(f, 0) {
			f = 0
		}
		return protoreflect.ValueOfFloat32(float32(f) + 7777)
	case protoreflect.DoubleKind:
		f := v.Float()
		if math.IsNaN(f) || math.IsInf(f, 0) {
			f = 0
		}
		return protoreflect.ValueOfFloat64(f + 7777)
	case protoreflect.StringKind:
		return protoreflect.ValueOfString(v.String() + "~scribbled")
	case protoreflect.BytesKind:
		return protoreflect.ValueOfBytes(append(append([]byte(nil), v.Bytes()...), 0xEE))
	}
	return v
}

// Sanitize prepares a message decoded from fuzzer bytes for use as a case: unknown fields are dropped everywhere, and
// it reports false when the message contains a float -0 (protobuf-go's fast path Clone/Merge drop a lone -0 although
// reflection sees it as set; the generators never produce it for the same reason).
func Sanitize(m proto.Message) bool {
	ok := true
	var walk func(m protoreflect.Message)
	checkVal := func(fd protoreflect.FieldDescriptor, v protoreflect.Value) {
		switch fd.Kind() {
		case protoreflect.FloatKind, protoreflect.DoubleKind:
			if f := v.Float(); f == 0 && math.Signbit(f) {
				ok = false
			}
		case protoreflect.MessageKind, protoreflect.GroupKind:
			walk(v.Message())
		}
	}
	walk = func(m protoreflect.Message) {
		if len(m.GetUnknown()) > 0 {
			m.SetUnknown(nil)
		}
		m.Range(func(fd protoreflect.FieldDescriptor, v protoreflect.Value) bool {
			switch {
			case fd.IsList():
				l := v.List()
				for i := 0; i < l.Len(); i++ {
					checkVal(fd, l.Get(i))
				}
			case fd.IsMap():
				v.Map().Range(func(k protoreflect.MapKey, mv protoreflect.Value) bool {
					checkVal(fd.MapValue(), mv)
					return true
				})
			default:
				checkVal(fd, v)
			}
			return true
		})
	}
	walk(m.ProtoReflect())
	return ok
}
