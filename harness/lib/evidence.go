// Package lib holds the shared pieces of the /verif harness: evidence collection,
// known-finding handling, generators and reference implementations.
package lib

import (
	"encoding/json"
	"fmt"
	"hash/fnv"
	"os"
	"sort"
	"strconv"
	"sync"
	"time"
	"testing"
)

// Evidence collects what one test process explored. It is flushed by Main.
type Evidence struct {
	mu          sync.Mutex
	evals       int64
	nontrivial  map[uint64]struct{}
	ntCapped    bool
	classes     map[string]int64
	samples     []any
	sampleSeen  int64
	knownHits   map[string]int64
	exhaustive  map[string]bool
	notes       []string
	maxDistinct int
}

// Ev is the process-wide collector.
var Ev = &Evidence{
	nontrivial:  map[uint64]struct{}{},
	classes:     map[string]int64{},
	knownHits:   map[string]int64{},
	exhaustive:  map[string]bool{},
	maxDistinct: 400000,
}

// Hash64 hashes a string key.
func Hash64(s string) uint64 {
	h := fnv.New64a()
	_, _ = h.Write([]byte(s))
	return h.Sum64()
}

// Case records one evaluated case. ntKey is "" for trivial cases, otherwise a key describing
// the case for the distinctness count. sample may be nil; a bounded reservoir of samples is kept
// (deterministic: the first few and then every 2^k-th).
func (e *Evidence) Case(ntKey string, sample func() any) {
	e.mu.Lock()
	defer e.mu.Unlock()
	e.evals++
	if ntKey == "" {
		return
	}
	if len(e.nontrivial) < e.maxDistinct {
		e.nontrivial[Hash64(ntKey)] = struct{}{}
	} else {
		e.ntCapped = true
	}
	if sample != nil {
		e.sampleSeen++
		n := e.sampleSeen
		if n <= 3 || (n&(n-1)) == 0 && len(e.samples) < 12 {
			e.samples = append(e.samples, sample())
		}
	}
}

// Class increments a labelled counter.
func (e *Evidence) Class(label string) { e.ClassN(label, 1) }

// ClassN adds n to a labelled counter.
func (e *Evidence) ClassN(label string, n int64) {
	e.mu.Lock()
	e.classes[label] += n
	e.mu.Unlock()
}

// Known records that a listed known finding was re-observed.
func (e *Evidence) Known(sig string) {
	e.mu.Lock()
	e.knownHits[sig]++
	e.mu.Unlock()
}

// Exhaustive marks a named layer as having been enumerated completely.
func (e *Evidence) Exhaustive(layer string, done bool) {
	e.mu.Lock()
	e.exhaustive[layer] = done
	e.mu.Unlock()
}

// Note adds a free-text note.
func (e *Evidence) Note(format string, args ...any) {
	e.mu.Lock()
	e.notes = append(e.notes, fmt.Sprintf(format, args...))
	e.mu.Unlock()
}

type fragment struct {
	Evaluations int64            `json:"evaluations"`
	Nontrivial  []string         `json:"nontrivial_hashes"`
	NtCapped    bool             `json:"nontrivial_capped"`
	Classes     map[string]int64 `json:"classes"`
	Samples     []any            `json:"samples"`
	KnownHits   map[string]int64 `json:"known_hits"`
	Exhaustive  map[string]bool  `json:"exhaustive"`
	Notes       []string         `json:"notes"`
}

// Flush writes the fragment to $VERIF_EVIDENCE_OUT (if set).
func (e *Evidence) Flush() {
	out := os.Getenv("VERIF_EVIDENCE_OUT")
	if out == "" {
		return
	}
	e.mu.Lock()
	defer e.mu.Unlock()
	f := fragment{Evaluations: e.evals, NtCapped: e.ntCapped, Classes: e.classes, Samples: e.samples,
		KnownHits: e.knownHits, Exhaustive: e.exhaustive, Notes: e.notes}
	for h := range e.nontrivial {
		f.Nontrivial = append(f.Nontrivial, strconv.FormatUint(h, 16))
	}
	sort.Strings(f.Nontrivial)
	b, err := json.Marshal(f)
	if err != nil {
		b, _ = json.Marshal(map[string]any{"error": err.Error(), "evaluations": e.evals})
	}
	tmp := out + ".tmp"
	if err := os.WriteFile(tmp, b, 0o644); err == nil {
		_ = os.Rename(tmp, out)
	}
}

// Main is the TestMain body shared by all harness packages.
func Main(m *testing.M) {
	LoadKnown()
	stall := watchStalls()
	code := m.Run()
	Ev.Flush()
	if gap, at := stall(); gap > 0 {
		// the whole process stood still (a paused or snapshotted VM, a starved machine): bounds measured in wall time
		// during that window say nothing about the code. The driver re-runs a failed shard that reports this.
		fmt.Printf("VERIF-STALL-OBSERVED gap=%v at=%s\n", gap.Round(time.Millisecond), at.Format(time.RFC3339))
	}
	os.Exit(code)
}

// watchStalls starts a heartbeat that ticks every 50ms and remembers the longest gap between two ticks above two
// seconds; the returned func reports it (zero when there was none).
func watchStalls() func() (time.Duration, time.Time) {
	var mu sync.Mutex
	var worst time.Duration
	var when time.Time
	go func() {
		prev := time.Now()
		for {
			time.Sleep(50 * time.Millisecond)
			now := time.Now()
			// wall clock and monotonic clock are both consulted: a paused VM may advance only one of them
			gap := now.Sub(prev)
			if w := now.Round(0).Sub(prev.Round(0)); w > gap {
				gap = w
			}
			if gap > 2*time.Second {
				mu.Lock()
				if gap > worst {
					worst, when = gap, now
				}
				mu.Unlock()
			}
			prev = now
		}
	}()
	return func() (time.Duration, time.Time) {
		mu.Lock()
		defer mu.Unlock()
		return worst, when
	}
}

// Tier returns "quick" or "thorough".
func Tier() string {
	if os.Getenv("VERIF_TIER") == "thorough" {
		return "thorough"
	}
	return "quick"
}

// Thorough reports whether the thorough tier is running.
func Thorough() bool { return Tier() == "thorough" }

// Seed returns the per-process seed handed over by the driver.
func Seed() int64 {
	v, err := strconv.ParseInt(os.Getenv("VERIF_SEED"), 10, 64)
	if err != nil {
		return 1
	}
	return v
}

// Shard returns (index, count) of this process among the shards of one job.
func Shard() (int, int) {
	i, _ := strconv.Atoi(os.Getenv("VERIF_SHARD"))
	n, _ := strconv.Atoi(os.Getenv("VERIF_NSHARDS"))
	if n <= 0 {
		n = 1
	}
	return i, n
}

// Scale returns q in the quick tier and th in the thorough tier.
func Scale(q, th int) int {
	if Thorough() {
		return th
	}
	return q
}
