package lib

import (
	"runtime"
	"strings"
	"time"
)

// Stacks returns the stack dump of all goroutines split per goroutine.
func Stacks() []string {
	buf := make([]byte, 1<<20)
	for {
		n := runtime.Stack(buf, true)
		if n < len(buf) {
			buf = buf[:n]
			break
		}
		buf = make([]byte, 2*len(buf))
	}
	return strings.Split(string(buf), "\n\n")
}

// CountGoroutines counts goroutines whose stack mentions any of the given substrings.
func CountGoroutines(substrs ...string) int {
	n := 0
	for _, g := range Stacks() {
		for _, s := range substrs {
			if strings.Contains(g, s) {
				n++
				break
			}
		}
	}
	return n
}

// GoroutinesMatching returns the stacks that mention any substring.
func GoroutinesMatching(substrs ...string) []string {
	var out []string
	for _, g := range Stacks() {
		for _, s := range substrs {
			if strings.Contains(g, s) {
				out = append(out, g)
				break
			}
		}
	}
	return out
}

// WaitGoroutines polls until at most max goroutines match, or the timeout passes. Returns the last count.
func WaitGoroutines(max int, timeout time.Duration, substrs ...string) int {
	deadline := time.Now().Add(timeout)
	sleep := 50 * time.Microsecond
	for {
		n := CountGoroutines(substrs...)
		if n <= max || time.Now().After(deadline) {
			return n
		}
		time.Sleep(sleep)
		if sleep < 5*time.Millisecond {
			sleep *= 2
		}
	}
}
