package lib

import (
	"fmt"
	"runtime"
	"strings"
	"time"
)

// Stacks returns the stack dump of all goroutines split per goroutine.
func Stacks() []string {
	buf := make([]byte, 1<<20)
	for {
		n := runtime.Stack(buf, true)
		if n < len(buf) {
			buf = buf[:n]
			break
		}
		buf = make([]byte, 2*len(buf))
	}
	return strings.Split(string(buf), "\n\n")
}

// CountGoroutines counts goroutines whose stack mentions any of the given substrings.
func CountGoroutines(substrs ...string) int {
	n := 0
	for _, g := range Stacks() {
		for _, s := range substrs {
			if strings.Contains(g, s) {
				n++
				break
			}
		}
	}
	return n
}

// GoroutinesMatching returns the stacks that mention any substring.
func GoroutinesMatching(substrs ...string) []string {
	var out []string
	for _, g := range Stacks() {
		for _, s := range substrs {
			if strings.Contains(g, s) {
				out = append(out, g)
				break
			}
		}
	}
	return out
}

// WaitGoroutines polls until at most max goroutines match, or the timeout passes. Returns the last count.
func WaitGoroutines(max int, timeout time.Duration, substrs ...string) int {
	deadline := time.Now().Add(timeout)
	sleep := 50 * time.Microsecond
	for {
		n := CountGoroutines(substrs...)
		if n <= max || time.Now().After(deadline) {
			return n
		}
		time.Sleep(sleep)
		if sleep < 5*time.Millisecond {
			sleep *= 2
		}
	}
}

// GoroutineIDs returns the ids of the goroutines whose stack mentions any substring.
func GoroutineIDs(substrs ...string) map[string]bool {
	out := map[string]bool{}
	for _, g := range GoroutinesMatching(substrs...) {
		f := strings.Fields(g)
		if len(f) >= 2 && f[0] == "goroutine" {
			out[f[1]] = true
		}
	}
	return out
}

// WaitNewGoroutine polls until a goroutine matching substrs exists that is not in before; false on timeout.
func WaitNewGoroutine(before map[string]bool, timeout time.Duration, substrs ...string) bool {
	deadline := time.Now().Add(timeout)
	sleep := 50 * time.Microsecond
	for {
		for id := range GoroutineIDs(substrs...) {
			if !before[id] {
				return true
			}
		}
		if time.Now().After(deadline) {
			return false
		}
		time.Sleep(sleep)
		if sleep < 5*time.Millisecond {
			sleep *= 2
		}
	}
}

// GoID returns the current goroutine's id (parsed from its stack header); harness hooks use it to act only on the
// goroutine that installed them.
func GoID() string {
	var buf [64]byte
	n := runtime.Stack(buf[:], false)
	f := strings.Fields(string(buf[:n]))
	if len(f) >= 2 {
		return f[1]
	}
	return ""
}

// RethrowRapid re-panics r when it is one of rapid's own control-flow panics (a failed assertion, a skipped or
// invalid case, an exhausted bit stream while shrinking): a harness that recovers panics of the code under test must
// not swallow those.
func RethrowRapid(r any) {
	if r != nil && strings.HasPrefix(fmt.Sprintf("%T", r), "rapid.") {
		panic(r)
	}
}
