package lib

import (
	"sync/atomic"
	"time"

	"pgregory.net/rapid"
)

// JumpClock is a clock whose readings follow a drawn list of offsets from a base instant, one per reading, round and
// round: it steps forwards and backwards the way a machine's clock does when it is corrected (NTP step, VM resume, a
// manual change). Nothing in the properties checked with it depends on what the clock says.
type JumpClock struct {
	Base    time.Time
	Offsets []time.Duration
	n       atomic.Int64
}

func (c *JumpClock) Now() time.Time {
	i := c.n.Add(1) - 1
	return c.Base.Add(c.Offsets[int(i)%len(c.Offsets)])
}

// DrawJumpClock draws a clock that goes forwards, stands still and goes backwards.
func DrawJumpClock(t *rapid.T, label string) *JumpClock {
	n := rapid.IntRange(2, 6).Draw(t, label+"n")
	c := &JumpClock{Base: time.Date(2022, 6, 1, 12, 0, 0, 0, time.UTC)}
	for i := 0; i < n; i++ {
		c.Offsets = append(c.Offsets, time.Duration(rapid.SampledFrom([]int{0, 1, 10, 60, -1, -10, -60, -3600, 3600, -86400}).Draw(t, label+"off"))*time.Second)
	}
	return c
}
