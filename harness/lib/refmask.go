package lib

import (
	"strings"

	"google.golang.org/protobuf/proto"
	"google.golang.org/protobuf/reflect/protoreflect"
	"google.golang.org/protobuf/types/known/fieldmaskpb"
)

// This file holds the independent reference implementations of read-mask projection and masked update.
// They are written directly on protoreflect: no fmutils, no fieldmaskpb set algebra.

// ValidPath reports whether path is a valid field mask path for md (names exist, continuation only through
// singular messages). Independent of fieldmaskpb.IsValid.
func ValidPath(md protoreflect.MessageDescriptor, path string) bool {
	if path == "" {
		return false
	}
	segs := strings.Split(path, ".")
	for i, s := range segs {
		if md == nil {
			return false
		}
		fd := md.Fields().ByName(protoreflect.Name(s))
		if fd == nil {
			return false
		}
		if i == len(segs)-1 {
			return true
		}
		if fd.IsList() || fd.IsMap() || fd.Message() == nil {
			return false
		}
		md = fd.Message()
	}
	return true
}

// ValidMask: nil masks are valid; otherwise every path must be valid.
func ValidMask(md protoreflect.MessageDescriptor, m *fieldmaskpb.FieldMask) bool {
	if m == nil {
		return true
	}
	for _, p := range m.Paths {
		if !ValidPath(md, p) {
			return false
		}
	}
	return true
}

// RefProject returns the projection of msg on mask: nil mask => msg itself (equal content), empty => empty
// message, else a new message holding, for each path, the value at that path (a parent path brings its whole subtree).
// Intermediate messages exist in the result iff they exist in msg.
func RefProject(msg proto.Message, mask *fieldmaskpb.FieldMask) proto.Message {
	if msg == nil {
		return nil
	}
	if mask == nil {
		return proto.Clone(msg)
	}
	out := msg.ProtoReflect().New()
	for _, p := range mask.Paths {
		projectPath(msg.ProtoReflect(), out, strings.Split(p, "."))
	}
	return out.Interface()
}

func projectPath(src, dst protoreflect.Message, segs []string) {
	fd := src.Descriptor().Fields().ByName(protoreflect.Name(segs[0]))
	if fd == nil || !src.Has(fd) {
		return
	}
	if len(segs) == 1 {
		dst.Set(fd, cloneValue(fd, src.Get(fd), dst))
		return
	}
	if fd.IsList() || fd.IsMap() || fd.Message() == nil {
		return
	}
	// keep whatever a parent path already copied
	projectPath(src.Get(fd).Message(), dst.Mutable(fd).Message(), segs[1:])
}

func cloneValue(fd protoreflect.FieldDescriptor, v protoreflect.Value, dst protoreflect.Message) protoreflect.Value {
	switch {
	case fd.IsList():
		nl := dst.NewField(fd)
		l := v.List()
		for i := 0; i < l.Len(); i++ {
			if fd.Message() != nil {
				nl.List().Append(protoreflect.ValueOfMessage(proto.Clone(l.Get(i).Message().Interface()).ProtoReflect()))
			} else {
				nl.List().Append(cloneScalar(l.Get(i)))
			}
		}
		return nl
	case fd.IsMap():
		nm := dst.NewField(fd)
		v.Map().Range(func(k protoreflect.MapKey, mv protoreflect.Value) bool {
			if fd.MapValue().Message() != nil {
				nm.Map().Set(k, protoreflect.ValueOfMessage(proto.Clone(mv.Message().Interface()).ProtoReflect()))
			} else {
				nm.Map().Set(k, cloneScalar(mv))
			}
			return true
		})
		return nm
	case fd.Message() != nil:
		return protoreflect.ValueOfMessage(proto.Clone(v.Message().Interface()).ProtoReflect())
	}
	return cloneScalar(v)
}

func cloneScalar(v protoreflect.Value) protoreflect.Value {
	if b, ok := v.Interface().([]byte); ok {
		return protoreflect.ValueOfBytes(append([]byte(nil), b...))
	}
	return v
}

// DropEmptyOnPaths removes, in place, singular sub-messages that are empty and lie strictly above the end of a mask
// path (intermediate messages): whether such an empty parent is "present" is not something the read contract fixes.
func DropEmptyOnPaths(m proto.Message, mask *fieldmaskpb.FieldMask) proto.Message {
	if m == nil || mask == nil {
		return m
	}
	for _, p := range mask.Paths {
		segs := strings.Split(p, ".")
		dropEmpty(m.ProtoReflect(), segs)
	}
	return m
}

func dropEmpty(m protoreflect.Message, segs []string) {
	if len(segs) < 2 {
		return
	}
	fd := m.Descriptor().Fields().ByName(protoreflect.Name(segs[0]))
	if fd == nil || fd.IsList() || fd.IsMap() || fd.Message() == nil || !m.Has(fd) {
		return
	}
	sub := m.Mutable(fd).Message()
	dropEmpty(sub, segs[1:])
	if isEmpty(sub) {
		m.Clear(fd)
	}
}

func isEmpty(m protoreflect.Message) bool {
	empty := true
	m.Range(func(protoreflect.FieldDescriptor, protoreflect.Value) bool { empty = false; return false })
	return empty && len(m.GetUnknown()) == 0
}

// ---------------------------------------------------------------------------------------------------------------------
// Masked update

// UpdateSpec is the input of the reference update.
type UpdateSpec struct {
	UpdateMask *fieldmaskpb.FieldMask // nil = all writable
	Writable   *fieldmaskpb.FieldMask // nil = everything (already merged with extra-writable / all-writable)
	ResetMask  *fieldmaskpb.FieldMask
	// PathByPath: the update mask is the one mask the caller passed (not a union of several options): every path it
	// names is judged on its own, so a path wholly outside the writable fields is "a field outside W" even when a
	// broader (parent) path stands next to it. For unions of several mask options what a covered child path means is
	// left open (the tree normalises the union).
	PathByPath bool
}

// UpdateVerdict classifies what the contract says about a write.
type UpdateVerdict int

const (
	// MustAccept: the write must succeed and the result must equal the reference result.
	MustAccept UpdateVerdict = iota
	// MustRejectInvalidArgument: the write must be rejected with InvalidArgument and nothing may change.
	MustRejectInvalidArgument
	// MustRejectAny: must be rejected (any code), nothing may change (invalid reset mask).
	MustRejectAny
	// Unspecified: accept-with-frame-intact or reject-with-no-change are both fine
	// (non-normalised masks, update mask broader than the writable fields).
	Unspecified
)

// Classify decides what the contract demands for spec on a message of type md.
func (s UpdateSpec) Classify(md protoreflect.MessageDescriptor) (UpdateVerdict, string) {
	if !ValidMask(md, s.UpdateMask) {
		return MustRejectInvalidArgument, "update mask invalid for type"
	}
	if s.UpdateMask != nil && len(s.UpdateMask.Paths) > 0 && s.Writable != nil {
		broader := false
		// a mask denotes a set of fields: a path covered by another (parent) path adds nothing. (Judging every path on its
		// own would demand that [a, a.d] with W=[a.c] is rejected; the tree does reject that when it arrives as one mask but
		// accepts the same set when it arrives as WithUpdateMask([a]) + WithMoreUpdateMask([a.d]), whose union is
		// normalised - so which of the two a parent+child mask gets is left open here, see DESIGN 7.5)
		paths := NormalizePaths(s.UpdateMask.Paths)
		if s.PathByPath {
			paths = s.UpdateMask.Paths
		}
		for _, p := range paths {
			if Covers(s.Writable.Paths, p) {
				continue
			}
			if len(StrictlyUnder(s.Writable.Paths, p)) > 0 {
				broader = true
				continue
			}
			return MustRejectInvalidArgument, "update mask names a field outside the writable fields: " + p
		}
		if broader {
			return Unspecified, "update mask broader than writable fields"
		}
	}
	if s.ResetMask != nil && !ValidMask(md, s.ResetMask) {
		return MustRejectAny, "reset mask invalid for type"
	}
	return MustAccept, ""
}

// NormalizePaths returns the path set without duplicates and without paths covered by another (parent) path:
// a field mask denotes a set of fields and a parent path covers its whole subtree.
func NormalizePaths(paths []string) []string {
	var out []string
	for i, p := range paths {
		keep := true
		for j, q := range paths {
			if i == j {
				continue
			}
			if strings.HasPrefix(p, q+".") || (p == q && j < i) {
				keep = false
				break
			}
		}
		if keep {
			out = append(out, p)
		}
	}
	return out
}

// EffectivePaths returns the paths a write may touch: nil update mask => writable (nil = nil meaning everything);
// else the update paths restricted to the writable ones.
func (s UpdateSpec) EffectivePaths() (paths []string, everything bool) {
	if s.UpdateMask == nil {
		if s.Writable == nil {
			return nil, true
		}
		return NormalizePaths(s.Writable.Paths), false
	}
	for _, p := range s.UpdateMask.Paths {
		switch {
		case s.Writable == nil || Covers(s.Writable.Paths, p):
			paths = append(paths, p)
		default:
			paths = append(paths, StrictlyUnder(s.Writable.Paths, p)...)
		}
	}
	return NormalizePaths(paths), false
}

// RefUpdate computes the stored value after a successful write of written over old (old may be nil = nothing
// stored: an empty message of the type is used).
func RefUpdate(old, written proto.Message, s UpdateSpec) proto.Message {
	var res proto.Message
	if old == nil {
		res = written.ProtoReflect().New().Interface()
	} else {
		res = proto.Clone(old)
	}
	if s.UpdateMask != nil && len(s.UpdateMask.Paths) == 0 {
		return res // empty non-nil mask: nothing changes, reset mask not applied
	}
	paths, everything := s.EffectivePaths()
	w := written.ProtoReflect()
	r := res.ProtoReflect()
	switch {
	case everything:
		// replace the whole message
		res = proto.Clone(written)
		r = res.ProtoReflect()
	case s.UpdateMask == nil:
		// nil mask: every effective (writable) field is *replaced* by written's
		for _, p := range paths {
			replacePath(r, w, strings.Split(p, "."))
		}
	default:
		for _, p := range paths {
			mergePath(r, w, strings.Split(p, "."))
		}
	}
	if s.ResetMask != nil {
		for _, p := range NormalizePaths(s.ResetMask.Paths) {
			clearPath(r, strings.Split(p, "."))
		}
	}
	return res
}

// replacePath makes dst's value at the path equal to src's (absent in src => cleared).
func replacePath(dst, src protoreflect.Message, segs []string) {
	fd := dst.Descriptor().Fields().ByName(protoreflect.Name(segs[0]))
	if fd == nil {
		return
	}
	if len(segs) == 1 {
		if !src.IsValid() || !src.Has(fd) {
			dst.Clear(fd)
			return
		}
		dst.Set(fd, cloneValue(fd, src.Get(fd), dst))
		return
	}
	if fd.IsList() || fd.IsMap() || fd.Message() == nil {
		return
	}
	var sub protoreflect.Message
	if src.IsValid() && src.Has(fd) {
		sub = src.Get(fd).Message()
	}
	if sub == nil || !sub.IsValid() {
		// nothing below this path in src: every leaf below is cleared, siblings untouched
		if dst.Has(fd) {
			clearPath(dst, segs)
		}
		return
	}
	replacePath(dst.Mutable(fd).Message(), sub, segs[1:])
}

// mergePath applies FieldMask update semantics for one path named by a non-nil update mask.
func mergePath(dst, src protoreflect.Message, segs []string) {
	fd := dst.Descriptor().Fields().ByName(protoreflect.Name(segs[0]))
	if fd == nil {
		return
	}
	if len(segs) == 1 {
		if !src.IsValid() || !src.Has(fd) {
			dst.Clear(fd) // named but absent => reset
			return
		}
		switch {
		case fd.IsList():
			l := dst.Mutable(fd).List()
			sl := src.Get(fd).List()
			for i := 0; i < sl.Len(); i++ {
				if fd.Message() != nil {
					l.Append(protoreflect.ValueOfMessage(proto.Clone(sl.Get(i).Message().Interface()).ProtoReflect()))
				} else {
					l.Append(cloneScalar(sl.Get(i)))
				}
			}
		case fd.IsMap():
			mp := dst.Mutable(fd).Map()
			src.Get(fd).Map().Range(func(k protoreflect.MapKey, v protoreflect.Value) bool {
				if fd.MapValue().Message() != nil {
					mp.Set(k, protoreflect.ValueOfMessage(proto.Clone(v.Message().Interface()).ProtoReflect()))
				} else {
					mp.Set(k, cloneScalar(v))
				}
				return true
			})
		case fd.Message() != nil:
			proto.Merge(dst.Mutable(fd).Message().Interface(), src.Get(fd).Message().Interface())
		default:
			dst.Set(fd, cloneScalar(src.Get(fd)))
		}
		return
	}
	if fd.IsList() || fd.IsMap() || fd.Message() == nil {
		return
	}
	var sub protoreflect.Message
	if src.IsValid() && src.Has(fd) {
		sub = src.Get(fd).Message()
	}
	if sub == nil || !sub.IsValid() {
		if dst.Has(fd) {
			clearPath(dst, segs)
		}
		return
	}
	mergePath(dst.Mutable(fd).Message(), sub, segs[1:])
}

// clearPath clears the field at the path; a path through an absent parent is a no-op.
func clearPath(m protoreflect.Message, segs []string) {
	fd := m.Descriptor().Fields().ByName(protoreflect.Name(segs[0]))
	if fd == nil {
		return
	}
	if len(segs) == 1 {
		m.Clear(fd)
		return
	}
	if fd.IsList() || fd.IsMap() || fd.Message() == nil || !m.Has(fd) {
		return
	}
	clearPath(m.Mutable(fd).Message(), segs[1:])
}

// LeafDiff lists the leaf paths (depth bounded) at which a and b differ. A "leaf" is a scalar, list, map, or a
// message at the depth bound; presence differences of intermediate messages are reported at the message path only
// when one side is absent and the other non-empty... see comment in body.
func LeafDiff(a, b proto.Message, depth int) []string {
	var out []string
	var walk func(x, y protoreflect.Message, prefix string, d int)
	walk = func(x, y protoreflect.Message, prefix string, d int) {
		fields := x.Descriptor().Fields()
		for i := 0; i < fields.Len(); i++ {
			fd := fields.Get(i)
			p := prefix + string(fd.Name())
			hx, hy := x.IsValid() && x.Has(fd), y.IsValid() && y.Has(fd)
			if fd.Message() != nil && !fd.IsList() && !fd.IsMap() && d < depth {
				if !hx && !hy {
					continue
				}
				var sx, sy protoreflect.Message
				if hx {
					sx = x.Get(fd).Message()
				} else {
					sx = y.Get(fd).Message().Type().Zero()
				}
				if hy {
					sy = y.Get(fd).Message()
				} else {
					sy = x.Get(fd).Message().Type().Zero()
				}
				before := len(out)
				walk(sx, sy, p+".", d+1)
				if len(out) == before && hx != hy {
					// only the presence of an (empty) message differs
					out = append(out, p+"{presence}")
				}
				continue
			}
			if hx != hy {
				out = append(out, p)
				continue
			}
			if !hx {
				continue
			}
			if !valueEqual(fd, x.Get(fd), y.Get(fd)) {
				out = append(out, p)
			}
		}
	}
	walk(a.ProtoReflect(), b.ProtoReflect(), "", 1)
	return out
}

func valueEqual(fd protoreflect.FieldDescriptor, a, b protoreflect.Value) bool {
	switch {
	case fd.IsList():
		la, lb := a.List(), b.List()
		if la.Len() != lb.Len() {
			return false
		}
		for i := 0; i < la.Len(); i++ {
			if !singleEqual(fd, la.Get(i), lb.Get(i)) {
				return false
			}
		}
		return true
	case fd.IsMap():
		ma, mb := a.Map(), b.Map()
		if ma.Len() != mb.Len() {
			return false
		}
		eq := true
		ma.Range(func(k protoreflect.MapKey, v protoreflect.Value) bool {
			if !mb.Has(k) || !singleEqual(fd.MapValue(), v, mb.Get(k)) {
				eq = false
			}
			return eq
		})
		return eq
	}
	return singleEqual(fd, a, b)
}

func singleEqual(fd protoreflect.FieldDescriptor, a, b protoreflect.Value) bool {
	switch fd.Kind() {
	case protoreflect.MessageKind, protoreflect.GroupKind:
		return proto.Equal(a.Message().Interface(), b.Message().Interface())
	case protoreflect.FloatKind, protoreflect.DoubleKind:
		x, y := a.Float(), b.Float()
		return x == y || (x != x && y != y)
	case protoreflect.BytesKind:
		return string(a.Bytes()) == string(b.Bytes())
	}
	return a.Interface() == b.Interface()
}
