package lib

import (
	"bufio"
	"encoding/json"
	"fmt"
	"os"
	"path/filepath"
	"strings"
	"sync"
	"testing"
)

var (
	knownMu   sync.Mutex
	knownSigs = map[string]string{} // sig -> description
)

// LoadKnown reads $VERIF_KNOWN (read-only). Lines: "known: property=<id> sig=<sig> <text>".
// "fixed:" lines are ignored: they suppress nothing.
func LoadKnown() {
	path := os.Getenv("VERIF_KNOWN")
	if path == "" {
		return
	}
	f, err := os.Open(path)
	if err != nil {
		return
	}
	defer f.Close()
	sc := bufio.NewScanner(f)
	knownMu.Lock()
	defer knownMu.Unlock()
	for sc.Scan() {
		line := strings.TrimSpace(sc.Text())
		if !strings.HasPrefix(line, "known:") {
			continue
		}
		fields := strings.Fields(line)
		var sig string
		for _, f := range fields {
			if strings.HasPrefix(f, "sig=") {
				sig = strings.TrimPrefix(f, "sig=")
			}
		}
		if sig != "" {
			knownSigs[sig] = line
		}
	}
}

// IsKnown reports whether sig is a listed known finding; if so the hit is recorded in the evidence.
func IsKnown(sig string) bool {
	knownMu.Lock()
	_, ok := knownSigs[sig]
	knownMu.Unlock()
	if ok {
		Ev.Known(sig)
	}
	return ok
}

// ReplayPath returns the JSON case file to replay (enumerated checks), or "".
func ReplayPath() string { return os.Getenv("VERIF_REPLAY") }

// SaveFailure writes a failing enumerated case as JSON under $VERIF_FAIL_DIR and returns the path.
func SaveFailure(test string, c any) string {
	dir := os.Getenv("VERIF_FAIL_DIR")
	if dir == "" {
		dir = "."
	}
	_ = os.MkdirAll(dir, 0o755)
	b, err := json.MarshalIndent(map[string]any{"test": test, "case": c}, "", " ")
	if err != nil {
		b = []byte(fmt.Sprintf("{\"test\":%q,\"case_text\":%q}", test, fmt.Sprint(c)))
	}
	p := filepath.Join(dir, fmt.Sprintf("%s-%016x.json", strings.ReplaceAll(test, "/", "_"), Hash64(string(b))))
	_ = os.WriteFile(p, b, 0o644)
	return p
}

// LoadReplay decodes the "case" member of a saved failure into dst. It returns false when no replay was
// requested or the file belongs to another test.
func LoadReplay(test string, dst any) bool {
	p := ReplayPath()
	if p == "" {
		return false
	}
	b, err := os.ReadFile(p)
	if err != nil {
		return false
	}
	var w struct {
		Test string          `json:"test"`
		Case json.RawMessage `json:"case"`
	}
	if json.Unmarshal(b, &w) != nil || w.Test != test {
		return false
	}
	return json.Unmarshal(w.Case, dst) == nil
}

// Enumerate runs check over every case produced by gen (or only the replayed case). The first failing case
// is saved as JSON and reported with t.Fatalf. Cases must be JSON round-trippable.
func Enumerate[C any](t *testing.T, test string, gen func(yield func(C) bool), check func(C) error) {
	t.Helper()
	if ReplayPath() != "" {
		var c C
		if !LoadReplay(test, &c) {
			t.Skip("replay file is for another test")
		}
		if err := check(c); err != nil {
			t.Fatalf("replayed case fails: %v\ncase: %+v", err, c)
		}
		return
	}
	var failed bool
	gen(func(c C) bool {
		if err := check(c); err != nil {
			p := SaveFailure(test, c)
			t.Errorf("case fails: %v\ncase: %+v\nVERIF-FAILCASE %s", err, c, p)
			failed = true
			return false
		}
		return true
	})
	if failed {
		t.FailNow()
	}
}
