package c06

import (
	"fmt"
	"sort"
	"strings"
	"testing"

	"google.golang.org/protobuf/proto"
	"google.golang.org/protobuf/types/known/fieldmaskpb"
	"pgregory.net/rapid"

	"github.com/smart-core-os/sc-golang/pkg/masks"
	"github.com/smart-core-os/sc-golang/verifh/lib"
)

// TestSharedFilter: one ResponseFilter object, built once, is applied to a series of messages - of one type with
// different contents, or of several types that share the field names the mask uses (the mask is valid for each of
// them). Every application gives the projection of that message; what the filter did before plays no role.
func TestSharedFilter(t *testing.T) {
	rapid.Check(t, func(t *rapid.T) {
		k := rapid.IntRange(2, 5).Draw(t, "messages")
		sameType := rapid.IntRange(0, 2).Draw(t, "sameType") == 0
		var msgs []proto.Message
		first := lib.DrawType(t, "type0")
		common := map[string]bool{}
		for i := 0; i < k; i++ {
			pt := first
			if !sameType && i > 0 {
				pt = lib.DrawType(t, fmt.Sprintf("type%d", i))
			}
			m := lib.GenMessage(t, fmt.Sprintf("msg%d", i), pt, lib.GenOpts{FieldProb: 60, MaxDepth: 2, MaxElems: 2})
			msgs = append(msgs, m)
			names := map[string]bool{}
			fs := pt.ProtoReflect().Descriptor().Fields()
			for j := 0; j < fs.Len(); j++ {
				names[string(fs.Get(j).Name())] = true
			}
			if i == 0 {
				common = names
			} else {
				for n := range common {
					if !names[n] {
						delete(common, n)
					}
				}
			}
		}
		var names []string
		for n := range common {
			names = append(names, n)
		}
		sort.Strings(names)
		var mask *fieldmaskpb.FieldMask
		switch {
		case len(names) == 0:
			if rapid.Bool().Draw(t, "emptyMask") {
				mask = &fieldmaskpb.FieldMask{}
			}
		default:
			n := rapid.IntRange(1, min(3, len(names))).Draw(t, "npaths")
			mask = &fieldmaskpb.FieldMask{}
			for i := 0; i < n; i++ {
				mask.Paths = append(mask.Paths, rapid.SampledFrom(names).Draw(t, "path"))
			}
		}
		// ... or, as a generic interceptor serving several message types with the caller's mask does, a mask naming fields
		// of each of the types: for any one type it then has paths that type does not know. What such a mask selects
		// is not laid down; that a filter's answer for a message does not depend on what it was applied to before is.
		crossType := false
		if !sameType && rapid.IntRange(0, 2).Draw(t, "crossTypeMask") == 0 {
			mask = &fieldmaskpb.FieldMask{}
			for i, m := range msgs {
				ps := lib.PopulatedPaths(m, 2)
				if len(ps) == 0 {
					continue
				}
				mask.Paths = append(mask.Paths, rapid.SampledFrom(ps).Draw(t, fmt.Sprintf("cross%d", i)))
			}
		}
		for _, m := range msgs {
			if mask != nil && !lib.ValidMask(m.ProtoReflect().Descriptor(), mask) {
				crossType = true
			}
		}
		if crossType {
			runCrossType(t, msgs, mask)
			return
		}
		f := masks.NewResponseFilter(masks.WithFieldMask(lib.CloneMask(mask)))
		var typesUsed []string
		distinct := map[string]bool{}
		for i, m := range msgs {
			pristine := proto.Clone(m)
			tn := string(m.ProtoReflect().Descriptor().Name())
			typesUsed = append(typesUsed, tn)
			distinct[tn] = true
			if err := f.Validate(m); err != nil {
				t.Fatalf("application %d: the shared filter's Validate rejects mask %s for %s: %v", i, lib.MaskString(mask), tn, err)
			}
			var got proto.Message
			if err := guard("shared ResponseFilter.FilterClone", func() { got = f.FilterClone(m) }); err != nil {
				t.Fatalf("application %d: %v", i, err)
			}
			if err := sameProjection(fmt.Sprintf("application %d of one ResponseFilter (types so far %v): FilterClone", i, typesUsed), got, pristine, mask); err != nil {
				t.Fatalf("%v", err)
			}
			if !proto.Equal(m, pristine) {
				t.Fatalf("application %d: FilterClone changed the message passed in", i)
			}
			cp := proto.Clone(m)
			if err := guard("shared ResponseFilter.Filter", func() { f.Filter(cp) }); err != nil {
				t.Fatalf("application %d: %v", i, err)
			}
			if err := sameProjection(fmt.Sprintf("application %d of one ResponseFilter (types so far %v): Filter", i, typesUsed), cp, pristine, mask); err != nil {
				t.Fatalf("%v", err)
			}
		}
		nt := ""
		if len(distinct) >= 2 && mask != nil && len(mask.Paths) > 0 {
			nt = fmt.Sprintf("shared|%s|%s", strings.Join(typesUsed, ","), lib.MaskString(mask))
			lib.Ev.Class("shared filter applied to >=2 message types with a non-empty mask")
		} else if mask != nil && len(mask.Paths) > 0 {
			lib.Ev.Class("shared filter applied repeatedly to one message type")
		}
		lib.Ev.Case(nt, func() any { return fmt.Sprintf("one filter, mask %s, applied to %v", lib.MaskString(mask), typesUsed) })
	})
}

// runCrossType: the mask is not valid for every message; only statelessness, no panic and non-mutation are checked.
func runCrossType(t *rapid.T, msgs []proto.Message, mask *fieldmaskpb.FieldMask) {
	shared := masks.NewResponseFilter(masks.WithFieldMask(lib.CloneMask(mask)))
	var typesUsed []string
	for i, m := range msgs {
		pristine := proto.Clone(m)
		typesUsed = append(typesUsed, string(m.ProtoReflect().Descriptor().Name()))
		var fresh, got proto.Message
		if err := guard("fresh ResponseFilter.FilterClone", func() {
			fresh = masks.NewResponseFilter(masks.WithFieldMask(lib.CloneMask(mask))).FilterClone(m)
		}); err != nil {
			t.Fatalf("application %d: %v (mask %s on %s)", i, err, lib.MaskString(mask), typesUsed[i])
		}
		if err := guard("shared ResponseFilter.FilterClone", func() { got = shared.FilterClone(m) }); err != nil {
			t.Fatalf("application %d: %v (mask %s on %s)", i, err, lib.MaskString(mask), typesUsed[i])
		}
		if !proto.Equal(got, fresh) {
			t.Fatalf("application %d of one ResponseFilter with mask %s (applied to %v so far): FilterClone gives {%s}, a new filter with the same mask gives {%s} for {%s}: the answer depends on what the filter was used for before",
				i, lib.MaskString(mask), typesUsed, txt(got), txt(fresh), txt(m))
		}
		if !proto.Equal(m, pristine) {
			t.Fatalf("application %d: FilterClone changed the message passed in", i)
		}
	}
	lib.Ev.Class("shared filter with a mask naming fields of several types (statelessness only)")
	lib.Ev.Case(fmt.Sprintf("cross|%s|%s", strings.Join(typesUsed, ","), lib.MaskString(mask)), func() any {
		return fmt.Sprintf("one filter, cross-type mask %s, applied to %v", lib.MaskString(mask), typesUsed)
	})
}
