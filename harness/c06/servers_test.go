package c06

import (
	"context"
	"fmt"
	"testing"

	"google.golang.org/protobuf/proto"
	"google.golang.org/protobuf/types/known/fieldmaskpb"
	"pgregory.net/rapid"

	"github.com/smart-core-os/sc-api/go/traits"

	"github.com/smart-core-os/sc-golang/pkg/trait/electricpb"
	"github.com/smart-core-os/sc-golang/pkg/trait/hailpb"
	"github.com/smart-core-os/sc-golang/pkg/trait/publicationpb"
	"github.com/smart-core-os/sc-golang/verifh/lib"
)

// listing is one List RPC of a trait server over a collection: what it returns for a read mask, and the stored items.
type listing struct {
	name   string
	proto  proto.Message
	list   func(mask *fieldmaskpb.FieldMask) ([]proto.Message, error)
	stored func() []proto.Message
}

func newListing(t *rapid.T, kind string) listing {
	ctx := context.Background()
	gen := lib.GenOpts{FieldProb: -1, Target: 4, MaxDepth: 2, MaxElems: 2}
	n := rapid.IntRange(1, 4).Draw(t, "items")
	switch kind {
	case "ListModes":
		m := electricpb.NewModel()
		for i := 0; i < n; i++ {
			mode := lib.GenMessage(t, fmt.Sprintf("mode%d", i), &traits.ElectricMode{}, gen).(*traits.ElectricMode)
			mode.Id, mode.Normal = fmt.Sprintf("m%d", i), false
			_ = m.AddMode(mode)
		}
		s := electricpb.NewModelServer(m)
		return listing{name: "electricpb.ModelServer.ListModes", proto: &traits.ElectricMode{},
			list: func(mask *fieldmaskpb.FieldMask) ([]proto.Message, error) {
				r, err := s.ListModes(ctx, &traits.ListModesRequest{Name: "n", ReadMask: mask})
				if err != nil {
					return nil, err
				}
				out := make([]proto.Message, len(r.Modes))
				for i, x := range r.Modes {
					out[i] = x
				}
				return out, nil
			},
			stored: func() []proto.Message {
				var out []proto.Message
				for _, x := range m.Modes() {
					out = append(out, x)
				}
				return out
			}}
	case "ListHails":
		m := hailpb.NewModel()
		for i := 0; i < n; i++ {
			h := lib.GenMessage(t, fmt.Sprintf("hail%d", i), &traits.Hail{}, gen).(*traits.Hail)
			h.Id = ""
			_, _ = m.CreateHail(h)
		}
		s := hailpb.NewModelServer(m)
		return listing{name: "hailpb.ModelServer.ListHails", proto: &traits.Hail{},
			list: func(mask *fieldmaskpb.FieldMask) ([]proto.Message, error) {
				r, err := s.ListHails(ctx, &traits.ListHailsRequest{Name: "n", ReadMask: mask})
				if err != nil {
					return nil, err
				}
				out := make([]proto.Message, len(r.Hails))
				for i, x := range r.Hails {
					out[i] = x
				}
				return out, nil
			},
			stored: func() []proto.Message {
				var out []proto.Message
				for _, x := range m.ListHails() {
					out = append(out, x)
				}
				return out
			}}
	default:
		m := publicationpb.NewModel()
		for i := 0; i < n; i++ {
			p := lib.GenMessage(t, fmt.Sprintf("pub%d", i), &traits.Publication{}, gen).(*traits.Publication)
			p.Id = fmt.Sprintf("p%d", i)
			_, _ = m.CreatePublication(p)
		}
		s := publicationpb.NewModelServer(m)
		return listing{name: "publicationpb.ModelServer.ListPublications", proto: &traits.Publication{},
			list: func(mask *fieldmaskpb.FieldMask) ([]proto.Message, error) {
				r, err := s.ListPublications(ctx, &traits.ListPublicationsRequest{Name: "n", ReadMask: mask})
				if err != nil {
					return nil, err
				}
				out := make([]proto.Message, len(r.Publications))
				for i, x := range r.Publications {
					out[i] = x
				}
				return out, nil
			},
			stored: func() []proto.Message {
				var out []proto.Message
				for _, x := range m.ListPublications() {
					out = append(out, x)
				}
				return out
			}}
	}
}

// TestServerListsWithReadMasks: the List RPCs that trait servers build on a collection. With a read mask every listed
// item is the projection of the stored item, and listing - with whatever mask, any number of times - leaves the stored
// items as they were.
func TestServerListsWithReadMasks(t *testing.T) {
	rapid.Check(t, func(t *rapid.T) {
		l := newListing(t, rapid.SampledFrom([]string{"ListModes", "ListHails", "ListPublications"}).Draw(t, "rpc"))
		before := l.stored()
		snap := make([]proto.Message, len(before))
		for i, m := range before {
			snap[i] = proto.Clone(m)
		}
		full, err := l.list(nil)
		if err != nil {
			t.Fatalf("%s without a mask: %v", l.name, err)
		}
		masked := 0
		for round := 0; round < rapid.IntRange(1, 3).Draw(t, "lists"); round++ {
			mask, _ := lib.DrawMask(t, fmt.Sprintf("mask%d", round), l.proto.ProtoReflect().Descriptor(), snap...)
			got, err := l.list(mask)
			if err != nil {
				t.Fatalf("%s with read mask %s: %v", l.name, lib.MaskString(mask), err)
			}
			if len(got) != len(full) {
				t.Fatalf("%s with read mask %s lists %d items, without a mask %d", l.name, lib.MaskString(mask), len(got), len(full))
			}
			for i := range got {
				want := lib.RefProject(full[i], mask)
				g := lib.DropEmptyOnPaths(proto.Clone(got[i]), mask)
				w := lib.DropEmptyOnPaths(proto.Clone(want), mask)
				if !proto.Equal(g, w) {
					t.Fatalf("%s with read mask %s: item %d is {%v}, the projection of {%v} is {%v}", l.name, lib.MaskString(mask), i, got[i], full[i], want)
				}
			}
			if mask != nil {
				masked++
			}
			after := l.stored()
			if len(after) != len(snap) {
				t.Fatalf("%s with read mask %s changed the number of stored items from %d to %d", l.name, lib.MaskString(mask), len(snap), len(after))
			}
			for i := range after {
				if !proto.Equal(after[i], snap[i]) {
					t.Fatalf("%s with read mask %s altered stored item %d: was {%v}, now {%v}", l.name, lib.MaskString(mask), i, snap[i], after[i])
				}
			}
		}
		nt := ""
		if masked > 0 {
			nt = fmt.Sprintf("%s|%d|%v", l.name, len(snap), snap)
		}
		lib.Ev.Class("server list: " + l.name)
		lib.Ev.Case(nt, func() any { return fmt.Sprintf("%s over %d stored items", l.name, len(snap)) })
	})
}
