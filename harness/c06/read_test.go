package c06

import (
	"context"
	"fmt"
	"strings"
	"testing"
	"time"

	"google.golang.org/grpc/codes"
	"google.golang.org/grpc/status"
	"google.golang.org/protobuf/encoding/prototext"
	"google.golang.org/protobuf/proto"
	"google.golang.org/protobuf/types/known/fieldmaskpb"
	"pgregory.net/rapid"

	"github.com/smart-core-os/sc-api/go/types"

	"github.com/smart-core-os/sc-golang/pkg/masks"
	"github.com/smart-core-os/sc-golang/pkg/resource"
	"github.com/smart-core-os/sc-golang/verifh/lib"
)

func txt(m proto.Message) string {
	if m == nil {
		return "<nil>"
	}
	return prototext.MarshalOptions{Multiline: false}.Format(m)
}

func guard(what string, f func()) (err error) {
	defer func() {
		if r := recover(); r != nil {
			err = fmt.Errorf("%s panicked: %v", what, r)
		}
	}()
	f()
	return nil
}

// sameProjection compares got with the reference projection of stored on mask.
func sameProjection(what string, got, stored proto.Message, mask *fieldmaskpb.FieldMask) error {
	want := lib.RefProject(stored, mask)
	if (got == nil) != (want == nil) {
		return fmt.Errorf("%s: got %s want %s", what, txt(got), txt(want))
	}
	if got == nil {
		return nil
	}
	g := lib.DropEmptyOnPaths(proto.Clone(got), mask)
	w := lib.DropEmptyOnPaths(proto.Clone(want), mask)
	if !proto.Equal(g, w) {
		return fmt.Errorf("%s with mask %s: differs from the independent projection at %q\n stored {%s}\n got    {%s}\n want   {%s}",
			what, lib.MaskString(mask), lib.LeafDiff(g, w, 4), txt(stored), txt(got), txt(want))
	}
	return nil
}

const recvTimeout = 20 * time.Second

func recvV(ch <-chan *resource.ValueChange) (*resource.ValueChange, error) {
	select {
	case c, ok := <-ch:
		if !ok {
			return nil, fmt.Errorf("VERIF-UNDECIDED value stream closed unexpectedly")
		}
		return c, nil
	case <-time.After(recvTimeout):
		return nil, fmt.Errorf("VERIF-UNDECIDED timeout waiting for value event")
	}
}

func recvC(ch <-chan *resource.CollectionChange) (*resource.CollectionChange, error) {
	select {
	case c, ok := <-ch:
		if !ok {
			return nil, fmt.Errorf("VERIF-UNDECIDED collection stream closed unexpectedly")
		}
		return c, nil
	case <-time.After(recvTimeout):
		return nil, fmt.Errorf("VERIF-UNDECIDED timeout waiting for collection event")
	}
}

// exerciseReads runs every read entry point with the mask. valid tells whether projection equality is asserted
// (otherwise only no-panic and non-mutation).
func exerciseReads(stored, second proto.Message, mask *fieldmaskpb.FieldMask, valid bool) error {
	pristine := proto.Clone(stored)
	pristine2 := proto.Clone(second)
	check := func(what string, got proto.Message, of proto.Message) error {
		if !valid {
			return nil
		}
		return sameProjection(what, got, of, mask)
	}
	unmutated := func(what string) error {
		if !proto.Equal(stored, pristine) {
			return fmt.Errorf("%s mutated the stored/passed message:\n before {%s}\n after  {%s}", what, txt(pristine), txt(stored))
		}
		if !proto.Equal(second, pristine2) {
			return fmt.Errorf("%s mutated the second stored message:\n before {%s}\n after  {%s}", what, txt(pristine2), txt(second))
		}
		return nil
	}
	var err error

	// ResponseFilter.FilterClone
	var got proto.Message
	if err = guard("ResponseFilter.FilterClone", func() {
		got = masks.NewResponseFilter(masks.WithFieldMask(lib.CloneMask(mask))).FilterClone(stored)
	}); err != nil {
		return err
	}
	if err = check("ResponseFilter.FilterClone", got, pristine); err != nil {
		return err
	}
	if err = unmutated("ResponseFilter.FilterClone"); err != nil {
		return err
	}
	// ResponseFilter.Filter (documented to modify its argument: give it a copy)
	cp := proto.Clone(stored)
	if err = guard("ResponseFilter.Filter", func() {
		masks.NewResponseFilter(masks.WithFieldMask(lib.CloneMask(mask))).Filter(cp)
	}); err != nil {
		return err
	}
	if err = check("ResponseFilter.Filter", cp, pristine); err != nil {
		return err
	}
	// ReadRequest.FilterClone
	if err = guard("ReadRequest.FilterClone", func() {
		got = resource.ComputeReadConfig(resource.WithReadMask(lib.CloneMask(mask))).FilterClone(stored)
	}); err != nil {
		return err
	}
	if err = check("ReadRequest.FilterClone", got, pristine); err != nil {
		return err
	}
	if err = unmutated("ReadRequest.FilterClone"); err != nil {
		return err
	}

	// Value.Get / Value.Pull
	v := resource.NewValue(resource.WithInitialValue(stored))
	if err = guard("Value.Get", func() { got = v.Get(resource.WithReadMask(lib.CloneMask(mask))) }); err != nil {
		return err
	}
	if err = check("Value.Get", got, pristine); err != nil {
		return err
	}
	if err = unmutated("Value.Get"); err != nil {
		return err
	}
	{
		ctx, cancel := context.WithCancel(context.Background())
		ch := v.Pull(ctx, resource.WithReadMask(lib.CloneMask(mask)), resource.WithBackpressure(true))
		seed, e := recvV(ch)
		if e != nil {
			cancel()
			return e
		}
		if err = check("Value.Pull seed", seed.Value, pristine); err != nil {
			cancel()
			return err
		}
		done := make(chan error, 1)
		go func() {
			_, e := v.Set(second)
			done <- e
		}()
		ev, e := recvV(ch)
		if e != nil {
			cancel()
			return e
		}
		if e := <-done; e != nil {
			cancel()
			return fmt.Errorf("Value.Set failed: %v", e)
		}
		cancel()
		if err = check("Value.Pull event", ev.Value, pristine2); err != nil {
			return err
		}
		if err = unmutated("Value.Pull"); err != nil {
			return err
		}
		if g := v.Get(); !proto.Equal(g, pristine2) {
			return fmt.Errorf("Value.Pull with a mask changed the stored value: {%s} want {%s}", txt(g), txt(pristine2))
		}
	}

	// Collection.Get / List / Pull
	col := resource.NewCollection(resource.WithInitialRecord("a", stored), resource.WithInitialRecord("b", second))
	if err = guard("Collection.Get", func() { got, _ = col.Get("a", resource.WithReadMask(lib.CloneMask(mask))) }); err != nil {
		return err
	}
	if err = check("Collection.Get", got, pristine); err != nil {
		return err
	}
	var list []proto.Message
	if err = guard("Collection.List", func() { list = col.List(resource.WithReadMask(lib.CloneMask(mask))) }); err != nil {
		return err
	}
	if len(list) != 2 {
		return fmt.Errorf("Collection.List returned %d items, want 2", len(list))
	}
	if err = check("Collection.List[0]", list[0], pristine); err != nil {
		return err
	}
	if err = check("Collection.List[1]", list[1], pristine2); err != nil {
		return err
	}
	if err = unmutated("Collection.Get/List"); err != nil {
		return err
	}
	{
		ctx, cancel := context.WithCancel(context.Background())
		defer cancel()
		ch := col.Pull(ctx, resource.WithReadMask(lib.CloneMask(mask)), resource.WithBackpressure(true))
		s1, e := recvC(ch)
		if e != nil {
			return e
		}
		s2, e := recvC(ch)
		if e != nil {
			return e
		}
		if s1.Id != "a" || s2.Id != "b" {
			return fmt.Errorf("Collection.Pull seed order %q,%q", s1.Id, s2.Id)
		}
		if err = check("Collection.Pull seed a", s1.NewValue, pristine); err != nil {
			return err
		}
		if err = check("Collection.Pull seed b", s2.NewValue, pristine2); err != nil {
			return err
		}
		// update a := second ; then delete a
		done := make(chan error, 1)
		go func() {
			_, e := col.Update("a", second)
			done <- e
		}()
		up, e := recvC(ch)
		if e != nil {
			return e
		}
		if e := <-done; e != nil {
			return fmt.Errorf("Collection.Update failed: %v", e)
		}
		if up.ChangeType != types.ChangeType_UPDATE {
			return fmt.Errorf("expected UPDATE event, got %v", up.ChangeType)
		}
		if err = check("Collection.Pull update old value", up.OldValue, pristine); err != nil {
			return err
		}
		if err = check("Collection.Pull update new value", up.NewValue, pristine2); err != nil {
			return err
		}
		go func() {
			_, e := col.Delete("a")
			done <- e
		}()
		del, e := recvC(ch)
		if e != nil {
			return e
		}
		if e := <-done; e != nil {
			return fmt.Errorf("Collection.Delete failed: %v", e)
		}
		if del.ChangeType != types.ChangeType_REMOVE {
			return fmt.Errorf("expected REMOVE event, got %v", del.ChangeType)
		}
		if err = check("Collection.Pull remove old value", del.OldValue, pristine2); err != nil {
			return err
		}
		if valid && del.NewValue != nil {
			return fmt.Errorf("REMOVE event carries a new value {%s}", txt(del.NewValue))
		}
		if err = unmutated("Collection.Pull"); err != nil {
			return err
		}
		if g, ok := col.Get("b"); !ok || !proto.Equal(g, pristine2) {
			return fmt.Errorf("Collection.Pull with a mask changed stored item b: {%s} want {%s}", txt(g), txt(pristine2))
		}
	}
	return nil
}

// TestReadMask: valid masks give exactly the projection everywhere and never mutate.
func TestReadMask(t *testing.T) {
	rapid.Check(t, func(t *rapid.T) {
		pt := lib.DrawType(t, "type")
		md := pt.ProtoReflect().Descriptor()
		stored := lib.GenMessage(t, "stored", pt, lib.GenOpts{FieldProb: -1})
		second, _ := lib.Mutate(t, "second", stored, 3, lib.GenOpts{FieldProb: -1})
		mask, kind := lib.DrawMask(t, "mask", md, stored, second)
		if err := exerciseReads(stored, second, mask, true); err != nil {
			if strings.Contains(err.Error(), "VERIF-UNDECIDED") {
				t.Skip(err.Error())
			}
			t.Fatalf("%v", err)
		}
		lib.Ev.Class("mask:" + string(kind))
		nt := ""
		if mask != nil {
			nested := false
			for _, p := range mask.Paths {
				if strings.Contains(p, ".") {
					nested = true
				}
			}
			in, out := false, false
			for _, p := range lib.PopulatedPaths(stored, 2) {
				if lib.Covers(mask.Paths, p) {
					in = true
				} else if len(lib.StrictlyUnder(mask.Paths, p)) == 0 {
					out = true
				}
			}
			if nested && in && out {
				nt = fmt.Sprintf("%s|%s|%s", md.Name(), lib.MaskString(mask), txt(stored))
			}
		}
		lib.Ev.Case(nt, func() any {
			return fmt.Sprintf("type=%s mask=%s(%s) stored={%s}", md.Name(), lib.MaskString(mask), kind, txt(stored))
		})
	})
}

// TestCorruptMask: invalid masks are reported by Validate and never make a read panic or mutate anything.
func TestCorruptMask(t *testing.T) {
	rapid.Check(t, func(t *rapid.T) {
		pt := lib.DrawType(t, "type")
		md := pt.ProtoReflect().Descriptor()
		stored := lib.GenMessage(t, "stored", pt, lib.GenOpts{FieldProb: -1})
		second, _ := lib.Mutate(t, "second", stored, 3, lib.GenOpts{FieldProb: -1})
		mask, kind, populated := lib.DrawCorruptMask(t, "mask", md, stored)
		if lib.ValidMask(md, mask) {
			t.Fatalf("harness error: corrupt mask %v is valid", mask.Paths)
		}
		if kind == "comma-joined" {
			// the two paths it is made of, as the valid two-path mask they are, are used first: whatever the library
			// remembers about masks must not confuse the two
			split := &fieldmaskpb.FieldMask{Paths: strings.Split(mask.Paths[0], ",")}
			if lib.ValidMask(md, split) {
				if err := masks.NewResponseFilter(masks.WithFieldMask(split)).Validate(stored); err != nil {
					t.Fatalf("ResponseFilter.Validate rejected the valid mask %s: %v", lib.MaskString(split), err)
				}
				_ = masks.NewResponseFilter(masks.WithFieldMask(lib.CloneMask(split))).FilterClone(stored)
			}
		}
		err := masks.NewResponseFilter(masks.WithFieldMask(lib.CloneMask(mask))).Validate(stored)
		if err == nil {
			t.Fatalf("ResponseFilter.Validate accepted invalid mask %s (%s) for %s", lib.MaskString(mask), kind, md.Name())
		}
		if status.Code(err) != codes.InvalidArgument {
			t.Fatalf("ResponseFilter.Validate: code %v, want InvalidArgument, for mask %s (%s)", status.Code(err), lib.MaskString(mask), kind)
		}
		if err := exerciseReads(stored, second, mask, false); err != nil {
			if strings.Contains(err.Error(), "VERIF-UNDECIDED") {
				t.Skip(err.Error())
			}
			t.Fatalf("mask %s (%s) on %s {%s}: %v", lib.MaskString(mask), kind, md.Name(), txt(stored), err)
		}
		lib.Ev.Class("corrupt:" + string(kind))
		nt := ""
		if populated {
			nt = fmt.Sprintf("corrupt|%s|%s|%s", md.Name(), lib.MaskString(mask), txt(stored))
		}
		lib.Ev.Case(nt, func() any {
			return fmt.Sprintf("type=%s corrupt mask=%s(%s, field populated=%v) stored={%s}", md.Name(), lib.MaskString(mask), kind, populated, txt(stored))
		})
	})
}

// TestValidateAcceptsValid: the other direction of the validation clause.
func TestValidateAcceptsValid(t *testing.T) {
	rapid.Check(t, func(t *rapid.T) {
		pt := lib.DrawType(t, "type")
		md := pt.ProtoReflect().Descriptor()
		mask, _ := lib.DrawMask(t, "mask", md)
		if err := masks.NewResponseFilter(masks.WithFieldMask(mask)).Validate(pt); err != nil {
			t.Fatalf("Validate rejected valid mask %s for %s: %v", lib.MaskString(mask), md.Name(), err)
		}
		lib.Ev.Case("", nil)
	})
}
