package c06

import (
	"errors"
	"fmt"
	"strings"
	"testing"

	"pgregory.net/rapid"

	"github.com/smart-core-os/sc-golang/verifh/lib"
	"github.com/smart-core-os/sc-golang/verifh/rlib"
)

// TestPullProjectionsSideBySide: several subscribers of one resource, each with its own read mask (or none), receive
// every change projected by their own mask - new and old values alike - whatever the other subscribers asked for.
// Backpressured and lossy subscribers are mixed: backpressured ones are compared event by event with the reference
// edit script, lossy ones by their folded view (rlib.Runner).
func TestPullProjectionsSideBySide(t *testing.T) {
	rapid.Check(t, func(t *rapid.T) {
		isValue := rapid.IntRange(0, 3).Draw(t, "isValue") == 0
		cfg, alphabet := rlib.GenConfig(t, isValue, true)
		md := cfg.Proto.ProtoReflect().Descriptor()
		n := rapid.IntRange(2, 4).Draw(t, "subscribers")
		var subs []rlib.SubSpec
		masks := map[string]bool{}
		for i := 0; i < n; i++ {
			s := rlib.SubSpec{Backpressure: rapid.IntRange(0, 3).Draw(t, "backpressure") > 0, UpdatesOnly: rapid.IntRange(0, 4).Draw(t, "updatesOnly") == 0}
			if i > 0 || rapid.Bool().Draw(t, "firstMasked") {
				s.ReadMask, _ = lib.DrawMask(t, fmt.Sprintf("mask%d", i), md, alphabet...)
			}
			if !isValue && rapid.IntRange(0, 3).Draw(t, "filtered") == 0 {
				// a filtered view: the collection adjusts the change for this subscriber before its mask is applied
				s.IncludeName = rapid.SampledFrom([]string{"id<b", "counter-odd", "has-derived"}).Draw(t, "include")
				s.Include = rlib.IncludeFn(s.IncludeName)
				lib.Ev.Class("pull:a filtered view next to other subscribers")
			}
			masks[lib.MaskString(s.ReadMask)] = true
			subs = append(subs, s)
		}
		r := rlib.NewRunner(cfg, subs...)
		steps := rapid.IntRange(1, 15).Draw(t, "writes")
		for i := 0; i < steps; i++ {
			op := rlib.GenOp(t, r, alphabet, false)
			// plain full writes: this test is about what subscribers are shown, not about write options
			op.UpdateMask, op.MoreUpdateMask, op.ResetMask, op.MoreWritable, op.AllWritable = nil, nil, nil, nil, false
			op.Before, op.After = "", ""
			err := r.Do(op)
			if errors.Is(err, rlib.ErrStop) {
				break
			}
			if err != nil {
				t.Fatalf("%v\nconfig: %v\nsubscriptions: %v\nhistory:\n  %s", err, cfg, subs, strings.Join(r.History, "\n  "))
			}
		}
		if err := r.Finish(); err != nil {
			t.Fatalf("%v\nconfig: %v\nsubscriptions: %v\nhistory:\n  %s", err, cfg, subs, strings.Join(r.History, "\n  "))
		}
		nt := ""
		if len(masks) >= 2 && r.OKWrites >= 2 {
			nt = fmt.Sprintf("pull|%v|%v|%s", cfg.IsValue, subs, strings.Join(r.OutcomeKey, ";"))
		}
		lib.Ev.Class("pull:subscribers with different masks side by side")
		lib.Ev.Case(nt, func() any {
			var ss []string
			for _, s := range subs {
				ss = append(ss, s.String())
			}
			return map[string]any{"config": cfg.String(), "subscriptions": ss, "history": r.History}
		})
	})
}
