package c06

import (
	"strings"
	"testing"

	"google.golang.org/grpc/codes"
	"google.golang.org/grpc/status"
	"google.golang.org/protobuf/proto"
	"google.golang.org/protobuf/types/known/fieldmaskpb"

	"github.com/smart-core-os/sc-golang/internal/testproto"
	"github.com/smart-core-os/sc-golang/pkg/masks"
	"github.com/smart-core-os/sc-golang/pkg/resource"
	"github.com/smart-core-os/sc-golang/verifh/lib"
)

// FuzzReadMask: coverage guided search over (wire bytes of a TestAllTypes, comma separated mask paths) with the same
// oracle as the property tests: valid masks project exactly, invalid ones are reported and never panic, nothing is mutated.
func FuzzReadMask(f *testing.F) {
	seedMsgs := []proto.Message{
		&testproto.TestAllTypes{},
		&testproto.TestAllTypes{DefaultInt32: 1, DefaultString: "a", DefaultNestedMessage: &testproto.TestAllTypes_NestedMessage{A: 2, Corecursive: &testproto.TestAllTypes{DefaultBool: true}}},
		&testproto.TestAllTypes{RepeatedString: []string{"x"}, MapStringString: map[string]string{"k": "v"}, RepeatedNestedMessage: []*testproto.TestAllTypes_NestedMessage{{A: 1}}},
		&testproto.TestAllTypes{OneofDefault: &testproto.TestAllTypes_OneofDefaultNestedMessage{OneofDefaultNestedMessage: &testproto.TestAllTypes_NestedMessage{A: 3}}, MapStringNestedMessage: map[string]*testproto.TestAllTypes_NestedMessage{"a": {A: 1}}},
	}
	seedPaths := []string{"", "default_int32", "default_nested_message.a", "default_nested_message,default_nested_message.a", "repeated_string.x", "map_string_string.k",
		"map_string_nested_message.value.a", "repeated_nested_message.a", "nope", "default_int32.x", "default_nested_message.corecursive.default_bool", "a,,b", "."}
	for _, m := range seedMsgs {
		b, _ := proto.Marshal(m)
		for _, p := range seedPaths {
			f.Add(b, p)
		}
	}
	md := (&testproto.TestAllTypes{}).ProtoReflect().Descriptor()
	f.Fuzz(func(t *testing.T, data []byte, paths string) {
		msg := &testproto.TestAllTypes{}
		if err := proto.Unmarshal(data, msg); err != nil {
			return
		}
		// unknown fields (at any depth) are outside the statement: a projection keeps or drops them as protobuf-go's
		// field-mask utilities happen to, and the property only speaks about the message's fields
		if !lib.Sanitize(msg) {
			return
		}
		if len(paths) > 200 {
			return
		}
		mask := &fieldmaskpb.FieldMask{Paths: strings.Split(paths, ",")}
		if paths == "" {
			mask.Paths = nil
		}
		pristine := proto.Clone(msg)
		valid := lib.ValidMask(md, mask)
		err := masks.NewResponseFilter(masks.WithFieldMask(lib.CloneMask(mask))).Validate(msg)
		if valid && err != nil {
			t.Fatalf("Validate rejected the valid mask %q: %v", mask.Paths, err)
		}
		if !valid && status.Code(err) != codes.InvalidArgument {
			t.Fatalf("Validate(%q) = %v, want InvalidArgument", mask.Paths, err)
		}
		got := masks.NewResponseFilter(masks.WithFieldMask(lib.CloneMask(mask))).FilterClone(msg)
		v := resource.NewValue(resource.WithInitialValue(msg))
		got2 := v.Get(resource.WithReadMask(lib.CloneMask(mask)))
		if !proto.Equal(msg, pristine) {
			t.Fatalf("a read with mask %q mutated the message", mask.Paths)
		}
		if valid {
			want := lib.DropEmptyOnPaths(lib.RefProject(pristine, mask), mask)
			for _, g := range []proto.Message{got, got2} {
				if !proto.Equal(lib.DropEmptyOnPaths(proto.Clone(g), mask), want) {
					t.Fatalf("mask %q: got %v, the projection is %v (message %v)", mask.Paths, g, want, pristine)
				}
			}
		}
	})
}
