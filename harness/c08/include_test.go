package c08

import (
	"errors"
	"fmt"
	"strings"
	"testing"

	"google.golang.org/protobuf/proto"
	"google.golang.org/protobuf/types/known/fieldmaskpb"
	"pgregory.net/rapid"

	"github.com/smart-core-os/sc-golang/internal/testproto"
	"github.com/smart-core-os/sc-golang/verifh/lib"
	"github.com/smart-core-os/sc-golang/verifh/rlib"
)

func val(n int32) proto.Message { return &testproto.ForeignMessage{C: n, D: 7} }

// tablePredicate builds the predicate of truth table bits over (id in {a,b}) x (value in {absent,1,2,3}).
// Bit index = idIndex*4 + valueIndex. Other ids (and other values) are excluded.
func tablePredicate(bits int) func(id string, m proto.Message) bool {
	return func(id string, m proto.Message) bool {
		ii := strings.Index("ab", id)
		if ii < 0 || len(id) != 1 {
			return false
		}
		vi := 0
		if m != nil {
			fm, ok := m.(*testproto.ForeignMessage)
			if !ok || fm.GetC() < 1 || fm.GetC() > 3 {
				return false
			}
			vi = int(fm.GetC())
		}
		return bits&(1<<(ii*4+vi)) != 0
	}
}

// history steps: kind 0=update(create if absent) 1=delete(allow missing) ; id index; value 1..3
type step struct {
	Kind, ID, Val int
}

type incCase struct {
	Mask         []string // read mask paths, nil = none
	Table        int
	Initial      []int // value per id (0 = absent)
	Backpressure bool
	UpdatesOnly  bool
	NoDup        bool // the collection is configured with WithNoDuplicates
	Steps        []step
}

func (c incCase) String() string {
	return fmt.Sprintf("table=%08b initial=%v backpressure=%v updatesOnly=%v noDuplicates=%v readMask=%q steps=%v", c.Table, c.Initial, c.Backpressure, c.UpdatesOnly, c.NoDup, c.Mask, c.Steps)
}

func runInclude(c incCase) (nt string, err error) {
	cfg := rlib.Config{Proto: &testproto.ForeignMessage{}, Initial: map[string]proto.Message{}}
	for i, v := range c.Initial {
		if v > 0 {
			cfg.Initial[string("ab"[i])] = val(int32(v))
		}
	}
	if c.NoDup {
		// an equivalence suppresses updates that leave the (masked) value as the subscriber holds it - but never one
		// that makes the item enter or leave the filtered view
		cfg.Equivalence = "nodup"
	}
	p := tablePredicate(c.Table)
	sub := rlib.SubSpec{Backpressure: c.Backpressure, UpdatesOnly: c.UpdatesOnly, Include: p, IncludeName: fmt.Sprintf("table %08b", c.Table)}
	if c.Mask != nil {
		// the predicate reads field c of the stored item: a read mask must not change which items match
		sub.ReadMask = &fieldmaskpb.FieldMask{Paths: c.Mask}
	}
	// a second, unfiltered backpressured subscription checks the base stream alongside
	r := rlib.NewRunner(cfg, sub, rlib.SubSpec{Backpressure: true})
	stayIn, stayOut := false, false
	for _, s := range c.Steps {
		id := string("ab"[s.ID])
		var op rlib.Op
		if s.Kind == 0 {
			op = rlib.Op{Kind: rlib.OpUpdate, ID: id, Val: val(int32(s.Val)), CreateIfAbsent: true}
		} else {
			op = rlib.Op{Kind: rlib.OpDelete, ID: id, AllowMissing: true}
		}
		before := r.Model.Get(id, nil)
		if e := r.Do(op); e != nil {
			if errors.Is(e, rlib.ErrStop) {
				break
			}
			return "", fmt.Errorf("%v\nhistory:\n  %s", e, strings.Join(r.History, "\n  "))
		}
		after := r.Model.Get(id, nil)
		if before.Found && after.Found {
			mo, mn := p(id, before.Ret), p(id, after.Ret)
			if mo && mn {
				stayIn = true
			}
			if !mo && !mn {
				stayOut = true
			}
		}
	}
	if e := r.Finish(); e != nil {
		return "", fmt.Errorf("%v\nhistory:\n  %s", e, strings.Join(r.History, "\n  "))
	}
	if stayIn || stayOut {
		nt = c.String()
	}
	if stayIn {
		lib.Ev.Class("history:update between two matching versions")
	}
	if stayOut {
		lib.Ev.Class("history:update that matches neither before nor after")
	}
	return nt, nil
}

func drawSteps(t *rapid.T, n int) []step {
	steps := make([]step, n)
	for i := range steps {
		steps[i] = step{Kind: rapid.SampledFrom([]int{0, 0, 0, 1}).Draw(t, "kind"), ID: rapid.IntRange(0, 1).Draw(t, "id"), Val: rapid.IntRange(1, 3).Draw(t, "val")}
	}
	return steps
}

// TestIncludeRandom: random tables and histories.
func TestIncludeRandom(t *testing.T) {
	rapid.Check(t, func(t *rapid.T) {
		c := incCase{
			Table:        rapid.IntRange(0, 255).Draw(t, "table"),
			Initial:      []int{rapid.IntRange(0, 3).Draw(t, "initA"), rapid.IntRange(0, 3).Draw(t, "initB")},
			Backpressure: rapid.Bool().Draw(t, "backpressure"),
			UpdatesOnly:  rapid.IntRange(0, 3).Draw(t, "updatesOnly") == 0,
		}
		c.Mask = rapid.SampledFrom([][]string{nil, nil, {"d"}, {"c"}, {}}).Draw(t, "mask")
		c.NoDup = rapid.IntRange(0, 2).Draw(t, "noDuplicates") == 0
		c.Steps = drawSteps(t, rapid.IntRange(1, 12).Draw(t, "n"))
		nt, err := runInclude(c)
		if err != nil {
			t.Fatalf("%v\ncase: %v", err, c)
		}
		lib.Ev.Case(nt, func() any { return c.String() })
	})
}

// allSteps enumerates the step alphabet: update(a|b, 1..3), delete(a|b).
func allSteps() []step {
	var out []step
	for id := 0; id < 2; id++ {
		for v := 1; v <= 3; v++ {
			out = append(out, step{0, id, v})
		}
		out = append(out, step{1, id, 1})
	}
	return out
}

// TestIncludeTables enumerates all 256 predicates; per predicate every history up to a length bound (thorough) or a
// fixed set of histories covering the four decision-table rows (quick).
func TestIncludeTables(t *testing.T) {
	alphabet := allSteps()
	maxLen := lib.Scale(3, 4)
	shard, nshards := lib.Shard()
	done := false
	lib.Enumerate(t, "TestIncludeTables", func(yield func(incCase) bool) {
		for table := 0; table < 256; table++ {
			if table%nshards != shard {
				continue
			}
			for _, bp := range []bool{true, false} {
				for initA := 0; initA <= 1; initA++ {
					var rec func(prefix []step) bool
					rec = func(prefix []step) bool {
						if len(prefix) > 0 {
							c := incCase{Table: table, Initial: []int{initA * 2, 0}, Backpressure: bp, Steps: append([]step(nil), prefix...)}
							if !yield(c) {
								return false
							}
						}
						if len(prefix) == maxLen {
							return true
						}
						for _, s := range alphabet {
							if !rec(append(prefix, s)) {
								return false
							}
						}
						return true
					}
					if !rec(nil) {
						return
					}
				}
			}
		}
		done = true
	}, func(c incCase) error {
		nt, err := runInclude(c)
		if err != nil {
			return err
		}
		lib.Ev.Case(nt, func() any { return c.String() })
		return nil
	})
	lib.Ev.Exhaustive(fmt.Sprintf("256 truth tables x backpressure x initial x histories up to length %d", maxLen), done)
}
