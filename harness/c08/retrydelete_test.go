package c08

import (
	"context"
	"fmt"
	"sort"
	"strings"
	"testing"
	"time"

	"google.golang.org/protobuf/proto"
	"pgregory.net/rapid"

	"github.com/smart-core-os/sc-api/go/types"

	"github.com/smart-core-os/sc-golang/internal/testproto"
	"github.com/smart-core-os/sc-golang/pkg/resource"
	"github.com/smart-core-os/sc-golang/verifh/lib"
)

// TestFilteredViewAcrossRetriedDeletes: a filtered subscription next to deletes that have to go round their retry loop.
// A Delete's precondition callback runs with no lock held; here it sees the item change underneath it (it makes that
// change itself, once), so the delete is decided against a newer version than the one it first read. The filtered
// stream, folded, is List with the same predicate, and the REMOVE carries the version that was removed.
func TestFilteredViewAcrossRetriedDeletes(t *testing.T) {
	rapid.Check(t, func(t *rapid.T) {
		col := resource.NewCollection(resource.WithInitialRecord("a", val(1)), resource.WithInitialRecord("b", val(2)))
		odd := func(_ string, m proto.Message) bool { return m != nil && m.(*testproto.ForeignMessage).C%2 != 0 }
		backpressure := rapid.Bool().Draw(t, "backpressure")
		ctx, cancel := context.WithCancel(context.Background())
		defer cancel()
		ch := col.Pull(ctx, resource.WithInclude(odd), resource.WithBackpressure(backpressure))
		type result struct {
			view map[string]int32
			err  string
		}
		done := make(chan result, 1)
		go func() {
			// whatever this consumer concludes, it keeps receiving: a backpressured subscriber that stops holds writers up
			defer func() {
				for range ch {
				}
			}()
			view := map[string]int32{}
			for e := range ch {
				switch e.ChangeType {
				case types.ChangeType_REMOVE:
					if had, ok := view[e.Id]; backpressure && ok && e.OldValue != nil && e.OldValue.(*testproto.ForeignMessage).C != had {
						done <- result{err: fmt.Sprintf("REMOVE of %q carries old value %d, the subscriber holds %d", e.Id, e.OldValue.(*testproto.ForeignMessage).C, had)}
						return
					}
					delete(view, e.Id)
				default:
					if e.NewValue == nil {
						done <- result{err: fmt.Sprintf("%v of %q without a new value", e.ChangeType, e.Id)}
						return
					}
					view[e.Id] = e.NewValue.(*testproto.ForeignMessage).C
				}
				if e.Id == "zz" {
					done <- result{view: view}
					return
				}
			}
		}()
		var hist []string
		next := int32(3)
		retried := 0
		n := rapid.IntRange(1, 10).Draw(t, "steps")
		for i := 0; i < n; i++ {
			id := rapid.SampledFrom([]string{"a", "b", "c"}).Draw(t, "id")
			switch rapid.SampledFrom([]string{"update", "update", "delete", "retried-delete", "retried-delete"}).Draw(t, "op") {
			case "update":
				v := next + int32(rapid.IntRange(0, 1).Draw(t, "parity"))
				next += 2
				if _, err := col.Update(id, val(v), resource.WithCreateIfAbsent()); err != nil {
					t.Fatalf("update: %v", err)
				}
				hist = append(hist, fmt.Sprintf("update(%s,%d)", id, v))
			case "delete":
				_, _ = col.Delete(id, resource.WithAllowMissing(true))
				hist = append(hist, "delete("+id+")")
			default:
				cur, ok := col.Get(id)
				if !ok {
					continue
				}
				v := next + int32(rapid.IntRange(0, 1).Draw(t, "parity"))
				next += 2
				touched := false
				old, err := col.Delete(id, resource.WithExpectedCheck(func(m proto.Message) error {
					if !touched {
						touched = true
						// the item changes while the caller is still deciding
						if _, err := col.Update(id, val(v)); err != nil {
							return err
						}
					}
					return nil
				}))
				hist = append(hist, fmt.Sprintf("delete(%s, was %d; its check rewrote the item to %d) => removed %v err=%v", id, cur.(*testproto.ForeignMessage).C, v, old, err))
				if err == nil {
					if old == nil || old.(*testproto.ForeignMessage).C != v {
						t.Fatalf("Delete returned %v, the version it removed was %d\nhistory: %s", old, v, strings.Join(hist, "; "))
					}
					retried++
				}
			}
		}
		if _, err := col.Update("zz", val(-1), resource.WithCreateIfAbsent()); err != nil {
			t.Fatalf("sentinel: %v", err)
		}
		var got result
		select {
		case got = <-done:
		case <-time.After(10 * time.Second):
			t.Fatalf("the sentinel never reached the filtered subscriber\nhistory: %s", strings.Join(hist, "; "))
		}
		if got.err != "" {
			t.Fatalf("%s\nhistory: %s", got.err, strings.Join(hist, "; "))
		}
		var want, have []string
		for _, m := range col.List(resource.WithInclude(odd)) {
			want = append(want, fmt.Sprint(m.(*testproto.ForeignMessage).C))
		}
		for _, v := range got.view {
			have = append(have, fmt.Sprint(v))
		}
		sort.Strings(want)
		sort.Strings(have)
		if fmt.Sprint(want) != fmt.Sprint(have) {
			t.Fatalf("List with the predicate has values %v, the folded filtered stream has %v (backpressure=%v)\nhistory: %s", want, have, backpressure, strings.Join(hist, "; "))
		}
		nt := ""
		if retried > 0 {
			nt = fmt.Sprintf("%v|%s", backpressure, strings.Join(hist, ";"))
			lib.Ev.Class("filtered view: a delete that went round its retry loop")
		}
		lib.Ev.Case(nt, func() any { return strings.Join(hist, "; ") })
	})
}
