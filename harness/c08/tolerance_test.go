package c08

import (
	"context"
	"fmt"
	"sort"
	"strings"
	"testing"
	"time"

	"github.com/smart-core-os/sc-api/go/types"
	"google.golang.org/protobuf/proto"
	"pgregory.net/rapid"

	"github.com/smart-core-os/sc-golang/internal/testproto"
	"github.com/smart-core-os/sc-golang/pkg/resource"
	"github.com/smart-core-os/sc-golang/verifh/lib"
)

// TestIncludeWithToleranceAndTimes: the filtered view next to the two things that sit around it in a real deployment:
//   - a collection configured with an APPROXIMATE equivalence (values whose counters differ by at most tol are not worth
//     an event), with a predicate that is sensitive to a difference inside that tolerance (a threshold, a parity): a
//     suppressed no-op update is one thing, an item entering or leaving the view is never a no-op;
//   - writes that carry explicit write times which do not increase from write to write (back-dated readings), read by
//     a subscriber without backpressure that was not receiving while they were made (so several changes of one id are
//     pending together).
// Oracle: membership. After a sentinel write the set of ids in the folded filtered stream is exactly the set of ids
// List returns with the same predicate; where no equivalence is configured the values agree too.
func TestIncludeWithToleranceAndTimes(t *testing.T) {
	rapid.Check(t, func(t *rapid.T) {
		tol := rapid.SampledFrom([]int32{-1, -1, 0, 1, 2}).Draw(t, "tolerance") // -1: no equivalence configured
		pred := rapid.SampledFrom([]string{"c>=3", "c>=5", "c odd", "c<4", "id!=b"}).Draw(t, "predicate")
		include := func(id string, m proto.Message) bool {
			c := m.(*testproto.ForeignMessage).C
			switch pred {
			case "c>=3":
				return c >= 3
			case "c>=5":
				return c >= 5
			case "c odd":
				return c%2 != 0
			case "c<4":
				return c < 4
			}
			return id != "b"
		}
		var copts []resource.Option
		if tol >= 0 {
			copts = append(copts, resource.WithMessageEquivalence(func(x, y proto.Message) bool {
				if x == nil || y == nil { // an ADD has no old value, a REMOVE no new one
					return x == nil && y == nil
				}
				d := x.(*testproto.ForeignMessage).C - y.(*testproto.ForeignMessage).C
				return d >= -tol && d <= tol
			}))
		}
		ids := []string{"a", "b", "c"}
		var hist []string
		for _, id := range ids {
			if v := rapid.IntRange(-1, 8).Draw(t, "init-"+id); v >= 0 {
				copts = append(copts, resource.WithInitialRecord(id, val(int32(v))))
				hist = append(hist, fmt.Sprintf("initial %s=%d", id, v))
			}
		}
		col := resource.NewCollection(copts...)
		type sub struct {
			backpressure, updatesOnly, stalled bool
		}
		nsubs := rapid.IntRange(1, 3).Draw(t, "nsubs")
		subs := make([]sub, nsubs)
		for i := range subs {
			bp := rapid.Bool().Draw(t, "backpressure")
			subs[i] = sub{backpressure: bp, updatesOnly: rapid.IntRange(0, 3).Draw(t, "updatesOnly") == 0, stalled: !bp && rapid.Bool().Draw(t, "stalled")}
		}
		ctx, cancel := context.WithCancel(context.Background())
		defer cancel()
		type view struct {
			m      map[string]int32
			events []string
			err    string
		}
		views := make([]*view, nsubs)
		done := make([]chan struct{}, nsubs)
		release := make(chan struct{})
		const sentinelID = "zz-sentinel"
		for i, sp := range subs {
			i, sp := i, sp
			v := &view{m: map[string]int32{}}
			views[i] = v
			done[i] = make(chan struct{})
			ch := col.Pull(ctx, resource.WithBackpressure(sp.backpressure), resource.WithUpdatesOnly(sp.updatesOnly), resource.WithInclude(resource.FilterFunc(include)))
			go func() {
				defer close(done[i])
				if sp.stalled {
					<-release
				}
				for e := range ch {
					v.events = append(v.events, fmt.Sprintf("%v %s %s->%s", e.ChangeType, e.Id, txtC(e.OldValue), txtC(e.NewValue)))
					if e.ChangeType == types.ChangeType_REMOVE {
						delete(v.m, e.Id)
					} else {
						v.m[e.Id] = e.NewValue.(*testproto.ForeignMessage).C
					}
					if e.Id == sentinelID {
						return
					}
				}
				v.err = "stream closed"
			}()
		}
		n := rapid.IntRange(1, 14).Draw(t, "steps")
		at := int64(100000)
		flips := 0
		for k := 0; k < n; k++ {
			id := rapid.SampledFrom(ids).Draw(t, "id")
			var wopts []resource.WriteOption
			switch rapid.IntRange(0, 3).Draw(t, "time") {
			case 0:
				at -= int64(rapid.IntRange(1, 50).Draw(t, "back"))
				wopts = append(wopts, resource.WithWriteTime(time.Unix(at, 0)))
			case 1:
				at += int64(rapid.IntRange(1, 50).Draw(t, "fwd"))
				wopts = append(wopts, resource.WithWriteTime(time.Unix(at, 0)))
			}
			old, had := col.Get(id)
			if rapid.IntRange(0, 5).Draw(t, "delete") == 0 {
				if _, err := col.Delete(id, append(wopts, resource.WithAllowMissing(true))...); err != nil {
					t.Fatalf("delete: %v", err)
				}
				hist = append(hist, fmt.Sprintf("delete %s %v", id, len(wopts) > 0))
				continue
			}
			var v int32
			if had && rapid.Bool().Draw(t, "near") {
				v = old.(*testproto.ForeignMessage).C + int32(rapid.IntRange(-2, 2).Draw(t, "delta"))
			} else {
				v = int32(rapid.IntRange(0, 8).Draw(t, "value"))
			}
			if had && include(id, old) != include(id, val(v)) {
				flips++
			}
			if _, err := col.Update(id, val(v), append(wopts, resource.WithCreateIfAbsent())...); err != nil {
				t.Fatalf("update: %v", err)
			}
			hist = append(hist, fmt.Sprintf("update %s=%d backdated/explicit time=%v", id, v, len(wopts) > 0))
		}
		// the sentinel matches every predicate used here (c=3 fails "c>=5": give it 7, odd, but "c<4" needs <4: pick per predicate)
		sv := int32(7)
		if pred == "c<4" {
			sv = 3
		}
		if _, err := col.Add(sentinelID, val(sv)); err != nil {
			t.Fatalf("sentinel: %v", err)
		}
		close(release)
		want := map[string]int32{}
		for _, m := range col.List(resource.WithInclude(resource.FilterFunc(include))) {
			_ = m
		}
		for _, id := range append(append([]string(nil), ids...), sentinelID) {
			if m, ok := col.Get(id); ok && include(id, m) {
				want[id] = m.(*testproto.ForeignMessage).C
			}
		}
		if got := len(col.List(resource.WithInclude(resource.FilterFunc(include)))); got != len(want) {
			t.Fatalf("List(include) has %d items, Get+predicate says %d", got, len(want))
		}
		desc := fmt.Sprintf("tolerance=%d predicate=%q subs=%+v\n  %s", tol, pred, subs, strings.Join(hist, "\n  "))
		for i, sp := range subs {
			select {
			case <-done[i]:
			case <-time.After(15 * time.Second):
				t.Fatalf("sub%d %+v: the sentinel was not delivered within 15s\n%s", i, sp, desc)
			}
			v := views[i]
			if v.err != "" {
				t.Fatalf("sub%d %+v: %s\n%s", i, sp, v.err, desc)
			}
			var diffs []string
			for id, w := range want {
				g, ok := v.m[id]
				if !ok {
					if sp.updatesOnly {
						continue // an updates-only view knows only what changed since
					}
					diffs = append(diffs, fmt.Sprintf("%s matches (List has it, value %d) but the folded stream does not have it", id, w))
				} else if tol < 0 && g != w {
					diffs = append(diffs, fmt.Sprintf("%s: List has %d, folded stream has %d", id, w, g))
				}
			}
			for id, g := range v.m {
				if _, ok := want[id]; !ok {
					diffs = append(diffs, fmt.Sprintf("%s is in the folded stream (value %d) but List with the same predicate does not have it", id, g))
				}
			}
			if len(diffs) > 0 {
				sort.Strings(diffs)
				t.Fatalf("sub%d %+v: folding the filtered stream does not give List with the same predicate: %v\nevents: %v\n%s", i, sp, diffs, v.events, desc)
			}
		}
		if tol >= 1 && flips > 0 {
			lib.Ev.Class("tolerance>=1 and an update moved an item across the predicate")
		}
		nt := ""
		if flips > 0 {
			nt = desc
		}
		lib.Ev.Case(nt, func() any { return desc })
	})
}

func txtC(m proto.Message) string {
	if m == nil {
		return "-"
	}
	return fmt.Sprint(m.(*testproto.ForeignMessage).C)
}
