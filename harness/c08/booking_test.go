package c08

import (
	"google.golang.org/grpc"
	"context"
	"fmt"
	"sort"
	"testing"
	"time"

	"google.golang.org/protobuf/proto"
	"google.golang.org/protobuf/types/known/timestamppb"
	"pgregory.net/rapid"

	"github.com/smart-core-os/sc-api/go/traits"
	"github.com/smart-core-os/sc-api/go/types"
	timepb "github.com/smart-core-os/sc-api/go/types/time"

	"github.com/smart-core-os/sc-golang/pkg/resource"
	"github.com/smart-core-os/sc-golang/pkg/trait/bookingpb"
	"github.com/smart-core-os/sc-golang/verifh/lib"
)

// drawPeriod draws a non-degenerate, possibly unbounded period over seconds 0..6.
func drawPeriod(t *rapid.T, label string, mayBeAbsent ...bool) (*timepb.Period, int, int) {
	if len(mayBeAbsent) > 0 && mayBeAbsent[0] && rapid.IntRange(0, 5).Draw(t, label+".none") == 2 {
		// a booking that has no booked period (yet): it occupies no time at all, so it intersects nothing - not even
		// an unbounded window
		return nil, 0, 0
	}
	lo := rapid.IntRange(-1, 5).Draw(t, label+".lo") // -1: unbounded
	hi := rapid.IntRange(lo+1, 7).Draw(t, label+".hi")
	p := &timepb.Period{}
	if lo >= 0 {
		p.StartTime = &timestamppb.Timestamp{Seconds: int64(lo)}
	}
	if hi <= 6 {
		p.EndTime = &timestamppb.Timestamp{Seconds: int64(hi)}
	} else {
		hi = 1 << 30
	}
	if lo < 0 {
		lo = -(1 << 30)
	}
	return p, lo, hi
}

// TestBookingIntersects: the booking server's period predicate, List vs folded Pull.
func TestBookingIntersects(t *testing.T) {
	rapid.Check(t, func(t *rapid.T) {
		m := bookingpb.NewModel()
		srv := bookingpb.NewModelServer(m)
		query, qlo, qhi := drawPeriod(t, "query")
		type span struct{ lo, hi int }
		model := map[string]span{}
		intersects := func(s span) bool { return max(s.lo, qlo) < min(s.hi, qhi) }
		ids := []string{"b1", "b2", "b3"}
		for _, id := range ids[:rapid.IntRange(0, 3).Draw(t, "ninit")] {
			p, lo, hi := drawPeriod(t, "init."+id, true)
			if _, err := m.CreateBooking(&traits.Booking{Id: id, Booked: p, Title: "t"}); err != nil {
				t.Fatalf("create: %v", err)
			}
			model[id] = span{lo, hi}
		}
		backpressure := rapid.Bool().Draw(t, "backpressure")
		include := func(_ string, item proto.Message) bool {
			// the same shape of predicate the server builds from booking_intersects
			if item == nil {
				return false
			}
			return rapidIntersect(item.(*traits.Booking).Booked, query)
		}
		ctx, cancel := context.WithCancel(context.Background())
		defer cancel()
		// the stream comes either from the model with the predicate the server would build, or from the server's own
		// PullBookings RPC with booking_intersects (it builds the predicate itself)
		viaServer := rapid.Bool().Draw(t, "pullViaServer")
		var ch <-chan bookingpb.BookingChange
		if viaServer {
			out := make(chan bookingpb.BookingChange)
			ch = out
			st := &pullBookingsStream{ctx: ctx, out: out}
			go func() {
				defer close(out)
				_ = srv.PullBookings(&traits.ListBookingsRequest{Name: "n", BookingIntersects: query}, st)
			}()
		} else {
			ch = m.PullBookings(ctx, resource.WithInclude(include), resource.WithBackpressure(backpressure))
		}
		view := map[string]*traits.Booking{}
		done := make(chan string, 1)
		synced := make(chan struct{})
		go func() {
			for {
				select {
				case e, ok := <-ch:
					if !ok {
						done <- "closed"
						return
					}
					switch e.ChangeType {
					case types.ChangeType_REMOVE:
						if e.OldValue != nil {
							if e.OldValue.Id == "zz-sentinel" {
								done <- ""
								return
							}
							delete(view, e.OldValue.Id)
						}
					default:
						if e.NewValue == nil {
							done <- fmt.Sprintf("event %v without a new value", e.ChangeType)
							return
						}
						if e.NewValue.Id == "zz-sentinel" {
							done <- ""
							return
						}
						if e.NewValue.Id == "zy-sync" {
							select {
							case <-synced:
							default:
								close(synced)
							}
							continue
						}
						view[e.NewValue.Id] = e.NewValue
					}
				case <-time.After(15 * time.Second):
					done <- "timeout waiting for the sentinel booking"
					return
				}
			}
		}()
		// the model subscribes inside its forwarding goroutine: wait until the subscription demonstrably exists (a booking
		// that always intersects comes through) so that the history below is written by one writer with the subscriber
		// in place. Writes racing the act of subscribing are C03's subject, not this property's.
		if _, err := m.CreateBooking(&traits.Booking{Id: "zy-sync", Booked: &timepb.Period{}}); err != nil {
			t.Fatalf("sync booking: %v", err)
		}
		select {
		case <-synced:
		case msg := <-done:
			t.Fatalf("the stream ended before the sync booking arrived: %s", msg)
		case <-time.After(20 * time.Second):
			t.Fatalf("the sync booking never arrived on PullBookings")
		}
		n := rapid.IntRange(1, 8).Draw(t, "steps")
		transitions := 0
		for i := 0; i < n; i++ {
			id := rapid.SampledFrom(ids).Draw(t, "id")
			p, lo, hi := drawPeriod(t, fmt.Sprintf("p%d", i), true)
			old, exists := model[id]
			if exists {
				if _, err := m.UpdateBooking(&traits.Booking{Id: id, Booked: p, Title: fmt.Sprint("t", i)}); err != nil {
					t.Fatalf("update: %v", err)
				}
			} else {
				if _, err := m.CreateBooking(&traits.Booking{Id: id, Booked: p, Title: "t"}); err != nil {
					t.Fatalf("create: %v", err)
				}
			}
			if exists && intersects(old) != intersects(span{lo, hi}) {
				transitions++
			}
			model[id] = span{lo, hi}
		}
		// expected filtered listing from the arithmetic model
		var want []string
		for id, s := range model {
			if intersects(s) {
				want = append(want, id)
			}
		}
		sort.Strings(want)
		resp, err := srv.ListBookings(ctx, &traits.ListBookingsRequest{Name: "n", BookingIntersects: query})
		if err != nil {
			t.Fatalf("ListBookings: %v", err)
		}
		var listed []string
		var listedBookings []*traits.Booking
		for _, b := range resp.Bookings {
			if b.Id == "zy-sync" {
				continue
			}
			listed = append(listed, b.Id)
			listedBookings = append(listedBookings, b)
		}
		desc := fmt.Sprintf("query=[%d,%d) bookings=%v backpressure=%v stream from the server's PullBookings=%v", qlo, qhi, model, backpressure, viaServer)
		if fmt.Sprint(listed) != fmt.Sprint(want) {
			t.Fatalf("%s: ListBookings returned %v, interval arithmetic says %v", desc, listed, want)
		}
		// sentinel: a booking that always intersects
		if _, err := m.CreateBooking(&traits.Booking{Id: "zz-sentinel", Booked: &timepb.Period{}}); err != nil {
			t.Fatalf("sentinel: %v", err)
		}
		if msg := <-done; msg != "" {
			t.Fatalf("%s: %s", desc, msg)
		}
		var folded []string
		for id := range view {
			folded = append(folded, id)
		}
		sort.Strings(folded)
		if fmt.Sprint(folded) != fmt.Sprint(want) {
			t.Fatalf("%s: folding PullBookings gives %v, ListBookings gives %v", desc, folded, want)
		}
		for _, b := range listedBookings {
			if !proto.Equal(view[b.Id], b) {
				t.Fatalf("%s: folded booking %q = %v, listed %v", desc, b.Id, view[b.Id], b)
			}
		}
		nt := ""
		if transitions > 0 {
			nt = desc
		}
		lib.Ev.Class("booking:period predicate")
		lib.Ev.Case(nt, func() any { return "booking " + desc })
	})
}

// pullBookingsStream is the server side of a PullBookings call: every change of every response is handed on.
type pullBookingsStream struct {
	grpc.ServerStream
	ctx context.Context
	out chan<- bookingpb.BookingChange
}

func (s *pullBookingsStream) Context() context.Context { return s.ctx }
func (s *pullBookingsStream) Send(r *traits.PullBookingsResponse) error {
	for _, c := range r.Changes {
		select {
		case s.out <- bookingpb.BookingChange{ChangeType: c.Type, OldValue: c.OldValue, NewValue: c.NewValue}:
		case <-s.ctx.Done():
			return s.ctx.Err()
		}
	}
	return nil
}

// rapidIntersect mirrors what the server's predicate calls.
func rapidIntersect(a, b *timepb.Period) bool { return periodsIntersect(a, b) }
