package c08

import (
	timepb "github.com/smart-core-os/sc-api/go/types/time"

	sctime "github.com/smart-core-os/sc-golang/pkg/time"
)

func periodsIntersect(a, b *timepb.Period) bool { return sctime.PeriodsIntersect(a, b) }
