package resource

// C09 (verif harness, overlaid at check time): drives mergeCollectionExcess directly. The script of send / receive
// actions is the schedule: while the harness is not receiving only the input case of the merge loop is ready, while it
// is receiving (and not sending) only the output case is.

import (
	"fmt"
	"os"
	"strings"
	"testing"
	"time"

	"google.golang.org/protobuf/proto"
	"google.golang.org/protobuf/types/known/wrapperspb"

	"github.com/smart-core-os/sc-api/go/types"

	"github.com/smart-core-os/sc-golang/verifh/lib"
)

func TestMain(m *testing.M) {
	if os.Getenv("VERIF_EVIDENCE_OUT") != "" || os.Getenv("VERIF_TIER") != "" {
		lib.Main(m)
		return
	}
	os.Exit(m.Run())
}

type c09Action struct {
	Recv bool
	ID   int // 0..2
	Kind int // 0 write (add or update depending on state), 1 remove
}

type c09Script struct {
	Present []bool // initial state of the subscriber's view per id (it holds value 0 for present ids)
	Actions []c09Action
}

func (s c09Script) String() string {
	var sb strings.Builder
	fmt.Fprintf(&sb, "present=%v [", s.Present)
	for _, a := range s.Actions {
		switch {
		case a.Recv:
			sb.WriteString(" recv")
		case a.Kind == 1:
			fmt.Fprintf(&sb, " remove(%d)", a.ID)
		default:
			fmt.Fprintf(&sb, " write(%d)", a.ID)
		}
	}
	sb.WriteString(" ]")
	return sb.String()
}

func c09val(n int64) proto.Message { return wrapperspb.Int64(n) }

type c09state struct {
	present bool
	val     int64
}

// runC09Script returns (non-trivial, error).
func runC09Script(s c09Script) (bool, error) {
	in := make(chan any)
	out := mergeCollectionExcess(in)
	defer close(in)
	nid := len(s.Present)
	store := make([]c09state, nid) // what the producer's collection holds
	view := make([]c09state, nid)  // what the consumer has folded so far
	for i, p := range s.Present {
		store[i] = c09state{present: p}
		view[i] = store[i]
	}
	// reference merge state per id: held (view) vs store, and whether a remove happened since the last delivery
	pendingRemove := make([]bool, nid)
	pendingCount := make([]int, nid)
	next := int64(1)
	merged, recvBetween := false, false
	sentAny := false
	id := func(i int) string { return fmt.Sprintf("id%d", i) }

	expected := func(i int) (kind types.ChangeType, oldV, newV proto.Message, pending bool) {
		h, f := view[i], store[i]
		if pendingCount[i] == 0 {
			return 0, nil, nil, false
		}
		switch {
		case !h.present && !f.present:
			return 0, nil, nil, false // add then remove cancel out
		case !h.present && f.present:
			return types.ChangeType_ADD, nil, c09val(f.val), true
		case h.present && !f.present:
			return types.ChangeType_REMOVE, c09val(h.val), nil, true
		case pendingRemove[i]:
			return types.ChangeType_REPLACE, c09val(h.val), c09val(f.val), true
		default:
			return types.ChangeType_UPDATE, c09val(h.val), c09val(f.val), true
		}
	}
	anyPending := func() bool {
		for i := 0; i < nid; i++ {
			if _, _, _, p := expected(i); p {
				return true
			}
		}
		return false
	}
	recv := func(step int) error {
		var got *CollectionChange
		select {
		case e, ok := <-out:
			if !ok {
				return fmt.Errorf("step %d: output closed", step)
			}
			got = e.(*CollectionChange)
		case <-time.After(5 * time.Second):
			return fmt.Errorf("step %d: a change is pending but nothing was delivered within 5s", step)
		}
		var i int
		if _, err := fmt.Sscanf(got.Id, "id%d", &i); err != nil || i < 0 || i >= nid {
			return fmt.Errorf("step %d: delivered change for unknown id %q", step, got.Id)
		}
		kind, oldV, newV, pending := expected(i)
		if !pending {
			return fmt.Errorf("step %d: delivered %v for %s although nothing is pending for it (sent changes cancel out or were already delivered)", step, got.ChangeType, got.Id)
		}
		if got.ChangeType != kind || !proto.Equal(got.OldValue, oldV) || !proto.Equal(got.NewValue, newV) ||
			(got.OldValue == nil) != (oldV == nil) || (got.NewValue == nil) != (newV == nil) {
			return fmt.Errorf("step %d: delivered {%s %v old=%v new=%v}, the merged change should be {%v old=%v new=%v}", step, got.Id, got.ChangeType, got.OldValue, got.NewValue, kind, oldV, newV)
		}
		if pendingCount[i] >= 2 {
			merged = true
		}
		view[i] = store[i]
		pendingCount[i], pendingRemove[i] = 0, false
		return nil
	}

	for step, a := range s.Actions {
		if a.Recv {
			if !anyPending() {
				continue // nothing to receive according to the reference: a receive would block
			}
			if err := recv(step); err != nil {
				return false, err
			}
			if sentAny {
				recvBetween = true
			}
			continue
		}
		i := a.ID
		var ev *CollectionChange
		switch {
		case a.Kind == 1 && store[i].present:
			ev = &CollectionChange{Id: id(i), ChangeType: types.ChangeType_REMOVE, OldValue: c09val(store[i].val)}
			store[i] = c09state{}
			pendingRemove[i] = true
		case a.Kind == 1:
			continue // removing an absent item emits nothing
		case store[i].present:
			ev = &CollectionChange{Id: id(i), ChangeType: types.ChangeType_UPDATE, OldValue: c09val(store[i].val), NewValue: c09val(next)}
			store[i] = c09state{present: true, val: next}
			next++
		default:
			ev = &CollectionChange{Id: id(i), ChangeType: types.ChangeType_ADD, NewValue: c09val(next)}
			store[i] = c09state{present: true, val: next}
			next++
		}
		pendingCount[i]++
		sentAny = true
		select {
		case in <- ev:
		case <-time.After(5 * time.Second):
			return false, fmt.Errorf("step %d: the merge stage did not accept a change within 5s (a slow reader must never block the writer)", step)
		}
	}
	// drain
	for k := 0; anyPending(); k++ {
		if k > nid {
			return false, fmt.Errorf("drain: still pending after %d receives", k)
		}
		if err := recv(len(s.Actions) + k); err != nil {
			return false, err
		}
	}
	// nothing else may come out
	select {
	case e, ok := <-out:
		if ok {
			c := e.(*CollectionChange)
			return false, fmt.Errorf("after draining, an extra change {%s %v old=%v new=%v} was delivered", c.Id, c.ChangeType, c.OldValue, c.NewValue)
		}
	case <-time.After(300 * time.Microsecond):
	}
	for i := range view {
		if view[i] != store[i] {
			return false, fmt.Errorf("folded view of id%d is %+v, store has %+v", i, view[i], store[i])
		}
	}
	return merged && recvBetween, nil
}

// TestVerifC09MergeExhaustive enumerates every script over a small alphabet up to a length bound.
func TestVerifC09MergeExhaustive(t *testing.T) {
	maxLen := lib.Scale(7, 9)
	shard, nshards := lib.Shard()
	done := false
	n := 0
	lib.Enumerate(t, "TestVerifC09MergeExhaustive", func(yield func(c09Script) bool) {
		for _, nid := range []int{1, 2} {
			var alphabet []c09Action
			alphabet = append(alphabet, c09Action{Recv: true})
			for i := 0; i < nid; i++ {
				alphabet = append(alphabet, c09Action{ID: i, Kind: 0}, c09Action{ID: i, Kind: 1})
			}
			for pres := 0; pres < 1<<nid; pres++ {
				present := make([]bool, nid)
				for i := range present {
					present[i] = pres&(1<<i) != 0
				}
				ml := maxLen
				if nid == 2 {
					ml = maxLen - 1
				}
				var rec func(prefix []c09Action) bool
				rec = func(prefix []c09Action) bool {
					if len(prefix) == ml {
						n++
						if n%nshards != shard {
							return true
						}
						return yield(c09Script{Present: present, Actions: append([]c09Action(nil), prefix...)})
					}
					for _, a := range alphabet {
						if !rec(append(prefix, a)) {
							return false
						}
					}
					return true
				}
				if !rec(nil) {
					return
				}
			}
		}
		done = true
	}, func(s c09Script) error {
		nt, err := runC09Script(s)
		key := ""
		if nt {
			key = s.String()
		}
		lib.Ev.Case(key, func() any { return "merge script " + s.String() })
		return err
	})
	lib.Ev.Exhaustive(fmt.Sprintf("mergeCollectionExcess scripts of length %d (1 id) / %d (2 ids) over {recv, write(id), remove(id)} x initial presence", maxLen, maxLen-1), done)
}
