package c11

import (
	"context"
	"fmt"
	"google.golang.org/grpc/codes"
	"google.golang.org/grpc/status"
	"io"
	"os"
	"runtime"
	"strings"
	"sync"
	"testing"
	"time"

	"google.golang.org/grpc"
	"google.golang.org/grpc/metadata"
	"google.golang.org/protobuf/encoding/prototext"
	"google.golang.org/protobuf/proto"
	"pgregory.net/rapid"

	"github.com/smart-core-os/sc-api/go/traits"

	"github.com/smart-core-os/sc-golang/internal/minibus"
	"github.com/smart-core-os/sc-golang/internal/testproto"
	"github.com/smart-core-os/sc-golang/pkg/group"
	"github.com/smart-core-os/sc-golang/pkg/resource"
	"github.com/smart-core-os/sc-golang/pkg/router"
	"github.com/smart-core-os/sc-golang/pkg/trait"
	"github.com/smart-core-os/sc-golang/pkg/trait/electricpb"
	"github.com/smart-core-os/sc-golang/pkg/trait/hailpb"
	"github.com/smart-core-os/sc-golang/pkg/trait/metadatapb"
	"github.com/smart-core-os/sc-golang/pkg/trait/modepb"
	"github.com/smart-core-os/sc-golang/pkg/trait/onoffpb"
	"github.com/smart-core-os/sc-golang/pkg/trait/openclosepb"
	"github.com/smart-core-os/sc-golang/pkg/trait/parentpb"
	"github.com/smart-core-os/sc-golang/pkg/trait/publicationpb"
	"github.com/smart-core-os/sc-golang/pkg/trait/vendingpb"
	"github.com/smart-core-os/sc-golang/pkg/wrap"
	"github.com/smart-core-os/sc-golang/verifh/lib"
)

// touch reads every field of a message (so a late write to it by the library is a detectable race).
func touch(m proto.Message) {
	if m == nil || !m.ProtoReflect().IsValid() {
		return
	}
	_ = proto.Size(m)
	_ = prototext.Format(m)
}

func fm(c int32) *testproto.ForeignMessage { return &testproto.ForeignMessage{C: c, D: c} }

// logWorkload appends the workload description to a file before it runs (a race report kills nothing, but a crash on
// a library goroutine would).
func logWorkload(desc string) {
	if dir := os.Getenv("VERIF_WORK"); dir != "" {
		if f, err := os.OpenFile(dir+"/current-workload.txt", os.O_CREATE|os.O_WRONLY|os.O_TRUNC, 0o644); err == nil {
			_, _ = io.WriteString(f, desc+"\n")
			f.Close()
		}
	}
}

type op func(g, i int)

// run starts n goroutines each performing k ops drawn from ops (indices pre-drawn so the workload is reproducible).
func run(t *rapid.T, name string, n, k int, ops []op) string {
	plan := make([][]int, n)
	for g := range plan {
		plan[g] = rapid.SliceOfN(rapid.IntRange(0, len(ops)-1), k, k).Draw(t, fmt.Sprintf("g%d", g))
	}
	desc := fmt.Sprintf("%s goroutines=%d plan=%v", name, n, plan)
	logWorkload(desc)
	var wg sync.WaitGroup
	start := make(chan struct{})
	for g := range plan {
		g := g
		wg.Add(1)
		go func() {
			defer wg.Done()
			<-start
			for i, o := range plan[g] {
				func() {
					// a model may refuse to go on under contention (parent's AddChildTrait panics on Aborted): that is not a
					// data race, only the detector's reports are judged here
					defer func() {
						if r := recover(); r != nil {
							lib.Ev.Class("op panicked under contention (not judged)")
						}
					}()
					ops[o](g, i)
				}()
			}
		}()
	}
	close(start)
	wg.Wait()
	return desc
}

func drain[T any](ctx context.Context, ch <-chan T, see func(T)) {
	go func() {
		for e := range ch {
			see(e)
		}
	}()
}

func record(name string, desc string) {
	lib.Ev.Class("target:" + name)
	lib.Ev.Case(desc, func() any { return desc })
}

func TestRaceValue(t *testing.T) {
	rapid.Check(t, func(t *rapid.T) {
		v := resource.NewValue(resource.WithInitialValue(fm(0)), resource.WithNoDuplicates())
		ctx, cancel := context.WithCancel(context.Background())
		defer cancel()
		var cancels sync.Map
		ops := []op{
			func(g, i int) { _, _ = v.Set(fm(int32(g*100 + i))) },
			func(g, i int) {
				_, _ = v.Set(fm(1), resource.InterceptBefore(func(old, change proto.Message) {
					touch(old)
					change.(*testproto.ForeignMessage).C += old.(*testproto.ForeignMessage).C
				}), resource.InterceptAfter(func(old, new proto.Message) { touch(old); touch(new) }))
			},
			func(g, i int) { touch(v.Get()) },
			func(g, i int) { touch(v.Get(resource.WithReadPaths(&testproto.ForeignMessage{}, "c"))) },
			func(g, i int) {
				cur := v.Get()
				_, _ = v.Set(fm(int32(i)), resource.WithExpectedValue(cur), resource.WithUpdatePaths("c"))
			},
			func(g, i int) {
				sctx, c := context.WithCancel(ctx)
				cancels.Store(fmt.Sprint(g, i), c)
				drain(sctx, v.Pull(sctx, resource.WithBackpressure(i%2 == 0)), func(e *resource.ValueChange) { touch(e.Value) })
			},
			func(g, i int) {
				cancels.Range(func(k, c any) bool { c.(context.CancelFunc)(); cancels.Delete(k); return false })
			},
		}
		desc := run(t, "Value", rapid.IntRange(4, 12).Draw(t, "n"), rapid.IntRange(5, 25).Draw(t, "k"), ops)
		record("Value", desc)
	})
}

func TestRaceCollection(t *testing.T) {
	rapid.Check(t, func(t *rapid.T) {
		c := resource.NewCollection(resource.WithInitialRecord("a", fm(0)))
		// a second collection of the same process (models hold several; devices hold several models): nothing is shared
		// between two collections
		c2 := resource.NewCollection()
		ctx, cancel := context.WithCancel(context.Background())
		defer cancel()
		ids := []string{"a", "b", "c"}
		var cancels sync.Map
		ops := []op{
			func(g, i int) { _, _ = c.Update(ids[i%3], fm(int32(g*100+i)), resource.WithCreateIfAbsent()) },
			func(g, i int) {
				_, _ = c.Add("", fm(int32(i)), resource.WithGenIDIfAbsent(), resource.WithIDCallback(func(id string) { _ = len(id) }), resource.WithCreatedCallback(func() {}))
			},
			func(g, i int) {
				// an item whose change time is the zero time (the writer said so): reads stay reads
				_, _ = c.Update(ids[i%3], fm(int32(i)), resource.WithCreateIfAbsent(), resource.WithWriteTime(time.Time{}))
				for _, m := range c.List() {
					touch(m)
				}
			},
			func(g, i int) {
				// a write that is rejected after its id was generated: an update of "whatever id you come up with" without
				// create-if-absent (documented to fail), and a create whose precondition fails
				_, _ = c.Update("", fm(int32(i)), resource.WithGenIDIfAbsent())
				_, _ = c.Update("", fm(int32(i)), resource.WithGenIDIfAbsent(), resource.WithCreateIfAbsent(), resource.WithExpectedCheck(func(proto.Message) error {
					return status.Error(codes.FailedPrecondition, "not today")
				}))
			},
			func(g, i int) {
				_, _ = c2.Add("", fm(int32(i)), resource.WithGenIDIfAbsent())
				if i%4 == 0 {
					for _, m := range c2.List() {
						touch(m)
					}
				}
			},
			func(g, i int) { _, _ = c.Delete(ids[i%3], resource.WithAllowMissing(true)) },
			func(g, i int) {
				// a conditional delete: the callback and the comparison read the stored message, and so does the caller
				// with what Delete returns
				old, _ := c.Delete(ids[i%3], resource.WithAllowMissing(true), resource.WithExpectedCheck(func(m proto.Message) error {
					touch(m)
					runtime.Gosched()
					touch(m)
					if i%2 == 0 {
						return status.Error(codes.FailedPrecondition, "not now")
					}
					return nil
				}))
				touch(old)
			},
			func(g, i int) {
				if cur, ok := c.Get(ids[i%3]); ok {
					old, _ := c.Delete(ids[i%3], resource.WithExpectedValue(cur))
					touch(old)
				}
			},
			func(g, i int) {
				if cur, ok := c.Get(ids[i%3]); ok {
					_, _ = c.Update(ids[i%3], fm(int32(i)), resource.WithExpectedValue(cur), resource.WithUpdatePaths("c"))
				}
			},
			func(g, i int) {
				_, _ = c.Update(ids[i%3], fm(1), resource.InterceptBefore(func(old, change proto.Message) {
					touch(old)
					change.(*testproto.ForeignMessage).C += old.(*testproto.ForeignMessage).C
				}))
			},
			func(g, i int) {
				if m, ok := c.Get(ids[i%3]); ok {
					touch(m)
				}
			},
			func(g, i int) {
				for _, m := range c.List(resource.WithInclude(func(id string, m proto.Message) bool { touch(m); return true })) {
					touch(m)
				}
			},
			func(g, i int) {
				sctx, cn := context.WithCancel(ctx)
				cancels.Store(fmt.Sprint(g, i), cn)
				drain(sctx, c.Pull(sctx, resource.WithBackpressure(i%2 == 0)), func(e *resource.CollectionChange) {
					_ = e.ChangeType.String() + e.Id
					_ = e.SeedValue || e.LastSeedValue
					touch(e.OldValue)
					touch(e.NewValue)
				})
			},
			func(g, i int) {
				sctx, cn := context.WithCancel(ctx)
				cancels.Store(fmt.Sprint("id", g, i), cn)
				drain(sctx, c.PullID(sctx, ids[i%3]), func(e *resource.ValueChange) { touch(e.Value) })
			},
			func(g, i int) {
				// a filtered (and sometimes masked) view next to the plain ones: updates flip the predicate's verdict all the
				// time, and every subscriber reads every field of what it receives
				sctx, cn := context.WithCancel(ctx)
				cancels.Store(fmt.Sprint("inc", g, i), cn)
				opts := []resource.ReadOption{resource.WithBackpressure(i%3 != 0), resource.WithInclude(func(id string, m proto.Message) bool {
					touch(m)
					return m != nil && m.(*testproto.ForeignMessage).C%2 == 0
				})}
				if i%2 == 0 {
					opts = append(opts, resource.WithReadPaths(&testproto.ForeignMessage{}, "c"))
				}
				drain(sctx, c.Pull(sctx, opts...), func(e *resource.CollectionChange) {
					_ = e.ChangeType.String() + e.Id
					_ = e.SeedValue || e.LastSeedValue
					touch(e.OldValue)
					touch(e.NewValue)
				})
			},
			func(g, i int) {
				cancels.Range(func(k, cn any) bool { cn.(context.CancelFunc)(); cancels.Delete(k); return false })
			},
		}
		desc := run(t, "Collection", rapid.IntRange(4, 12).Draw(t, "n"), rapid.IntRange(5, 25).Draw(t, "k"), ops)
		record("Collection", desc)
	})
}

func TestRaceBus(t *testing.T) {
	rapid.Check(t, func(t *rapid.T) {
		var bus minibus.Bus
		ctx, cancel := context.WithCancel(context.Background())
		defer cancel()
		var cancels sync.Map
		ops := []op{
			func(g, i int) {
				sctx, c := context.WithTimeout(ctx, 50*time.Millisecond)
				bus.Send(sctx, fm(int32(i)))
				c()
			},
			func(g, i int) {
				sctx, c := context.WithCancel(ctx)
				cancels.Store(fmt.Sprint(g, i), c)
				ch := bus.Listen(sctx)
				if i%2 == 0 {
					ch = minibus.DropExcess(ch)
				}
				drain(sctx, ch, func(e any) { touch(e.(proto.Message)) })
			},
			func(g, i int) {
				cancels.Range(func(k, c any) bool { c.(context.CancelFunc)(); cancels.Delete(k); return false })
			},
		}
		desc := run(t, "Bus", rapid.IntRange(4, 12).Draw(t, "n"), rapid.IntRange(5, 25).Draw(t, "k"), ops)
		record("Bus", desc)
	})
}

func TestRaceRouterAndWrap(t *testing.T) {
	rapid.Check(t, func(t *rapid.T) {
		mk := func() traits.OnOffApiClient {
			return onoffpb.WrapApi(onoffpb.NewModelServer(onoffpb.NewModel()))
		}
		r := onoffpb.NewApiRouter(onoffpb.WithOnOffApiClientFactory(func(name string) (traits.OnOffApiClient, error) { return mk(), nil }),
			router.WithOnChange(func(c router.Change) { _ = c.Name }))
		client := onoffpb.WrapApi(r)
		ctx, cancel := context.WithCancel(context.Background())
		defer cancel()
		names := []string{"a", "b", "c"}
		ops := []op{
			func(g, i int) { r.Add(names[i%3], mk()) },
			func(g, i int) { r.Remove(names[i%3]) },
			func(g, i int) { _ = r.Has(names[i%3]) },
			func(g, i int) {
				res, err := client.UpdateOnOff(ctx, &traits.UpdateOnOffRequest{Name: names[i%3], OnOff: &traits.OnOff{State: traits.OnOff_State(1 + i%2)}})
				if err == nil {
					touch(res)
				}
			},
			func(g, i int) {
				res, err := client.GetOnOff(ctx, &traits.GetOnOffRequest{Name: names[i%3]})
				if err == nil {
					touch(res)
				}
			},
			func(g, i int) {
				sctx, c := context.WithTimeout(ctx, 2*time.Millisecond)
				defer c()
				st, err := client.PullOnOff(sctx, &traits.PullOnOffRequest{Name: names[i%3]})
				if err != nil {
					return
				}
				for {
					m, err := st.Recv()
					if err != nil {
						return
					}
					touch(m)
				}
			},
		}
		desc := run(t, "Router+Wrap(OnOff)", rapid.IntRange(4, 10).Draw(t, "n"), rapid.IntRange(5, 15).Draw(t, "k"), ops)
		record("Router+Wrap", desc)
	})
}

type echoServer struct {
	testproto.UnimplementedTestApiServer
}

func (echoServer) Unary(ctx context.Context, r *testproto.UnaryRequest) (*testproto.UnaryResponse, error) {
	if r.Msg == "late" {
		for k := 0; k < 50; k++ {
			runtime.Gosched()
		}
		_ = grpc.SetHeader(ctx, metadata.Pairs("h", "late"))
		_ = grpc.SetTrailer(ctx, metadata.Pairs("t", "late"))
		return &testproto.UnaryResponse{Msg: r.Msg}, nil
	}
	_ = grpc.SetHeader(ctx, nil)
	return &testproto.UnaryResponse{Msg: r.Msg}, nil
}
func (echoServer) ServerStream(r *testproto.ServerStreamRequest, ss grpc.ServerStreamingServer[testproto.ServerStreamResponse]) error {
	if r.NumRes == 99 {
		// a handler that takes a moment before it sets its headers and does not watch its context
		for k := 0; k < 50; k++ {
			runtime.Gosched()
		}
		_ = ss.SetHeader(metadata.Pairs("h", "late"))
		_ = grpc.SetHeader(ss.Context(), metadata.Pairs("h2", "late"))
		return nil
	}
	_ = ss.SetHeader(metadata.Pairs("h", "1"))
	for i := int32(0); i < r.NumRes; i++ {
		ss.SetTrailer(metadata.Pairs("t", fmt.Sprint(i)))
		if err := ss.Send(&testproto.ServerStreamResponse{Counter: i}); err != nil {
			// a handler may well record why it stopped (the client went away)
			ss.SetTrailer(metadata.Pairs("stopped", err.Error()))
			return err
		}
	}
	ss.SetTrailer(metadata.Pairs("done", "1"))
	return nil
}
func (echoServer) ClientStream(ss grpc.ClientStreamingServer[testproto.ClientStreamRequest, testproto.ClientStreamResponse]) error {
	n := 0
	for {
		_, err := ss.Recv()
		if err != nil {
			break
		}
		n++
	}
	return ss.SendAndClose(&testproto.ClientStreamResponse{Msg: fmt.Sprint(n)})
}
func (echoServer) BidiStream(ss grpc.BidiStreamingServer[testproto.BidiStreamRequest, testproto.BidiStreamResponse]) error {
	for {
		m, err := ss.Recv()
		if err != nil {
			return nil
		}
		ss.SetTrailer(metadata.Pairs("last", m.Msg))
		if err := ss.Send(&testproto.BidiStreamResponse{Msg: m.Msg}); err != nil {
			ss.SetTrailer(metadata.Pairs("stopped", err.Error()))
			return err
		}
	}
}

func TestRaceWrappedClient(t *testing.T) {
	rapid.Check(t, func(t *rapid.T) {
		client := testproto.NewTestApiClient(wrap.ServerToClient(testproto.TestApi_ServiceDesc, echoServer{}))
		ctx := context.Background()
		ops := []op{
			func(g, i int) {
				if r, err := client.Unary(ctx, &testproto.UnaryRequest{Msg: "x"}); err == nil {
					touch(r)
				}
			},
			func(g, i int) {
				sctx, c := context.WithCancel(ctx)
				defer c()
				st, err := client.ServerStream(sctx, &testproto.ServerStreamRequest{NumRes: 3})
				if err != nil {
					return
				}
				for k := 0; ; k++ {
					m, err := st.Recv()
					if err != nil {
						// once Recv has failed (end of stream, or our own cancel) header and trailer may be read
						if h, _ := st.Header(); h != nil {
							_ = len(h.Get("h"))
						}
						_ = len(st.Trailer().Get("t"))
						return
					}
					touch(m)
					if i%3 == 0 && k == 1 {
						c() // cancel mid stream
					}
				}
			},
			func(g, i int) {
				// the caller gives up before the handler has sent (or even set) its headers, then asks for them
				sctx, c := context.WithCancel(ctx)
				st, err := client.ServerStream(sctx, &testproto.ServerStreamRequest{NumRes: 99})
				c()
				if err != nil {
					return
				}
				if h, _ := st.Header(); h != nil {
					_ = len(h.Get("h"))
				}
				_ = len(st.Trailer())
			},
			func(g, i int) {
				// the same through a unary call that collects header and trailer
				sctx, c := context.WithTimeout(ctx, time.Duration(i%3)*50*time.Microsecond)
				defer c()
				var h, tr metadata.MD
				if r, err := client.Unary(sctx, &testproto.UnaryRequest{Msg: "late"}, grpc.Header(&h), grpc.Trailer(&tr)); err == nil {
					touch(r)
				}
				_ = len(h.Get("h")) + len(tr)
			},
			func(g, i int) {
				st, err := client.ClientStream(ctx)
				if err != nil {
					return
				}
				for k := 0; k < 3; k++ {
					_ = st.Send(&testproto.ClientStreamRequest{Msg: "m"})
				}
				if r, err := st.CloseAndRecv(); err == nil {
					touch(r)
				}
			},
			func(g, i int) {
				sctx, c := context.WithCancel(ctx)
				defer c()
				st, err := client.BidiStream(sctx)
				if err != nil {
					return
				}
				for k := 0; k < 3; k++ {
					if st.Send(&testproto.BidiStreamRequest{Msg: "m"}) != nil {
						return
					}
					if m, err := st.Recv(); err == nil {
						touch(m)
					}
				}
				if i%2 == 0 {
					_ = st.CloseSend()
					_, _ = st.Recv()
				} else {
					c()
					if _, err := st.Recv(); err != nil {
						_ = len(st.Trailer().Get("last"))
					}
				}
			},
		}
		desc := run(t, "WrappedClient(TestApi)", rapid.IntRange(4, 10).Draw(t, "n"), rapid.IntRange(5, 15).Draw(t, "k"), ops)
		record("WrappedClient", desc)
	})
}

func TestRaceGroup(t *testing.T) {
	rapid.Check(t, func(t *rapid.T) {
		members := func(n int) []group.Member {
			ms := make([]group.Member, n)
			for j := range ms {
				j := j
				ms[j] = func(ctx context.Context) (proto.Message, error) {
					if j%3 == 2 {
						return nil, fmt.Errorf("member %d failed", j)
					}
					return fm(int32(j)), nil
				}
			}
			return ms
		}
		ops := []op{}
		for s := group.ExecutionStrategyUnspecified; s <= group.ExecutionStrategyRace; s++ {
			s := s
			ops = append(ops, func(g, i int) {
				res, _ := group.Execute(context.Background(), s, members(1+i%5))
				for _, m := range res {
					touch(m)
				}
			})
		}
		desc := run(t, "group.Execute", rapid.IntRange(4, 10).Draw(t, "n"), rapid.IntRange(5, 15).Draw(t, "k"), ops)
		record("Group", desc)
	})
}

func TestRaceModels(t *testing.T) {
	rapid.Check(t, func(t *rapid.T) {
		ctx, cancel := context.WithCancel(context.Background())
		defer cancel()
		em := electricpb.NewModel()
		es := electricpb.NewModelServer(em)
		pm := parentpb.NewModel()
		mm := metadatapb.NewModel()
		vm := vendingpb.NewModel()
		// hails that arrived are collected by a pass inside CreateHail once per keep-alive period: make that period short
		// enough to matter in some of the workloads
		var hailOpts []resource.Option
		if ka := rapid.SampledFrom([]int{-1, 0, 1, 50, 30000000}).Draw(t, "hailKeepAliveMicros"); ka != 30000000 {
			hailOpts = append(hailOpts, hailpb.WithKeepAlive(time.Duration(ka)*time.Microsecond))
		}
		hm := hailpb.NewModel(hailOpts...)
		mdm := modepb.NewModel()
		mds := modepb.NewModelServer(mdm)
		drain(ctx, mdm.PullModeValues(ctx), func(e modepb.ModeValuesChange) { touch(e.Value) })
		pub := publicationpb.NewModel()
		_, _ = vm.CreateStock(&traits.Consumable_Stock{Consumable: "cola", Used: &traits.Consumable_Quantity{Unit: traits.Consumable_LITER}, Remaining: &traits.Consumable_Quantity{Amount: 100, Unit: traits.Consumable_LITER}})
		_, _ = pub.CreatePublication(&traits.Publication{Id: "p", Body: []byte("b")})
		var modeIDs sync.Map
		drain(ctx, em.PullModes(ctx), func(e electricpb.PullModesChange) { touch(e.NewValue); touch(e.OldValue) })
		drain(ctx, em.PullActiveMode(ctx), func(e electricpb.PullActiveModeChange) { touch(e.ActiveMode) })
		drain(ctx, pm.PullChildren(ctx), func(e *traits.PullChildrenResponse_Change) { touch(e) })
		drain(ctx, mm.PullMetadata(ctx), func(e *traits.PullMetadataResponse_Change) { touch(e) })
		drain(ctx, vm.PullInventory(ctx), func(e vendingpb.InventoryChange) { touch(e.NewValue); touch(e.OldValue) })
		drain(ctx, hm.PullHails(ctx), func(e hailpb.HailsChange) { touch(e.NewValue); touch(e.OldValue) })
		drain(ctx, pub.PullPublications(ctx), func(e publicationpb.PublicationsChange) { touch(e.NewValue); touch(e.OldValue) })
		traitNames := []trait.Name{trait.Light, trait.OnOff, trait.Electric, trait.FanSpeed}
		// one option list, prepared once with room to spare, handed to the write calls of every goroutine: a callee that
		// adds its own options must not do so in the caller's array
		shared := append(make([]resource.WriteOption, 0, 4), resource.InterceptAfter(func(old, new proto.Message) { touch(old) }))
		ocm := openclosepb.NewModel()
		drain(ctx, ocm.PullPositions(ctx), func(e openclosepb.PullOpenClosePositionsChange) { touch(e.Positions) })
		ops := []op{
			func(g, i int) {
				// a new device appears while the others are in use: models of one type share nothing but their defaults
				switch i % 6 {
				case 0:
					touch(modepb.NewModel().ModeValues())
				case 1:
					_ = hailpb.NewModel(hailOpts...).ListHails()
				case 2:
					_ = electricpb.NewModel().Modes()
				case 3:
					_ = vendingpb.NewModel().ListInventory()
				case 4:
					r, _ := metadatapb.NewModel().GetMetadata()
					touch(r)
				default:
					_ = parentpb.NewModel().ListChildren()
				}
			},
			func(g, i int) {
				touch(mdm.Modes())
				for _, v := range mdm.AvailableValues([]string{"temperature", "spin", "nope"}[i%3]) {
					touch(v)
				}
				touch(mdm.ModeValues())
			},
			func(g, i int) {
				r, _ := mds.UpdateModeValues(ctx, &traits.UpdateModeValuesRequest{Name: "n", Relative: &traits.ModeValuesRelative{Values: map[string]int32{"temperature": int32(i%3 - 1), "spin": 1}}})
				touch(r)
			},
			func(g, i int) {
				r, _ := mdm.UpdateModeValues(&traits.ModeValues{Values: map[string]string{"spin": []string{"auto", "slow", "fast"}[i%3]}}, shared...)
				touch(r)
			},
			func(g, i int) {
				dir := []traits.OpenClosePosition_Direction{traits.OpenClosePosition_UP, traits.OpenClosePosition_DOWN, traits.OpenClosePosition_LEFT}[g%3]
				r, _ := ocm.UpdatePosition(&traits.OpenClosePosition{Direction: dir, OpenPercent: float32(i)}, shared...)
				touch(r)
			},
			func(g, i int) {
				r, _ := ocm.UpdatePositions(&traits.OpenClosePositions{States: []*traits.OpenClosePosition{{Direction: traits.OpenClosePosition_UP, OpenPercent: float32(i)}, {Direction: traits.OpenClosePosition_IN, OpenPercent: 1}}}, shared...)
				touch(r)
			},
			func(g, i int) { r, _ := ocm.GetPositions(); touch(r) },
			func(g, i int) {
				if m, err := em.CreateMode(&traits.ElectricMode{Title: "m", Normal: i%4 == 0}); err == nil {
					modeIDs.Store(m.Id, true)
					touch(m)
				}
			},
			func(g, i int) {
				modeIDs.Range(func(k, _ any) bool {
					switch i % 4 {
					case 0:
						_, _ = em.ChangeActiveMode(k.(string))
					case 1:
						_ = em.DeleteMode(k.(string))
					case 2:
						_, _ = em.UpdateMode(&traits.ElectricMode{Id: k.(string), Title: "u"}, shared...)
					default:
						_, _ = es.ClearActiveMode(ctx, &traits.ClearActiveModeRequest{})
					}
					return false
				})
			},
			func(g, i int) {
				for _, m := range em.Modes() {
					touch(m)
				}
				touch(em.ActiveMode())
				if r, err := es.ListModes(ctx, &traits.ListModesRequest{}); err == nil {
					touch(r)
				}
			},
			func(g, i int) { c, _ := pm.AddChildTrait("c1", traitNames[i%4], traitNames[(i+1)%4]); touch(c) },
			func(g, i int) { touch(pm.RemoveChildTrait("c1", traitNames[i%4])) },
			func(g, i int) {
				for _, c := range pm.ListChildren() {
					touch(c)
				}
			},
			func(g, i int) {
				r, _ := mm.MergeMetadata(&traits.Metadata{Name: fmt.Sprint("n", i), Traits: []*traits.TraitMetadata{{Name: string(traitNames[i%4]), More: map[string]string{"k": fmt.Sprint(i)}}}}, shared...)
				touch(r)
			},
			func(g, i int) { r, _ := mm.GetMetadata(); touch(r) },
			func(g, i int) {
				// a whole-value update may store the traits in any order ...
				r, _ := mm.UpdateMetadata(&traits.Metadata{Name: "u", Traits: []*traits.TraitMetadata{{Name: string(traitNames[(i+2)%4])}, {Name: string(traitNames[i%4])}, {Name: string(traitNames[(i+1)%4])}}})
				touch(r)
			},
			func(g, i int) {
				// ... and a merge that names no trait at all (a rename) leaves them to the model
				r, _ := mm.MergeMetadata(&traits.Metadata{Name: fmt.Sprint("renamed", i)})
				touch(r)
			},
			func(g, i int) {
				r, _ := mm.GetMetadata(resource.WithReadPaths(&traits.Metadata{}, "traits", "name"))
				touch(r)
			},
			func(g, i int) {
				r, _ := vm.DispenseInstantly("cola", &traits.Consumable_Quantity{Amount: 1, Unit: traits.Consumable_LITER})
				touch(r)
			},
			func(g, i int) {
				for _, s := range vm.ListInventory() {
					touch(s)
				}
			},
			func(g, i int) { h, _ := hm.CreateHail(&traits.Hail{State: traits.Hail_CALLED}); touch(h) },
			func(g, i int) {
				for _, h := range hm.ListHails() {
					touch(h)
					if i%2 == 0 {
						_, _ = hm.DeleteHail(h.Id, resource.WithAllowMissing(true))
						break
					}
				}
			},
			func(g, i int) {
				r, _ := pub.UpdatePublication("p", &traits.Publication{Id: "p", Body: []byte(fmt.Sprint(i))}, append(shared[:1:1], publicationpb.WithNewVersion())...)
				touch(r)
			},
			func(g, i int) {
				for _, p := range pub.ListPublications() {
					touch(p)
				}
			},
		}
		desc := run(t, "Models(mode,openclose,electric,parent,metadata,vending,hail,publication)", rapid.IntRange(4, 16).Draw(t, "n"), rapid.IntRange(5, 30).Draw(t, "k"), ops)
		record("Models", desc)
	})
}

var _ = strings.Join
