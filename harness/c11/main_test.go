package c11

import (
	"testing"

	"github.com/smart-core-os/sc-golang/verifh/lib"
)

func TestMain(m *testing.M) { lib.Main(m) }
