package c11

import (
	"context"
	"fmt"
	"sync"
	"testing"
	"time"

	"google.golang.org/protobuf/proto"
	"pgregory.net/rapid"

	"github.com/smart-core-os/sc-api/go/traits"

	"github.com/smart-core-os/sc-golang/internal/testproto"
	"github.com/smart-core-os/sc-golang/pkg/resource"
	"github.com/smart-core-os/sc-golang/pkg/trait/metadatapb"
	"github.com/smart-core-os/sc-golang/verifh/lib"
)

// TestRaceSlowCallbacks: the quick workloads never spend long inside a call. Here single calls take longer than the
// library's own time thresholds (its slow-write diagnostics at about a second; its send timeout at five seconds is
// left to the thorough tier): a caller-supplied expected-check or interceptor that takes 1.1-1.6 s and reads / edits the
// messages it is given before and after the pause, and a backpressured consumer that takes that long to come back for
// the next event. Whatever the library starts once a threshold has passed (timers, reporting, give-up paths) runs next
// to the caller's callbacks and must not touch the messages they are entitled to use. All scenarios of a case run at
// once, so a case costs one pause.
func TestRaceSlowCallbacks(t *testing.T) {
	rapid.Check(t, func(t *rapid.T) {
		pause := time.Duration(rapid.IntRange(1100, 1600).Draw(t, "pauseMs")) * time.Millisecond
		if rapid.IntRange(0, 9).Draw(t, "overSendTimeout") == 0 && longPausesAllowed() {
			pause = 5300 * time.Millisecond
		}
		where := rapid.SampledFrom([]string{"check", "before", "after", "before+after"}).Draw(t, "where")
		ctx, cancel := context.WithCancel(context.Background())
		defer cancel()
		var wg sync.WaitGroup
		scenario := func(f func()) {
			wg.Add(1)
			go func() { defer wg.Done(); f() }()
		}
		slowOpts := func() []resource.WriteOption {
			var opts []resource.WriteOption
			if where == "check" {
				opts = append(opts, resource.WithExpectedCheck(func(old proto.Message) error {
					touch(old)
					time.Sleep(pause)
					touch(old)
					return nil
				}))
				// and the documented delta style interceptor next to it
				opts = append(opts, resource.InterceptBefore(func(old, change proto.Message) {
					if o, ok := old.(*testproto.ForeignMessage); ok && o != nil {
						change.(*testproto.ForeignMessage).C += o.C
					}
				}))
			}
			if where == "before" || where == "before+after" {
				opts = append(opts, resource.InterceptBefore(func(old, change proto.Message) {
					touch(old)
					if c, ok := change.(*testproto.ForeignMessage); ok {
						c.C++
					}
					time.Sleep(pause)
					if c, ok := change.(*testproto.ForeignMessage); ok {
						c.D++
					}
					touch(change)
				}))
			}
			if where == "after" || where == "before+after" {
				opts = append(opts, resource.InterceptAfter(func(old, new proto.Message) {
					touch(old)
					if c, ok := new.(*testproto.ForeignMessage); ok {
						c.C++
					}
					time.Sleep(pause)
					if c, ok := new.(*testproto.ForeignMessage); ok {
						c.D++
					}
					touch(new)
				}))
			}
			return opts
		}
		// 1. Value
		v := resource.NewValue(resource.WithInitialValue(fm(1)))
		drain(ctx, v.Pull(ctx), func(e *resource.ValueChange) { touch(e.Value) })
		scenario(func() {
			in := fm(5)
			_, _ = v.Set(in, slowOpts()...)
			in.C = 99 // the caller's again
		})
		scenario(func() { // readers next to it
			for i := 0; i < 50; i++ {
				touch(v.Get())
				time.Sleep(pause / 50)
			}
		})
		// 2. Collection
		c := resource.NewCollection(resource.WithInitialRecord("a", fm(1)))
		drain(ctx, c.Pull(ctx), func(e *resource.CollectionChange) { touch(e.OldValue); touch(e.NewValue) })
		scenario(func() {
			in := fm(6)
			_, _ = c.Update("a", in, slowOpts()...)
			in.C = 98
		})
		scenario(func() {
			in := fm(7)
			_, _ = c.Add("b", in, slowOpts()...)
			in.C = 97
		})
		// 3. a trait model with an interceptor of its own (metadata merges trait entries in a before-interceptor)
		mm := metadatapb.NewModel()
		drain(ctx, mm.PullMetadata(ctx), func(e *traits.PullMetadataResponse_Change) { touch(e) })
		scenario(func() {
			in := &traits.Metadata{Name: "n", Traits: []*traits.TraitMetadata{{Name: "t1", More: map[string]string{"k": "v"}}}}
			_, _ = mm.MergeMetadata(in, resource.WithExpectedCheck(func(old proto.Message) error {
				touch(old)
				time.Sleep(pause)
				touch(old)
				return nil
			}))
			in.Name = "mine again"
		})
		// 4. a backpressured consumer that takes the pause to come back
		sv := resource.NewValue(resource.WithInitialValue(fm(1)))
		sch := sv.Pull(ctx, resource.WithBackpressure(true), resource.WithUpdatesOnly(true))
		scenario(func() {
			n := 0
			for e := range sch {
				touch(e.Value)
				n++
				if n == 1 {
					time.Sleep(pause)
				}
				if n == 3 {
					return
				}
			}
		})
		scenario(func() {
			for i := 0; i < 3; i++ {
				in := fm(int32(10 + i))
				_, _ = sv.Set(in)
				in.C = -1
			}
			// if a write gave up (pause over the send timeout) the consumer is still owed its third event
			for i := 0; i < 3; i++ {
				_, _ = sv.Set(fm(int32(20 + i)))
			}
		})
		wg.Wait()
		desc := fmt.Sprintf("slow callbacks: pause=%v in %s", pause, where)
		logWorkload(desc)
		record("SlowCallbacks", desc)
	})
}

// longPausesAllowed: pauses over the five second send timeout only in the thorough tier.
func longPausesAllowed() bool { return lib.Scale(0, 1) == 1 }
