package c11

import (
	"context"
	"fmt"
	"testing"

	"google.golang.org/protobuf/types/known/fieldmaskpb"
	"pgregory.net/rapid"

	"github.com/smart-core-os/sc-api/go/traits"
	"github.com/smart-core-os/sc-api/go/types"

	"github.com/smart-core-os/sc-golang/pkg/trait/countpb"
	"github.com/smart-core-os/sc-golang/pkg/trait/fanspeedpb"
	"github.com/smart-core-os/sc-golang/pkg/trait/lightpb"
	"github.com/smart-core-os/sc-golang/pkg/trait/modepb"
	"github.com/smart-core-os/sc-golang/pkg/trait/speakerpb"
)

// TestRaceSharedPayload: callers of wrapped (in-process) clients that share what they send and own what they get.
// Requests built per call (the name differs) carry ONE payload message and ONE mask object shared by every goroutine,
// as a hand written group fan-out does; the callers only read them. Responses belong to the caller, who edits them.
// The servers behind the wrappers are the ones that write into the request they are given (presets, relative updates,
// update masks that exclude populated fields).
func TestRaceSharedPayload(t *testing.T) {
	rapid.Check(t, func(t *rapid.T) {
		ctx, cancel := context.WithCancel(context.Background())
		defer cancel()
		const devices = 3
		lights := make([]traits.LightApiClient, devices)
		fans := make([]traits.FanSpeedApiClient, devices)
		counts := make([]traits.CountApiClient, devices)
		speakers := make([]traits.SpeakerApiClient, devices)
		modes := make([]traits.ModeApiClient, devices)
		for i := 0; i < devices; i++ {
			lights[i] = lightpb.WrapApi(lightpb.NewModelServer(lightpb.NewModel(lightpb.WithPreset(40, &traits.LightPreset{Name: "dim", Title: "Dim"}))))
			fans[i] = fanspeedpb.WrapApi(fanspeedpb.NewModelServer(fanspeedpb.NewModel()))
			counts[i] = countpb.WrapApi(countpb.NewMemoryDevice())
			speakers[i] = speakerpb.WrapApi(speakerpb.NewMemoryDevice(&types.AudioLevel{Gain: 10}))
			modes[i] = modepb.WrapApi(modepb.NewModelServer(modepb.NewModel()))
		}
		brightness := &traits.Brightness{Preset: &traits.LightPreset{Name: "dim"}, LevelPercent: 75}
		presetMask := &fieldmaskpb.FieldMask{Paths: []string{"preset"}}
		fan := &traits.FanSpeed{Percentage: 1}
		count := &traits.Count{Added: 1, Removed: 2}
		addedMask := &fieldmaskpb.FieldMask{Paths: []string{"added"}}
		level := &types.AudioLevel{Gain: 1, Muted: true}
		gainMask := &fieldmaskpb.FieldMask{Paths: []string{"gain"}}
		relModes := &traits.ModeValuesRelative{Values: map[string]int32{"spin": 1}}
		ops := []op{
			func(g, i int) {
				if res, err := lights[i%devices].UpdateBrightness(ctx, &traits.UpdateBrightnessRequest{Name: fmt.Sprint("l", g), Brightness: brightness, UpdateMask: presetMask}); err == nil {
					res.LevelPercent++ // the response is the caller's
					if res.Preset != nil {
						res.Preset.Title = "mine"
					}
				}
				touch(brightness)
			},
			func(g, i int) {
				if res, err := lights[i%devices].GetBrightness(ctx, &traits.GetBrightnessRequest{Name: "l"}); err == nil {
					res.LevelPercent = 1
					if res.Preset != nil {
						res.Preset.Name = "edited"
					}
				}
			},
			func(g, i int) {
				if res, err := fans[i%devices].UpdateFanSpeed(ctx, &traits.UpdateFanSpeedRequest{Name: fmt.Sprint("f", g), Relative: true, FanSpeed: fan}); err == nil {
					res.Percentage = 0
				}
				touch(fan)
			},
			func(g, i int) {
				if res, err := counts[i%devices].UpdateCount(ctx, &traits.UpdateCountRequest{Name: fmt.Sprint("c", g), Delta: true, Count: count, UpdateMask: addedMask}); err == nil {
					res.Added = 0
				}
				touch(count)
			},
			func(g, i int) {
				if res, err := speakers[i%devices].UpdateVolume(ctx, &traits.UpdateSpeakerVolumeRequest{Name: fmt.Sprint("s", g), Delta: true, Volume: level, UpdateMask: gainMask}); err == nil {
					res.Gain = 0
				}
				touch(level)
			},
			func(g, i int) {
				if res, err := modes[i%devices].UpdateModeValues(ctx, &traits.UpdateModeValuesRequest{Name: fmt.Sprint("m", g), Relative: relModes}); err == nil {
					for k := range res.Values {
						res.Values[k] = "mine"
					}
				}
				touch(relModes)
			},
			func(g, i int) {
				if res, err := modes[i%devices].GetModeValues(ctx, &traits.GetModeValuesRequest{Name: "m"}); err == nil {
					if res.Values == nil {
						res.Values = map[string]string{}
					}
					res.Values["extra"] = "mine"
				}
			},
		}
		desc := run(t, "WrappedDevices(shared request payloads, edited responses)", rapid.IntRange(4, 10).Draw(t, "n"), rapid.IntRange(5, 15).Draw(t, "k"), ops)
		record("SharedPayload", desc)
	})
}
