package c18

import (
	"fmt"
	"sort"
	"strings"
	"testing"
	"time"

	"google.golang.org/protobuf/proto"
	"google.golang.org/protobuf/types/known/durationpb"
	"google.golang.org/protobuf/types/known/timestamppb"
	"pgregory.net/rapid"

	"github.com/smart-core-os/sc-api/go/traits"

	"github.com/smart-core-os/sc-golang/pkg/trait/electricpb/modepb"
	"github.com/smart-core-os/sc-golang/pkg/trait/electricpb/segmentpb"
	"github.com/smart-core-os/sc-golang/verifh/lib"
)

type seg = traits.ElectricMode_Segment

// ---- independent step-function reading of a segment list ----

// stepAt reads segs as a step function of elapsed time: the magnitude of the segment covering d,
// 0 before the origin and 0 after the last segment. A nil length is infinite.
func stepAt(segs []*seg, d time.Duration) float32 {
	if d < 0 {
		return 0
	}
	var start time.Duration
	for _, s := range segs {
		if s == nil {
			continue
		}
		if s.Length == nil {
			return s.Magnitude
		}
		l := s.Length.AsDuration()
		if d >= start && d < start+l {
			return s.Magnitude
		}
		start += l
	}
	return 0
}

// covering returns the index of the segment covering d, or len(segs).
func covering(segs []*seg, d time.Duration) (idx int, start time.Duration) {
	for i, s := range segs {
		if s.Length == nil {
			return i, start
		}
		l := s.Length.AsDuration()
		if d >= start && d < start+l {
			return i, start
		}
		start += l
	}
	return len(segs), start
}

func breakpoints(segs []*seg) []time.Duration {
	var out []time.Duration
	var cur time.Duration
	out = append(out, 0)
	for _, s := range segs {
		if s == nil || s.Length == nil {
			break
		}
		cur += s.Length.AsDuration()
		out = append(out, cur)
	}
	return out
}

// samplePoints returns times at, just before, just after and between all the given breakpoints.
func samplePoints(bps []time.Duration) []time.Duration {
	sort.Slice(bps, func(i, j int) bool { return bps[i] < bps[j] })
	set := map[time.Duration]bool{}
	for i, b := range bps {
		set[b] = true
		set[b-1] = true
		set[b+1] = true
		if i > 0 {
			set[(b+bps[i-1])/2] = true
		}
	}
	if len(bps) > 0 {
		set[bps[len(bps)-1]+time.Hour] = true
		set[bps[0]-time.Hour] = true
	}
	out := make([]time.Duration, 0, len(set))
	for d := range set {
		out = append(out, d)
	}
	sort.Slice(out, func(i, j int) bool { return out[i] < out[j] })
	return out
}

func segsString(segs []*seg) string {
	var sb strings.Builder
	sb.WriteString("[")
	for i, s := range segs {
		if i > 0 {
			sb.WriteString(" ")
		}
		if s == nil {
			sb.WriteString("nil")
		} else if s.Length == nil {
			fmt.Fprintf(&sb, "%v:inf", s.Magnitude)
		} else {
			fmt.Fprintf(&sb, "%v:%v", s.Magnitude, s.Length.AsDuration())
		}
	}
	sb.WriteString("]")
	return sb.String()
}

func cloneSegs(segs []*seg) []*seg {
	out := make([]*seg, len(segs))
	for i, s := range segs {
		if s != nil {
			out[i] = proto.Clone(s).(*seg)
		}
	}
	return out
}

func sameSegs(a, b []*seg) bool {
	if len(a) != len(b) {
		return false
	}
	for i := range a {
		if !proto.Equal(a[i], b[i]) {
			return false
		}
	}
	return true
}

var lengths = []time.Duration{0, 1, 500 * time.Millisecond, time.Second, 2 * time.Second, 3 * time.Second, 5 * time.Second}

// genSegs draws 0-6 segments; only the last may be infinite (the documented precondition).
func genSegs(t *rapid.T, label string) []*seg {
	n := rapid.IntRange(0, 6).Draw(t, label+"n")
	if rapid.IntRange(0, 11).Draw(t, label+"long") == 0 {
		n = rapid.IntRange(7, 120).Draw(t, label+"nlong") // schedules of a day in quarter hours are this long
	}
	// lists built with append have room to spare: an operation that appends to (or shifts within) the slice it was
	// given then writes into the caller's array
	out := make([]*seg, 0, n+rapid.IntRange(0, 3).Draw(t, label+"spare"))
	for i := 0; i < n; i++ {
		s := &seg{Magnitude: float32(rapid.IntRange(0, 5).Draw(t, label+"mag"))}
		if rapid.IntRange(0, 4).Draw(t, label+"frac") == 2 {
			// binary fractions add exactly in float32 too: 1/16 A, 1/4096 A, 3.5 A
			s.Magnitude = rapid.SampledFrom([]float32{0.0625, 0.5, 1.0 / 4096, 3.5, 0.001953125, 1.0 / 32768}).Draw(t, label+"magFrac")
		}
		if i == n-1 && rapid.IntRange(0, 3).Draw(t, label+"inf") == 0 {
			// infinite
		} else {
			s.Length = durationpb.New(rapid.SampledFrom(lengths).Draw(t, label+"len"))
		}
		if rapid.IntRange(0, 4).Draw(t, label+"shape") == 0 {
			s.Shape = &traits.ElectricMode_Segment_Fixed{Fixed: 1}
		}
		out = append(out, s)
	}
	return out
}

func classifySegs(segs []*seg) (zeroLen, infinite bool) {
	for _, s := range segs {
		if s.Length == nil {
			infinite = true
		} else if s.Length.AsDuration() == 0 {
			zeroLen = true
		}
	}
	return
}

// drawTime draws an instant biased to breakpoints and their neighbours.
func drawTime(t *rapid.T, label string, bps []time.Duration) time.Duration {
	pts := samplePoints(append([]time.Duration(nil), bps...))
	if rapid.IntRange(0, 5).Draw(t, label+"free") == 0 {
		return time.Duration(rapid.Int64Range(int64(-3*time.Second), int64(20*time.Second)).Draw(t, label))
	}
	return rapid.SampledFrom(pts).Draw(t, label)
}

func TestSegmentOps(t *testing.T) {
	rapid.Check(t, func(t *rapid.T) {
		segs := genSegs(t, "s")
		orig := cloneSegs(segs)
		bps := breakpoints(segs)
		pts := samplePoints(append([]time.Duration(nil), bps...))
		zeroLen, infinite := classifySegs(segs)
		desc := segsString(segs)
		opAtBreak := false

		// MagnitudeAt / ActiveAt agree with the step function at every sample point
		for _, d := range pts {
			level, ok := segmentpb.MagnitudeAt(d, segs...)
			idx, start := covering(segs, d)
			if d < 0 {
				idx = len(segs)
			}
			wantOK := d >= 0 && idx < len(segs)
			if ok != wantOK {
				t.Fatalf("%s MagnitudeAt(%v) ok=%v want %v", desc, d, ok, wantOK)
			}
			if want := stepAt(segs, d); level != want {
				t.Fatalf("%s MagnitudeAt(%v)=%v want %v", desc, d, level, want)
			}
			elapsed, ai := segmentpb.ActiveAt(d, segs...)
			if d < 0 {
				if elapsed != d || ai != 0 {
					t.Fatalf("%s ActiveAt(%v)=(%v,%v) want (%v,0)", desc, d, elapsed, ai, d)
				}
			} else {
				if ai != idx || elapsed != start {
					t.Fatalf("%s ActiveAt(%v)=(%v,%v) want (%v,%v)", desc, d, elapsed, ai, start, idx)
				}
			}
		}

		// Duration
		var total time.Duration
		for _, s := range segs {
			if s.Length == nil {
				break
			}
			total += s.Length.AsDuration()
		}
		if gt, gi := segmentpb.Duration(segs...); gt != total || gi != infinite {
			t.Fatalf("%s Duration=(%v,%v) want (%v,%v)", desc, gt, gi, total, infinite)
		}

		// Max / MaxMagnitude / MaxAfter: arg-max over non-zero-length segments
		argmaxOK := func(from int, got int, what string) {
			best, found := float32(0), false
			for i := from; i < len(segs); i++ {
				if segs[i].Length != nil && segs[i].Length.AsDuration() <= 0 {
					continue
				}
				if !found || segs[i].Magnitude > best {
					best, found = segs[i].Magnitude, true
				}
			}
			if !found {
				if got != len(segs) {
					t.Fatalf("%s %s=%d want len=%d (no non-zero-length segment)", desc, what, got, len(segs))
				}
				return
			}
			if got < from || got >= len(segs) {
				t.Fatalf("%s %s=%d out of range [%d,%d)", desc, what, got, from, len(segs))
			}
			if segs[got].Length != nil && segs[got].Length.AsDuration() <= 0 {
				t.Fatalf("%s %s=%d is a zero-length segment", desc, what, got)
			}
			if segs[got].Magnitude != best {
				t.Fatalf("%s %s=%d has magnitude %v, max is %v", desc, what, got, segs[got].Magnitude, best)
			}
		}
		argmaxOK(0, segmentpb.Max(segs...), "Max")
		{
			mm := segmentpb.MaxMagnitude(segs...)
			i := segmentpb.Max(segs...)
			want := float32(0)
			if i < len(segs) {
				want = segs[i].Magnitude
			}
			if mm != want {
				t.Fatalf("%s MaxMagnitude=%v want %v", desc, mm, want)
			}
		}
		{
			d := drawTime(t, "maxAfter", bps)
			from, _ := covering(segs, d)
			if d < 0 {
				from = 0
			}
			argmaxOK(from, segmentpb.MaxAfter(d, segs...), fmt.Sprintf("MaxAfter(%v)", d))
		}

		// Cut of one segment: before||after is the same function
		if len(segs) > 0 {
			i := rapid.IntRange(0, len(segs)-1).Draw(t, "cutIdx")
			one := segs[i]
			var obps []time.Duration
			obps = append(obps, 0)
			if one.Length != nil {
				obps = append(obps, one.Length.AsDuration())
			}
			d := drawTime(t, "cutAt", obps)
			before, after, _ := segmentpb.Cut(d, one)
			var joined []*seg
			if before != nil {
				joined = append(joined, before)
			}
			if after != nil {
				joined = append(joined, after)
			}
			for _, p := range samplePoints(append(obps, d)) {
				if a, b := stepAt([]*seg{one}, p), stepAt(joined, p); a != b {
					t.Fatalf("Cut(%v, %s) = %s: differs at %v: %v vs %v", d, segsString([]*seg{one}), segsString(joined), p, a, b)
				}
			}
			if before != nil && before.Length != nil && d > 0 && before.Length.AsDuration() > d {
				t.Fatalf("Cut(%v, %s): before %s is longer than the cut point", d, segsString([]*seg{one}), segsString([]*seg{before}))
			}
			for _, b := range obps {
				if d == b || d == b-1 || d == b+1 {
					opAtBreak = true
				}
			}
		}

		// Shift: translation of the function (0 before the origin)
		{
			d := drawTime(t, "shift", bps)
			if rapid.Bool().Draw(t, "shiftNeg") {
				d = -d
			}
			shifted := segmentpb.Shift(d, segs...)
			var sb []time.Duration
			for _, b := range bps {
				sb = append(sb, b, b+d)
			}
			for _, p := range samplePoints(sb) {
				want := stepAt(segs, p-d)
				if p < 0 {
					want = 0
				}
				if got := stepAt(shifted, p); got != want {
					t.Fatalf("Shift(%v, %s) = %s: at %v got %v want %v", d, desc, segsString(shifted), p, got, want)
				}
			}
			for _, b := range bps {
				if d == b || d == -b || d == b-1 || d == b+1 {
					opAtBreak = true
				}
			}
		}

		if !sameSegs(segs, orig) {
			t.Fatalf("arguments modified: %s -> %s", segsString(orig), desc)
		}
		nt := ""
		if (zeroLen || infinite) && opAtBreak {
			nt = "seg:" + desc
		}
		if zeroLen {
			lib.Ev.Class("segments:zero-length")
		}
		if infinite {
			lib.Ev.Class("segments:infinite-tail")
		}
		lib.Ev.Case(nt, func() any { return "segment ops on " + desc })
	})
}

func TestSegmentSum(t *testing.T) {
	rapid.Check(t, func(t *rapid.T) {
		n := rapid.IntRange(1, 4).Draw(t, "lists")
		lists := make([][]*seg, n)
		origs := make([][]*seg, n)
		var bps []time.Duration
		var descs []string
		special := false
		for i := range lists {
			lists[i] = genSegs(t, fmt.Sprintf("l%d", i))
			origs[i] = cloneSegs(lists[i])
			bps = append(bps, breakpoints(lists[i])...)
			descs = append(descs, segsString(lists[i]))
			z, inf := classifySegs(lists[i])
			special = special || z || inf
		}
		sum := segmentpb.Sum(lists...)
		desc := strings.Join(descs, " + ")
		for _, p := range samplePoints(bps) {
			var want float32
			for _, l := range lists {
				want += stepAt(l, p)
			}
			if got := stepAt(sum, p); got != want {
				t.Fatalf("Sum(%s) = %s: at %v got %v want %v", desc, segsString(sum), p, got, want)
			}
		}
		// the result must itself be a well-formed list: only the last segment may be infinite
		for i, s := range sum {
			if s == nil {
				t.Fatalf("Sum(%s) has a nil segment", desc)
			}
			if s.Length == nil && i != len(sum)-1 {
				t.Fatalf("Sum(%s) = %s has an infinite segment before the end", desc, segsString(sum))
			}
		}
		for i := range lists {
			if !sameSegs(lists[i], origs[i]) {
				t.Fatalf("Sum modified argument %d: %s -> %s", i, segsString(origs[i]), segsString(lists[i]))
			}
		}
		nt := ""
		if n >= 2 && special {
			nt = "sum:" + desc
		}
		lib.Ev.Case(nt, func() any { return "Sum " + desc + " = " + segsString(sum) })
	})
}

// ---- modes ----

var epoch = time.Date(2021, 3, 4, 5, 6, 7, 0, time.UTC)

func modeAt(m *traits.ElectricMode, t time.Time, fallbackStart time.Time) float32 {
	st := fallbackStart
	if m.GetStartTime() != nil {
		st = m.StartTime.AsTime()
	}
	return stepAt(m.GetSegments(), t.Sub(st))
}

func genMode(t *rapid.T, label string) *traits.ElectricMode {
	m := &traits.ElectricMode{Segments: genSegs(t, label)}
	if rapid.IntRange(0, 2).Draw(t, label+"hasStart") != 0 {
		off := rapid.SampledFrom([]time.Duration{0, time.Second, -time.Second, 2500 * time.Millisecond, 10 * time.Second}).Draw(t, label+"start")
		m.StartTime = timestamppb.New(epoch.Add(off))
		if rapid.IntRange(0, 5).Draw(t, label+"unixEpoch") == 3 {
			// a schedule that starts at the unix epoch: its start time is the empty Timestamp message, which is an instant
			// like any other
			m.StartTime = &timestamppb.Timestamp{}
		}
	}
	if rapid.Bool().Draw(t, label+"meta") {
		m.Id = "m" + label
		m.Title = "title"
		m.Voltage = 240
	}
	return m
}

func modeString(m *traits.ElectricMode) string {
	if m == nil {
		return "<nil>"
	}
	st := "nostart"
	if m.StartTime != nil {
		st = "T" + m.StartTime.AsTime().Sub(epoch).String()
	}
	return st + segsString(m.Segments)
}

func TestModeOps(t *testing.T) {
	rapid.Check(t, func(t *rapid.T) {
		m := genMode(t, "m")
		orig := proto.Clone(m).(*traits.ElectricMode)
		desc := modeString(m)
		bps := breakpoints(m.Segments)
		st := epoch
		if m.StartTime != nil {
			st = m.StartTime.AsTime()
		}
		abs := func(d time.Duration) time.Time { return st.Add(d) }
		zeroLen, infinite := classifySegs(m.Segments)

		// MagnitudeAt / ActiveAt / MaxSegmentAfter are the segment variants translated by the start time.
		for _, d := range samplePoints(append([]time.Duration(nil), bps...)) {
			at := abs(d)
			rel := d
			if m.StartTime == nil {
				rel = 0 // no start time: t itself is the start
			}
			gl, gok := modepb.MagnitudeAt(at, m)
			wl, wok := segmentpb.MagnitudeAt(rel, m.Segments...)
			if gl != wl || gok != wok {
				t.Fatalf("%s MagnitudeAt(+%v)=(%v,%v) want (%v,%v)", desc, d, gl, gok, wl, wok)
			}
			if want := stepAt(m.Segments, rel); gl != want {
				t.Fatalf("%s MagnitudeAt(+%v)=%v want step value %v", desc, d, gl, want)
			}
			ge, gi := modepb.ActiveAt(at, m)
			we, wi := segmentpb.ActiveAt(rel, m.Segments...)
			if ge != we || gi != wi {
				t.Fatalf("%s ActiveAt(+%v)=(%v,%v) want (%v,%v)", desc, d, ge, gi, we, wi)
			}
			if g, w := modepb.MaxSegmentAfter(at, m), segmentpb.MaxAfter(rel, m.Segments...); g != w {
				t.Fatalf("%s MaxSegmentAfter(+%v)=%v want %v", desc, d, g, w)
			}
		}

		// Shift: translation
		d := drawTime(t, "shift", bps)
		if rapid.Bool().Draw(t, "neg") {
			d = -d
		}
		sh := modepb.Shift(d, m)
		var sb []time.Duration
		for _, b := range bps {
			sb = append(sb, b, b+d)
		}
		for _, p := range samplePoints(sb) {
			at := abs(p)
			want := modeAt(m, at.Add(-d), st)
			if m.StartTime == nil && p < 0 {
				want = 0 // relative modes have nothing before their origin
			}
			if got := modeAt(sh, at, st); got != want {
				t.Fatalf("Shift(%v, %s) = %s: at +%v got %v want %v", d, desc, modeString(sh), p, got, want)
			}
		}

		// Cut: splits without changing the function
		cd := drawTime(t, "cut", bps)
		ct := abs(cd)
		before, after, _ := modepb.Cut(ct, m)
		if len(m.Segments) > 0 && m.StartTime != nil {
			for _, p := range samplePoints(append(append([]time.Duration(nil), bps...), cd)) {
				at := abs(p)
				want := modeAt(m, at, st)
				var got float32
				if at.Before(ct) {
					if before != nil {
						got = modeAt(before, at, st)
					}
				} else {
					if after != nil {
						got = modeAt(after, at, st)
					}
				}
				if got != want {
					t.Fatalf("Cut(+%v, %s) = (%s, %s): at +%v got %v want %v", cd, desc, modeString(before), modeString(after), p, got, want)
				}
			}
		}
		if !proto.Equal(m, orig) {
			t.Fatalf("mode argument modified: %s -> %s", modeString(orig), modeString(m))
		}
		nt := ""
		if zeroLen || infinite {
			nt = "mode:" + desc + fmt.Sprint(d, cd)
		}
		if m.StartTime == nil {
			lib.Ev.Class("mode:no-start-time")
		} else {
			lib.Ev.Class("mode:start-time")
		}
		lib.Ev.Case(nt, func() any { return "mode ops on " + desc })
	})
}

func TestModeSum(t *testing.T) {
	rapid.Check(t, func(t *rapid.T) {
		n := rapid.IntRange(1, 4).Draw(t, "modes")
		modes := make([]*traits.ElectricMode, n)
		origs := make([]*traits.ElectricMode, n)
		var descs []string
		var latest, earliest time.Time
		anyST := false
		for i := range modes {
			modes[i] = genMode(t, fmt.Sprintf("m%d", i))
			origs[i] = proto.Clone(modes[i]).(*traits.ElectricMode)
			descs = append(descs, modeString(modes[i]))
			if modes[i].StartTime != nil {
				s := modes[i].StartTime.AsTime()
				if !anyST || s.After(latest) {
					latest = s
				}
				if !anyST || s.Before(earliest) {
					earliest = s
				}
				anyST = true
			}
		}
		desc := strings.Join(descs, " + ")
		sum := modepb.Sum(modes...)
		if sum == nil {
			t.Fatalf("Sum(%s) = nil", desc)
		}
		base := epoch // all relative: compare relative to any common origin
		if anyST {
			base = latest // modes without a start time start at the most recent start time
			if sum.StartTime == nil || !sum.StartTime.AsTime().Equal(earliest) {
				t.Fatalf("Sum(%s) start time %v, want earliest %v", desc, modeString(sum), earliest.Sub(epoch))
			}
		} else if sum.StartTime != nil {
			t.Fatalf("Sum(%s) has a start time though no input has", desc)
		}
		var bps []time.Duration
		for _, m := range modes {
			s := base
			if m.StartTime != nil {
				s = m.StartTime.AsTime()
			}
			for _, b := range breakpoints(m.Segments) {
				bps = append(bps, s.Add(b).Sub(epoch))
			}
		}
		for _, p := range samplePoints(bps) {
			at := epoch.Add(p)
			var want float32
			for _, m := range modes {
				want += modeAt(m, at, base)
			}
			if got := modeAt(sum, at, base); got != want {
				t.Fatalf("Sum(%s) = %s: at T%v got %v want %v", desc, modeString(sum), p, got, want)
			}
		}
		for i := range modes {
			if !proto.Equal(modes[i], origs[i]) {
				t.Fatalf("Sum modified mode %d: %s -> %s", i, modeString(origs[i]), modeString(modes[i]))
			}
		}
		nt := ""
		if n >= 2 && anyST {
			nt = "modesum:" + desc
		}
		lib.Ev.Case(nt, func() any { return "mode Sum " + desc + " = " + modeString(sum) })
	})
}
