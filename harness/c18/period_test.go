package c18

import (
	"fmt"
	"math"
	"testing"

	"google.golang.org/protobuf/proto"
	"google.golang.org/protobuf/types/known/timestamppb"
	"pgregory.net/rapid"

	timepb "github.com/smart-core-os/sc-api/go/types/time"

	sctime "github.com/smart-core-os/sc-golang/pkg/time"
	"github.com/smart-core-os/sc-golang/verifh/lib"
)

// An endpoint is nil (unbounded) or a timestamp.
type endpoint struct {
	Unbounded bool
	Sec       int64
	Nanos     int32
}

func (e endpoint) ts() *timestamppb.Timestamp {
	if e.Unbounded {
		return nil
	}
	return &timestamppb.Timestamp{Seconds: e.Sec, Nanos: e.Nanos}
}

func (e endpoint) String() string {
	if e.Unbounded {
		return "-"
	}
	return fmt.Sprintf("%d.%09d", e.Sec, e.Nanos)
}

type periodCase struct {
	S1, E1, S2, E2 endpoint
}

func (c periodCase) String() string {
	return fmt.Sprintf("[%v,%v) [%v,%v)", c.S1, c.E1, c.S2, c.E2)
}

// less compares bounded endpoints chronologically, independently of the code under test.
func less(a, b endpoint) bool {
	if a.Sec != b.Sec {
		return a.Sec < b.Sec
	}
	return a.Nanos < b.Nanos
}

func eq(a, b endpoint) bool { return a.Sec == b.Sec && a.Nanos == b.Nanos }

// degenerate: both ends bounded and start >= end (the docs disagree about such periods).
func degenerate(s, e endpoint) bool {
	return !s.Unbounded && !e.Unbounded && !less(s, e)
}

// startLess: start a is strictly after... helpers over possibly-unbounded ends.
// maxStart < minEnd  <=> every start is < every end.
func startBeforeEnd(s, e endpoint, strict bool) bool {
	if s.Unbounded || e.Unbounded {
		return true // -inf start or +inf end
	}
	if strict {
		return less(s, e)
	}
	return less(s, e) || eq(s, e)
}

func checkPeriodPair(c periodCase) error {
	p1 := &timepb.Period{StartTime: c.S1.ts(), EndTime: c.E1.ts()}
	p2 := &timepb.Period{StartTime: c.S2.ts(), EndTime: c.E2.ts()}
	c1, c2 := proto.Clone(p1), proto.Clone(p2)
	var i12, i21, k12, k21 bool
	if err := noPanic(func() {
		i12 = sctime.PeriodsIntersect(p1, p2)
		i21 = sctime.PeriodsIntersect(p2, p1)
		k12 = sctime.PeriodsConnected(p1, p2)
		k21 = sctime.PeriodsConnected(p2, p1)
	}); err != nil {
		return err
	}
	if !proto.Equal(p1, c1) || !proto.Equal(p2, c2) {
		return fmt.Errorf("period predicates modified their arguments")
	}
	if i12 != i21 {
		return fmt.Errorf("PeriodsIntersect not symmetric: %v vs %v", i12, i21)
	}
	if k12 != k21 {
		return fmt.Errorf("PeriodsConnected not symmetric: %v vs %v", k12, k21)
	}
	deg := degenerate(c.S1, c.E1) || degenerate(c.S2, c.E2)
	nt := ""
	if !deg {
		wantI := startBeforeEnd(c.S1, c.E2, true) && startBeforeEnd(c.S2, c.E1, true)
		wantK := startBeforeEnd(c.S1, c.E2, false) && startBeforeEnd(c.S2, c.E1, false)
		if i12 != wantI {
			return fmt.Errorf("PeriodsIntersect = %v, want %v", i12, wantI)
		}
		if k12 != wantK {
			return fmt.Errorf("PeriodsConnected = %v, want %v", k12, wantK)
		}
		if wantK && !wantI {
			nt = "touch:" + c.String()
			lib.Ev.Class("period:touching")
		} else if wantI && closeOverlap(c) {
			nt = "near:" + c.String()
			lib.Ev.Class("period:overlap<1s")
		}
	} else {
		lib.Ev.Class("period:degenerate(symmetry/no-panic only)")
	}
	lib.Ev.Case(nt, func() any { return c.String() })
	return nil
}

// closeOverlap: the overlap max(starts)..min(ends) is shorter than a second.
func closeOverlap(c periodCase) bool {
	var ms, me endpoint
	ms.Unbounded, me.Unbounded = true, true
	for _, s := range []endpoint{c.S1, c.S2} {
		if !s.Unbounded && (ms.Unbounded || less(ms, s)) {
			ms = s
		}
	}
	for _, e := range []endpoint{c.E1, c.E2} {
		if !e.Unbounded && (me.Unbounded || less(e, me)) {
			me = e
		}
	}
	if ms.Unbounded || me.Unbounded {
		return false
	}
	d := float64(me.Sec-ms.Sec) + float64(me.Nanos-ms.Nanos)/1e9
	return d < 1
}

func noPanic(f func()) (err error) {
	defer func() {
		if r := recover(); r != nil {
			lib.RethrowRapid(r)
			err = fmt.Errorf("panic: %v", r)
		}
	}()
	f()
	return nil
}

func smallEndpoints() []endpoint {
	out := []endpoint{{Unbounded: true}}
	for s := int64(0); s <= 5; s++ {
		for _, n := range []int32{0, 1, 999999999} {
			out = append(out, endpoint{Sec: s, Nanos: n})
		}
	}
	return out
}

// TestPeriodsExhaustive enumerates every pair of periods with endpoints in {unbounded, 0..5}x{0,1,999999999}ns.
func TestPeriodsExhaustive(t *testing.T) {
	eps := smallEndpoints()
	done := false
	lib.Enumerate(t, "TestPeriodsExhaustive", func(yield func(periodCase) bool) {
		for _, s1 := range eps {
			for _, e1 := range eps {
				for _, s2 := range eps {
					for _, e2 := range eps {
						if !yield(periodCase{s1, e1, s2, e2}) {
							return
						}
					}
				}
			}
		}
		done = true
	}, checkPeriodPair)
	lib.Ev.Exhaustive("periods{unbounded,0..5}x{0,1,999999999}", done)
}

var boundarySeconds = func() []int64 {
	out := []int64{math.MinInt64, math.MinInt64 + 1, -1, 0, 1, math.MaxInt64 - 1, math.MaxInt64, math.MaxInt32, math.MinInt32,
		-62135596800, 253402300799, math.MaxInt64 - 62135596800, math.MaxInt64 - 62135596800 + 1}
	for _, k := range []uint{29, 30, 31, 32, 33, 34, 35, 36, 40, 52, 53, 62} {
		p := int64(1) << k
		out = append(out, p-1, p, p+1, -p-1, -p, -p+1, p+p/2, -p-p/2)
	}
	// where a seconds count stops fitting an int64 once it is converted to milli-, micro- or nanoseconds (time.Time's
	// UnixNano / Duration limits: 2262-04-11 and 1677-09-21)
	for _, u := range []int64{1e3, 1e6, 1e9} {
		for _, lim := range []int64{math.MaxInt64 / u, math.MinInt64 / u} {
			out = append(out, lim-1, lim, lim+1)
		}
	}
	return out
}()

// the nanosecond remainders of the int64 nanosecond range, next to the ordinary extremes
var boundaryNanos = []int32{0, 1, 999999999, 500000000, maxRem - 1, maxRem, maxRem + 1, minRem - 1, minRem, minRem + 1}

const (
	maxRem = int32(math.MaxInt64 % 1000000000)              // 854775807
	minRem = int32(1000000000 + math.MinInt64%1000000000) // 145224192
)

func genEndpoint(t *rapid.T, label string) endpoint {
	switch rapid.IntRange(0, 9).Draw(t, label+"kind") {
	case 0:
		return endpoint{Unbounded: true}
	case 1, 2: // extremes of the 64 bit range, and values around powers of two (where packed or narrowed representations break)
		return endpoint{
			Sec:   rapid.SampledFrom(boundarySeconds).Draw(t, label+"sec"),
			Nanos: rapid.SampledFrom(boundaryNanos).Draw(t, label+"ns"),
		}
	case 3, 4, 5: // valid Timestamp range 0001-01-01 .. 9999-12-31
		return endpoint{Sec: rapid.Int64Range(-62135596800, 253402300799).Draw(t, label+"sec"), Nanos: rapid.Int32Range(0, 999999999).Draw(t, label+"ns")}
	default:
		return endpoint{Sec: rapid.Int64().Draw(t, label+"sec"), Nanos: rapid.Int32Range(0, 999999999).Draw(t, label+"ns")}
	}
}

// TestPeriodsRandom draws endpoints over the whole 64 bit range.
func TestPeriodsRandom(t *testing.T) {
	rapid.Check(t, func(t *rapid.T) {
		base := genEndpoint(t, "base")
		mk := func(label string) endpoint {
			// half of the endpoints are near a common base so touching and nearly touching periods are frequent
			if rapid.Bool().Draw(t, label+"near") && !base.Unbounded {
				d := rapid.Int64Range(-2, 2).Draw(t, label+"d")
				if (d > 0 && base.Sec > math.MaxInt64-d) || (d < 0 && base.Sec < math.MinInt64-d) {
					d = 0
				}
				return endpoint{Sec: base.Sec + d, Nanos: rapid.SampledFrom(append([]int32{base.Nanos}, boundaryNanos...)).Draw(t, label+"ns")}
			}
			return genEndpoint(t, label)
		}
		c := periodCase{mk("s1"), mk("e1"), mk("s2"), mk("e2")}
		if err := checkPeriodPair(c); err != nil {
			t.Fatalf("%v: %v", c, err)
		}
	})
}

func checkCompare(a, b, c endpoint) error {
	ta, tb, tc := a.ts(), b.ts(), c.ts()
	ca, cb := proto.Clone(ta), proto.Clone(tb)
	ab := sctime.CompareAscending(ta, tb)
	ba := sctime.CompareAscending(tb, ta)
	if !proto.Equal(ta, ca) || !proto.Equal(tb, cb) {
		return fmt.Errorf("CompareAscending modified its arguments")
	}
	want := 0
	if less(a, b) {
		want = -1
	} else if less(b, a) {
		want = 1
	}
	if ab != want {
		return fmt.Errorf("CompareAscending(%v,%v) = %d, want %d", a, b, ab, want)
	}
	if ba != -want {
		return fmt.Errorf("CompareAscending(%v,%v) = %d, want %d (antisymmetry)", b, a, ba, -want)
	}
	// transitivity on the triple
	bc := sctime.CompareAscending(tb, tc)
	ac := sctime.CompareAscending(ta, tc)
	if ab <= 0 && bc <= 0 && ac > 0 {
		return fmt.Errorf("not transitive: a<=b<=c but cmp(a,c)=%d for %v %v %v", ac, a, b, c)
	}
	nt := ""
	if a.Sec == b.Sec || (a.Sec-b.Sec > 1 || b.Sec-a.Sec > 1) || (a.Sec > 0) != (b.Sec > 0) {
		nt = fmt.Sprintf("%v|%v|%v", a, b, c)
	}
	lib.Ev.Case(nt, func() any { return fmt.Sprintf("compare %v %v %v", a, b, c) })
	return nil
}

type cmpCase struct{ A, B, C endpoint }

func TestCompareExhaustive(t *testing.T) {
	eps := smallEndpoints()[1:]
	done := false
	lib.Enumerate(t, "TestCompareExhaustive", func(yield func(cmpCase) bool) {
		for _, a := range eps {
			for _, b := range eps {
				for _, c := range eps {
					if !yield(cmpCase{a, b, c}) {
						return
					}
				}
			}
		}
		done = true
	}, func(c cmpCase) error { return checkCompare(c.A, c.B, c.C) })
	lib.Ev.Exhaustive("compare{0..5}x{0,1,999999999}^3", done)
}

func TestCompareRandom(t *testing.T) {
	rapid.Check(t, func(t *rapid.T) {
		g := func(l string) endpoint {
			e := genEndpoint(t, l)
			e.Unbounded = false
			return e
		}
		a, b, c := g("a"), g("b"), g("c")
		if rapid.Bool().Draw(t, "sameSec") {
			b.Sec = a.Sec
		}
		if err := checkCompare(a, b, c); err != nil {
			t.Fatal(err)
		}
	})
}

// TestCompareBoundaryPairs enumerates every ordered pair of endpoints whose seconds sit at a unit-conversion limit of
// the int64 range (or at 0 / +-1) and whose nanoseconds are boundary remainders: the places where a comparison that
// goes through a narrower or converted representation (unix nanoseconds, a Duration, a float) stops being the
// chronological order.
func TestCompareBoundaryPairs(t *testing.T) {
	var eps []endpoint
	secs := []int64{0, 1, -1, math.MaxInt64, math.MinInt64}
	for _, u := range []int64{1e3, 1e6, 1e9} {
		for _, lim := range []int64{math.MaxInt64 / u, math.MinInt64 / u} {
			secs = append(secs, lim-1, lim, lim+1)
		}
	}
	for _, s := range secs {
		for _, n := range boundaryNanos {
			eps = append(eps, endpoint{Sec: s, Nanos: n})
		}
	}
	done := false
	lib.Enumerate(t, "TestCompareBoundaryPairs", func(yield func(cmpCase) bool) {
		for i, a := range eps {
			for _, b := range eps {
				if !yield(cmpCase{a, b, eps[(i*7+3)%len(eps)]}) {
					return
				}
			}
		}
		done = true
	}, func(c cmpCase) error { return checkCompare(c.A, c.B, c.C) })
	lib.Ev.Exhaustive(fmt.Sprintf("compare over %d boundary endpoints (seconds at the ms/us/ns conversion limits of int64, boundary nanos), all ordered pairs", len(eps)), done)
}
