package c18

import (
	"fmt"
	"strings"
	"sync"
	"testing"
	"time"

	"pgregory.net/rapid"

	"github.com/smart-core-os/sc-golang/pkg/trait/electricpb/segmentpb"
	"github.com/smart-core-os/sc-golang/verifh/lib"
)

// TestSumOverlappingCalls: Sum is a function of its arguments alone, so it gives the pointwise sum no matter how many
// other Sum calls run at the same time (nothing may be shared between calls: scratch buffers, pools, caches).
// A few jobs with long lists are drawn, their pointwise sums are computed by the independent step-function reading, and
// then the same calls are made from several goroutines at once; every result is checked at every sample point.
func TestSumOverlappingCalls(t *testing.T) {
	rapid.Check(t, func(t *rapid.T) {
		type job struct {
			lists [][]*seg
			origs [][]*seg
			pts   []time.Duration
			want  []float32
			desc  string
		}
		nj := rapid.IntRange(2, 5).Draw(t, "jobs")
		jobs := make([]*job, nj)
		for j := range jobs {
			jb := &job{}
			nl := rapid.IntRange(2, 4).Draw(t, fmt.Sprintf("j%dlists", j))
			var bps []time.Duration
			var descs []string
			for i := 0; i < nl; i++ {
				label := fmt.Sprintf("j%dl%d", j, i)
				n := rapid.IntRange(10, 80).Draw(t, label+"n")
				l := make([]*seg, 0, n)
				for k := 0; k < n; k++ {
					l = append(l, genSegs(t, fmt.Sprintf("%s_%d", label, k))...)
					if len(l) > 0 && l[len(l)-1].Length == nil {
						break // only the last segment may be infinite
					}
					if len(l) >= n {
						break
					}
				}
				jb.lists = append(jb.lists, l)
				jb.origs = append(jb.origs, cloneSegs(l))
				bps = append(bps, breakpoints(l)...)
				descs = append(descs, fmt.Sprintf("%d segs", len(l)))
			}
			jb.pts = samplePoints(bps)
			for _, p := range jb.pts {
				var w float32
				for _, l := range jb.lists {
					w += stepAt(l, p)
				}
				jb.want = append(jb.want, w)
			}
			jb.desc = strings.Join(descs, " + ")
			jobs[j] = jb
		}
		check := func(jb *job, sum []*seg) error {
			for i, p := range jb.pts {
				if got := stepAt(sum, p); got != jb.want[i] {
					return fmt.Errorf("Sum(%s) = %d segs: at %v got %v want %v", jb.desc, len(sum), p, got, jb.want[i])
				}
			}
			for i, s := range sum {
				if s == nil {
					return fmt.Errorf("Sum(%s) has a nil segment", jb.desc)
				}
				if s.Length == nil && i != len(sum)-1 {
					return fmt.Errorf("Sum(%s) has an infinite segment before the end", jb.desc)
				}
			}
			return nil
		}
		// alone first
		for _, jb := range jobs {
			if err := check(jb, segmentpb.Sum(jb.lists...)); err != nil {
				t.Fatalf("sequential: %v", err)
			}
		}
		goroutines := rapid.IntRange(2, 12).Draw(t, "goroutines")
		rounds := rapid.IntRange(5, 40).Draw(t, "rounds")
		var wg sync.WaitGroup
		errs := make(chan error, goroutines)
		start := make(chan struct{})
		for g := 0; g < goroutines; g++ {
			g := g
			wg.Add(1)
			go func() {
				defer wg.Done()
				<-start
				for r := 0; r < rounds; r++ {
					jb := jobs[(g+r)%len(jobs)]
					if err := check(jb, segmentpb.Sum(jb.lists...)); err != nil {
						select {
						case errs <- fmt.Errorf("goroutine %d call %d (of %d goroutines calling Sum at once): %v", g, r, goroutines, err):
						default:
						}
						return
					}
				}
			}()
		}
		close(start)
		wg.Wait()
		select {
		case err := <-errs:
			t.Fatalf("%v", err)
		default:
		}
		for _, jb := range jobs {
			for i := range jb.lists {
				if !sameSegs(jb.lists[i], jb.origs[i]) {
					t.Fatalf("Sum modified argument %d of job %s", i, jb.desc)
				}
			}
		}
		lib.Ev.Class(fmt.Sprintf("overlapping Sum calls: goroutines>=%d", goroutines/4*4))
		lib.Ev.Case(fmt.Sprintf("conc|%d|%d|%s", goroutines, rounds, jobs[0].desc), func() any {
			return fmt.Sprintf("%d goroutines x %d rounds over %d jobs, first job %s", goroutines, rounds, nj, jobs[0].desc)
		})
	})
}
