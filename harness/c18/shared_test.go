package c18

import (
	"fmt"
	"strings"
	"sync"
	"testing"
	"time"

	"google.golang.org/protobuf/proto"
	"google.golang.org/protobuf/types/known/timestamppb"
	"pgregory.net/rapid"

	"github.com/smart-core-os/sc-api/go/traits"

	"github.com/smart-core-os/sc-golang/pkg/trait/electricpb/modepb"
	"github.com/smart-core-os/sc-golang/verifh/lib"
)

// TestModeOpsOnSharedMode: the mode operations never modify their arguments - not even for a moment. One mode (as a
// model or a cache holds it) is handed to several goroutines that cut, shift, sum and query it at the same time; every
// call must give what the same call gives on a private copy, and the mode must be what it was. Built with the race
// detector: a write to the argument is reported even when it is undone before the call returns.
func TestModeOpsOnSharedMode(t *testing.T) {
	rapid.Check(t, func(t *rapid.T) {
		m := genMode(t, "m")
		other := genMode(t, "o")
		if m.StartTime == nil && rapid.Bool().Draw(t, "giveStart") {
			m.StartTime = timestamppb.New(epoch)
		}
		snap := proto.Clone(m).(*traits.ElectricMode)
		type call struct {
			desc string
			run  func(mode *traits.ElectricMode) string
		}
		var calls []call
		nc := rapid.IntRange(3, 8).Draw(t, "calls")
		sawInside := false
		for i := 0; i < nc; i++ {
			at := epoch.Add(time.Duration(rapid.IntRange(-2000, 12000).Draw(t, fmt.Sprintf("at%d", i))) * time.Millisecond)
			switch rapid.SampledFrom([]string{"cut", "cut", "magnitude", "active", "shift", "sum"}).Draw(t, fmt.Sprintf("op%d", i)) {
			case "cut":
				calls = append(calls, call{fmt.Sprintf("Cut(T%v)", at.Sub(epoch)), func(mode *traits.ElectricMode) string {
					b, a, out := modepb.Cut(at, mode)
					return fmt.Sprintf("before=%s after=%s outside=%v", modeString(b), modeString(a), out)
				}})
			case "magnitude":
				calls = append(calls, call{fmt.Sprintf("MagnitudeAt(T%v)", at.Sub(epoch)), func(mode *traits.ElectricMode) string {
					l, ok := modepb.MagnitudeAt(at, mode)
					return fmt.Sprint(l, ok)
				}})
			case "active":
				calls = append(calls, call{fmt.Sprintf("ActiveAt(T%v)", at.Sub(epoch)), func(mode *traits.ElectricMode) string {
					e, idx := modepb.ActiveAt(at, mode)
					return fmt.Sprint(e, idx)
				}})
			case "shift":
				d := at.Sub(epoch)
				calls = append(calls, call{fmt.Sprintf("Shift(%v)", d), func(mode *traits.ElectricMode) string { return modeString(modepb.Shift(d, mode)) }})
			default:
				calls = append(calls, call{"Sum(m, other)", func(mode *traits.ElectricMode) string { return modeString(modepb.Sum(mode, other)) }})
			}
		}
		// what each call gives on a private copy, one at a time
		want := make([]string, len(calls))
		for i, c := range calls {
			res, err := noPanicStr(func() string { return c.run(proto.Clone(m).(*traits.ElectricMode)) })
			if err != nil {
				// whether an operation rejects this mode is TestModeOps' business
				lib.Ev.Case("", nil)
				return
			}
			want[i] = res
			if strings.HasPrefix(c.desc, "Cut") && strings.Contains(res, "outside=false") && !strings.Contains(res, "<nil>") {
				sawInside = true
			}
		}
		// the same calls, all on the one shared mode, at the same time, a few rounds
		var wg sync.WaitGroup
		errs := make(chan string, len(calls)*4)
		start := make(chan struct{})
		for r := 0; r < 3; r++ {
			for i, c := range calls {
				i, c := i, c
				wg.Add(1)
				go func() {
					defer wg.Done()
					<-start
					got, err := noPanicStr(func() string { return c.run(m) })
					if err != nil {
						errs <- fmt.Sprintf("%s on the shared mode panicked: %v", c.desc, err)
					} else if got != want[i] {
						errs <- fmt.Sprintf("%s on the shared mode (other calls in flight) gave %s, on a private copy %s", c.desc, got, want[i])
					}
				}()
			}
		}
		close(start)
		wg.Wait()
		close(errs)
		for e := range errs {
			t.Fatalf("%s\nmode: %s", e, modeString(snap))
		}
		if !proto.Equal(m, snap) {
			t.Fatalf("the shared mode was changed: %s, was %s", modeString(m), modeString(snap))
		}
		nt := ""
		if sawInside {
			nt = modeString(snap) + "|" + fmt.Sprint(len(calls))
			lib.Ev.Class("shared-mode: a cut strictly inside the mode among the concurrent calls")
		}
		lib.Ev.Case(nt, func() any { return fmt.Sprintf("%d concurrent calls x3 on %s", len(calls), modeString(snap)) })
	})
}

func noPanicStr(f func() string) (res string, err error) {
	defer func() {
		if r := recover(); r != nil {
			lib.RethrowRapid(r)
			err = fmt.Errorf("%v", r)
		}
	}()
	return f(), nil
}
