package c12

import (
	"fmt"
	"sync"
	"sync/atomic"
	"testing"

	"pgregory.net/rapid"

	"github.com/smart-core-os/sc-golang/pkg/router"
	"github.com/smart-core-os/sc-golang/verifh/lib"
)

// regOp is one registry call of a duel; res is what it returned.
type regOp struct {
	kind string // add | remove | get
	c    *client
	res  any
}

func (o regOp) String() string {
	if o.kind == "add" {
		return fmt.Sprintf("Add(%s)", o.c.tag)
	}
	return o.kind
}

// explain replays ops in the given order on a plain map and reports whether the recorded results, the final content and
// the change callbacks are what that order produces.
func explain(initial *client, ops []regOp, order []int, final any, changes []router.Change) bool {
	var cur any
	if initial != nil {
		cur = initial
	}
	var want []router.Change
	for _, i := range order {
		o := ops[i]
		switch o.kind {
		case "add":
			if o.res != cur {
				return false
			}
			want = append(want, router.Change{Name: "n", Old: cur, New: o.c})
			cur = o.c
		case "remove":
			if o.res != cur {
				return false
			}
			if cur != nil {
				want = append(want, router.Change{Name: "n", Old: cur})
			}
			cur = nil
		case "get":
			if o.res != cur {
				return false
			}
		}
	}
	if cur != final || len(want) != len(changes) {
		return false
	}
	// callbacks of concurrent calls may fire in either order: compare as multisets
	used := make([]bool, len(changes))
	for _, w := range want {
		found := false
		for k, c := range changes {
			if !used[k] && c == w {
				used[k], found = true, true
				break
			}
		}
		if !found {
			return false
		}
	}
	return true
}

// TestRouterConcurrentMutations: two or three registry calls on one name released together, many rounds per drawn
// combination: what they return, what the registry holds afterwards and the change callbacks must be what some
// one-at-a-time order of the calls produces (the registry behaves as a map).
func TestRouterConcurrentMutations(t *testing.T) {
	rounds := lib.Scale(300, 1500)
	rapid.Check(t, func(t *rapid.T) {
		hasInitial := rapid.IntRange(0, 3).Draw(t, "initial") > 0
		n := rapid.IntRange(2, 3).Draw(t, "calls")
		kinds := make([]string, n)
		for i := range kinds {
			kinds[i] = rapid.SampledFrom([]string{"remove", "remove", "add", "get"}).Draw(t, "kind")
		}
		desc := fmt.Sprintf("initial=%v calls=%v", hasInitial, kinds)
		perms := permutations(n)
		for round := 0; round < rounds; round++ {
			var mu sync.Mutex
			var changes []router.Change
			r := router.NewRouter(router.WithOnChange(func(c router.Change) { mu.Lock(); changes = append(changes, c); mu.Unlock() }))
			var initial *client
			if hasInitial {
				initial = &client{tag: "c0"}
				r.Add("n", initial)
				changes = nil
			}
			ops := make([]regOp, n)
			var start atomic.Bool
			var wg sync.WaitGroup
			for i := range ops {
				i := i
				ops[i] = regOp{kind: kinds[i], c: &client{tag: fmt.Sprintf("c%d", i+1)}}
				wg.Add(1)
				go func() {
					defer wg.Done()
					for !start.Load() {
					}
					spin(((round * (i + 1)) % 16) * 4)
					switch ops[i].kind {
					case "add":
						ops[i].res = r.Add("n", ops[i].c)
					case "remove":
						ops[i].res = r.Remove("n")
					case "get":
						if c, err := r.Get("n"); err == nil {
							ops[i].res = c
						}
					}
				}()
			}
			start.Store(true)
			wg.Wait()
			var final any
			if c, err := r.Get("n"); err == nil {
				final = c
			}
			if r.Has("n") != (final != nil) {
				t.Fatalf("%s round %d: Has and Get disagree afterwards", desc, round)
			}
			mu.Lock()
			got := append([]router.Change(nil), changes...)
			mu.Unlock()
			ok := false
			for _, p := range perms {
				if explain(initial, ops, p, final, got) {
					ok = true
					break
				}
			}
			if !ok {
				var rs []string
				for _, o := range ops {
					rs = append(rs, fmt.Sprintf("%v=>%v", o, tagOf(o.res)))
				}
				t.Fatalf("%s round %d: no one-at-a-time order explains the outcome: results %v, registry holds %v afterwards, change callbacks %s", desc, round, rs, tagOf(final), changesString(got))
			}
		}
		lib.Ev.Class("registry:concurrent mutations")
		lib.Ev.ClassN("registry:concurrent rounds", int64(rounds))
		lib.Ev.Case("conc|"+desc, func() any { return fmt.Sprintf("%d rounds of %s", rounds, desc) })
	})
}

var spinSink atomic.Int64

func spin(n int) {
	for i := 0; i < n; i++ {
		spinSink.Add(1)
	}
}

func tagOf(c any) string {
	if cl, ok := c.(*client); ok && cl != nil {
		return cl.tag
	}
	return "<none>"
}

func changesString(cs []router.Change) string {
	var out []string
	for _, c := range cs {
		out = append(out, fmt.Sprintf("{old=%s new=%s auto=%v}", tagOf(c.Old), tagOf(c.New), c.Auto))
	}
	return fmt.Sprint(out)
}

func permutations(n int) [][]int {
	if n == 0 {
		return [][]int{{}}
	}
	var out [][]int
	var rec func(cur []int, used []bool)
	rec = func(cur []int, used []bool) {
		if len(cur) == n {
			out = append(out, append([]int(nil), cur...))
			return
		}
		for i := 0; i < n; i++ {
			if !used[i] {
				used[i] = true
				rec(append(cur, i), used)
				used[i] = false
			}
		}
	}
	rec(nil, make([]bool, n))
	return out
}
