package c12

import (
	"bytes"
	"fmt"
	"os"
	"os/exec"
	"path/filepath"
	"regexp"
	"sort"
	"strings"
	"testing"

	"google.golang.org/protobuf/proto"
	"google.golang.org/protobuf/reflect/protodesc"
	"google.golang.org/protobuf/reflect/protoreflect"
	"google.golang.org/protobuf/reflect/protoregistry"
	"google.golang.org/protobuf/types/descriptorpb"
	"google.golang.org/protobuf/types/pluginpb"

	_ "github.com/smart-core-os/sc-api/go/traits"
	_ "github.com/smart-core-os/sc-golang/pkg/trait/electricpb"
	"github.com/smart-core-os/sc-golang/verifh/lib"
)

// protosInGenFiles lists the proto files named by the go:generate lines of pkg/trait/*/gen.go, as registry paths.
func protosInGenFiles(repo string) (map[string][]string, error) {
	out := map[string][]string{} // trait package dir -> registry paths
	files, err := filepath.Glob(filepath.Join(repo, "pkg/trait/*/gen.go"))
	if err != nil {
		return nil, err
	}
	re := regexp.MustCompile(`\S+\.proto`)
	for _, f := range files {
		b, err := os.ReadFile(f)
		if err != nil {
			return nil, err
		}
		for _, line := range strings.Split(string(b), "\n") {
			if !strings.Contains(line, "go:generate") || !strings.Contains(line, "router_out") {
				continue
			}
			for _, p := range re.FindAllString(line, -1) {
				p = strings.TrimPrefix(p, "github.com/smart-core-os/sc-api/protobuf/")
				out[filepath.Base(filepath.Dir(f))] = append(out[filepath.Base(filepath.Dir(f))], p)
			}
		}
	}
	return out, nil
}

var importBlock = regexp.MustCompile(`(?s)import \((.*?)\n\)`)
var importLine = regexp.MustCompile(`"([^"]+)"`)

// normalize makes the comparison insensitive to how the import block is laid out (grouping, blank lines, redundant
// aliases - what goimports changes): the set of imported paths and everything outside the import block must match.
func normalize(content string) string {
	var paths []string
	rest := importBlock.ReplaceAllStringFunc(content, func(block string) string {
		for _, m := range importLine.FindAllStringSubmatch(block, -1) {
			paths = append(paths, m[1])
		}
		return "import ()"
	})
	sort.Strings(paths)
	return strings.Join(paths, "\n") + "\n----\n" + rest
}

func depsOf(fd protoreflect.FileDescriptor, seen map[string]bool, out *[]*descriptorpb.FileDescriptorProto) {
	if seen[fd.Path()] {
		return
	}
	seen[fd.Path()] = true
	imps := fd.Imports()
	for i := 0; i < imps.Len(); i++ {
		depsOf(imps.Get(i).FileDescriptor, seen, out)
	}
	*out = append(*out, protodesc.ToFileDescriptorProto(fd))
}

func runPlugin(bin string, path string) (map[string]string, error) {
	fd, err := protoregistry.GlobalFiles.FindFileByPath(path)
	if err != nil {
		return nil, fmt.Errorf("proto %q named in a gen.go is not in the protobuf registry: %v", path, err)
	}
	var files []*descriptorpb.FileDescriptorProto
	depsOf(fd, map[string]bool{}, &files)
	req := &pluginpb.CodeGeneratorRequest{FileToGenerate: []string{path}, ProtoFile: files}
	in, err := proto.Marshal(req)
	if err != nil {
		return nil, err
	}
	cmd := exec.Command(bin)
	cmd.Stdin = bytes.NewReader(in)
	var stdout, stderr bytes.Buffer
	cmd.Stdout, cmd.Stderr = &stdout, &stderr
	if err := cmd.Run(); err != nil {
		return nil, fmt.Errorf("%s on %s: %v: %s", filepath.Base(bin), path, err, stderr.String())
	}
	var resp pluginpb.CodeGeneratorResponse
	if err := proto.Unmarshal(stdout.Bytes(), &resp); err != nil {
		return nil, err
	}
	if resp.Error != nil {
		return nil, fmt.Errorf("%s on %s: %s", filepath.Base(bin), path, resp.GetError())
	}
	out := map[string]string{}
	for _, f := range resp.File {
		out[f.GetName()] = f.GetContent()
	}
	return out, nil
}

// TestGeneratedCodeIsCurrent: the checked-in routers and wrappers are exactly what the generators produce from the
// current API descriptors (compared by content per package; file names are not compared).
func TestGeneratedCodeIsCurrent(t *testing.T) {
	repo := os.Getenv("VERIF_REPO")
	plugins := os.Getenv("VERIF_PLUGIN_DIR")
	if repo == "" || plugins == "" {
		t.Fatal("VERIF_REPO / VERIF_PLUGIN_DIR not set (run through ./check)")
	}
	protos, err := protosInGenFiles(repo)
	if err != nil {
		t.Fatal(err)
	}
	if len(protos) < 30 {
		t.Fatalf("only %d trait packages with go:generate lines found", len(protos))
	}
	var dirs []string
	for d := range protos {
		dirs = append(dirs, d)
	}
	sort.Strings(dirs)
	nfiles := 0
	for _, kind := range []struct{ bin, suffix string }{{"protoc-gen-router", "_router.pb.go"}, {"protoc-gen-wrapper", "_wrap.pb.go"}} {
		generated := map[string][]string{} // package dir -> contents
		genNames := map[string][]string{}
		for _, d := range dirs {
			for _, p := range protos[d] {
				files, err := runPlugin(filepath.Join(plugins, kind.bin), p)
				if err != nil {
					t.Fatal(err)
				}
				for name, content := range files {
					if dump := os.Getenv("VERIF_DUMP_GENERATED"); dump != "" {
						_ = os.MkdirAll(filepath.Join(dump, filepath.Dir(name)), 0o755)
						_ = os.WriteFile(filepath.Join(dump, name), []byte(content), 0o644)
					}
					pd := filepath.Base(filepath.Dir(name))
					generated[pd] = append(generated[pd], content)
					genNames[pd] = append(genNames[pd], name)
				}
			}
		}
		allDirs, _ := filepath.Glob(filepath.Join(repo, "pkg/trait/*"))
		for _, dir := range allDirs {
			pd := filepath.Base(dir)
			checked, _ := filepath.Glob(filepath.Join(dir, "*"+kind.suffix))
			var have []string
			for _, f := range checked {
				b, err := os.ReadFile(f)
				if err != nil {
					t.Fatal(err)
				}
				have = append(have, normalize(string(b)))
			}
			var want []string
			for _, g := range generated[pd] {
				want = append(want, normalize(g))
			}
			sort.Strings(have)
			sort.Strings(want)
			nfiles += len(have)
			if len(have) != len(want) {
				t.Fatalf("package %s has %d checked-in *%s files, the generator produces %d (%v) from the protos named in its gen.go", pd, len(have), kind.suffix, len(want), genNames[pd])
			}
			for i := range have {
				if have[i] != want[i] {
					// find which file
					for _, f := range checked {
						b, _ := os.ReadFile(f)
						found := false
						for _, w := range want {
							if w == normalize(string(b)) {
								found = true
							}
						}
						if !found {
							t.Fatalf("%s is not what %s produces from the current API descriptors (stale or hand edited): an RPC may be left unrouted", strings.TrimPrefix(f, repo+"/"), kind.bin)
						}
					}
					t.Fatalf("package %s: generated %s output does not match the checked-in files", pd, kind.suffix)
				}
			}
		}
	}
	lib.Ev.Class("generator-differential")
	lib.Ev.ClassN("generated files compared", int64(nfiles))
	lib.Ev.Case("generator-differential", func() any {
		return fmt.Sprintf("regenerated routers and wrappers for %d trait packages and compared %d checked-in files by content", len(dirs), nfiles)
	})
	lib.Ev.Case("generator-differential-2", nil)
}
