package c12

import (
	"time"
	"errors"
	"fmt"
	"strings"
	"sync"
	"testing"

	"google.golang.org/grpc/codes"
	"google.golang.org/grpc/status"
	"pgregory.net/rapid"

	"github.com/smart-core-os/sc-golang/internal/verifhook"
	"github.com/smart-core-os/sc-golang/pkg/router"
	"github.com/smart-core-os/sc-golang/verifh/lib"
)

type client struct{ tag string }

// scripted factory / fallback: per name "client" | "nil" | "error"
type scripted struct {
	behaviour map[string]string
	calls     []string
	made      int
}

func (s *scripted) fn(kind string) router.Factory {
	return func(name string) (any, error) {
		s.calls = append(s.calls, kind+":"+name)
		switch s.behaviour[name] {
		case "client":
			s.made++
			return &client{tag: fmt.Sprintf("%s-%s-%d", kind, name, s.made)}, nil
		case "error":
			return nil, errors.New("cannot make " + name)
		case "status-error":
			// e.g. the node that would host the name cannot be reached: still "no client for that name" to the router's caller
			return nil, status.Error(codes.Unavailable, "cannot reach the node of "+name)
		case "wrapped-status-error":
			return nil, fmt.Errorf("dialling %s: %w", name, status.Error(codes.DeadlineExceeded, "too slow"))
		case "half-built":
			// a client was constructed but setting it up failed: an error is an error, whatever comes with it
			return &client{tag: fmt.Sprintf("%s-%s-halfbuilt", kind, name)}, errors.New("dial failed for " + name)
		}
		return nil, nil
	}
}

var names = []string{"a", "b", "c", ""}

// TestRouterRegistry: the registry behaves as a map with fallback and factory; change callbacks report exactly the transitions.
func TestRouterRegistry(t *testing.T) {
	rapid.Check(t, func(t *rapid.T) {
		var opts []router.Option
		var factory, fallback *scripted
		beh := func(label string) map[string]string {
			m := map[string]string{}
			for _, n := range names {
				m[n] = rapid.SampledFrom([]string{"client", "client", "nil", "error", "status-error", "wrapped-status-error", "half-built"}).Draw(t, label+n)
			}
			return m
		}
		if rapid.Bool().Draw(t, "hasFactory") {
			factory = &scripted{behaviour: beh("factory-")}
			opts = append(opts, router.WithFactory(factory.fn("factory")))
		}
		if rapid.Bool().Draw(t, "hasFallback") {
			fallback = &scripted{behaviour: beh("fallback-")}
			opts = append(opts, router.WithFallback(fallback.fn("fallback")))
		}
		var changes []router.Change
		// some listeners consult the router they listen to (no locks are held when callbacks are invoked): what they see
		// is the registry after the transition they are told about
		reenter := rapid.Bool().Draw(t, "listenerConsultsRouter")
		var r router.Router
		var reentry string
		opts = append(opts, router.WithOnChange(func(c router.Change) {
			changes = append(changes, c)
			if !reenter || reentry != "" {
				return
			}
			done := make(chan bool, 1)
			go func() { done <- r.Has(c.Name) }()
			select {
			case has := <-done:
				if has != (c.New != nil) {
					reentry = fmt.Sprintf("inside the callback for %+v, Has(%q) = %v", c, c.Name, has)
				}
			case <-time.After(3 * time.Second):
				reentry = fmt.Sprintf("inside the callback for %+v, Has(%q) had not returned after 3s: the router is locked while it calls back", c, c.Name)
			}
		}))
		r = router.NewRouter(opts...)
		model := map[string]any{}
		var wantChanges []router.Change
		var hist []string
		sawReplace, sawRemoveGet := false, false
		removed := map[string]bool{}
		n := rapid.IntRange(1, 25).Draw(t, "steps")
		seq := 0
		for i := 0; i < n; i++ {
			name := rapid.SampledFrom(names).Draw(t, "name")
			switch rapid.SampledFrom([]string{"add", "remove", "has", "get", "get"}).Draw(t, "op") {
			case "add":
				seq++
				c := &client{tag: fmt.Sprintf("added-%d", seq)}
				old := r.Add(name, c)
				hist = append(hist, "add("+name+")")
				want, had := model[name]
				if had {
					sawReplace = true
				}
				if (old == nil) != !had || (had && old != want) {
					t.Fatalf("Add(%q) returned %v, the previous client was %v\nhistory: %s", name, old, want, strings.Join(hist, " "))
				}
				var oldC any
				if had {
					oldC = want
				}
				model[name] = c
				wantChanges = append(wantChanges, router.Change{Name: name, Old: oldC, New: c})
			case "remove":
				old := r.Remove(name)
				hist = append(hist, "remove("+name+")")
				want, had := model[name]
				if (old == nil) != !had || (had && old != want) {
					t.Fatalf("Remove(%q) returned %v, the registered client was %v\nhistory: %s", name, old, want, strings.Join(hist, " "))
				}
				if had {
					delete(model, name)
					removed[name] = true
					wantChanges = append(wantChanges, router.Change{Name: name, Old: want})
				}
			case "has":
				got := r.Has(name)
				hist = append(hist, "has("+name+")")
				if _, had := model[name]; got != had {
					t.Fatalf("Has(%q)=%v, registry model says %v\nhistory: %s", name, got, had, strings.Join(hist, " "))
				}
			case "get":
				var fbBefore, facBefore int
				if fallback != nil {
					fbBefore = len(fallback.calls)
				}
				if factory != nil {
					facBefore = len(factory.calls)
				}
				got, err := r.Get(name)
				hist = append(hist, "get("+name+")")
				if removed[name] {
					sawRemoveGet = true
				}
				if want, had := model[name]; had {
					if err != nil || got != want {
						t.Fatalf("Get(%q)=(%v,%v), registered client is %v\nhistory: %s", name, got, err, want, strings.Join(hist, " "))
					}
					if (fallback != nil && len(fallback.calls) != fbBefore) || (factory != nil && len(factory.calls) != facBefore) {
						t.Fatalf("Get(%q) consulted fallback/factory although the name is registered\nhistory: %s", name, strings.Join(hist, " "))
					}
					continue
				}
				// registry miss: fallback (not remembered), then factory (remembered once)
				if fallback != nil {
					if len(fallback.calls) != fbBefore+1 {
						t.Fatalf("Get(%q) on a miss called the fallback %d times\nhistory: %s", name, len(fallback.calls)-fbBefore, strings.Join(hist, " "))
					}
					if fallback.behaviour[name] == "client" {
						c, ok := got.(*client)
						if err != nil || !ok || !strings.HasPrefix(c.tag, "fallback-"+name) {
							t.Fatalf("Get(%q)=(%v,%v), want the fallback's client\nhistory: %s", name, got, err, strings.Join(hist, " "))
						}
						if r.Has(name) {
							t.Fatalf("a fallback client for %q was remembered\nhistory: %s", name, strings.Join(hist, " "))
						}
						if factory != nil && len(factory.calls) != facBefore {
							t.Fatalf("factory consulted although the fallback supplied a client")
						}
						continue
					}
				}
				if factory != nil {
					if len(factory.calls) != facBefore+1 {
						t.Fatalf("Get(%q) on a miss called the factory %d times\nhistory: %s", name, len(factory.calls)-facBefore, strings.Join(hist, " "))
					}
					if factory.behaviour[name] == "client" {
						c, ok := got.(*client)
						if err != nil || !ok || !strings.HasPrefix(c.tag, "factory-"+name) {
							t.Fatalf("Get(%q)=(%v,%v), want the factory's client\nhistory: %s", name, got, err, strings.Join(hist, " "))
						}
						model[name] = got
						wantChanges = append(wantChanges, router.Change{Name: name, New: got, Auto: true})
						if !r.Has(name) {
							t.Fatalf("the factory client for %q was not remembered\nhistory: %s", name, strings.Join(hist, " "))
						}
						continue
					}
				}
				if status.Code(err) != codes.NotFound || got != nil {
					t.Fatalf("Get(%q)=(%v,%v) with no client available, want NotFound\nhistory: %s", name, got, err, strings.Join(hist, " "))
				}
			}
		}
		if reentry != "" {
			t.Fatalf("%s\nhistory: %s", reentry, strings.Join(hist, " "))
		}
		if len(changes) != len(wantChanges) {
			t.Fatalf("change callback fired %d times, the model has %d transitions\n got  %+v\n want %+v\nhistory: %s", len(changes), len(wantChanges), changes, wantChanges, strings.Join(hist, " "))
		}
		for i := range changes {
			if changes[i] != wantChanges[i] {
				t.Fatalf("change %d is %+v, want %+v\nhistory: %s", i, changes[i], wantChanges[i], strings.Join(hist, " "))
			}
		}
		nt := ""
		if sawReplace && sawRemoveGet && factory != nil {
			nt = "reg|" + strings.Join(hist, " ")
		}
		lib.Ev.Class("registry")
		lib.Ev.Case(nt, func() any { return "registry " + strings.Join(hist, " ") })
	})
}

// TestRouterConcurrentFirstGet: a second Get of the same unknown name forced into the windows of the first (and
// goroutine stress): both return the one committed client, exactly one Auto change.
func TestRouterConcurrentFirstGet(t *testing.T) {
	if !verifhook.Enabled {
		t.Fatal("hooks are not compiled in (build with -tags verif)")
	}
	rapid.Check(t, func(t *rapid.T) {
		var mu sync.Mutex
		made := 0
		var changes []router.Change
		r := router.NewRouter(
			router.WithFactory(func(name string) (any, error) {
				mu.Lock()
				defer mu.Unlock()
				made++
				return &client{tag: fmt.Sprintf("made-%d", made)}, nil
			}),
			router.WithOnChange(func(c router.Change) { mu.Lock(); changes = append(changes, c); mu.Unlock() }),
		)
		mode := rapid.SampledFrom([]string{"router.get.afterMiss", "router.get.beforeInsert", "stress"}).Draw(t, "mode")
		var results []any
		if mode == "stress" {
			n := rapid.IntRange(2, 8).Draw(t, "goroutines")
			var wg sync.WaitGroup
			res := make([]any, n)
			for i := 0; i < n; i++ {
				i := i
				wg.Add(1)
				go func() {
					defer wg.Done()
					c, err := r.Get("x")
					if err != nil {
						panic(err)
					}
					res[i] = c
				}()
			}
			wg.Wait()
			results = res
		} else {
			depth := 0
			nested := rapid.IntRange(1, 3).Draw(t, "nested")
			verifhook.Set(func(point string) {
				if point != mode || depth >= nested {
					return
				}
				depth++
				c, err := r.Get("x")
				if err != nil {
					panic(err)
				}
				results = append(results, c)
			})
			c, err := r.Get("x")
			verifhook.Set(nil)
			if err != nil {
				t.Fatalf("Get: %v", err)
			}
			results = append(results, c)
		}
		committed, err := r.Get("x")
		if err != nil {
			t.Fatalf("Get after: %v", err)
		}
		for i, c := range results {
			if c != committed {
				t.Fatalf("%s: concurrent first Get #%d returned %v but the committed client is %v (requests must go to the registered client)", mode, i, c, committed)
			}
		}
		mu.Lock()
		defer mu.Unlock()
		if len(changes) != 1 || !changes[0].Auto || changes[0].New != committed {
			t.Fatalf("%s: change callbacks %+v, want exactly one Auto commit of %v", mode, changes, committed)
		}
		lib.Ev.Class("firstget:" + mode)
		lib.Ev.Case(fmt.Sprintf("firstget|%s|%d", mode, len(results)), func() any {
			return fmt.Sprintf("concurrent first Get via %s, %d callers, factory ran %d times", mode, len(results), made)
		})
	})
}
