package c12

import (
	"context"
	"fmt"
	"testing"

	"google.golang.org/grpc"
	"google.golang.org/grpc/metadata"
	"google.golang.org/protobuf/proto"
	"google.golang.org/protobuf/reflect/protoreflect"
	"google.golang.org/protobuf/types/dynamicpb"
	"pgregory.net/rapid"

	"github.com/smart-core-os/sc-golang/internal/testproto"
	"github.com/smart-core-os/sc-golang/pkg/middleware/name"
	"github.com/smart-core-os/sc-golang/verifh/lib"
)

type oneShotStream struct {
	grpc.ServerStream
	msg proto.Message
}

func (s *oneShotStream) RecvMsg(m any) error {
	if pm, ok := m.(proto.Message); ok {
		proto.Merge(pm, s.msg)
	}
	return nil
}
func (s *oneShotStream) Context() context.Context     { return context.Background() }
func (s *oneShotStream) SetHeader(metadata.MD) error  { return nil }
func (s *oneShotStream) SendHeader(metadata.MD) error { return nil }
func (s *oneShotStream) SetTrailer(metadata.MD)       {}
func (s *oneShotStream) SendMsg(any) error            { return nil }

// multiShotStream delivers the same request message on every RecvMsg.
type multiShotStream struct{ oneShotStream }

func (s *multiShotStream) RecvMsg(m any) error {
	if pm, ok := m.(proto.Message); ok {
		proto.Merge(pm, s.msg)
	}
	return nil
}

// TestDefaultName: the interceptors fill in only empty names and modify nothing else.
func TestDefaultName(t *testing.T) {
	rapid.Check(t, func(t *rapid.T) {
		var req proto.Message
		hasName := true
		switch rapid.IntRange(0, 3).Draw(t, "kind") {
		case 0: // a message without a name field
			req = lib.GenMessage(t, "req", &testproto.UnaryRequest{}, mgen)
			hasName = false
		default:
			e := discoveredRouters[rapid.IntRange(0, len(discoveredRouters)-1).Draw(t, "router")]
			methods, err := methodsOf(e)
			if err != nil {
				t.Fatal(err)
			}
			if len(methods) == 0 {
				return
			}
			mi := methods[rapid.IntRange(0, len(methods)-1).Draw(t, "method")]
			p, _, err := newMsg(mi.desc.Input())
			if err != nil {
				t.Fatal(err)
			}
			req = lib.GenMessage(t, "req", p, mgen)
			fd := req.ProtoReflect().Descriptor().Fields().ByName("name")
			hasName = fd != nil && fd.Kind() == protoreflect.StringKind && !fd.IsList()
			if hasName {
				req.ProtoReflect().Set(fd, protoreflect.ValueOfString(rapid.OneOf(rapid.SampledFrom([]string{"", "", "given", "x", " ", "\t", "\n", "  ", " x", "x ", "\x00", "0", "default-name", "\u00a0", "\u200b"}), rapid.StringN(0, 3, 8)).Draw(t, "name")))
			}
		}
		if rapid.IntRange(0, 2).Draw(t, "heldAsDynamic") == 1 {
			// what a generic proxy or gateway in front of the routers decodes into: one Go type for every message type
			if b, err := proto.Marshal(req); err == nil {
				d := dynamicpb.NewMessage(req.ProtoReflect().Descriptor())
				if proto.Unmarshal(b, d) == nil {
					req = d
					lib.Ev.Class("default-name: request held as dynamicpb")
				}
			}
		}
		def := rapid.SampledFrom([]string{"default-name", "d"}).Draw(t, "default")
		want := proto.Clone(req)
		if hasName {
			fd := want.ProtoReflect().Descriptor().Fields().ByName("name")
			if want.ProtoReflect().Get(fd).String() == "" {
				want.ProtoReflect().Set(fd, protoreflect.ValueOfString(def))
			}
		}
		// unary
		u := proto.Clone(req)
		var seen proto.Message
		_, err := name.IfAbsentUnaryInterceptor(def)(context.Background(), u, &grpc.UnaryServerInfo{}, func(ctx context.Context, r any) (any, error) {
			seen = r.(proto.Message)
			return nil, nil
		})
		if err != nil || !proto.Equal(seen, want) {
			t.Fatalf("unary interceptor: handler saw {%v}, want {%v} (request {%v}, default %q)", seen, want, req, def)
		}
		// non-message requests pass through untouched
		if _, err := name.IfAbsentUnaryInterceptor(def)(context.Background(), "not a message", &grpc.UnaryServerInfo{}, func(ctx context.Context, r any) (any, error) {
			if r != "not a message" {
				t.Fatalf("non-message request altered: %v", r)
			}
			return nil, nil
		}); err != nil {
			t.Fatal(err)
		}
		// stream
		var got proto.Message
		err = name.IfAbsentStreamInterceptor(def)(nil, &oneShotStream{msg: req}, &grpc.StreamServerInfo{}, func(srv any, ss grpc.ServerStream) error {
			m := req.ProtoReflect().New().Interface()
			if err := ss.RecvMsg(m); err != nil {
				return err
			}
			got = m
			return nil
		})
		if err != nil || !proto.Equal(got, want) {
			t.Fatalf("stream interceptor: handler received {%v}, want {%v} (request {%v}, default %q)", got, want, req, def)
		}
		// a client-streaming or bidi call: every request message of the stream gets the default, not only the first
		msgs := rapid.IntRange(2, 4).Draw(t, "streamMessages")
		multi := &multiShotStream{oneShotStream{msg: req}}
		err = name.IfAbsentStreamInterceptor(def)(nil, multi, &grpc.StreamServerInfo{IsClientStream: true}, func(srv any, ss grpc.ServerStream) error {
			for i := 0; i < msgs; i++ {
				m := req.ProtoReflect().New().Interface()
				if err := ss.RecvMsg(m); err != nil {
					return err
				}
				if !proto.Equal(m, want) {
					return fmt.Errorf("request message %d of the stream arrived as {%v}, want {%v}", i+1, m, want)
				}
			}
			return nil
		})
		if err != nil {
			t.Fatalf("stream interceptor on a stream of %d request messages: %v (request {%v}, default %q)", msgs, err, req, def)
		}
		nt := ""
		if hasName {
			nt = string(req.ProtoReflect().Descriptor().FullName()) + "|" + def + "|" + want.ProtoReflect().Get(want.ProtoReflect().Descriptor().Fields().ByName("name")).String()
		}
		lib.Ev.Class("default-name")
		lib.Ev.Case(nt, func() any { return "default name on " + string(req.ProtoReflect().Descriptor().FullName()) })
	})
}
