package c12

import (
	"time"
	"context"
	"errors"
	"fmt"
	"io"
	"sort"
	"strings"
	"sync"
	"testing"

	"google.golang.org/grpc"
	"google.golang.org/grpc/codes"
	"google.golang.org/grpc/metadata"
	"google.golang.org/grpc/status"
	"google.golang.org/protobuf/proto"
	"google.golang.org/protobuf/reflect/protoreflect"
	"google.golang.org/protobuf/reflect/protoregistry"
	"pgregory.net/rapid"

	"github.com/smart-core-os/sc-golang/pkg/router"
	"github.com/smart-core-os/sc-golang/verifh/lib"
)

// routerEntry is filled by the discovery generator (zz_registry_gen_test.go).
type routerEntry struct {
	Name      string
	File      string
	New       func(opts ...router.Option) any
	Desc      *grpc.ServiceDesc
	NewClient func(cc grpc.ClientConnInterface) any
}

var mgen = lib.GenOpts{FieldProb: -1, Target: 3, MaxDepth: 2, MaxElems: 2}

// script: what the fake client connection plays back.
type script struct {
	header   metadata.MD
	trailer  metadata.MD
	messages []proto.Message
	final    error // nil = OK / io.EOF
	// caller side: the recording server stream fails its k-th Send (-1: never)
	callerFailAt int
	// the child's header only becomes available after this long (a device that is slow to answer): real time
	headerDelay time.Duration
}

type call struct {
	method string
	req    []byte
	stream bool
	ctx    context.Context
}

// fakeConn is a grpc.ClientConnInterface that records calls and plays a script.
type fakeConn struct {
	mu     sync.Mutex
	name   string
	calls  []call
	script script
	out    protoreflect.MessageType
}

func (c *fakeConn) Invoke(ctx context.Context, method string, args any, reply any, opts ...grpc.CallOption) error {
	b, _ := proto.MarshalOptions{Deterministic: true}.Marshal(args.(proto.Message))
	c.mu.Lock()
	c.calls = append(c.calls, call{method: method, req: b, ctx: ctx})
	s := c.script
	c.mu.Unlock()
	if s.final != nil {
		return s.final
	}
	if len(s.messages) > 0 {
		proto.Merge(reply.(proto.Message), s.messages[0])
	}
	return nil
}

func (c *fakeConn) NewStream(ctx context.Context, desc *grpc.StreamDesc, method string, opts ...grpc.CallOption) (grpc.ClientStream, error) {
	c.mu.Lock()
	c.calls = append(c.calls, call{method: method, stream: true, ctx: ctx})
	idx := len(c.calls) - 1
	c.mu.Unlock()
	return &fakeClientStream{conn: c, ctx: ctx, callIdx: idx}, nil
}

type fakeClientStream struct {
	conn    *fakeConn
	ctx     context.Context
	callIdx int
	next    int
}

func (s *fakeClientStream) Header() (metadata.MD, error) {
	if d := s.conn.script.headerDelay; d > 0 {
		select {
		case <-time.After(d):
		case <-s.ctx.Done():
			return nil, s.ctx.Err()
		}
	}
	return s.conn.script.header, nil
}
func (s *fakeClientStream) Trailer() metadata.MD         { return s.conn.script.trailer }
func (s *fakeClientStream) CloseSend() error             { return nil }
func (s *fakeClientStream) Context() context.Context     { return s.ctx }
func (s *fakeClientStream) SendMsg(m any) error {
	b, _ := proto.MarshalOptions{Deterministic: true}.Marshal(m.(proto.Message))
	s.conn.mu.Lock()
	s.conn.calls[s.callIdx].req = b
	s.conn.mu.Unlock()
	return nil
}
func (s *fakeClientStream) RecvMsg(m any) error {
	sc := s.conn.script
	if s.next < len(sc.messages) {
		proto.Merge(m.(proto.Message), sc.messages[s.next])
		s.next++
		return nil
	}
	if sc.final != nil {
		return sc.final
	}
	return io.EOF
}

// recServerStream is the caller's side of a server-streaming call.
type recServerStream struct {
	ctx        context.Context
	req        proto.Message
	recvd      bool
	header     metadata.MD
	headerSent bool
	trailer    metadata.MD
	sent       []proto.Message
	failAt     int
}

func (s *recServerStream) SetHeader(md metadata.MD) error {
	s.header = metadata.Join(s.header, md)
	return nil
}
func (s *recServerStream) SendHeader(md metadata.MD) error {
	s.header = metadata.Join(s.header, md)
	s.headerSent = true
	return nil
}
func (s *recServerStream) SetTrailer(md metadata.MD) { s.trailer = metadata.Join(s.trailer, md) }
func (s *recServerStream) Context() context.Context  { return s.ctx }
func (s *recServerStream) SendMsg(m any) error {
	if s.failAt >= 0 && len(s.sent) == s.failAt {
		return status.Error(codes.Unavailable, "caller went away")
	}
	s.sent = append(s.sent, proto.Clone(m.(proto.Message)))
	return nil
}
func (s *recServerStream) RecvMsg(m any) error {
	if s.recvd {
		return io.EOF
	}
	s.recvd = true
	proto.Merge(m.(proto.Message), s.req)
	return nil
}

func mdEqual(a, b metadata.MD) bool {
	if len(a) != len(b) {
		return false
	}
	for k, v := range a {
		if fmt.Sprint(v) != fmt.Sprint(b[k]) {
			return false
		}
	}
	return true
}

func drawMD(t *rapid.T, label string) metadata.MD {
	md := metadata.MD{}
	for i := 0; i < rapid.IntRange(0, 2).Draw(t, label+".n"); i++ {
		md.Append(rapid.SampledFrom([]string{"k1", "k2", "x-trace"}).Draw(t, label+".k"), rapid.SampledFrom([]string{"v1", "v2"}).Draw(t, label+".v"))
	}
	return md
}

type methodInfo struct {
	desc   protoreflect.MethodDescriptor
	unary  *grpc.MethodDesc
	stream *grpc.StreamDesc
}

// methodsOf lists every method of the service from the protobuf registry (so an RPC missing from the router is seen).
func methodsOf(e routerEntry) ([]methodInfo, error) {
	d, err := protoregistry.GlobalFiles.FindDescriptorByName(protoreflect.FullName(e.Desc.ServiceName))
	if err != nil {
		return nil, fmt.Errorf("service %s not in the protobuf registry: %v", e.Desc.ServiceName, err)
	}
	sd := d.(protoreflect.ServiceDescriptor)
	var out []methodInfo
	for i := 0; i < sd.Methods().Len(); i++ {
		md := sd.Methods().Get(i)
		mi := methodInfo{desc: md}
		for j := range e.Desc.Methods {
			if e.Desc.Methods[j].MethodName == string(md.Name()) {
				mi.unary = &e.Desc.Methods[j]
			}
		}
		for j := range e.Desc.Streams {
			if e.Desc.Streams[j].StreamName == string(md.Name()) {
				mi.stream = &e.Desc.Streams[j]
			}
		}
		out = append(out, mi)
	}
	return out, nil
}

func newMsg(md protoreflect.MessageDescriptor) (proto.Message, protoreflect.MessageType, error) {
	mt, err := protoregistry.GlobalTypes.FindMessageByName(md.FullName())
	if err != nil {
		return nil, nil, err
	}
	return mt.New().Interface(), mt, nil
}

func setName(m proto.Message, name string) bool {
	fd := m.ProtoReflect().Descriptor().Fields().ByName("name")
	if fd == nil || fd.Kind() != protoreflect.StringKind || fd.IsList() {
		return false
	}
	m.ProtoReflect().Set(fd, protoreflect.ValueOfString(name))
	return true
}

// exerciseMethod runs one (router, method, script) case. Returns a non-trivial key or "".
func exerciseMethod(t *rapid.T, e routerEntry, mi methodInfo) string {
	if mi.desc.IsStreamingClient() {
		return "" // routers are generated for unary and server-streaming methods
	}
	full := fmt.Sprintf("/%s/%s", e.Desc.ServiceName, mi.desc.Name())
	reqProto, _, err := newMsg(mi.desc.Input())
	if err != nil {
		t.Fatalf("%s: %v", full, err)
	}
	_, outType, err := newMsg(mi.desc.Output())
	if err != nil {
		t.Fatalf("%s: %v", full, err)
	}
	req := lib.GenMessage(t, "req", reqProto, mgen)
	// two registered names that differ as little as names can (case, surrounding space, a prefix of the other) now and then
	pair := rapid.SampledFrom([][2]string{{"dev/1", "dev/2"}, {"dev/1", "dev/2"}, {"dev/1", "DEV/1"}, {"dev", "dev "}, {"a", "a/b"}, {" ", "x"}, {"é", "e"}}).Draw(t, "names")
	registered := pair[:]
	target := rapid.SampledFrom([]string{pair[0], pair[1], pair[0], pair[1], "unknown", "", strings.ToUpper(pair[0]) + "!", " " + pair[1]}).Draw(t, "target")
	if !setName(req, target) {
		return "" // no name field: cannot be routed by name
	}
	r := e.New()
	conns := map[string]*fakeConn{}
	sc := script{callerFailAt: -1}
	nmsg := 1
	if mi.desc.IsStreamingServer() {
		nmsg = rapid.IntRange(0, 5).Draw(t, "nmsg")
		sc.header = drawMD(t, "header")
		sc.trailer = drawMD(t, "trailer")
		if rapid.IntRange(0, 4).Draw(t, "callerFails") == 0 && nmsg > 0 {
			sc.callerFailAt = rapid.IntRange(0, nmsg-1).Draw(t, "failAt")
		}
		if rapid.IntRange(0, 59).Draw(t, "lateHeader") == 37 {
			sc.headerDelay = time.Duration(rapid.SampledFrom([]int{60, 550, 700, 1100}).Draw(t, "headerDelayMs")) * time.Millisecond
			if len(sc.header) == 0 {
				sc.header = metadata.Pairs("x-device", "late")
			}
			lib.Ev.Class("child stream whose header arrives late (60ms-1.1s)")
		}
	}
	for i := 0; i < nmsg; i++ {
		sc.messages = append(sc.messages, lib.GenMessage(t, fmt.Sprintf("resp%d", i), outType.New().Interface(), mgen))
	}
	if rapid.IntRange(0, 2).Draw(t, "fails") == 0 {
		sc.final = status.Error(codes.Code(rapid.IntRange(1, 16).Draw(t, "code")), rapid.SampledFrom([]string{"boom", "no luck", ""}).Draw(t, "msg"))
		if rapid.IntRange(0, 5).Draw(t, "plainError") == 3 {
			// an in-process client (a driver, a wrapped server) need not answer with a status error: a failed read is a
			// failed call however the error is spelled
			sc.final = rapid.SampledFrom([]error{
				fmt.Errorf("read from device: %w", io.EOF), io.ErrUnexpectedEOF, errors.New("device gone"), fmt.Errorf("bus: %w", io.ErrClosedPipe),
			}).Draw(t, "plainErr")
		}
	}
	for _, n := range registered {
		c := &fakeConn{name: n, script: sc, out: outType}
		conns[n] = c
		r.(router.Router).Add(n, e.NewClient(c))
	}
	reqBytes, _ := proto.MarshalOptions{Deterministic: true}.Marshal(req)
	known := target == pair[0] || target == pair[1]
	other := func() *fakeConn {
		if target == pair[0] {
			return conns[pair[1]]
		}
		return conns[pair[0]]
	}
	desc := fmt.Sprintf("%s %s target=%q messages=%d final=%v header=%v (available after %v) trailer=%v callerFailAt=%d", e.Name, full, target, len(sc.messages), sc.final, sc.header, sc.headerDelay, sc.trailer, sc.callerFailAt)

	var gotErr error
	var resp any
	var rs *recServerStream
	switch {
	case mi.unary != nil:
		resp, gotErr = mi.unary.Handler(r, context.Background(), func(m any) error { proto.Merge(m.(proto.Message), req); return nil }, nil)
	case mi.stream != nil:
		rs = &recServerStream{ctx: context.Background(), req: req, failAt: sc.callerFailAt}
		gotErr = mi.stream.Handler(r, rs)
	default:
		t.Fatalf("%s: method %s is in the API descriptor but not in the generated service description", e.Name, full)
	}
	if status.Code(gotErr) == codes.Unimplemented && (sc.final == nil || status.Code(sc.final) != codes.Unimplemented || !known) {
		t.Fatalf("%s: the router answered Unimplemented: this RPC is not routed (router file %s is out of date with the API)", desc, e.File)
	}
	if !known {
		if status.Code(gotErr) != codes.NotFound {
			t.Fatalf("%s: unknown name answered with %v, want NotFound", desc, gotErr)
		}
		for n, c := range conns {
			if len(c.calls) != 0 {
				t.Fatalf("%s: client %q was called although the name has no client", desc, n)
			}
		}
		return ""
	}
	c := conns[target]
	if len(other().calls) != 0 {
		t.Fatalf("%s: the request also reached client %q", desc, other().name)
	}
	if len(c.calls) != 1 {
		t.Fatalf("%s: the named client received %d calls, want exactly one", desc, len(c.calls))
	}
	if c.calls[0].method != full {
		t.Fatalf("%s: forwarded as %s", desc, c.calls[0].method)
	}
	if string(c.calls[0].req) != string(reqBytes) {
		t.Fatalf("%s: the forwarded request differs from the one received", desc)
	}
	if mi.unary != nil {
		if sc.final != nil {
			if status.Code(gotErr) != status.Code(sc.final) || status.Convert(gotErr).Message() != status.Convert(sc.final).Message() {
				t.Fatalf("%s: error %v, the client returned %v", desc, gotErr, sc.final)
			}
		} else {
			if gotErr != nil {
				t.Fatalf("%s: unexpected error %v", desc, gotErr)
			}
			if !proto.Equal(resp.(proto.Message), sc.messages[0]) {
				t.Fatalf("%s: response differs from the client's", desc)
			}
		}
	} else {
		wantN := len(sc.messages)
		if sc.callerFailAt >= 0 {
			wantN = sc.callerFailAt
		}
		if len(rs.sent) != wantN {
			t.Fatalf("%s: caller received %d messages, want %d", desc, len(rs.sent), wantN)
		}
		for i := range rs.sent {
			if !proto.Equal(rs.sent[i], sc.messages[i]) {
				t.Fatalf("%s: message %d differs or is out of order", desc, i)
			}
		}
		if !mdEqual(rs.header, sc.header) {
			t.Fatalf("%s: caller saw header %v, the client sent %v", desc, rs.header, sc.header)
		}
		if sc.callerFailAt >= 0 {
			if gotErr == nil {
				t.Fatalf("%s: the caller's Send failed but the router reported success", desc)
			}
			if c.calls[0].ctx.Err() == nil {
				t.Fatalf("%s: the caller went away but the forwarded request's context was not cancelled", desc)
			}
		} else {
			if !mdEqual(rs.trailer, sc.trailer) {
				t.Fatalf("%s: caller saw trailer %v, the client sent %v", desc, rs.trailer, sc.trailer)
			}
			if sc.final != nil {
				if status.Code(gotErr) != status.Code(sc.final) || status.Convert(gotErr).Message() != status.Convert(sc.final).Message() {
					t.Fatalf("%s: stream ended with %v, the client's stream ended with %v", desc, gotErr, sc.final)
				}
			} else if gotErr != nil {
				t.Fatalf("%s: stream ended with %v, the client's stream ended cleanly", desc, gotErr)
			}
		}
	}
	if len(sc.messages) > 0 && (sc.final != nil || len(sc.header)+len(sc.trailer) > 0) {
		return desc
	}
	return ""
}

// TestAllRoutersSweep: every discovered router x every method of its service descriptor, a few generated
// (request, script) cases each (the per-method case count is the driver's -rapid.checks).
func TestAllRoutersSweep(t *testing.T) {
	if len(discoveredRouters) == 0 {
		t.Fatal("no routers discovered")
	}
	shard, nshards := lib.Shard()
	for ri, e := range discoveredRouters {
		if ri%nshards != shard {
			continue
		}
		methods, err := methodsOf(e)
		if err != nil {
			t.Fatal(err)
		}
		for _, mi := range methods {
			e, mi := e, mi
			rapid.Check(t, func(rt *rapid.T) {
				nt := exerciseMethod(rt, e, mi)
				lib.Ev.Case(nt, func() any { return nt })
			})
			lib.Ev.Class("router-method")
		}
		lib.Ev.Class("router")
	}
	lib.Ev.Exhaustive(fmt.Sprintf("all %d discovered routers x all methods of their service descriptors", len(discoveredRouters)), true)
}

// TestAllRoutersRandom: router and method drawn by rapid as well.
func TestAllRoutersRandom(t *testing.T) {
	rapid.Check(t, func(rt *rapid.T) {
		e := discoveredRouters[rapid.IntRange(0, len(discoveredRouters)-1).Draw(rt, "router")]
		methods, err := methodsOf(e)
		if err != nil {
			rt.Fatal(err)
		}
		if len(methods) == 0 {
			return
		}
		mi := methods[rapid.IntRange(0, len(methods)-1).Draw(rt, "method")]
		nt := exerciseMethod(rt, e, mi)
		lib.Ev.Case(nt, func() any { return nt })
	})
}

var _ = errors.New
var _ = sort.Strings
var _ = strings.Join
