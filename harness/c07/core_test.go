package c07

import (
	"errors"
	"fmt"
	"strings"
	"testing"

	"google.golang.org/protobuf/reflect/protoreflect"
	"google.golang.org/protobuf/types/known/fieldmaskpb"
	"pgregory.net/rapid"

	"github.com/smart-core-os/sc-golang/verifh/lib"
	"github.com/smart-core-os/sc-golang/verifh/rlib"
)

// scalarMask: under an equivalence the read masks are one or two top level scalar fields, so that the sentinel write at
// the end (which changes every scalar) is never taken for a duplicate.
func scalarMask(t *rapid.T, md protoreflect.MessageDescriptor) *fieldmaskpb.FieldMask {
	fields := md.Fields()
	var paths []string
	for j := 0; j < rapid.IntRange(1, 2).Draw(t, "npaths"); j++ {
		fd := fields.Get(rapid.IntRange(0, fields.Len()-1).Draw(t, "field"))
		if fd.Message() == nil && !fd.IsList() && !fd.IsMap() && fd.ContainingOneof() == nil {
			paths = append(paths, string(fd.Name()))
		}
	}
	if len(paths) == 0 {
		return nil
	}
	return &fieldmaskpb.FieldMask{Paths: paths}
}

func runCore(t *rapid.T, isValue bool) {
	cfg, alphabet := rlib.GenConfig(t, isValue, false)
	if rapid.IntRange(0, 2).Draw(t, "noDuplicates") == 0 {
		cfg.Equivalence = "nodup" // the resource then remembers what it last sent each subscriber
	}
	reg := newRegistry()
	var subs []rlib.SubSpec
	for i := 0; i < rapid.IntRange(0, 2).Draw(t, "nsubs"); i++ {
		s := rlib.SubSpec{Backpressure: true, UpdatesOnly: rapid.IntRange(0, 3).Draw(t, "updatesOnly") == 0}
		if cfg.Equivalence != "" && rapid.Bool().Draw(t, "maskedScalar") {
			s.ReadMask = scalarMask(t, cfg.Proto.ProtoReflect().Descriptor())
		} else if cfg.Equivalence == "" && rapid.Bool().Draw(t, "masked") {
			s.ReadMask, _ = lib.DrawMask(t, "subMask", cfg.Proto.ProtoReflect().Descriptor(), alphabet...)
			if s.ReadMask != nil && len(s.ReadMask.Paths) == 0 {
				s.ReadMask = nil
			}
		}
		if !isValue && rapid.IntRange(0, 2).Draw(t, "filteredView") == 1 {
			// a filtered view: what the collection makes of a change for this subscriber (an entry, an exit, a projection)
			// is built from the stored messages, which stay as they are
			s.IncludeName = rapid.SampledFrom([]string{"id<b", "counter-odd", "has-derived"}).Draw(t, "include")
			s.Include = rlib.IncludeFn(s.IncludeName)
			lib.Ev.Class("core: a filtered (and perhaps masked) subscription")
		}
		subs = append(subs, s)
	}
	r := rlib.NewRunner(cfg)
	r.Observe = reg.observe
	for _, s := range subs {
		r.OpenSub(s)
	}
	n := rapid.IntRange(5, 40).Draw(t, "steps")
	writes := 0
	for i := 0; i < n; i++ {
		if rapid.IntRange(0, 14).Draw(t, "openSub") == 0 {
			// opening a subscription (and receiving its seed) is a read-only operation
			s := rlib.SubSpec{Backpressure: true}
			if cfg.Equivalence != "" && rapid.Bool().Draw(t, "lateMaskedScalar") {
				s.ReadMask = scalarMask(t, cfg.Proto.ProtoReflect().Descriptor())
			} else if cfg.Equivalence == "" && rapid.Bool().Draw(t, "lateMasked") {
				s.ReadMask, _ = lib.DrawMask(t, "lateMask", cfg.Proto.ProtoReflect().Descriptor(), alphabet...)
				if s.ReadMask != nil && len(s.ReadMask.Paths) == 0 {
					s.ReadMask = nil
				}
			}
			r.OpenSub(s)
			if err := r.Do(rlib.Op{Kind: rlib.OpGet, ID: "a"}); err != nil && !errors.Is(err, rlib.ErrStop) {
				t.Fatalf("after opening %v: %v\nconfig: %v\nhistory:\n  %s", s, err, cfg, strings.Join(r.History, "\n  "))
			}
		}
		op := rlib.GenOp(t, r, alphabet, true)
		err := r.Do(op)
		if errors.Is(err, rlib.ErrStop) {
			break
		}
		if err != nil {
			t.Fatalf("%v\nconfig: %v\nhistory:\n  %s", err, cfg, strings.Join(r.History, "\n  "))
		}
		if op.Kind != rlib.OpGet && op.Kind != rlib.OpList {
			writes++
		}
		if err := reg.verify(op.String()); err != nil {
			t.Fatalf("%v\nconfig: %v\nhistory:\n  %s", err, cfg, strings.Join(r.History, "\n  "))
		}
	}
	if err := r.Finish(); err != nil {
		t.Fatalf("%v\nconfig: %v\nhistory:\n  %s", err, cfg, strings.Join(r.History, "\n  "))
	}
	if err := reg.verify("the final drain"); err != nil {
		t.Fatalf("%v\nconfig: %v\nhistory:\n  %s", err, cfg, strings.Join(r.History, "\n  "))
	}
	nt := ""
	if reg.maxAge >= 3 && r.OKWrites >= 3 {
		nt = fmt.Sprintf("%v|%s", isValue, strings.Join(r.OutcomeKey, ";"))
	}
	lib.Ev.Class("core")
	lib.Ev.Case(nt, func() any {
		return map[string]any{"config": cfg.String(), "registered": reg.count(), "inputs scribbled": reg.scribbled, "history": r.History}
	})
}

func TestCoreValueIsolation(t *testing.T) {
	rapid.Check(t, func(t *rapid.T) { runCore(t, true) })
}

func TestCoreCollectionIsolation(t *testing.T) {
	rapid.Check(t, func(t *rapid.T) { runCore(t, false) })
}
