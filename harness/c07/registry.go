package c07

import (
	"fmt"
	"sync"

	"google.golang.org/protobuf/proto"

	"github.com/smart-core-os/sc-golang/verifh/lib"
	"github.com/smart-core-os/sc-golang/verifh/rlib"
)

// registry remembers every message that crossed the API boundary together with a deep copy taken at that instant.
type registry struct {
	mu      sync.Mutex
	entries []*entry
	seen    map[proto.Message]bool
	step    int
	// inputs are scribbled over as soon as they are registered: the caller may do what it likes with a message it
	// handed to a write.
	scribbled int
	maxAge    int
}

type entry struct {
	ptr   proto.Message
	copy  proto.Message
	label string
	step  int
}

func newRegistry() *registry { return &registry{seen: map[proto.Message]bool{}} }

func (r *registry) observe(kind string, m proto.Message) {
	if m == nil || !m.ProtoReflect().IsValid() {
		return
	}
	r.mu.Lock()
	defer r.mu.Unlock()
	if kind == "input" {
		lib.Scribble(m)
		r.scribbled++
		return
	}
	if r.seen[m] {
		return
	}
	r.seen[m] = true
	r.entries = append(r.entries, &entry{ptr: m, copy: proto.Clone(m), label: kind, step: r.step})
}

// count returns the number of registered messages.
func (r *registry) count() int {
	r.mu.Lock()
	defer r.mu.Unlock()
	return len(r.entries)
}

// verify re-compares every registered message with the copy taken when it crossed the boundary.
func (r *registry) verify(after string) error {
	r.mu.Lock()
	defer r.mu.Unlock()
	for _, e := range r.entries {
		if !proto.Equal(e.ptr, e.copy) {
			return fmt.Errorf("a message obtained as %q at step %d changed after %s (step %d):\n  was %s\n  now %s\n  differs at %q",
				e.label, e.step, after, r.step, rlib.Txt(e.copy), rlib.Txt(e.ptr), lib.LeafDiff(e.copy, e.ptr, 4))
		}
		if age := r.step - e.step; age > r.maxAge {
			r.maxAge = age
		}
	}
	r.step++
	return nil
}
