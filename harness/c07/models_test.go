package c07

import (
	"context"
	"fmt"
	"sort"
	"strings"
	"testing"
	"time"

	"google.golang.org/grpc"
	"google.golang.org/protobuf/proto"
	"google.golang.org/protobuf/types/known/fieldmaskpb"
	"pgregory.net/rapid"

	"github.com/smart-core-os/sc-api/go/traits"
	timepb "github.com/smart-core-os/sc-api/go/types/time"

	"github.com/smart-core-os/sc-golang/pkg/resource"
	"github.com/smart-core-os/sc-golang/pkg/trait"
	"github.com/smart-core-os/sc-golang/pkg/trait/bookingpb"
	"github.com/smart-core-os/sc-golang/pkg/trait/electricpb"
	"github.com/smart-core-os/sc-golang/pkg/trait/enterleavesensorpb"
	"github.com/smart-core-os/sc-golang/pkg/trait/hailpb"
	"github.com/smart-core-os/sc-golang/pkg/trait/metadatapb"
	"github.com/smart-core-os/sc-golang/pkg/trait/parentpb"
	"github.com/smart-core-os/sc-golang/pkg/trait/publicationpb"
	"github.com/smart-core-os/sc-golang/pkg/trait/vendingpb"
	"github.com/smart-core-os/sc-golang/verifh/lib"
	"github.com/smart-core-os/sc-golang/verifh/rlib"
)

var mgen = lib.GenOpts{FieldProb: -1, Target: 3, MaxDepth: 2, MaxElems: 3}

// driver is one trait model under test.
type driver struct {
	name string
	// ops: each runs one public method with generated arguments. readOnly ops must leave the state as it was.
	ops []mop
	// state reads the full stored state through the model's read methods (deep copied by the caller).
	state func() []proto.Message
}

type mop struct {
	name     string
	readOnly bool
	run      func(t *rapid.T, reg *registry)
}

func snapshot(msgs []proto.Message) []proto.Message {
	out := make([]proto.Message, len(msgs))
	for i, m := range msgs {
		out[i] = proto.Clone(m)
	}
	return out
}

func sameState(a, b []proto.Message) string {
	if len(a) != len(b) {
		return fmt.Sprintf("%d items before, %d after", len(a), len(b))
	}
	for i := range a {
		if !proto.Equal(a[i], b[i]) {
			return fmt.Sprintf("item %d was %s now %s", i, rlib.Txt(a[i]), rlib.Txt(b[i]))
		}
	}
	return ""
}

var traitPool = []trait.Name{trait.AirQualitySensor, trait.Light, trait.OnOff, trait.Electric, trait.Metadata, trait.FanSpeed}

// widePool: devices announce up to a dozen or two traits; lists that long are what slices with spare capacity and
// inserts into the middle need
var widePool = []trait.Name{trait.Access, trait.AirQualitySensor, trait.AirTemperature, trait.Booking, trait.Channel, trait.Count, trait.Electric, trait.Emergency,
	trait.FanSpeed, trait.Hail, trait.Light, trait.Metadata, trait.Meter, trait.Mode, trait.OnOff, trait.OpenClose, trait.Parent, trait.Press, trait.Speaker, trait.Vending, trait.Waste}

func drawTraitNames(t *rapid.T, label string) []trait.Name {
	n := rapid.IntRange(0, 4).Draw(t, label+".n")
	pool := traitPool
	if rapid.IntRange(0, 2).Draw(t, label+".wide") == 0 {
		pool = widePool
		n = rapid.IntRange(1, 8).Draw(t, label+".nwide")
	}
	out := make([]trait.Name, n)
	for i := range out {
		out[i] = rapid.SampledFrom(pool).Draw(t, label)
	}
	return out
}

// pump consumes a model's pull channel registering every message it carries.
func pump[T any](ctx context.Context, ch <-chan T, reg *registry, msgs func(T) []proto.Message) {
	go func() {
		for {
			select {
			case e, ok := <-ch:
				if !ok {
					return
				}
				for _, m := range msgs(e) {
					reg.observe("event", m)
				}
			case <-ctx.Done():
				// keep draining so the model's forwarding goroutines can finish
				for range ch {
				}
				return
			}
		}
	}()
}

func parentDriver(t *rapid.T, ctx context.Context, reg *registry) driver {
	m := parentpb.NewModel()
	names := []string{"c1", "c2", "c3"}
	d := driver{name: "parent"}
	d.state = func() []proto.Message {
		var out []proto.Message
		for _, c := range m.ListChildren() {
			out = append(out, c)
		}
		return out
	}
	d.ops = []mop{
		{name: "AddChild", run: func(t *rapid.T, reg *registry) {
			c := &traits.Child{Name: rapid.SampledFrom(names).Draw(t, "name")}
			tn := drawTraitNames(t, "traits")
			seen := map[string]bool{}
			for _, n := range tn {
				if !seen[string(n)] {
					seen[string(n)] = true
					c.Traits = append(c.Traits, &traits.Trait{Name: string(n)})
				}
			}
			sort.Slice(c.Traits, func(i, j int) bool { return c.Traits[i].Name < c.Traits[j].Name })
			m.AddChild(c)
			reg.observe("input", c)
		}},
		{name: "AddChildTrait", run: func(t *rapid.T, reg *registry) {
			c, _ := m.AddChildTrait(rapid.SampledFrom(names).Draw(t, "name"), drawTraitNames(t, "traits")...)
			reg.observe("result", c)
		}},
		{name: "RemoveChildTrait", run: func(t *rapid.T, reg *registry) {
			if c := m.RemoveChildTrait(rapid.SampledFrom(names).Draw(t, "name"), drawTraitNames(t, "traits")...); c != nil {
				reg.observe("result", c)
			}
		}},
		{name: "RemoveChildByName", run: func(t *rapid.T, reg *registry) {
			if c, err := m.RemoveChildByName(rapid.SampledFrom(names).Draw(t, "name"), resource.WithAllowMissing(true)); err == nil && c != nil {
				reg.observe("result", c)
			}
		}},
		{name: "ListChildren", readOnly: true, run: func(t *rapid.T, reg *registry) {
			for _, c := range m.ListChildren() {
				reg.observe("read", c)
			}
		}},
		{name: "PullChildren", readOnly: true, run: func(t *rapid.T, reg *registry) {
			pump(ctx, m.PullChildren(ctx, resource.WithBackpressure(true)), reg, func(e *traits.PullChildrenResponse_Change) []proto.Message {
				return []proto.Message{e.GetOldValue(), e.GetNewValue()}
			})
		}},
	}
	return d
}

func metadataDriver(t *rapid.T, ctx context.Context, reg *registry) driver {
	m := metadatapb.NewModel()
	d := driver{name: "metadata"}
	d.state = func() []proto.Message {
		md, _ := m.GetMetadata()
		return []proto.Message{md}
	}
	genMD := func(t *rapid.T) *traits.Metadata {
		md := lib.GenMessage(t, "md", &traits.Metadata{}, mgen).(*traits.Metadata)
		// trait entries behave like a map keyed by name: use names from a small pool
		for i, tm := range md.Traits {
			tm.Name = string(traitPool[(i+rapid.IntRange(0, 5).Draw(t, "tn"))%len(traitPool)])
		}
		return md
	}
	d.ops = []mop{
		{name: "UpdateMetadata", run: func(t *rapid.T, reg *registry) {
			in := genMD(t)
			if res, err := m.UpdateMetadata(in); err == nil {
				reg.observe("result", res)
			}
			reg.observe("input", in)
		}},
		{name: "MergeMetadata", run: func(t *rapid.T, reg *registry) {
			in := genMD(t)
			if res, err := m.MergeMetadata(in); err == nil {
				reg.observe("result", res)
			}
			reg.observe("input", in)
		}},
		{name: "UpdateTraitMetadata", run: func(t *rapid.T, reg *registry) {
			in := &traits.TraitMetadata{Name: string(rapid.SampledFrom(traitPool).Draw(t, "tname")), More: map[string]string{rapid.SampledFrom([]string{"k1", "k2"}).Draw(t, "k"): rapid.SampledFrom([]string{"v1", "v2"}).Draw(t, "v")}}
			if res, err := m.UpdateTraitMetadata(in); err == nil {
				reg.observe("result", res)
			}
			reg.observe("input", in)
		}},
		{name: "GetMetadata", readOnly: true, run: func(t *rapid.T, reg *registry) {
			var opts []resource.ReadOption
			if rapid.Bool().Draw(t, "masked") {
				opts = append(opts, resource.WithReadMask(&fieldmaskpb.FieldMask{Paths: []string{"name", "traits"}}))
			}
			md, _ := m.GetMetadata(opts...)
			reg.observe("read", md)
		}},
		{name: "PullMetadata", readOnly: true, run: func(t *rapid.T, reg *registry) {
			pump(ctx, m.PullMetadata(ctx, resource.WithBackpressure(true)), reg, func(e *traits.PullMetadataResponse_Change) []proto.Message {
				return []proto.Message{e.GetMetadata()}
			})
		}},
	}
	return d
}

func enterLeaveDriver(t *rapid.T, ctx context.Context, reg *registry) driver {
	m := enterleavesensorpb.NewModel()
	d := driver{name: "enterleave"}
	d.state = func() []proto.Message {
		v, _ := m.GetEnterLeaveEvent()
		return []proto.Message{v}
	}
	d.ops = []mop{
		{name: "CreateEnterLeaveEvent", run: func(t *rapid.T, reg *registry) {
			in := &traits.EnterLeaveEvent{
				Direction: traits.EnterLeaveEvent_Direction(rapid.IntRange(0, 2).Draw(t, "dir")),
				Occupant:  &traits.EnterLeaveEvent_Occupant{Name: rapid.SampledFrom([]string{"", "o1", "o2"}).Draw(t, "occ")},
			}
			if rapid.IntRange(0, 3).Draw(t, "explicitTotals") == 0 {
				e := int32(rapid.IntRange(0, 5).Draw(t, "enterTotal"))
				in.EnterTotal = &e
			}
			_ = m.CreateEnterLeaveEvent(in)
			reg.observe("input", in)
		}},
		{name: "ResetTotals", run: func(t *rapid.T, reg *registry) { _ = m.ResetTotals() }},
		{name: "GetEnterLeaveEvent", readOnly: true, run: func(t *rapid.T, reg *registry) {
			v, _ := m.GetEnterLeaveEvent()
			reg.observe("read", v)
		}},
		{name: "PullEnterLeaveEvents", readOnly: true, run: func(t *rapid.T, reg *registry) {
			got := make(chan struct{}, 1)
			first := true
			ropts := []resource.ReadOption{resource.WithBackpressure(true)}
			switch rapid.IntRange(0, 5).Draw(t, "pullMask") {
			case 0, 1:
				mask, _ := lib.DrawMask(t, "readMask", (&traits.EnterLeaveEvent{}).ProtoReflect().Descriptor())
				ropts = append(ropts, resource.WithReadMask(mask))
			case 2:
				// the model edits the seed it hands out (occupant and direction are blanked): whatever the mask selects,
				// that must be a copy
				cur, _ := m.GetEnterLeaveEvent()
				if cur == nil {
					cur = &traits.EnterLeaveEvent{}
				}
				mask, _, _ := lib.DrawCorruptMask(t, "oddMask", cur.ProtoReflect().Descriptor(), cur)
				if rapid.Bool().Draw(t, "wildcard") {
					mask = &fieldmaskpb.FieldMask{Paths: []string{"*"}}
				}
				ropts = append(ropts, resource.WithReadMask(mask))
			}
			pump(ctx, m.PullEnterLeaveEvents(ctx, ropts...), reg, func(e enterleavesensorpb.EnterLeaveEventChange) []proto.Message {
				if first {
					first = false
					got <- struct{}{}
				}
				return []proto.Message{e.Value}
			})
			// wait for the seed so that "Pull and its seed" is complete before the state is re-read
			select {
			case <-got:
			case <-time.After(5 * time.Second):
			}
		}},
	}
	return d
}

func electricDriver(t *rapid.T, ctx context.Context, reg *registry) driver {
	m := electricpb.NewModel()
	d := driver{name: "electric"}
	var ids []string
	d.state = func() []proto.Message {
		out := []proto.Message{m.ActiveMode(), m.Demand()}
		for _, mode := range m.Modes() {
			out = append(out, mode)
		}
		return out
	}
	genMode := func(t *rapid.T) *traits.ElectricMode {
		mode := lib.GenMessage(t, "mode", &traits.ElectricMode{}, mgen).(*traits.ElectricMode)
		mode.Id = ""
		mode.Normal = rapid.IntRange(0, 3).Draw(t, "normal") == 0
		return mode
	}
	pickID := func(t *rapid.T) string {
		if len(ids) == 0 || rapid.IntRange(0, 5).Draw(t, "unknownId") == 0 {
			return "nope"
		}
		return rapid.SampledFrom(ids).Draw(t, "id")
	}
	d.ops = []mop{
		{name: "CreateMode", run: func(t *rapid.T, reg *registry) {
			in := genMode(t)
			if res, err := m.CreateMode(in); err == nil {
				ids = append(ids, res.Id)
				reg.observe("result", res)
			}
			reg.observe("input", in)
		}},
		{name: "UpdateMode", run: func(t *rapid.T, reg *registry) {
			in := genMode(t)
			in.Id = pickID(t)
			var opts []resource.WriteOption
			if rapid.Bool().Draw(t, "masked") {
				opts = append(opts, resource.WithUpdatePaths("title", "normal"))
			}
			if res, err := m.UpdateMode(in, opts...); err == nil {
				reg.observe("result", res)
			}
			reg.observe("input", in)
		}},
		{name: "DeleteMode", run: func(t *rapid.T, reg *registry) { _ = m.DeleteMode(pickID(t)) }},
		{name: "ChangeActiveMode", run: func(t *rapid.T, reg *registry) {
			if res, err := m.ChangeActiveMode(pickID(t)); err == nil {
				reg.observe("result", res)
			}
		}},
		{name: "ChangeToNormalMode", run: func(t *rapid.T, reg *registry) {
			if res, err := m.ChangeToNormalMode(); err == nil {
				reg.observe("result", res)
			}
		}},
		{name: "UpdateDemand", run: func(t *rapid.T, reg *registry) {
			in := lib.GenMessage(t, "demand", &traits.ElectricDemand{}, mgen)
			if res, err := m.UpdateDemand(in.(*traits.ElectricDemand)); err == nil {
				reg.observe("result", res)
			}
			reg.observe("input", in)
		}},
		{name: "Modes/FindMode/ActiveMode", readOnly: true, run: func(t *rapid.T, reg *registry) {
			for _, mode := range m.Modes() {
				reg.observe("read", mode)
			}
			if mode, ok := m.FindMode(pickID(t)); ok {
				reg.observe("read", mode)
			}
			reg.observe("read", m.ActiveMode())
			reg.observe("read", m.Demand())
		}},
		{name: "PullModes+PullActiveMode", readOnly: true, run: func(t *rapid.T, reg *registry) {
			pump(ctx, m.PullModes(ctx, resource.WithBackpressure(true)), reg, func(e electricpb.PullModesChange) []proto.Message {
				return []proto.Message{e.OldValue, e.NewValue}
			})
			pump(ctx, m.PullActiveMode(ctx, resource.WithBackpressure(true)), reg, func(e electricpb.PullActiveModeChange) []proto.Message {
				return []proto.Message{e.ActiveMode}
			})
		}},
	}
	return d
}

func vendingDriver(t *rapid.T, ctx context.Context, reg *registry) driver {
	m := vendingpb.NewModel()
	d := driver{name: "vending"}
	names := []string{"cola", "water"}
	d.state = func() []proto.Message {
		var out []proto.Message
		for _, c := range m.ListConsumables() {
			out = append(out, c)
		}
		for _, s := range m.ListInventory() {
			out = append(out, s)
		}
		return out
	}
	qty := func(t *rapid.T, l string) *traits.Consumable_Quantity {
		return &traits.Consumable_Quantity{Amount: float32(rapid.IntRange(0, 10).Draw(t, l)), Unit: traits.Consumable_LITER}
	}
	d.ops = []mop{
		{name: "CreateConsumable", run: func(t *rapid.T, reg *registry) {
			in := &traits.Consumable{Name: rapid.SampledFrom(names).Draw(t, "name"), Title: "t", DefaultPortion: qty(t, "avail")}
			if res, err := m.CreateConsumable(in); err == nil {
				reg.observe("result", res)
			}
			reg.observe("input", in)
		}},
		{name: "UpdateConsumable", run: func(t *rapid.T, reg *registry) {
			in := &traits.Consumable{Name: rapid.SampledFrom(names).Draw(t, "name"), DefaultPortion: qty(t, "default")}
			if res, err := m.UpdateConsumable(in); err == nil {
				reg.observe("result", res)
			}
			reg.observe("input", in)
		}},
		{name: "CreateStock", run: func(t *rapid.T, reg *registry) {
			in := &traits.Consumable_Stock{Consumable: rapid.SampledFrom(names).Draw(t, "name"), Remaining: qty(t, "remaining"), Used: qty(t, "used")}
			if res, err := m.CreateStock(in); err == nil {
				reg.observe("result", res)
			}
			reg.observe("input", in)
		}},
		{name: "UpdateStock", run: func(t *rapid.T, reg *registry) {
			in := &traits.Consumable_Stock{Consumable: rapid.SampledFrom(names).Draw(t, "name"), Remaining: qty(t, "remaining"), Used: qty(t, "used")}
			if res, err := m.UpdateStock(in); err == nil {
				reg.observe("result", res)
			}
			reg.observe("input", in)
		}},
		{name: "DispenseInstantly", run: func(t *rapid.T, reg *registry) {
			in := qty(t, "dispense")
			if res, err := m.DispenseInstantly(rapid.SampledFrom(names).Draw(t, "name"), in); err == nil && res != nil {
				reg.observe("result", res)
			}
			reg.observe("input", in)
		}},
		{name: "DeleteStock", run: func(t *rapid.T, reg *registry) {
			if res, err := m.DeleteStock(rapid.SampledFrom(names).Draw(t, "name"), resource.WithAllowMissing(true)); err == nil && res != nil {
				reg.observe("result", res)
			}
		}},
		{name: "List/Get", readOnly: true, run: func(t *rapid.T, reg *registry) {
			for _, c := range m.ListConsumables() {
				reg.observe("read", c)
			}
			for _, s := range m.ListInventory() {
				reg.observe("read", s)
			}
			if s, ok := m.GetStock(rapid.SampledFrom(names).Draw(t, "name")); ok {
				reg.observe("read", s)
			}
		}},
		{name: "PullInventory", readOnly: true, run: func(t *rapid.T, reg *registry) {
			pump(ctx, m.PullInventory(ctx, resource.WithBackpressure(true)), reg, func(e vendingpb.InventoryChange) []proto.Message {
				return []proto.Message{e.OldValue, e.NewValue}
			})
		}},
	}
	return d
}

func publicationDriver(t *rapid.T, ctx context.Context, reg *registry) driver {
	m := publicationpb.NewModel()
	d := driver{name: "publication"}
	ids := []string{"p1", "p2"}
	d.state = func() []proto.Message {
		var out []proto.Message
		for _, p := range m.ListPublications() {
			out = append(out, p)
		}
		return out
	}
	gen := func(t *rapid.T) *traits.Publication {
		return &traits.Publication{Id: rapid.SampledFrom(ids).Draw(t, "id"), Body: []byte(rapid.SampledFrom([]string{"b1", "b2"}).Draw(t, "body")),
			Audience: &traits.Publication_Audience{Name: rapid.SampledFrom([]string{"", "aud"}).Draw(t, "aud")}}
	}
	d.ops = []mop{
		{name: "CreatePublication", run: func(t *rapid.T, reg *registry) {
			in := gen(t)
			if res, err := m.CreatePublication(in); err == nil {
				reg.observe("result", res)
			}
			reg.observe("input", in)
		}},
		{name: "UpdatePublication", run: func(t *rapid.T, reg *registry) {
			in := gen(t)
			if res, err := m.UpdatePublication(in.Id, in); err == nil {
				reg.observe("result", res)
			}
			reg.observe("input", in)
		}},
		{name: "DeletePublication", run: func(t *rapid.T, reg *registry) {
			if res, err := m.DeletePublication(rapid.SampledFrom(ids).Draw(t, "id"), resource.WithAllowMissing(true)); err == nil && res != nil {
				reg.observe("result", res)
			}
		}},
		{name: "List/Get", readOnly: true, run: func(t *rapid.T, reg *registry) {
			for _, p := range m.ListPublications() {
				reg.observe("read", p)
			}
			if p, ok := m.GetPublication(rapid.SampledFrom(ids).Draw(t, "id")); ok {
				reg.observe("read", p)
			}
		}},
		{name: "PullPublications", readOnly: true, run: func(t *rapid.T, reg *registry) {
			pump(ctx, m.PullPublications(ctx, resource.WithBackpressure(true)), reg, func(e publicationpb.PublicationsChange) []proto.Message {
				return []proto.Message{e.OldValue, e.NewValue}
			})
		}},
	}
	return d
}

func hailDriver(t *rapid.T, ctx context.Context, reg *registry) driver {
	// hails that arrived are removed some time after (keep-alive, 30 s by default) by a pass that runs inside CreateHail:
	// with a short keep-alive that pass runs in these histories too
	var opts []resource.Option
	keepAlive := time.Duration(rapid.SampledFrom([]int{-1, 30000, 0, 1, 3}).Draw(t, "keepAliveMs")) * time.Millisecond
	if keepAlive != 30*time.Second {
		opts = append(opts, hailpb.WithKeepAlive(keepAlive))
	}
	m := hailpb.NewModel(opts...)
	d := driver{name: "hail"}
	var ids []string
	d.state = func() []proto.Message {
		var out []proto.Message
		for _, h := range m.ListHails() {
			out = append(out, h)
		}
		return out
	}
	d.ops = []mop{
		{name: "CreateHail", run: func(t *rapid.T, reg *registry) {
			in := lib.GenMessage(t, "hail", &traits.Hail{}, mgen).(*traits.Hail)
			in.State = traits.Hail_CALLED
			if res, err := m.CreateHail(in); err == nil {
				ids = append(ids, res.Id)
				reg.observe("result", res)
			}
			reg.observe("input", in)
		}},
		{name: "UpdateHail", run: func(t *rapid.T, reg *registry) {
			if len(ids) == 0 {
				return
			}
			in := lib.GenMessage(t, "hail", &traits.Hail{}, mgen).(*traits.Hail)
			in.Id = rapid.SampledFrom(ids).Draw(t, "id")
			in.State = traits.Hail_State(rapid.IntRange(1, 4).Draw(t, "state"))
			var wopts []resource.WriteOption
			if rapid.IntRange(0, 2).Draw(t, "stateOnly") == 1 {
				wopts = append(wopts, resource.WithUpdatePaths("state")) // e.g. ARRIVED without an arrive time
			}
			if res, err := m.UpdateHail(in, wopts...); err == nil {
				reg.observe("result", res)
			}
			reg.observe("input", in)
		}},
		{name: "time passes", readOnly: true, run: func(t *rapid.T, reg *registry) {
			time.Sleep(time.Duration(rapid.IntRange(1, 5).Draw(t, "ms")) * time.Millisecond)
		}},
		{name: "ListHails", readOnly: true, run: func(t *rapid.T, reg *registry) {
			for _, h := range m.ListHails() {
				reg.observe("read", h)
			}
		}},
	}
	return d
}

type bookingStream struct {
	grpc.ServerStream
	ctx context.Context
	reg *registry
}

func (s *bookingStream) Context() context.Context { return s.ctx }
func (s *bookingStream) Send(r *traits.PullBookingsResponse) error {
	for _, c := range r.Changes {
		if c.OldValue != nil {
			s.reg.observe("event", c.OldValue)
		}
		if c.NewValue != nil {
			s.reg.observe("event", c.NewValue)
		}
	}
	return nil
}

func bookingDriver(t *rapid.T, ctx context.Context, reg *registry) driver {
	m := bookingpb.NewModel()
	srv := bookingpb.NewModelServer(m)
	// bookings are stored as written, also when their times are written in a non-canonical form
	mgen := mgen
	mgen.OddTimes = true
	d := driver{name: "booking"}
	ids := []string{"b1", "b2"}
	d.state = func() []proto.Message {
		var out []proto.Message
		for _, b := range m.ListBookings() {
			out = append(out, b)
		}
		return out
	}
	d.ops = []mop{
		{name: "CreateBooking", run: func(t *rapid.T, reg *registry) {
			in := lib.GenMessage(t, "booking", &traits.Booking{}, mgen).(*traits.Booking)
			in.Id = rapid.SampledFrom(ids).Draw(t, "id")
			if res, err := m.CreateBooking(in); err == nil {
				reg.observe("result", res)
			}
			reg.observe("input", in)
		}},
		{name: "UpdateBooking", run: func(t *rapid.T, reg *registry) {
			in := lib.GenMessage(t, "booking", &traits.Booking{}, mgen).(*traits.Booking)
			in.Id = rapid.SampledFrom(ids).Draw(t, "id")
			if res, err := m.UpdateBooking(in); err == nil {
				reg.observe("result", res)
			}
			reg.observe("input", in)
		}},
		{name: "ListBookings", readOnly: true, run: func(t *rapid.T, reg *registry) {
			for _, b := range m.ListBookings() {
				reg.observe("read", b)
			}
		}},
		{name: "PullBookings", readOnly: true, run: func(t *rapid.T, reg *registry) {
			pump(ctx, m.PullBookings(ctx, resource.WithBackpressure(true)), reg, func(e bookingpb.BookingChange) []proto.Message {
				return []proto.Message{e.OldValue, e.NewValue}
			})
		}},
		// the filtered views the server offers: the period predicate is given the stored bookings
		{name: "server.ListBookings(intersects)", readOnly: true, run: func(t *rapid.T, reg *registry) {
			q := lib.GenMessage(t, "query", &timepb.Period{}, mgen).(*timepb.Period)
			if res, err := srv.ListBookings(ctx, &traits.ListBookingsRequest{Name: "n", BookingIntersects: q}); err == nil {
				for _, b := range res.Bookings {
					reg.observe("read", b)
				}
			}
		}},
		{name: "server.PullBookings(intersects)", readOnly: true, run: func(t *rapid.T, reg *registry) {
			q := lib.GenMessage(t, "query", &timepb.Period{}, mgen).(*timepb.Period)
			go func() {
				_ = srv.PullBookings(&traits.ListBookingsRequest{Name: "n", BookingIntersects: q}, &bookingStream{ctx: ctx, reg: reg})
			}()
		}},
	}
	return d
}

var driverFns = map[string]func(*rapid.T, context.Context, *registry) driver{
	"parent": parentDriver, "metadata": metadataDriver, "enterleave": enterLeaveDriver, "electric": electricDriver,
	"vending": vendingDriver, "publication": publicationDriver, "hail": hailDriver, "booking": bookingDriver,
}


func runModel(t *rapid.T, name string) {
	ctx, cancel := context.WithCancel(context.Background())
	defer cancel()
	reg := newRegistry()
	d := driverFns[name](t, ctx, reg)
	n := rapid.IntRange(5, 40).Draw(t, "steps")
	var hist []string
	pulls := 0
	for i := 0; i < n; i++ {
		op := d.ops[rapid.IntRange(0, len(d.ops)-1).Draw(t, "op")]
		if strings.HasPrefix(op.name, "Pull") {
			if pulls >= 2 {
				continue
			}
			pulls++
		}
		var before []proto.Message
		if op.readOnly {
			before = snapshot(d.state())
		}
		var panicked any
		func() {
			defer func() { panicked = recover(); lib.RethrowRapid(panicked) }()
			op.run(t, reg)
		}()
		hist = append(hist, op.name)
		if panicked != nil {
			// whether operations panic is C20's business; aliasing is checked on what did happen
			lib.Ev.Class("model-op-panicked:" + name + "." + op.name)
			hist[len(hist)-1] += "(panicked)"
		}
		if op.readOnly {
			// give a just-opened subscription a moment to deliver (and possibly edit) its seed
			if strings.HasPrefix(op.name, "Pull") {
				time.Sleep(200 * time.Microsecond)
			}
			if diff := sameState(before, d.state()); diff != "" {
				t.Fatalf("%s: read-only operation %s changed the stored state: %s\nhistory: %s", name, op.name, diff, strings.Join(hist, " "))
			}
		}
		if err := reg.verify(name + "." + op.name); err != nil {
			t.Fatalf("%s: %v\nhistory: %s", name, err, strings.Join(hist, " "))
		}
	}
	// independent re-read after inputs were scribbled: state must still equal the registered read/result snapshots
	if err := reg.verify(name + " final"); err != nil {
		t.Fatalf("%s: %v\nhistory: %s", name, err, strings.Join(hist, " "))
	}
	nt := ""
	if reg.maxAge >= 3 && reg.count() >= 3 {
		nt = name + "|" + strings.Join(hist, ",")
	}
	lib.Ev.Class("model:" + name)
	lib.Ev.Case(nt, func() any { return map[string]any{"model": name, "registered": reg.count(), "history": hist} })
}

func TestModelParent(t *testing.T)      { rapid.Check(t, func(t *rapid.T) { runModel(t, "parent") }) }
func TestModelMetadata(t *testing.T)    { rapid.Check(t, func(t *rapid.T) { runModel(t, "metadata") }) }
func TestModelEnterLeave(t *testing.T)  { rapid.Check(t, func(t *rapid.T) { runModel(t, "enterleave") }) }
func TestModelElectric(t *testing.T)    { rapid.Check(t, func(t *rapid.T) { runModel(t, "electric") }) }
func TestModelVending(t *testing.T)     { rapid.Check(t, func(t *rapid.T) { runModel(t, "vending") }) }
func TestModelPublication(t *testing.T) { rapid.Check(t, func(t *rapid.T) { runModel(t, "publication") }) }
func TestModelHail(t *testing.T)        { rapid.Check(t, func(t *rapid.T) { runModel(t, "hail") }) }
func TestModelBooking(t *testing.T)     { rapid.Check(t, func(t *rapid.T) { runModel(t, "booking") }) }
