"""Per-property job tables for ./check."""

Q, T = "quick", "thorough"


def rapid_job(name, pkg, run, q, t, shards_t=16, **kw):
    j = {"name": name, "pkg": pkg, "run": "^(%s)$" % run, "checks": {Q: q, T: t}, "shards": {Q: 1, T: shards_t}}
    if "shards" in kw:
        j["shards"] = kw.pop("shards")
    j.update(kw)
    return j


def enum_job(name, pkg, run, **kw):
    j = {"name": name, "pkg": pkg, "run": "^(%s)$" % run, "rapid": False, "shards": {Q: 1, T: 1}}
    j.update(kw)
    return j


CHECKS = {}

CHECKS["C18"] = {
    "rule": ("periods: exhaustive pairs over endpoints {unbounded,0..5}x{0,1,999999999}ns plus rapid-drawn 64-bit endpoints; "
             "segments/modes: rapid-drawn lists of 0-6 segments (integer magnitudes, lengths incl. 0 and 1ns, optional infinite tail), "
             "1-4 lists per Sum, shifts/cuts at and around breakpoints; oracle = independent step-function evaluator / chronological order. "
             "non-trivial = period pair that touches or overlaps by <1s, compare triple with equal seconds/sign change/large gap, "
             "segment case with a zero-length or infinite segment and an operation at a breakpoint; distinct by printed case"),
    "assumptions": ["only the last segment of a list is infinite (documented precondition)", "magnitudes are small non-negative integers so float32 sums are exact",
                    "degenerate periods (start>=end) are checked for symmetry and no-panic only"],
    "jobs": [
        enum_job("periods-exh", "./verifh/c18", "TestPeriodsExhaustive|TestCompareExhaustive|TestCompareBoundaryPairs"),
        rapid_job("periods-rand", "./verifh/c18", "TestPeriodsRandom|TestCompareRandom", 100000, 500000),
        rapid_job("segments", "./verifh/c18", "TestSegmentOps|TestSegmentSum", 30000, 150000),
        rapid_job("modes", "./verifh/c18", "TestModeOps|TestModeSum", 30000, 150000),
        rapid_job("sum-overlap", "./verifh/c18", "TestSumOverlappingCalls", 150, 600, shards={Q: 2, T: 8}),
        rapid_job("shared-mode", "./verifh/c18", "TestModeOpsOnSharedMode", 400, 3000, race=True, shards={Q: 2, T: 8}),
    ],
}

CHECKS["C05"] = {
    "rule": ("rapid-generated tuples (stored, written, update mask, writable mask, extra-writable, all-writable, reset mask) over TestAllTypes and 10 trait "
             "messages, executed through FieldUpdater.Validate+Merge, Value.Set and Collection.Update, plus sequences of 2-5 writes on one resource; "
             "oracle = independent protoreflect reference update + frame condition + rejection rules. non-trivial = non-nil update mask with a nested path, "
             "stored message populated outside the mask, and the write changed the stored value (or a multi-write sequence using per-write extra writable paths); "
             "distinct by the printed tuple"),
    "assumptions": ["masks with duplicates / parent+child paths and update masks strictly broader than the writable fields are 'unspecified': accepted-with-frame-intact or rejected-with-no-change both pass",
                    "presence of empty intermediate messages on mask paths is not compared"],
    "jobs": [
        rapid_job("tuples", "./verifh/c05", "TestMaskedWrite", 20000, 120000),
        rapid_job("sequences", "./verifh/c05", "TestWriteSequence|TestOptionMasksAreNotKept", 6000, 40000),
        rapid_job("disjoint-writers", "./verifh/c05", "TestDisjointMaskWriters", 300, 2000, shards={Q: 2, T: 8}),
        {"name": "fuzz-maskedwrite", "pkg": "./verifh/c05", "run": "^$", "rapid": False, "fuzz": "FuzzMaskedWrite", "fuzztime": {T: 240}, "tiers": (T,), "shards": {T: 1}},
    ],
}

CHECKS["C06"] = {
    "rule": ("rapid-generated (message, second message, read mask) over TestAllTypes and 10 trait messages; masks nil/empty/1-4 valid paths biased to populated "
             "fields incl. duplicates and parent+child, and systematically corrupted masks (unknown, through scalar/map/repeated scalar/repeated message); every read "
             "entry point (ResponseFilter.Filter/FilterClone, ReadRequest.FilterClone, Value.Get/Pull seed+event, Collection.Get/List/Pull seed/update/remove old+new) "
             "compared with an independent protoreflect projection; stored messages deep-compared before/after. non-trivial = valid mask with a nested path on a message "
             "populated inside and outside the mask, or a corrupted mask whose corrupted field is populated; distinct by (type, mask, message)"),
    "assumptions": ["presence of empty intermediate messages on a mask path is not compared", "for invalid masks only validation, no-panic and non-mutation are asserted"],
    "jobs": [
        rapid_job("valid", "./verifh/c06", "TestReadMask|TestValidateAcceptsValid|TestSharedFilter", 6000, 40000),
        rapid_job("pull", "./verifh/c06", "TestPullProjectionsSideBySide", 2500, 15000),
        rapid_job("server-lists", "./verifh/c06", "TestServerListsWithReadMasks", 2000, 15000),
        rapid_job("corrupt", "./verifh/c06", "TestCorruptMask", 6000, 40000),
        {"name": "fuzz-readmask", "pkg": "./verifh/c06", "run": "^$", "rapid": False, "fuzz": "FuzzReadMask", "fuzztime": {T: 150}, "tiers": (T,), "shards": {T: 1}},
    ],
}

CHECKS["C16"] = {
    "rule": ("rapid-generated pairs made by mutating a common ancestor in 0-2 places per side (TestAllTypes with NaN/Inf/-0, WellKnown, Pull*Response.Change, trait messages; "
             "nil, typed nil, other type, permuted/independent unknown fields); tolerances drawn just below/at/just above the actual differences; comparers alone and combined "
             "(ValueAnd/ValueOr/And/Or); oracle = proto.Equal with change_time stripped for the default comparer, an independent structural walker with arithmetic predicates for "
             "tolerance comparers; plus Value/Collection with an equivalence and a backpressured subscriber (delivered == writes not equivalent to what the subscriber holds). "
             "non-trivial = pair differing in exactly one field of a compared kind, an equal pair / nil / unknown-field / NaN corner for the default comparer, or a resource history with >=1 suppressed write; "
             "distinct by (comparer, pair)"),
    "assumptions": ["pairs where only one side has change_time are counted, not asserted", "DurationValueWithinP is checked for reflexivity and symmetry only ('p percent' is not precise enough for exact verdicts)",
                    "float predicates are evaluated in float64 with the same formula shape as documented: |x-y| <= max(margin, fraction*min(|x|,|y|))"],
    "jobs": [
        rapid_job("default", "./verifh/c16", "TestDefaultEqual", 30000, 200000),
        rapid_job("tolerance", "./verifh/c16", "TestTolerance|TestDurationWithinP|TestToleranceExtremes", 30000, 200000),
        rapid_job("resource", "./verifh/c16", "TestValueEquivalence|TestCollectionEquivalence|TestEquivalenceWithFilteredView|TestLaggingSubscriberEquivalence|TestToleranceWithFilteredView", 3000, 20000),
    ],
}

CHECKS["C17"] = {
    "rule": ("bounded-exhaustive: member counts 0..4 x every success/failure vector x every completion order x 7 strategies x {Execute, direct function}, completion order owned by the "
             "harness (members gated on channels, next member released only after the previous one's goroutine has gone); plus rapid-drawn groups of up to 8 members with "
             "cancellation-aware members and failing members whose errors are plain, wrap context.Canceled / DeadlineExceeded, are a Canceled status or io.EOF; plus the trait groups built on pkg/group "
             "(lightpb.Group, onoffpb.Group; Get and Update) with harness-gated fake member clients (every member called with its own name and the caller's request otherwise intact, caller's request not "
             "modified). Oracle = the documented contract evaluated on (outcomes, order): verdict, returned error = first observed, results at own index, "
             "One runs nothing after the first success, contexts cancelled exactly once the outcome is decided, no panic, no pkg/group goroutine left. "
             "non-trivial = >=2 members with mixed outcomes and a non-identity completion order; distinct by (strategy, outcomes, order, flags)"),
    "all_exhaustive": False,
    "assumptions": ["completion order is observed through goroutine exit of executeEach's member wrapper (runtime.Stack)", "a member's context is checked at the moment it is released"],
    "jobs": [
        enum_job("exhaustive", "./verifh/c17", "TestGroupExhaustive", shards={Q: 6, T: 12}, timeout={Q: 600, T: 1800}),
        enum_job("caller-context", "./verifh/c17", "TestGroupCallerContextDone"),
        rapid_job("random", "./verifh/c17", "TestGroupRandom", 1500, 8000, shards_t=8),
        rapid_job("trait-groups", "./verifh/c17", "TestTraitGroups", 800, 5000, shards_t=8),
        rapid_job("pull-subscriber-gone", "./verifh/c17", "TestGroupPullSubscriberGone", 150, 1000, shards={Q: 2, T: 8}),
    ],
}

CHECKS["C15"] = {
    "rule": ("rapid-generated (paged RPC in {ListModes, ListHails, ListChildren, ListPublications, ListConsumables, ListInventory, ListWasteRecords}, collection size 0-60 / 49-51 / 999-1001, "
             "ids with prefix relations/unicode/case, page size in {0,1,2,3,7,50,1000,5000,random}); the token chain is followed from the first page (bounded by n/size+4 pages) and the "
             "concatenation compared with the model's full listing; plus negative page sizes and malformed tokens (random bytes, base64 garbage, truncated/suffixed tokens, offset tokens, "
             "unknown/empty resource names; for index tokens: non-numbers, negative, beyond-the-end, overflowing). non-trivial = a listing of >=2 pages, or any hostile request; distinct by (rpc, size, ids/token)"),
    "assumptions": ["servers are called directly (not through gRPC) so a panic is attributable", "read masks are not combined with paging (not in the property's quantifier)"],
    "jobs": [
        rapid_job("paging", "./verifh/c15", "TestPaging", 6000, 20000),
        rapid_job("hostile", "./verifh/c15", "TestHostileRequests", 10000, 40000),
        {"name": "fuzz-pagetoken", "pkg": "./verifh/c15", "run": "^$", "rapid": False, "fuzz": "FuzzPageToken", "fuzztime": {T: 120}, "tiers": (T,), "shards": {T: 1}},
    ],
}

CHECKS["C01"] = {
    "rule": ("rapid stateful sequences (1-30 calls) of Get/List/Set/Add/Update/Delete with independently drawn option subsets (update/more-update/reset masks, expected value/check, "
             "expect-absent, create-if-absent, allow-missing, generated ids with seeded or colliding RNG, id interceptors, before/after interceptors, write time, writable/extra-writable/all-writable) "
             "on a Value or Collection of TestAllTypes or a trait message, plus bounded-exhaustive short sequences; every call's result/error code, the full contents (Get of every id, sorted List) "
             "and the backpressured event log are compared with a plain reference model. non-trivial = sequence with >=1 failing write and >=1 successful write combining >=2 options; "
             "distinct by the (op, option set, outcome code) sequence"),
    "assumptions": ["single caller", "id interceptors are idempotent", "update masks strictly broader than the writable fields are not generated (outcome left open by the contract)",
                    "the message returned alongside an error is not compared"],
    "jobs": [
        rapid_job("value", "./verifh/c01", "TestValueSequences", 3000, 20000),
        rapid_job("collection", "./verifh/c01", "TestCollectionSequences", 3000, 20000),
        enum_job("exhaustive", "./verifh/c01", "TestExhaustiveShort", timeout={Q: 600, T: 3000}),
    ],
}

CHECKS["C04"] = {
    "rule": ("rapid-generated single-writer histories (1-25 successful and failing Set/Add/Update/Delete with any options, same-value writes, add-remove-re-add chains, with and without WithWriteTime) "
             "on a Value or Collection with initial contents empty/one/many, observed by 1-3 backpressured subscriptions with drawn {updates-only, read mask, WithNoDuplicates}; after a sentinel write "
             "each received log must equal the model's edit script exactly: count, order, id, kind, new value, old value, seed flags, change time (exact with write time, else inside the fake clock's "
             "call interval). Plus a bounded-exhaustive layer: every history of up to 4 (Value) / 3 (Collection) calls (5 / 4 thorough) over a compact alphabet (2 ids, values differing in one field, "
             "create-if-absent, CAS failures, invalid / empty masks, write times, deletes with allow-missing) x initial contents {empty, one, many} x equivalence on/off, each observed by four "
             "subscriptions at once (plain, updates-only, masked, updates-only+masked); in both layers subscribers also join and leave mid-history. Plus subscriber churn: one writer and 2-6 backpressured "
             "subscribers that keep joining and leaving (a subscriber that is subscribed for the whole of writes b..e-1 must have exactly one event for each, in order). non-trivial = history with a remove followed by a re-add, a failing write between successful ones, or an equivalence configured; distinct by (subscriptions, op/outcome sequence)"),
    "assumptions": ["one writer at a time; consumers always receive", "with an equivalence the read masks are top-level non-message paths (so the sentinel is never suppressed)"],
    "jobs": [
        rapid_job("value", "./verifh/c04", "TestValueStream", 3000, 20000),
        rapid_job("collection", "./verifh/c04", "TestCollectionStream", 3000, 20000),
        enum_job("exhaustive", "./verifh/c04", "TestStreamExhaustive", shards={Q: 8, T: 16}, timeout={Q: 600, T: 3000}),
        rapid_job("churn", "./verifh/c04", "TestStreamChurn", 40, 150, shards={Q: 3, T: 8}, timeout={Q: 400, T: 2400}),
    ],
}

CHECKS["C08"] = {
    "rule": ("all 256 truth-table predicates over (id in {a,b}) x (value in {absent,v1,v2,v3}) x backpressure on/off x initial contents x every history of updates/deletes up to length 3 (quick) / 4 (thorough), "
             "plus rapid-drawn tables with histories of 1-12 writes and updates-only subscriptions, and the booking server's period-intersection predicate with generated bookings; "
             "oracle: fold(filtered stream) == List(same predicate) == model's filtered map, seed == filtered list, and with backpressure the per-event decision table "
             "(stays matching -> delivered as is, starts -> ADD, stops -> REMOVE with old value, neither -> nothing). non-trivial = history containing an update that stays included "
             "or one that stays excluded (the two decision-table rows the repository's own test never reaches); distinct by (table, options, history)"),
    "assumptions": ["'matches' means the item exists and satisfies the predicate", "lossy subscriptions are judged at quiescence by their folded view only"],
    "jobs": [
        enum_job("tables", "./verifh/c08", "TestIncludeTables", shards={Q: 8, T: 16}, timeout={Q: 600, T: 3000}),
        rapid_job("random", "./verifh/c08", "TestIncludeRandom", 3000, 20000),
        rapid_job("tolerance-times", "./verifh/c08", "TestIncludeWithToleranceAndTimes", 4000, 30000),
        rapid_job("booking", "./verifh/c08", "TestBookingIntersects", 2000, 10000),
        rapid_job("retried-deletes", "./verifh/c08", "TestFilteredViewAcrossRetriedDeletes", 3000, 20000),
    ],
}

CHECKS["C09"] = {
    "rule": ("(a) bounded-exhaustive scripts of {send write/remove per id, receive} driven directly through mergeCollectionExcess and minibus.DropExcess (the script is the schedule), every "
             "script up to a length bound over 1-2 ids x initial presence, plus rapid-drawn longer scripts over 3 ids; oracle: each delivered change equals an independently computed merge of the "
             "pending changes of its id (ADD.REMOVE cancels, REMOVE.ADD is REPLACE, old values chain), nothing extra, folded view == store, DropExcess hands over the latest message; "
             "(b) API level: lossy Value/Collection Pull with scripted consumer pacing, every write bounded by a 5 s guard, folded view converges after a sentinel; backpressured writer/consumer "
             "lock-step; one real-time case where a stalled backpressured consumer makes Value.Set return an error after ~5 s and one where a backpressured Collection subscriber pauses 6.5 s while a "
             "write waits; 2-3 lossy subscribers side by side; 300-3000 ids written while a (masked) lossy subscriber is stalled; caller-chosen write times that do not move forward; subscriber churn "
             "(subscribers joining and leaving while 1-2 writers write: with backpressure every successful write a subscriber was subscribed for the whole of reaches it exactly once, without it the latest "
             "value does). non-trivial = script where >=2 changes of one id were pending "
             "together and a receive fell between sends; distinct by script"),
    "assumptions": ["the 5 s send timeout is observed in real time (accepted window 4-9 s)", "'eventually' is a 5-15 s bounded wait"],
    "jobs": [
        enum_job("merge-exh", "./pkg/resource", "TestVerifC09MergeExhaustive", shards={Q: 4, T: 16}, timeout={Q: 600, T: 3000}),
        enum_job("dropexcess-exh", "./verifh/c09", "TestDropExcessExhaustive", timeout={Q: 600, T: 3000}),
        rapid_job("lossy-api", "./verifh/c09", "TestLossyCollectionPull|TestLossyValuePull|TestLossySubscribersSideBySide", 2000, 15000, timeout={Q: 240, T: 1200}),
        rapid_job("lockstep", "./verifh/c09", "TestBackpressureLockstep", 500, 3000, shards_t=4),
        enum_job("send-timeout", "./verifh/c09", "TestBackpressureSendTimeout"),
        rapid_job("consumer-reads", "./verifh/c09", "TestBackpressuredConsumerThatReads", 250, 1500, shards={Q: 4, T: 8}, timeout={Q: 600, T: 2400}),
        enum_job("slow-consumer", "./verifh/c09", "TestBackpressureSlowCollectionConsumer"),
        rapid_job("many-ids", "./verifh/c09", "TestLossyManyIDs", 12, 60, shards_t=2, timeout={Q: 240, T: 1200}),
        rapid_job("churn", "./verifh/c09", "TestLossyChurn", 40, 150, shards={Q: 3, T: 8}, timeout={Q: 400, T: 2400}),
    ],
}

CHECKS["C02"] = {
    "rule": ("(systematic) rapid draws a main write and up to 3 nested interfering writes (Set/Add/Update/Delete with CAS, checks, delta interceptors, create-if-absent, expect-absent, allow-missing) and "
             "the window (gau.afterRead, gau.beforeLock, coll.delete.afterRead, coll.delete.beforeLock, with up to 6 re-fires for Delete's retry loop) in which each interfering call runs inline via the verif hooks; "
             "(statistical) 2-4 goroutines x 1-4 ops with hook points turned into drawn yields, and counter stress with 2-8 goroutines. Oracle: exhaustive search for a linearization of the recorded "
             "history against the reference store (success results must match, failures must be model-explained or race codes with no effect, final state must match) plus direct invariants "
             "(no double Add, sum of successful increments == counter). non-trivial = the planned window was reached (hook hit) / two ops overlapped in time; distinct by (ops, window, outcomes)"),
    "assumptions": ["code inside sync.RWMutex critical sections is atomic", "only the named windows are forced; other schedules are explored statistically"],
    "jobs": [
        rapid_job("forced", "./verifh/c02", "TestForcedInterleavings", 60000, 200000),
        enum_job("delete-retries", "./verifh/c02", "TestDeleteRetryExhaustive"),
        rapid_job("stress", "./verifh/c02", "TestStressLinearizable", 20000, 80000),
        rapid_job("counters", "./verifh/c02", "TestStressCounters", 1500, 5000, shards_t=8),
        rapid_job("trait-counters", "./verifh/c02", "TestTraitCountersForced", 3000, 20000),
        rapid_job("generated-ids", "./verifh/c02", "TestGeneratedIDsUnderInterference", 3000, 20000),
    ],
}

CHECKS["C03"] = {
    "rule": ("rapid-generated scenarios: Value or Collection (0-3 initial items), 1-3 writer scripts of 1-5 writes, 1-3 subscriptions (Pull / PullID, updates-only, backpressure, read mask) opened before, "
             "after, or inline inside a named window of a writer (gau.*, *.afterCommit, coll.delete.*, bus.send.*), plus injected writes inside the subscribe windows (*.sub.afterSnapshot, "
             "bus.listen.beforeRegister), second writers inside the commit->publish window, cancels and yields; and a goroutine stress variant. After the writers stop a sentinel write marks "
             "quiescence; folding each live subscription's events (seed first) must equal Get/List (under its mask), the last Value event must be the final value. non-trivial = an injected "
             "subscribe/write/cancel actually fired in its window (forced) or >=2 concurrent writers (stress); distinct by (fired injections, subscriptions, scripts)"),
    "assumptions": ["only the named windows are forced; anything else is explored statistically", "quiescence is decided by a sentinel write with a 10 s bound",
                    "updates-only subscriptions are checked for ids written after the subscribe call returned"],
    "jobs": [
        rapid_job("forced", "./verifh/c03", "TestForcedSubscribe", 4000, 30000, timeout={Q: 150, T: 1200}),
        rapid_job("delete-window", "./verifh/c03", "TestForcedDeleteWindow", 2500, 15000, shards_t=4, timeout={Q: 150, T: 1200}),
        rapid_job("stress", "./verifh/c03", "TestStressSubscribe", 1500, 10000, timeout={Q: 150, T: 1200}),
        rapid_job("burst", "./verifh/c03", "TestBurstConvergence", 150, 1200, shards={Q: 2, T: 8}, timeout={Q: 300, T: 1200}),
        enum_job("paused-peer", "./verifh/c03", "TestPausedBackpressuredPeer"),
        rapid_job("crowd", "./verifh/c03", "TestCrowdedResource", 1500, 10000, shards_t=8),
    ],
}

CHECKS["C10"] = {
    "rule": ("rapid-generated shutdown scenarios: (bus) 0-8 listeners, 1-8 sends, cancels and new listeners injected inline at bus.send.afterSnapshot / bus.send.beforeListener (per listener) / "
             "bus.listen.beforeRegister or between sends, consumers that stop receiving and are cancelled later; (resources) Value/Collection with 0-6 Pull/PullID subscriptions of mixed options, a writer "
             "issuing 1-10 writes/deletes, cancels and new subscriptions injected at every hook point, stalled consumers; plus goroutine stress variants. Oracle: every cancelled subscription's channel "
             "closes within a bound, no panic, writes are not stalled (4 s), PullID ends when its item is removed, listeners live for a whole send get it exactly once in per-sender order, nothing after "
             "close, and the count of minibus/resource goroutines returns to zero. non-trivial = an injected cancel/listen actually fired inside a Send/Listen/write window, or a consumer stalled before "
             "cancelling; distinct by (fired actions, subscriptions, writes)"),
    "assumptions": ["goroutines are counted by frames under internal/minibus and pkg/resource (runtime.Stack)", "a stalled backpressured consumer is always cancelled within a few ms by a timer (so writers are only held that long)"],
    "jobs": [
        rapid_job("bus", "./verifh/c10", "TestBusShutdown", 2500, 15000, timeout={Q: 400, T: 2400}),
        rapid_job("bus-stress", "./verifh/c10", "TestBusStress", 400, 3000, timeout={Q: 400, T: 2400}),
        rapid_job("bus-churn", "./verifh/c10", "TestBusChurn", 40, 150, shards={Q: 4, T: 12}, timeout={Q: 400, T: 2400}),
        rapid_job("resource", "./verifh/c10", "TestResourceShutdown", 1500, 10000, timeout={Q: 400, T: 2400}),
        rapid_job("resource-stress", "./verifh/c10", "TestResourceShutdownStress", 300, 2500, timeout={Q: 400, T: 2400}),
        enum_job("quiet-subscriber", "./verifh/c10", "TestQuietBackpressuredSubscriber|TestAbandonedLossySubscriberManyIDs"),
    ],
}

def _c07_prebuild(workdir, repo, goenv, log):
    import os, sys
    sys.path.insert(0, os.path.dirname(os.path.abspath(__file__)))
    import discover
    gen = os.path.join(workdir, "gen", "zz_models_gen_test.go")
    n = discover.write_model_registry(repo, gen)
    log("discovered %d trait models" % n)
    if n < 10:
        return False
    return {os.path.join(repo, "verifh", "c07", "zz_models_gen_test.go"): gen}


CHECKS["C07"] = {
    "prebuild": _c07_prebuild,
    "rule": ("rapid stateful sequences (5-40 steps) on Value/Collection (all options, id interceptors, masks) with 0-3 subscriptions, and on trait models: hand-written drivers for parent, metadata, enter/leave, electric, "
             "vending, publication, hail, booking, plus a reflective driver that calls every public method of every model discovered in pkg/trait (source scan at check time) whose Go signature can be generated "
             "(messages, masks, strings, numbers, options); every message crossing the boundary (read results, write results, "
             "event new/old values, seeds) is registered with a deep copy and re-compared after every later operation; every message handed to a write is scribbled over right after the call and the "
             "contents re-compared with the reference model / an independent read; read-only operations (Get, List, Pull incl. seed, Describe) must leave the stored state unchanged. "
             "non-trivial = a registered snapshot survived >=3 later steps in a run with >=3 successful writes; distinct by op/outcome sequence"),
    "assumptions": ["the harness never writes to a message it obtained from a read (the property does not promise that is safe)", "interceptors only modify the message they are documented to modify"],
    "jobs": [
        rapid_job("core", "./verifh/c07", "TestCoreValueIsolation|TestCoreCollectionIsolation", 1000, 8000),
        rapid_job("models", "./verifh/c07", "TestModel(Parent|Metadata|EnterLeave|Electric|Vending|Publication|Hail|Booking)", 400, 3000),
        rapid_job("all-models", "./verifh/c07", "TestAllModelsReflective", 3000, 40000),
    ],
}

CHECKS["C19"] = {
    "rule": ("bounded-exhaustive sequences (length <= 4 quick / 5 thorough) over a compact alphabet of create/add/update(normal on/off, masked)/delete(allow-missing)/set-active/change-active/clear-active "
             "steps on up to 2 modes + an unknown id, alternating between the Model API and the ElectricApi/MemorySettingsApi servers; rapid-drawn sequences of 1-25 steps over up to 4 modes; and 2-4 "
             "goroutines issuing the same operations concurrently, plus duels: 2-3 drawn conflict-prone calls (delete / activate / clear / make-normal / create-normal on the same two modes) released "
             "at the same instant on a fresh model, 150 (600 thorough) rounds per drawn combination with a sweep of start skews. Invariants after every step / at quiescence: <=1 normal mode, active mode exists once changed, active mode never deleted, clear selects "
             "the normal mode (NotFound and unchanged without one), switching to a different id stamps the fake clock's reading of that call (re-selecting the active id is counted, not judged), deleting an absent mode gives "
             "NotFound unless allow-missing. non-trivial = sequence that tries to make a second mode normal, deletes the active mode, or changes the active mode; distinct by step/outcome sequence"),
    "assumptions": ["the model clock is a fake ticking clock; the start time must lie within the ticks consumed by the call"],
    "jobs": [
        enum_job("exhaustive", "./verifh/c19", "TestElectricExhaustive", shards={Q: 4, T: 16}, timeout={Q: 600, T: 3000}),
        rapid_job("sequences", "./verifh/c19", "TestElectricSequences|TestElectricConfigured", 4000, 30000),
        rapid_job("concurrent", "./verifh/c19", "TestElectricConcurrent", 500, 4000, shards_t=8),
        rapid_job("duels", "./verifh/c19", "TestElectricDuels", 60, 150, shards={Q: 6, T: 12}, timeout={Q: 400, T: 2400}),
        enum_job("duel-pairs", "./verifh/c19", "TestElectricDuelPairs", shards={Q: 6, T: 12}, timeout={Q: 400, T: 2400}),
    ],
}

CHECKS["C20"] = {
    "rule": ("per-model rapid operation sequences against small executable specifications: parent (set union/difference of trait names from a 6-name pool over 2 children), vending (initial stock with any "
             "subset of used/remaining present and unit pairs across and within categories; dispense arithmetic in each quantity's own unit, conversion errors reported and stock unchanged; "
             "WithInitialConsumable/WithInitialStock land where they say; Convert round-trips), fan speed (random preset tables; preset/index/percentage updates masked, nil-mask full and nil-mask "
             "partial, relative RPC updates; table consistency after every success), mode (random mode tables; initial = first given value; relative steps wrap both ways), enter/leave (the three "
             "documented total rules, reset, Pull seed == Get), meter (start<=end, end=now after record, start kept, reset => 0 and start=end=now), publication (version is a function of content, "
             "publish time on change, receipt reset, stale version => FailedPrecondition and unchanged, acknowledge protocol incl. allow_acknowledged); explicit configuration of every option-bearing model "
             "(initial value of nine single-value models; initial children / publications / bookings / electric modes handed over in any order and over several uses of the option; light presets; "
             "open/close presets and initial positions) is reported back unchanged and used (selecting a preset applies its configured level / positions); no operation may panic. "
             "non-trivial per model: parent - removal of an absent name sorting before a present one; vending - remaining without used or differing units; fan speed - a partial nil-mask/relative update; "
             "mode - a wrapping step or several modes; publication - at least one acknowledge; distinct by configuration + operation sequence"),
    "assumptions": ["vending arithmetic is compared with 1e-4 relative tolerance (float32 storage)", "the unimplemented ReverseFanSpeedDirection RPC is not one of the operations"],
    "jobs": [
        rapid_job("parent-vending", "./verifh/c20", "TestParentTraits|TestVendingDispense|TestVendingConfigAndUnits", 10000, 40000),
        rapid_job("fan-mode", "./verifh/c20", "TestFanSpeedConsistency|TestModeRelativeSteps", 10000, 40000),
        rapid_job("el-meter-pub", "./verifh/c20", "TestEnterLeaveTotals|TestMeterTimes|TestPublicationVersions", 10000, 40000),
        rapid_job("configuration", "./verifh/c20", "TestExplicitConfiguration", 6000, 30000),
    ],
}


def _c12_prebuild(workdir, repo, goenv, log):
    """Discover the routers in the current tree and build the two protoc plugins from it."""
    import subprocess, os, sys
    sys.path.insert(0, os.path.dirname(os.path.abspath(__file__)))
    import discover
    gen = os.path.join(workdir, "gen", "zz_registry_gen_test.go")
    n = discover.write_router_registry(repo, gen)
    log("discovered %d routers" % n)
    bindir = os.path.join(workdir, "plugins")
    os.makedirs(bindir, exist_ok=True)
    for name in ("protoc-gen-router", "protoc-gen-wrapper"):
        p = subprocess.run(["go", "build", "-o", os.path.join(bindir, name), "./cmd/" + name], cwd=repo, env=goenv,
                           stdout=subprocess.PIPE, stderr=subprocess.STDOUT, text=True)
        if p.returncode != 0:
            log("building %s failed:\n%s" % (name, p.stdout[-3000:]))
            return False
    return {os.path.join(repo, "verifh", "c12", "zz_registry_gen_test.go"): gen}


CHECKS["C12"] = {
    "prebuild": _c12_prebuild,
    "rule": ("(1) every router discovered in pkg/trait (go source scan at check time) x every method of its service descriptor taken from the protobuf registry, each with rapid-generated requests "
             "(name registered / unregistered / empty) and response scripts (0-5 messages, header, trailer, error status at the end, caller-side send failure) played by fake client connections, invoked "
             "through the service description's own handlers; (2) rapid state machine on router.Router with scripted factory/fallback vs a map model incl. change callbacks; concurrent first Gets forced "
             "into router.get.afterMiss/beforeInsert and by goroutines; (3) generator differential: routers and wrappers regenerated with the current protoc plugins from the in-binary descriptors "
             "and compared by content with the checked-in files; (4) default-name interceptors on random requests of every request type. non-trivial = (router, method, script) with >=1 message and a "
             "non-OK status or metadata; registry history with Add-over-existing and Remove-then-Get with a factory; distinct by case description"),
    "assumptions": ["fake connections stand in for real clients (the router only sees grpc.ClientConnInterface)", "generated file names are not compared, only contents per package"],
    "jobs": [
        rapid_job("sweep", "./verifh/c12", "TestAllRoutersSweep", 15, 80, shards={"quick": 4, "thorough": 16}, env_plugins=True),
        rapid_job("random", "./verifh/c12", "TestAllRoutersRandom|TestDefaultName", 15000, 60000),
        rapid_job("registry", "./verifh/c12", "TestRouterRegistry|TestRouterConcurrentFirstGet", 15000, 60000),
        rapid_job("registry-concurrent", "./verifh/c12", "TestRouterConcurrentMutations", 40, 100, shards={"quick": 4, "thorough": 12}, timeout={"quick": 400, "thorough": 2400}),
        enum_job("generator", "./verifh/c12", "TestGeneratedCodeIsCurrent", env_plugins=True),
    ],
}

CHECKS["C13"] = {
    "rule": ("rapid-generated call scripts for the four shapes of testproto.TestApi (0-5 messages each way, SetHeader/SendHeader/SetTrailer before the first message, trailers after each message, a status "
             "code 1-16 or plain error at the end or after the k-th message, client cancel after the j-th received message, short client deadline against a handler that blocks on its context, "
             "outgoing client metadata); each script is executed by one scripted server through wrap.ServerToClient and through a real grpc.Server on bufconn and the client transcripts compared "
             "(messages in order, terminal outcome class, user header/trailer keys, messages and request metadata seen by the server); plus copy-isolation, unknown-method and shape-mismatch cases; "
             "after every call no pkg/wrap goroutine may remain. non-trivial = script with >=1 message and a non-OK terminal, metadata, or a client cancel; distinct by script"),
    "assumptions": ["scripts are rendezvous-consistent (no reliance on transport buffering)", "metadata keys are user keys from a fixed set; header operations after headers went out are not generated (gRPC misuse)",
                    "for cancelled calls only the outcome class and a prefix relation on received messages are compared"],
    "jobs": [
        rapid_job("differential", "./verifh/c13", "TestWrapMatchesGRPC", 1500, 10000, timeout={Q: 400, T: 2400}),
        rapid_job("isolation", "./verifh/c13", "TestWrapIsolationAndShape|TestWrapCancelWhileServerSends|TestMethodNamesMatchGRPC", 300, 2000, shards_t=2),
        enum_job("held-handler", "./verifh/c13", "TestClientNotHeldByHandler"),
        enum_job("done-context", "./verifh/c13", "TestCallOnDoneContext"),
    ],
}


def _c14_prebuild(workdir, repo, goenv, log):
    import os, sys
    sys.path.insert(0, os.path.dirname(os.path.abspath(__file__)))
    import discover
    gen = os.path.join(workdir, "gen", "zz_servers_gen_test.go")
    n = discover.write_server_registry(repo, gen)
    log("discovered %d (server, service) pairs" % n)
    if n < 10:
        return False
    return {os.path.join(repo, "verifh", "c14", "zz_servers_gen_test.go"): gen}


CHECKS["C14"] = {
    "prebuild": _c14_prebuild,
    "rule": ("every model server / memory device discovered in pkg/trait (source scan at check time) x every Get/Update/Pull triple found in its service descriptor, driven purely from descriptors through "
             "wrapper -> router -> wrapper -> server: rapid-generated histories of 1-12 RPCs (Update with a random value of the resource type and nil/valid/invalid update mask, Get with a read mask, "
             "0-2 Pull streams with read mask / updates-only). Oracle: Update response == next Get; Get(mask) == projection of Get(); a new Pull starts with the current value unless updates-only; every "
             "stream message equals one of the responses since the last delivered one, in order, and carries the Pull request's name; an update whose response differs from the stream's last value in a "
             "non-float field (or >=1.0 in a float, >=2s in a time) must arrive while the reader keeps up; a rejected Update leaves Get unchanged; a Get (masked or not) does not change what the next Get returns. Plus, per triple, a Pull stream nobody reads "
             "followed by 5-8 updates (rejected => Get unchanged, accepted => Get returns it), and for the light server stream churn through the full stack (clients opening and cancelling Pull streams "
             "while another keeps updating: an open stream is brought up to the latest update). non-trivial = history with >=2 successful updates, >=1 open "
             "stream and >=1 masked read; distinct by (server, triple, history)"),
    "assumptions": ["keyed resources (extra scalar request fields such as an id) are listed in the evidence notes and not driven generically", "tolerances in the tree are <= 0.1 for floats and 1s for times",
                    "real-time behaviour (tweens) is left at its zero default"],
    "jobs": [
        rapid_job("triples", "./verifh/c14", "TestTripleSweep", 1500, 8000, shards={"quick": 8, "thorough": 16}, timeout={"quick": 600, "thorough": 3000}),
        rapid_job("stalled-reader", "./verifh/c14", "TestStalledReader", 3, 20, shards={"quick": 1, "thorough": 1}, timeout={"quick": 600, "thorough": 3000}),
        rapid_job("fanspeed-steps", "./verifh/c14", "TestFanSpeedSmallSteps", 150, 1000, shards={"quick": 2, "thorough": 8}, timeout={"quick": 600, "thorough": 3000}),
        rapid_job("light-fade", "./verifh/c14", "TestLightFadeInterrupted", 6, 25, shards={"quick": 4, "thorough": 8}, timeout={"quick": 600, "thorough": 3000}),
        rapid_job("stream-churn", "./verifh/c14", "TestPullStreamChurn", 30, 120, shards={"quick": 3, "thorough": 8}, timeout={"quick": 600, "thorough": 3000}),
        rapid_job("two-devices", "./verifh/c14", "TestSameMaskOnDifferentDevices", 1500, 10000, shards={"quick": 2, "thorough": 8}, timeout={"quick": 600, "thorough": 3000}),
    ],
}


def _c11_postprocess(res, text, known):
    """Reduce race reports to the pair of innermost sc-golang frames; listed pairs are known findings."""
    import re
    reports = text.split("WARNING: DATA RACE")[1:]
    if not reports:
        return "violation", text
    unknown = []
    for rep in reports:
        rep = rep.split("==================")[0]
        blocks = re.split(r"\n\n", rep)
        frames = []
        for b in blocks[:2]:
            m = re.findall(r"^\s+(github\.com/smart-core-os/sc-golang/(?!verifh)\S+?)\(\)$", b, re.M)
            frames.append(m[0].replace("github.com/smart-core-os/sc-golang/", "") if m else "?")
        sig = "C11:" + "|".join(sorted(frames))
        if sig not in known:
            unknown.append(sig)
    if not unknown:
        return "ok", ""
    return "violation", "unlisted data race(s): %s\n%s" % (", ".join(sorted(set(unknown))), text)


CHECKS["C11"] = {
    "rule": ("rapid-generated concurrent workloads run under the Go race detector: 4-16 goroutines x 5-30 operations drawn per goroutine over Value, Collection (generated ids, CAS, interceptors and callbacks "
             "that read their messages, include predicates), the event bus (+DropExcess), an OnOff router with factory + wrapped clients (unary and streaming, short deadlines), a wrapped TestApi "
             "client (all four call shapes incl. mid-stream cancel), group.Execute with every strategy, and the electric/parent/metadata/vending/hail/publication models and the electric server with "
             "open Pull streams; consumers read every field of everything they receive. Every race report is reduced to its pair of innermost sc-golang frames; any pair not listed in "
             "known_findings.txt is a violation. non-trivial = every workload (>=4 goroutines sharing one object with writers); distinct by (target, per-goroutine operation plan)"),
    "assumptions": ["only executed interleavings are judged: no report is not proof of absence", "harness callbacks only read the messages they are given"],
    "jobs": [
        rapid_job("core", "./verifh/c11", "TestRaceValue|TestRaceCollection|TestRaceBus", 500, 2500, race=True, shards_t=8, postprocess=_c11_postprocess, timeout={"quick": 500, "thorough": 2400}),
        rapid_job("stack", "./verifh/c11", "TestRaceRouterAndWrap|TestRaceWrappedClient|TestRaceGroup|TestRaceSharedPayload", 300, 1500, race=True, shards_t=8, postprocess=_c11_postprocess, timeout={"quick": 500, "thorough": 2400}),
        rapid_job("slow-callbacks", "./verifh/c11", "TestRaceSlowCallbacks", 4, 12, race=True, shards={"quick": 2, "thorough": 8}, postprocess=_c11_postprocess, timeout={"quick": 500, "thorough": 2400}),
        rapid_job("models", "./verifh/c11", "TestRaceModels", 400, 2000, race=True, shards_t=8, postprocess=_c11_postprocess, timeout={"quick": 500, "thorough": 2400}),
    ],
}
