"""Human-written level texts per property (used by genmanifest.py)."""
NOT_APPLICABLE = {}
META = {}
META["C18"] = {
    "text": ("Bounded-exhaustive enumeration of all period pairs / timestamp triples over the small endpoint domain plus rapid-generated "
             "64-bit-range timestamps and random segment/mode lists, each compared with an independent oracle (interval arithmetic on the raw "
             "endpoints; a step-function evaluator for segment lists). Exploration is the right level: the functions are pure, cheap, and "
             "their input space near the interesting boundaries (touching periods, zero-length/infinite segments, cuts at breakpoints) is small enough "
             "to be covered densely; nothing is proved for unsampled inputs."),
    "note": "Trusts the harness's own interval/step-function evaluators and protobuf's durationpb/timestamppb conversions; magnitudes are small integers so float32 sums are exact; only the last segment may be infinite (documented precondition); degenerate periods checked for symmetry/no-panic only.",
    "technique": "bounded-exhaustive enumeration + rapid property-based testing against an independent step-function / interval oracle",
}
META["C05"] = {
    "text": ("Property-based testing of masked writes: rapid draws (stored, written, update mask, writable mask, extra-writable, all-writable, reset mask) "
             "tuples over the all-field-kinds message and 10 trait messages (masks biased to populated paths; duplicates, parent+child, masks broader than / "
             "below / disjoint from the writable set, corrupted masks) and runs each through FieldUpdater, Value.Set and Collection.Update, plus multi-write "
             "sequences on one resource. The oracle is an independent protoreflect implementation of FieldMask update semantics together with a frame "
             "condition (every changed leaf must lie under updateMask∩writable or the reset mask) and the rejection rules. Exploration level: the input space "
             "is unbounded, the harness samples it densely near the documented corner cases and reports class counts."),
    "note": "Trusts the harness reference (lib/refmask.go) and protobuf-go reflection/Equal/Clone; update masks strictly broader than the writable fields are accepted-with-frame-intact or rejected (both allowed); presence of empty intermediate messages on mask paths is ignored; negative zero floats are not generated (protobuf-go Clone drops them).",
    "technique": "rapid property-based testing against an independent reference implementation of masked update + frame-condition invariant (+ native coverage-guided fuzzing with the same oracle in the thorough tier)",
}
META["C06"] = {
    "text": ("Property-based testing of every read entry point against an independent projection: rapid draws (message, mutated second message, read mask) over the "
             "all-field-kinds message and 10 trait messages; the masked result of ResponseFilter.Filter/FilterClone, ReadRequest.FilterClone, Value.Get, Value.Pull "
             "(seed and event), Collection.Get/List and Collection.Pull (seed, update old/new, remove old) must equal a protoreflect-only projection, and the "
             "stored/passed messages are deep-compared before and after. Systematically corrupted masks must be rejected by Validate with InvalidArgument and must "
             "not panic any entry point. Thorough tier adds a native go-fuzz target over (message bytes, path list)."),
    "note": "Trusts lib.RefProject and protobuf-go; presence of empty intermediate messages on mask paths is not compared; for invalid masks only validation/no-panic/non-mutation are asserted (what such a read returns is unspecified).",
    "technique": "rapid property-based testing (differential against an independent projection) + mask corruption + native fuzzing in the thorough tier",
}
META["C16"] = {
    "text": ("Property-based differential testing of the comparers: rapid builds pairs by mutating a common ancestor (so equal and nearly-equal pairs are frequent), "
             "including NaN/Inf, unset-vs-default, maps, lists, nil/typed-nil/other-type and permuted unknown fields. cmp.Equal() must agree with proto.Equal modulo "
             "change_time in Change messages; tolerance comparers (alone and under ValueAnd/ValueOr/And/Or) must be reflexive, symmetric and agree with an independent "
             "structural walker that applies the arithmetic tolerance predicate per field, with tolerances drawn just below/at/above the actual differences; a "
             "resource with an equivalence and a backpressured subscriber must deliver exactly the writes not equivalent to what the subscriber holds."),
    "note": "Trusts proto.Equal and the harness walker; pairs where only one side has change_time are not asserted; DurationValueWithinP only reflexive/symmetric; an updates-only subscriber's first write equivalent to the current value is unspecified; one known finding (Collection compares with the previous stored value instead of the held one) is tolerated by exact signature.",
    "technique": "rapid property-based testing: differential vs proto.Equal + independent arithmetic oracle + model-based delivery check",
}
META["C17"] = {
    "text": ("Bounded-exhaustive enumeration of every (member count 0..4, success/failure vector, completion order, strategy, Execute-or-direct) combination with the completion order owned "
             "by the harness (members gated on channels; the next is released only after the previous member's goroutine has exited), plus rapid-generated groups of up to 8 members with "
             "cancellation-aware members. The oracle evaluates the documented strategy contract on (outcomes, order) and checks verdict, first-observed error, result indexes, "
             "ExecuteOne's run-nothing-after-success, cancellation exactly once the outcome is decided, no panic and no pkg/group goroutine left behind."),
    "note": "Goroutine exit is observed through runtime.Stack; a member's context is sampled when the member is released (a wrongly early cancel that has not yet been executed at that instant can be missed, never falsely reported).",
    "technique": "bounded-exhaustive enumeration with harness-owned completion order + rapid property-based testing against the strategy contract, on pkg/group and on the trait groups built on it",
}
META["C15"] = {
    "text": ("Property-based testing of all seven paged List RPCs: rapid draws collection sizes (0-60, 49-51, 999-1001), ids with prefix/case/unicode relations and page sizes, follows "
             "next_page_token from the first page under a page-count bound and compares the concatenation with the expected full listing (order, no loss, no duplicate, page size cap, "
             "total_size); negative page sizes must be answered with an error and malformed tokens with an error or a well-formed terminating chain, never a panic. "
             "Thorough tier adds a native fuzz target over page tokens."),
    "note": "Servers are called directly so panics are attributable; contents are held fixed while paging; every walk is repeated under a drawn read mask (item identity compared on the fields the mask keeps; whether the mask is applied at all is not judged here); one pager runs a parent model configured with a case-folding id interceptor.",
    "technique": "rapid property-based testing against the sorted-listing model + hostile token/page-size generation (+ native fuzzing of tokens in the thorough tier)",
}
META["C01"] = {
    "text": ("Model-based stateful testing: rapid generates sequences of Get/List/Set/Add/Update/Delete calls with independently drawn option subsets against a Value or Collection "
             "(all-field-kinds message or a trait message; writable masks, id interceptors, seeded or colliding id RNG) and after every call compares the returned message, the gRPC "
             "error code, callback invocations and the complete contents (Get of every id, sorted List) with a plain sequential reference store; a backpressured subscriber's event log "
             "must equal the model's successful writes (so failed calls emit nothing). A bounded-exhaustive layer enumerates every sequence of curated calls up to length 3/2 (quick) and 4/3 (thorough)."),
    "note": "Trusts the reference store (rlib/model.go) and reference masked update (lib/refmask.go); single caller; idempotent id interceptors; update masks strictly broader than the writable fields are not generated; the message returned alongside an error is not compared.",
    "technique": "model-based stateful property testing (rapid) + bounded-exhaustive call sequences against a reference register/map",
}
META["C04"] = {
    "text": ("Model-based history testing of the backpressured change stream: rapid generates single-writer histories of successful and failing writes (all options, same-value writes, "
             "remove/re-add chains, with and without WithWriteTime) on Values and Collections with empty/one/many initial items, watched by 1-3 backpressured subscriptions with drawn "
             "updates-only / read mask / WithNoDuplicates settings. After a sentinel write every subscription's log must equal the reference edit script exactly: count, order, id, kind, "
             "old and new value (under the read mask), seed and last-seed flags, and change time (exact when a write time is given, otherwise inside the fake clock's tick interval of the call)."),
    "note": "Trusts the reference store and event model (rlib); one writer at a time; consumers always receive; with an updates-only subscription and an equivalence, a first write that leaves the masked value unchanged is unspecified and ends the comparison for that subscription.",
    "technique": "model-based history testing with rapid + bounded-exhaustive history enumeration: exact event-log equality against a reference edit script, sentinel-synchronised",
}
META["C08"] = {
    "text": ("Truth-table enumeration x generated histories: all 256 predicates over (id in {a,b}) x (value in {absent,v1,v2,v3}), including predicates true for absent values, are run with "
             "backpressure on and off against every history of updates/deletes up to length 3 (quick) / 4 (thorough), plus rapid-drawn tables with longer histories, read masks that hide "
             "the field the predicate reads, updates-only subscriptions, and the booking server's period-intersection predicate with generated bookings. Oracle: seed == filtered list, "
             "fold(filtered stream) == List(same predicate) == the reference filtered map, and with backpressure the exact per-event decision table."),
    "note": "Trusts the reference store/event model; 'matches' means exists and satisfies the predicate; lossy subscriptions are judged by their folded view at quiescence (sentinel-synchronised).",
    "technique": "bounded-exhaustive predicate (truth table) x history enumeration + rapid histories; fold and decision-table oracles",
}
META["C09"] = {
    "text": ("Bounded-exhaustive schedule enumeration of the two lossy stages: scripts of {send write/remove per id, receive} are driven straight through mergeCollectionExcess (in-package) and "
             "minibus.DropExcess, where the script is the schedule (a blocked receiver forces a delivery, an absent receiver forces a merge); every delivered change must equal an independent "
             "merge of that id's pending changes (ADD.REMOVE cancels, REMOVE.ADD -> REPLACE, old values chain), nothing extra is delivered and the folded view equals the store; DropExcess must "
             "hand over exactly the latest message. API level (rapid): lossy Value/Collection Pull with scripted consumer pacing - every write returns within a 5 s guard, the folded view "
             "converges after a sentinel, old values chain; backpressured writer and consumer stay in lock-step with nothing dropped; one real-time case checks the five-second send timeout."),
    "note": "The in-package test is overlaid into pkg/resource at check time; waits are bounded at 5 s (three orders of magnitude above observed latency); the send-timeout case takes ~5 s of real time and accepts 4-9 s; the slow-consumer case pauses a backpressured Collection subscriber for 6.5 s of real time.",
    "technique": "bounded-exhaustive schedule/script enumeration against an independent merge model + rapid API-level pacing tests with fold/chain oracles",
}
META["C02"] = {
    "text": ("Schedule exploration with an explicit linearizability oracle. Systematic part: rapid draws a write and up to three nested interfering writes and, through the verif-tagged hook points, "
             "runs each interfering call inline inside a chosen window of the outer call (between optimistic read, change function, lock and save; Delete's retry loop re-fired up to 6 times), "
             "giving deterministic, shrinkable interleavings. Statistical part: 2-4 goroutines with hook points turned into drawn yields, and increment stress on 2-8 goroutines. Every recorded "
             "history (results, invocation/response order, final contents) is checked by exhaustive search for a one-at-a-time order of the reference store that explains it; failures must be "
             "model-explained or race codes without effect; sums of successful increments must equal the counter."),
    "note": "Decides linearizability exactly only for the forced windows and for whatever the scheduler produces under stress; assumes mutex-protected sections are atomic; hooks are compiled in with -tags verif only.",
    "technique": "hook-forced interleaving generation (rapid) + goroutine stress with yield fuzzing; oracle = exhaustive linearization search against the reference store",
}
META["C03"] = {
    "text": ("Generated subscribe/commit/publish interleavings with a fold oracle. Forced mode: rapid draws 1-3 writer scripts, 1-3 subscriptions (Pull/PullID x updates-only x backpressure x read mask) "
             "and a plan of injections that run inline at named hook points: the subscribe call inside a writer's windows (optimistic read, before lock, after commit, inside Send), writes inside the "
             "subscribe windows (after the seed snapshot, before listener registration; on a helper goroutine where a lock is held), a second writer inside the commit->publish window, cancels and yields. "
             "Stress mode runs the same scenarios on real goroutines with hook-point yields. After the writers stop a sentinel write marks quiescence; folding each live subscription's events must "
             "equal Get/List under its read mask and the last Value event must carry the final value. The known publish-after-unlock reordering is tolerated by exact signature (only for ids written "
             "inside a commit->publish window / by >=2 concurrent writers)."),
    "note": "Only the named windows are forced; quiescence is a sentinel write with a 10 s bound (non-delivery of the sentinel is reported as a lost commit); lossy single-item streams are judged by sentinel arrival; PullID views are polled to convergence.",
    "technique": "hook-forced interleaving generation (rapid) + goroutine stress; oracle = event fold vs store state at sentinel-decided quiescence",
}
META["C10"] = {
    "text": ("Generated shutdown scenarios with cancel injection: on a raw Bus (0-8 listeners, 1-8 tagged sends) and on Value/Collection resources (0-6 Pull/PullID subscriptions with mixed options, "
             "1-10 writes/deletes) rapid places cancels and new subscriptions inline at every hook point of Send, Listen and the write/subscribe paths, plus consumers that stop receiving and cancel "
             "later, and goroutine stress variants with timed cancels. Oracle: each cancelled subscription's channel is observed closed within a bound, no panic, writers never stalled beyond the cancel, "
             "PullID ends when its item is removed, listeners live for a whole send receive it exactly once in per-sender order and nothing after close, and the number of goroutines in "
             "internal/minibus and pkg/resource frames returns to zero after every case."),
    "note": "Goroutine accounting uses runtime.Stack frame matching; waits are bounded (10 s close, 4 s write); for lossy PullID the end-on-remove clause is required only when the subscriber had seen the item and it stays removed (merging may turn remove+re-add into a replace).",
    "technique": "hook-forced cancel/subscribe injection (rapid) + goroutine stress; oracles: close observed, exactly-once per-sender order, goroutine baseline",
}
META["C07"] = {
    "text": ("Stateful property testing with a snapshot registry: rapid drives 5-40 step sequences on Value/Collection (all write options, masks, id interceptors, 0-3 subscriptions) and on eight trait "
             "models through their public methods (parent, metadata, enter/leave, electric, vending, publication, hail, booking). Every message crossing the boundary - read results, write results, "
             "event new/old values, seeds - is registered together with a deep copy and re-compared after every later operation; every message handed to a write is overwritten in all fields right "
             "after the call and the contents re-compared (against the reference model for the core resources); read-only operations (Get, List, opening a Pull and receiving its seed) must leave the "
             "stored state, read through an independent path, unchanged."),
    "note": "The harness never writes to a message it obtained from a read; model operations that panic are not judged here (C20); every model discovered in pkg/trait is additionally driven reflectively through each public method whose Go signature can be generated; methods with interface/func parameters are skipped (listed in the evidence notes).",
    "technique": "stateful property testing (rapid) with a deep-copy snapshot registry and input scribbling; differential against the reference store for the core resources",
}
META["C19"] = {
    "text": ("Stateful property testing of the electric model through the Model API and the ElectricApi / MemorySettingsApi servers: a bounded-exhaustive layer enumerates every operation sequence up to "
             "length 4 (quick) / 5 (thorough) over a compact alphabet on two modes plus an unknown id, rapid draws longer sequences over up to 4 modes, and a concurrent variant runs 2-4 goroutines. "
             "After every step (at quiescence when concurrent) the documented invariants are checked: at most one normal mode, active mode exists once changed and is never deleted, clear-active selects "
             "the normal mode (NotFound and no change without one), a switch to a different id stamps the fake clock's reading of that call, deleting an absent mode gives NotFound unless allow-missing."),
    "note": "Only invariants are asserted where the statement leaves the exact result open (how a second normal mode is refused); re-selecting the already active mode is not asserted to keep the start time; the concurrent variant judges only executed schedules.",
    "technique": "bounded-exhaustive operation sequences + rapid stateful sequences + concurrent stress and aligned duels, invariant oracle with a fake clock",
}
META["C20"] = {
    "text": ("Per-model stateful property testing against small executable specifications with random configurations: set algebra over trait names for the parent model; exact unit arithmetic "
             "(each quantity in its own unit, floor at zero, conversion errors reported with the stock unchanged, Convert round trips, initial consumables/stock land where configured) for vending; "
             "preset-table consistency of preset/index/percentage after masked, nil-mask full, nil-mask partial and relative RPC updates for fan speed; first-given-value initialisation and wrapping "
             "relative steps over the given modes for the mode model; the three documented total rules, reset and Pull-seed agreement for enter/leave; start<=end, end=now, start kept, reset "
             "semantics with a fake clock for the meter; version-as-a-function-of-content, publish time, receipt reset, stale-version rejection and the acknowledge protocol for publications. "
             "Every operation is wrapped so that a panic on a well-formed request is a violation."),
    "note": "Specifications are the harness's own (c20/models_test.go); float32 stock arithmetic is compared with 1e-4 relative tolerance; the explicitly unimplemented ReverseFanSpeedDirection RPC is excluded.",
    "technique": "per-model stateful property testing (rapid) against executable specifications with random configurations",
}
META["C12"] = {
    "text": ("Enumeration over all generated routers with generated traffic: the routers are discovered from the source tree at check time, every method of each service descriptor (taken from the protobuf "
             "registry, so an unrouted RPC is seen as Unimplemented) is invoked through the service description's own handler with rapid-generated requests and response scripts played by fake client "
             "connections; the named client must be called exactly once with the identical request, messages/status/header/trailer must pass through unaltered, unknown names give NotFound and touch "
             "no client, a caller-side send failure cancels the forwarded request. The registry is tested as a rapid state machine against a map model (Add/Remove/Has/Get with scripted factory and "
             "fallback, change callbacks), concurrent first Gets are forced through the router hook points and by goroutines, the default-name interceptors are run on random requests of every request "
             "type, and a generator differential regenerates all routers and wrappers with the current protoc plugins from the in-binary descriptors and compares them with the checked-in files."),
    "note": "Fake grpc.ClientConnInterface implementations stand in for real clients; generated files are compared per package by content modulo import-block layout; plugins are built from the current tree (no protoc needed).",
    "technique": "exhaustive router x method enumeration with rapid-generated traffic + model-based registry testing + generator differential (translation check by regeneration)",
}
META["C13"] = {
    "text": ("Differential testing of the in-process wrapper against a real gRPC connection: rapid generates rendezvous-consistent call scripts for the four call shapes (message counts, "
             "SetHeader/SendHeader/SetTrailer placements, status codes or plain errors at any position, client cancel after the j-th message, deadlines against a blocking handler, outgoing metadata); "
             "one scripted TestApi server implementation serves both wrap.ServerToClient and a grpc.Server on bufconn, and the client transcripts must agree on messages, terminal outcome class, user "
             "header/trailer metadata and what the server saw. Additional generated cases check copy isolation across the boundary, Unimplemented for unknown methods, Internal for a mismatched "
             "stream shape, release of a handler parked in Send when the client goes away, and that no pkg/wrap goroutine survives a finished or cancelled call."),
    "note": "The real transport is the oracle, so scripts avoid what gRPC itself leaves nondeterministic (buffer-dependent intermediate results, header operations after headers went out, reserved metadata keys); cancelled/deadline calls are compared by outcome class only.",
    "technique": "differential testing with rapid-generated call scripts: wrap.ServerToClient vs a real gRPC server on bufconn",
}
META["C14"] = {
    "text": ("Descriptor-driven generic stateful property testing over every discovered server: model servers and memory devices are found by scanning pkg/trait at check time, every Get/Update/Pull triple "
             "on one resource type is found in the service descriptors, and each is driven through the full wrapper -> router -> wrapper -> server stack purely from descriptors (dynamic requests, "
             "generated values of the resource type, nil/valid/invalid update masks, read masks, 0-2 Pull streams opened and closed, updates-only). Oracle: Update response == next Get, masked Get == "
             "projection of the full Get, a new Pull starts with the current value unless updates-only, stream messages are exactly (a subsequence of) the responses in order and carry the request's name, "
             "an update that changes the value beyond any configured tolerance must arrive while the reader keeps up, a rejected Update leaves Get unchanged."),
    "note": "Keyed resources use small hand-written adapters (hail, vending stock) or are listed as not driven (publication: see C20); composite servers that update in several steps (open/close) may show intermediate aggregates; tolerances are handled conservatively (must-appear only beyond 1.0 / 2 s or a non-float difference); one known finding (no initial message from PullPositions on an empty open/close device).",
    "technique": "descriptor-driven generic stateful property testing (rapid) over servers discovered from the source tree, through the full in-process gRPC stack",
}
META["C11"] = {
    "text": ("Workload fuzzing under the Go race detector: rapid draws, per goroutine, a plan of operations over every concurrently usable type (Value, Collection with generated ids/CAS/interceptors/"
             "include predicates, the event bus and DropExcess, a router with factory and wrapped clients, a wrapped client with all four call shapes and mid-stream cancels, group execution with "
             "every strategy, and six trait models plus the electric server with open Pull streams); 4-16 goroutines run the plans simultaneously while consumers read every field of every message "
             "they receive, so a late write to a published message is a detectable race. The binaries are built with -race; every report is reduced to its pair of innermost sc-golang frames and "
             "compared with the listed known findings; anything unlisted is a violation with the race report as replay material."),
    "note": "Only executed interleavings are judged (no report is not proof of absence); harness callbacks only read; operations that panic under contention are not judged here.",
    "technique": "generated concurrent workloads (rapid) executed under the Go race detector (-race), reports classified by frame pair",
}

# dimensions added after the fifth round of seeded changes (sizes, time, reuse, narrow interleavings), appended to the texts above
_ROUND5 = {
    "C01": "Option values with equal content are reused across calls on half of the resources, writes sometimes hand back the object a Get returned, write times include Go's zero time / pre-epoch times, and one history in fifteen runs 31-150 calls.",
    "C02": "Resources are configured with no / exact / coarse equivalence; the counter stress has a rendezvous mode (writers meet between read and write); Delete's retry loop is enumerated exhaustively (precondition x parameter x interfering call x 0-8 consecutive interferences).",
    "C03": "Writes carry back-dated, non-increasing write times; a burst layer (one fast writer, 200-4000 writes over up to 3000 ids, readers that lag but keep receiving) checks convergence independently of how far a reader is behind.",
    "C04": "Crowds of 14-40 additional subscribers, histories of up to 120 writes and write times at Go's zero time / the unix epoch / before the epoch are drawn now and then.",
    "C05": "A concurrent layer (TestDisjointMaskWriters) has 2-6 writers each owning one field and writing it with a single-field mask, released together inside their before-interceptor; every field must end with its successful writer's value.",
    "C06": "One ResponseFilter object is also applied to several messages (and types) in a row: projection for masks valid everywhere, independence from earlier use otherwise.",
    "C07": "Name pools of 16-21 entries, up to 8 names per variadic call and runs of up to 120 steps let stored lists grow past a dozen entries.",
    "C08": "A further layer combines an approximate equivalence with predicates sensitive inside the tolerance, back-dated write times and lossy subscribers that were not receiving; its oracle is membership of the folded filtered stream == List(include).",
    "C09": "A backpressured consumer that reads the resource (Get / List) between receives is part of the workload: every write must complete and every event arrive (one listed known finding: Collection.Delete publishes while holding the lock).",
    "C10": "Subscribes injected at hook points run under a watchdog so that a write holding a lock at that point cannot wedge the harness.",
    "C11": "Calls that last longer than the library's own time thresholds (1.1-1.6 s callbacks, over 5 s in the thorough tier) and one option slice with spare capacity shared by all goroutines are part of the workloads.",
    "C12": "Child streams whose header becomes available only after 60 ms-1.1 s (real time) are drawn about once in sixty streaming cases.",
    "C13": "Unary and server-streaming scripts are also run with dynamicpb client messages built from the client's own copy of the file descriptor; a family of near-miss full method names (prefix services, case, extra segments) is compared with a real gRPC server.",
    "C14": "A third of the cases build the model with a clock that steps forwards and backwards; generated messages carry enum numbers without a name now and then (proto3 open enums).",
    "C15": "Collections of 2048-9000 records are drawn now and then.",
    "C16": "Unknown-field sets of up to 40 fields with repeating numbers and re-interleavings that protobuf equality cannot see; a lagging subscriber without backpressure on a resource with exact-duplicate suppression must never be sent a value it already holds.",
    "C18": "Seconds at the int64 ms/us/ns conversion limits (exhaustive boundary pairs), lists of up to 120 segments, and Sum called from 2-12 goroutines at once.",
    "C19": "Duels judge the response of a successful clear (the reported mode is marked normal) and include calls that take the normal flag away.",
    "C20": "Batches of 5-48 trait names per call and publication bodies of 64 KiB-1 MiB that differ in one byte.",
}
for _k, _v in _ROUND5.items():
    META[_k]["text"] += " " + _v

# dimensions added after the sixth round (changes aimed at source files no earlier change had touched)
_ROUND6 = {
    "C01": "A call may carry two extra-writable options.",
    "C02": "A third of the collections are case-insensitive (id interceptor) with mixed-case ids.",
    "C03": "Empty messages are written as values; the burst layer has 1-3 writers on disjoint ids, subscribers that come and go and subscribers that leave in the middle.",
    "C05": "A single update mask is judged path by path (a path wholly outside the writable fields must be rejected even next to its parent); unions of several mask options keep the set reading.",
    "C06": "Corrupt paths are also drawn next to their own valid parent.",
    "C07": "The hail model runs with keep-alives of a few milliseconds so that its clean-up pass runs inside the histories.",
    "C08": "Bookings without a period are part of the booking histories.",
    "C09": "The lossy Value test back-dates writes; after a send timeout the consumer returns at a slow, steady pace and later writes must succeed.",
    "C10": "A third of the resources are configured with duplicate suppression.",
    "C11": "Models are constructed while others are in use; the hail keep-alive is drawn; a mode model is part of the workload.",
    "C14": "The further fields of update requests (relative / delta flags and adjustments) are drawn; a light-specific test interrupts a running fade with a plain update and requires the response to stay the value.",
    "C18": "Segment lists have spare capacity.",
    "C19": "Every unordered pair of the conflict-prone calls is enumerated on every starting configuration; allow-missing deletes must not answer NotFound.",
    "C20": "Near-preset percentages and fractional relative steps; model-specific options surrounded by 0-8 plain resource options; a vending configuration case.",
}
for _k, _v in _ROUND6.items():
    META[_k]["text"] += " " + _v

# dimensions added after the seventh round (degenerate, repeated and interacting uses)
_ROUND7 = {
    "C02": "Calls may carry an expected value and an expected check together.",
    "C03": "A fifth of the collection subscriptions are filtered views whose predicate reads a field that masked subscriptions do not see.",
    "C07": "Metadata collections and memory devices are discovered and driven next to the models.",
    "C08": "The booking stream is also taken from the server's own PullBookings RPC.",
    "C09": "The lossy collection tests also write the empty id.",
    "C12": "Child clients also fail with plain (non-status) errors such as a wrapped io.EOF.",
    "C13": "The dynamicpb client may hold an older copy of the schema; what it receives as unknown fields is compared byte for byte.",
    "C14": "A fan-speed specific test moves the percentage in steps of 0.004 around the model's 0.01 tolerance with streams opened in the middle and tracks exactly what each stream holds.",
    "C15": "The plain walk is repeated after the masked one; a hail model restored from initial records (half of them long arrived) joined the pagers.",
    "C16": "A float tolerance is combined with an include threshold inside it (entries and exits are never equivalent); the inert-kind check compares canonical durations and timestamps.",
    "C17": "An exhaustive layer runs every strategy with the caller's context live, cancelled or past its deadline.",
    "C18": "Magnitudes include binary fractions; modes may start at the unix epoch.",
    "C19": "Set-active and change-active also name the empty id.",
    "C20": "Quantities may leave the unit unset; a publication restored without a version must get its content's version when rewritten.",
}
for _k, _v in _ROUND7.items():
    META[_k]["text"] += " " + _v

# dimensions added after the eighth round
_ROUND8 = {
    "C02": "The relative / delta updates the tree's own servers build from interceptors (fan speed, count, speaker volume) are driven with an interfering update forced into their optimistic window.",
    "C03": "An enumeration keeps a backpressured peer of the observed reader quiet for 5.6 s of real time (longer than any send budget) before it resumes.",
    "C04": "A fifth of the collection subscribers are filtered views.",
    "C05": "Pooled caller-owned mask objects are also passed as WithMoreUpdateMask.",
    "C06": "A quarter of the collection subscribers are filtered views next to differently masked neighbours.",
    "C07": "Bookings carry timestamps in non-canonical form and are read through the server's period filter; read masks that are not valid for the type (including '*') are used on models that edit their seed.",
    "C09": "Lossy subscribers may have a backpressured filtered view as a neighbour, registered first.",
    "C10": "Enumerations cover a backpressured subscriber quiet for 5.6 s next to a single-item subscription of a removed item, and an abandoned lossy subscriber with up to 6000 distinct ids pending when it cancels.",
    "C11": "Wrapped devices are called with requests that share one payload and one mask object while callers edit the responses they own; two collections generate ids at the same time.",
    "C12": "Half of the registry cases have a change listener that consults the router from inside the callback.",
    "C13": "Every call shape is also opened on a context that is already cancelled or past its deadline and the client-visible outcome class is compared with real gRPC; streaming handlers may set their metadata through the context functions.",
    "C14": "The client edits the responses it received; the next Get must be unchanged.",
    "C15": "Pagers include models with writable fields configured whose items get generated ids.",
    "C16": "One side of a pair may be held as a dynamicpb message over the same descriptor.",
    "C17": "A rapid layer lets the subscriber of a group Pull go away during a delivery (member streams that deliver, Send failing or the context ending).",
    "C18": "A race-built layer runs the mode operations on one shared mode from many goroutines and compares with the results on private copies.",
    "C19": "Masked UpdateMode calls may carry a path with surrounding white space.",
    "C20": "REJECTED acknowledgements carry a reason that is compared in the response and in the store.",
}
for _k, _v in _ROUND8.items():
    META[_k]["text"] += " " + _v

# dimensions added after the ninth round (ten properties)
_ROUND9 = {
    "C01": "One generated collection in ten holds 14-40 further records.",
    "C03": "A rapid layer has one writer and 2-64 subscribers that leave and join between its writes.",
    "C08": "A rapid layer runs deletes that go round their retry loop (their precondition callback rewrites the item) next to a filtered subscription.",
    "C12": "Factories may return a half-built client with an error; default-name requests may be dynamicpb messages.",
    "C13": "Unary calls may carry two header and two trailer capture options.",
    "C14": "Keyed resources are also served with a case-folding id interceptor; a rapid layer sends one read mask to two devices of different kinds in one process.",
}
for _k, _v in _ROUND9.items():
    META[_k]["text"] += " " + _v

# dimensions added after the tenth round (the other ten properties)
_ROUND10 = {
    "C02": "A rapid layer forces creates with generated ids into each other's window on a collection whose configured random source repeats.",
    "C05": "Creates with a generated id and an id callback are a fourth entry point of the tuple property.",
    "C07": "A third of the core collection subscriptions are filtered views.",
    "C11": "The collection workload includes writes rejected after their id was generated.",
    "C15": "The waste pager interleaves conditional adds that are turned down.",
    "C19": "Conditional deletes whose check refuses are part of the sequences.",
    "C20": "Masked publication updates may name the whole audience message.",
}
for _k, _v in _ROUND10.items():
    META[_k]["text"] += " " + _v

# dimensions added after the eleventh round (ten properties)
_ROUND11 = {
    "C06": "A rapid layer lists through the trait servers' List RPCs (modes, hails, publications) with read masks and re-reads the stored items.",
    "C12": "The default-name stream interceptor is also driven with several request messages per stream.",
    "C13": "Scripted handlers go on using the metadata values they have set or sent.",
    "C14": "Infinite fan-speed percentages of both signs; models on a clock standing at the zero time.",
    "C16": "NaNs of several bit patterns; value equivalence under caller-chosen write times.",
    "C18": "Magnitudes down to 1/32768 A.",
    "C20": "Relative mode steps at the int32 limits; a large stock nearly emptied in one dispense.",
}
for _k, _v in _ROUND11.items():
    META[_k]["text"] += " " + _v

# dimensions added after the twelfth round (ten properties)
_ROUND12 = {
    "C02": "A third of the forced-interleaving targets run on a stopped clock; a fifth of the writes are stamped in the past.",
    "C09": "The time of the last change a lossy subscriber received per id is compared with the caller-chosen time of the last write.",
    "C10": "Every other delete is stamped long ago.",
    "C11": "Items written at the zero time are listed concurrently.",
    "C19": "Half of the worlds run on a clock whose readings go backwards; allow-missing deletes of absent modes may carry an expected value.",
}
for _k, _v in _ROUND12.items():
    META[_k]["text"] += " " + _v
