"""Human-written level texts per property (used by genmanifest.py)."""
NOT_APPLICABLE = {}
META = {}
META["C18"] = {
    "text": ("Bounded-exhaustive enumeration of all period pairs / timestamp triples over the small endpoint domain plus rapid-generated "
             "64-bit-range timestamps and random segment/mode lists, each compared with an independent oracle (interval arithmetic on the raw "
             "endpoints; a step-function evaluator for segment lists). Exploration is the right level: the functions are pure, cheap, and "
             "their input space near the interesting boundaries (touching periods, zero-length/infinite segments, cuts at breakpoints) is small enough "
             "to be covered densely; nothing is proved for unsampled inputs."),
    "note": "Trusts the harness's own interval/step-function evaluators and protobuf's durationpb/timestamppb conversions; magnitudes are small integers so float32 sums are exact; only the last segment may be infinite (documented precondition); degenerate periods checked for symmetry/no-panic only.",
    "technique": "bounded-exhaustive enumeration + rapid property-based testing against an independent step-function / interval oracle",
}
