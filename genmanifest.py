#!/usr/bin/env python3
"""Regenerates MANIFEST.json from checkcfg.py + manifest_meta.py (kept valid at all times)."""
import json, os, subprocess, sys
sys.path.insert(0, os.path.dirname(os.path.abspath(__file__)))
from checkcfg import CHECKS
from manifest_meta import META, NOT_APPLICABLE

props = [json.loads(l) for l in open(os.path.join(os.path.dirname(os.path.abspath(__file__)), "properties.jsonl"))]
ids = [p["id"] for p in props]
hook_commits = subprocess.run(["git", "-C", "/repo", "log", "--format=%H", "--grep", "verif-tagged hook"],
                              capture_output=True, text=True).stdout.split()
checks = []
for pid in ids:
    if pid not in CHECKS or pid not in META:
        continue
    m = META[pid]
    checks.append({
        "property_id": pid,
        "quick_cmd": "./check %s --tier quick" % pid,
        "thorough_cmd": "./check %s --tier thorough" % pid,
        "evidence_file": "/verif/evidence/%s.json" % pid,
        "replay_cmd_template": "./check %s --replay {path}" % pid,
        "engine": "check",
        "level_claimed": {"category": "exploration", "text": m["text"], "design_ref": "DESIGN.md §2 " + pid},
        "level_note": m["note"],
        "technique": m["technique"],
    })
na = [{"property_id": pid, "reason": NOT_APPLICABLE.get(pid, "check not built yet in this session (work in progress); see DESIGN.md §2 for the planned generated-input check")}
      for pid in ids if pid not in [c["property_id"] for c in checks]]
man = {
    "version": 1,
    "setup_cmd": "./check --setup",
    "hooks": {
        "guard": "verif",
        "enable": "go test -c -tags verif (driver ./check builds harness packages overlaid into /repo's module with -tags verif)",
        "baseline_off_cmd": "cd /repo && GOFLAGS=-mod=mod GOPROXY=off GOSUMDB=off GOTOOLCHAIN=local go test -json -vet=off -count=1 -timeout 25m ./...",
        "source_commits": hook_commits,
        "add_only": True,
    },
    "engines": [{"name": "check", "path": "/verif/check", "serves_properties": [c["property_id"] for c in checks],
                 "kind_free_text": "python driver: builds Go harness packages (pgregory.net/rapid v1.3.0 property tests, bounded-exhaustive enumerations, native go fuzz targets, -race workload fuzzing) against /repo's working tree via -overlay/-modfile, runs them sharded by seed, merges evidence"}],
    "checks": checks,
    "notes": "All checks decide by generated-input search against an explicit oracle (property-based testing / fuzzing). Known findings: /verif/known_findings.txt. Seeded-change corpus: /verif/seeded/.",
    "not_applicable": na,
}
json.dump(man, open(os.path.join(os.path.dirname(os.path.abspath(__file__)), "MANIFEST.json"), "w"), indent=1)
print("checks:", len(checks), "not_applicable:", len(na))
